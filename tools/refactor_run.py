#!/usr/bin/env python3
"""Apply a (supposedly behaviour-preserving) patch to /repo (or $VERIF_REPO), run every quick check, undo.
usage: tools/refactor_run.py <patch.diff> [name]   -> prints one JSON line {name, tests, alarms}"""
import json, os, signal, subprocess, sys, concurrent.futures as cf
signal.signal(signal.SIGTERM, lambda *a: sys.exit(143))
REPO = os.environ.get("VERIF_REPO", "/repo")                      # a scratch copy when run in the background
BASE = os.path.dirname(os.path.dirname(os.path.abspath(__file__)))
patch = os.path.abspath(sys.argv[1]); name = sys.argv[2] if len(sys.argv) > 2 else os.path.basename(os.path.dirname(patch))
def sh(cmd, **kw):
    p = subprocess.run(cmd, shell=True, text=True, capture_output=True, **kw); return p.returncode, p.stdout + p.stderr
rc, out = sh(f"git -C {REPO} apply {patch}")
assert rc == 0, out
alarms = {}
try:
    rc, out = sh(f"cd {REPO} && PYTHONPATH={REPO} /venv/bin/python -m pytest -q -p no:cacheprovider 2>&1 | tail -1")
    tests = out.strip()
    def one(c):
        rc, out = sh(f"./check {c} --tier quick", cwd=BASE)
        v = [l for l in out.splitlines() if l.startswith("VIOLATION")]
        det = []
        for l in v:
            rp = l.split("replay=")[1].split()[0]
            if os.path.exists(rp):
                d = json.load(open(rp)); det.append({"line": l, "kind": d.get("kind"), "code": d.get("verdict_code"), "case": d.get("case"), "obs": str(d.get("implementation_observed"))[:300]})
        return c, rc, det
    with cf.ThreadPoolExecutor(max_workers=4) as ex:
        for c, rc, det in ex.map(one, [f"C{i:02d}" for i in range(1, 21)]):
            if rc != 0 or det: alarms[c] = det or [{"exit": rc}]
finally:
    sh(f"git -C {REPO} checkout -- .")
    sh(f"git -C {BASE} checkout -- evidence replays 2>/dev/null")
print(json.dumps({"name": name, "tests": tests, "alarms": alarms})[:4000])
