#!/bin/sh
# Which lines / branches of pyannote/core do the quick checks reach? (diagnostic, not a registered check)
# usage: tools/coverage_run.sh [tier]   -> report in /tmp/verif_cov/report.txt
D=/tmp/verif_cov; rm -rf $D; mkdir -p $D
cd /verif
for i in $(seq -w 1 20); do VERIF_COVERAGE=$D ./check C$i --tier ${1:-quick} >/dev/null 2>&1; done
git checkout -- evidence replays 2>/dev/null
cd $D && /venv/bin/python -m coverage combine --data-file=$D/.coverage $D/cov.* >/dev/null 2>&1
/venv/bin/python -m coverage report --data-file=$D/.coverage -m --skip-empty > $D/report.txt 2>&1
tail -25 $D/report.txt
