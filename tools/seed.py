#!/usr/bin/env python3
"""tools/seed.py <Cxx> [name] : validate a sub-agent's seeded change in its scratch worktree /tmp/wt-<Cxx>,
store it under /verif/seeded/<name>/, run the property's quick check with the change applied to /repo,
and undo the change. Prints a one-line verdict."""
import json
import os
import shutil
import subprocess
import sys

pid = sys.argv[1]
name = sys.argv[2] if len(sys.argv) > 2 else pid
wt = sys.argv[3] if len(sys.argv) > 3 else f"/tmp/wt-{pid}"
checks = sys.argv[4].split(",") if len(sys.argv) > 4 else [pid]
PY = "/venv/bin/python"


def sh(cmd, cwd=None, env=None, timeout=3000):
    e = dict(os.environ)
    e.update(env or {})
    r = subprocess.run(cmd, shell=True, cwd=cwd, env=e, capture_output=True, text=True, timeout=timeout)
    return r.returncode, (r.stdout + r.stderr)

patch = os.path.join(wt, "patch.diff")
import signal
signal.signal(signal.SIGTERM, lambda *a: sys.exit(143))   # so that the finally below restores /repo
demo = os.path.join(wt, "demo.py")
assert os.path.exists(patch) and os.path.exists(demo), "missing deliverables"
log = {}
sh("git checkout -- .", cwd=wt)
DEMO = f"python3-vt demo.py" if pid == "C20" else f"{PY} -W ignore demo.py"
rc0, out0 = sh(DEMO, cwd=wt, env={"PYTHONPATH": wt, "REPO_ROOT": wt})
log["demo_without_change_rc"] = rc0
rc, out = sh(f"git apply {patch}", cwd=wt)
assert rc == 0, out
rct, outt = sh(f"{PY} -m pytest -q -p no:cacheprovider 2>&1 | tail -1", cwd=wt, env={"PYTHONPATH": wt})
log["tests_with_change"] = outt.strip()
rc1, out1 = sh(DEMO, cwd=wt, env={"PYTHONPATH": wt, "REPO_ROOT": wt})
log["demo_with_change_rc"] = rc1
log["demo_with_change_output"] = out1[-600:]
sh("git checkout -- .", cwd=wt)
valid = rc0 == 0 and rc1 != 0 and "48 passed" in outt
log["valid"] = valid
# run our check(s) against the change applied to /repo
verdicts = {}
if valid:
    rc, out = sh(f"git -C /repo apply {patch}")
    assert rc == 0, out
    try:
        for c in checks:
            rcc, outc = sh(f"./check {c} --tier quick", cwd="/verif")
            viol = [l for l in outc.splitlines() if l.startswith("VIOLATION")]
            verdicts[c] = {"exit": rcc, "violation_lines": viol}
            for l in viol:
                rp = l.split("replay=")[1].split()[0]
                if os.path.exists(rp):
                    d = json.load(open(rp))
                    verdicts[c].setdefault("replays", []).append({"kind": d.get("kind"), "case": d.get("case")})
    finally:
        sh("git -C /repo checkout -- .")
        sh("rm -f /verif/replays/*.json")
        # restore evidence written while the change was applied
        sh("git -C /verif checkout -- evidence 2>/dev/null")
log["checks"] = verdicts
dst = os.path.join("/verif/seeded", name)
os.makedirs(dst, exist_ok=True)
shutil.copy(patch, os.path.join(dst, "patch.diff"))
shutil.copy(demo, os.path.join(dst, "demo.py"))
note = open(os.path.join(wt, "note.txt")).read() if os.path.exists(os.path.join(wt, "note.txt")) else ""
meta = {"property": pid, "origin": "independent sub-agent given only the property text and a scratch worktree",
        "needs_to_manifest": note.strip(), "validated": log,
        "what_i_ran": [f"in scratch worktree: demo.py without change (rc {rc0}), git apply patch.diff, pytest ({outt.strip()}), demo.py with change (rc {rc1})",
                       "in /repo: git apply patch.diff; ./check <id> --tier quick; git checkout -- ."],
        "caught_by": {c: bool(v["violation_lines"]) for c, v in verdicts.items()}}
json.dump(meta, open(os.path.join(dst, "meta.json"), "w"), indent=1)
print(json.dumps({"name": name, "valid": valid, "caught": meta["caught_by"],
                  "replays": {c: v.get("replays", [])[:1] for c, v in verdicts.items()}})[:1500])
