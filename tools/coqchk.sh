#!/bin/sh
# independent re-check of every compiled file and the axioms they rely on
cd /verif/coq && make -j16 >/dev/null 2>&1
exec coqchk -silent -o -Q . PV $(ls Properties/*.vo | sed 's/\.vo$//; s#/#.#g; s/^/PV./')
