"""Helpers shared by implementation drivers (run inside the worker)."""


def mk_tl(tb, segs, uri=None):
    from pyannote.core import Timeline
    return Timeline([tb.S(s) for s in segs], uri=uri)


def segs_of(tb, it):
    return [tb.us(s) for s in it]


def mk_sup(tb, sup):
    """sup: None | ["seg", [a,b]] | ["tl", [[a,b],...]]"""
    if sup is None:
        return None
    if sup[0] == "seg":
        return tb.S(sup[1])
    return mk_tl(tb, sup[1])


def enc_sup(sup):
    from harness import enc
    if sup[0] == "seg":
        return f"(SupSeg {enc.seg(sup[1])})"
    return f"(SupTl {enc.segs(sup[1])})"
