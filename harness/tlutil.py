"""Helpers shared by implementation drivers (run inside the worker)."""


def _prime_tl(t, probes):
    """call every Timeline query once and discard the results (see annutil._prime_all)"""
    len(t), bool(t), str(t), t.extent(), t.duration()
    t.support(), t.gaps(), t.segmentation(), t.get_overlap(), t.copy()
    list(t.co_iter(t))
    for x in probes:
        t.overlapping(x)
        list(t.overlapping_iter(x))
    for s in list(t)[:3]:
        (s in t), t.crop(s), t.extrude(s), t.index(s), t.covers(t)


def tl_mode(segs):
    h = 0
    for a, b in segs:
        h = (h * 29 + 5 * a + 11 * b) % 1000003
    return (h + len(segs)) % 10


def mk_tl(tb, segs, uri=None, mode=None):
    """a Timeline holding `segs`, reached by one of five histories chosen from the segments:
    0 the constructor; 1 the constructor followed by every query once; 2 built with a placeholder instead of
    the last segment, every query called once (at every bound as time point), then the placeholder is
    removed and the last segment added - same number of segments before and after; 3 / 4 the first half (plus
    one shared segment) built, every query called once, then the second half merged in with update() / |=
    (the two operands share a segment, and the merge usually moves the extent); 5 as 3 with an extra segment shared
    by both operands that is removed after the merge; 6 a copy() of a timeline holding `segs`, whose source is then
    edited (an addition, a removal); 7 a copy() of a partial timeline, completed in place, whose source is then edited;
    8 all but the last segment built, then used as an operand of every non-mutating binary operation (union, |, crop,
    extrude, covers, co_iter, ==) with a timeline that holds the last segment, and only then completed in place;
    9 built from a caller-owned container (a set, a list or a frozenset, by turns) that also feeds a second timeline;
    the second timeline and the container itself are then edited, and the container must not change under edits of a
    timeline."""
    from pyannote.core import Timeline
    mode = tl_mode(segs) if mode is None else mode
    S = [tb.S(s) for s in segs]
    if mode == 0 or not S:
        return Timeline(S, uri=uri)
    probes = sorted({x for s in S for x in (s.start, s.end)})
    if mode == 1:
        t = Timeline(S, uri=uri)
        _prime_tl(t, probes)
        return t
    if mode in (3, 4):
        k = len(S) // 2
        t = Timeline(S[:k + 1], uri=uri)
        _prime_tl(t, probes)
        other = Timeline(S[k:], uri="other")
        if mode == 3:
            t.update(other)
        else:
            t |= other
        return t
    far = max(abs(x) for s in segs for x in s) + 1000
    dummy = tb.S([far, far + 7])
    if mode == 5:
        k = len(S) // 2
        mid = tb.S([min(x for s in segs for x in s) - 3, far])           # overlaps everything: a ghost would show
        t = Timeline(S[:k] + [mid, dummy], uri=uri)
        _prime_tl(t, probes)
        t.update(Timeline(S[k:] + [mid, dummy], uri="other"))
        t.remove(mid)
        t.discard(dummy)
        return t
    if mode in (6, 7):
        k = len(S) if mode == 6 else len(S) // 2
        src = Timeline(S[:k] + ([dummy] if mode == 7 else []), uri=uri)
        if len(segs) % 2:
            _prime_tl(src, probes)
        t = src.copy()
        if mode == 7:
            t.remove(dummy)
            for x in S[k:]:
                t.add(x)
        # the source lives on and is edited: nothing of that may reach the copy
        src.add(tb.S([far + 20, far + 30]))
        src.add(tb.S([min(x for s in segs for x in s) - 5, far]))
        for x in list(src)[:2]:
            src.remove(x)
        src.uri = "zz_source"
        return t
    if mode == 9:
        kind = len(segs) % 3
        box = set(S) if kind == 0 else list(S) if kind == 1 else frozenset(S)
        twin = Timeline(box, uri="twin")
        t = Timeline(box, uri=uri)
        snap = list(box) if kind == 1 else set(box)
        twin.add(dummy)
        for x in list(twin)[:2]:
            twin.remove(x)
        twin.update(Timeline([tb.S([far + 20, far + 30])]))
        assert (list(box) if kind == 1 else set(box)) == snap, "editing a timeline changed the container it was built from"
        if kind == 0:
            box.add(tb.S([far + 40, far + 50]))
            box.discard(S[0])
        elif kind == 1:
            box.append(tb.S([far + 40, far + 50]))
            del box[0]
        return t
    if mode == 8:
        t = Timeline(S[:-1], uri=uri)
        other = Timeline([S[-1], dummy], uri="other")
        n0 = len(t)
        t.union(other), t | other, other | t, other.union(t)
        t.crop(other), t.extrude(other), t.covers(other), other.covers(t), list(t.co_iter(other)), t == other
        t.crop(S[-1]), t.extrude(S[-1]), t.overlapping(S[-1].start)
        assert len(t) == n0, "a non-mutating operation changed the size of its operand"
        t.add(S[-1])
        assert len(other) == 1 + bool(S[-1]), "a non-mutating operation changed the size of its operand"
        return t
    t = Timeline(S[:-1] + [dummy], uri=uri)
    _prime_tl(t, probes)
    t.remove(dummy)
    t.add(S[-1])
    return t


def segs_of(tb, it):
    return [tb.us(s) for s in it]


def mk_sup(tb, sup):
    """sup: None | ["seg", [a,b]] | ["tl", [[a,b],...]]"""
    if sup is None:
        return None
    if sup[0] == "seg":
        return tb.S(sup[1])
    return mk_tl(tb, sup[1])


def enc_sup(sup):
    from harness import enc
    if sup[0] == "seg":
        return f"(SupSeg {enc.seg(sup[1])})"
    return f"(SupTl {enc.segs(sup[1])})"


def assert_fresh(tb, f, what):
    """f() returns a Timeline computed from objects that are not edited in between: a caller who edits the returned
    timeline in place must not change what the next call returns (the result is not an alias of anything kept)"""
    r1 = f()
    snap = [(x.start, x.end) for x in r1]
    far = max([abs(v) for x in r1 for v in (x.start, x.end)] + [0]) + 1000
    from pyannote.core import Segment
    r1.add(Segment(far, far + 5))
    for x in list(r1)[:2]:
        r1.remove(x)
    r2 = f()
    assert [(x.start, x.end) for x in r2] == snap, f"editing the timeline returned by {what} changed what {what} returns next"
