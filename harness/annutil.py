"""Helpers for annotation drivers / encoders."""
from harness import enc


def mk_ann(tb, recs, uri=None, modality=None):
    """build by successive insertions, in the given order"""
    from pyannote.core import Annotation
    a = Annotation(uri=uri, modality=modality)
    for s, t, l in recs:
        a[tb.S(s), t] = l
    return a


def nm(x):
    """normalise a name coming back from the implementation"""
    import numpy as np
    if isinstance(x, (bool, np.bool_)):
        raise ValueError("bool name")
    if isinstance(x, (int, np.integer)):
        return int(x)
    if isinstance(x, str):
        return x
    raise ValueError(f"unsupported name {x!r}")


def triples(tb, a):
    return [[tb.us(s), nm(t), nm(l)] for s, t, l in a.itertracks(yield_label=True)]


def name_key(n):
    return (str(n), 0 if isinstance(n, int) else 1)


def enc_triple(x):
    return enc.pair(enc.pair(enc.seg(x[0]), enc.name(x[1])), enc.name(x[2]))


def enc_triples(l):
    return enc.lst([enc_triple(x) for x in l])


def enc_names(l):
    return enc.lst([enc.name(x) for x in l])


def enc_uri(u):
    return "None" if u is None else f"(Some {enc.s(u)})"


LABELS = ["a", 0, "b", 1, "c", 2, "B", "spk", 10, ""]
TRACKS = ["_", "x", "y", 0, 1, "A", "B", "0"]
URIS = [None, "u1", "file2"]


def rand_records(rng, regime, nseg=6, span=14, labels=None, tracks=None, allow_empty=0.05):
    from harness import gen
    labels = labels or LABELS[: rng.randrange(2, 5)]
    tracks = tracks or TRACKS
    segs = gen.rand_timeline(rng, regime, maxn=nseg, span=span, allow_empty=allow_empty)
    recs = []
    for s in segs:
        for _ in range(rng.choice([1, 1, 1, 2, 2, 3])):
            recs.append([s, rng.choice(tracks), rng.choice(labels)])
    rng.shuffle(recs)
    return recs
