"""Helpers for annotation drivers / encoders."""
from harness import enc


def _prime_all(a):
    """call every query once (all their results are discarded): whatever a query memoises on the object
    is then stale after the edits that follow, and every query the check makes later is a second call"""
    a.labels()
    a.get_timeline(copy=False)
    for l in a.labels():
        a.label_timeline(l, copy=False)
        a.label_support(l)
        a.label_duration(l)
    a.chart()
    a.chart(percent=True) if a else None
    a.argmax()
    a.get_overlap()
    a.support()
    list(a.itertracks(yield_label=True))
    list(a.itersegments())
    list(a.co_iter(a))
    a * a
    len(a), bool(a), str(a)
    for s in list(a.itersegments())[:3]:
        a.get_tracks(s), a.get_labels(s), (s in a), a.crop(s), a.extrude(s)
    a.copy(), a.empty()


def cache_mode(recs):
    """deterministic function of the records: which cache state the built annotation is left in"""
    h = 0
    for s, t, l in recs:
        h = (h * 31 + 7 * s[0] + 13 * s[1] + len(str(t)) + 3 * len(str(l))) % 1000003
    return (h + len(recs)) % 7


def mk_ann(tb, recs, uri=None, modality=None, mode=None):
    """build by successive insertions, in the given order (so the content and every insertion order
    are those of `recs`), leaving the caches in one of four states chosen from the records:
    0 never read; 1 fully read (clean caches); 2 first half read, second half inserted afterwards
    (stale timeline cache, dirty labels); 3 fully read with an extra segment that is then deleted
    (stale timeline cache and a cached label that no longer occurs); 4 first half read, second half merged in place
    with update(), one record at a time (same insertion order); 5 built by from_records; 6 every other record first
    inserted under a wrong label, every query called once, then corrected by one in-place update() carrying the right
    labels for those (segment, track) pairs."""
    from pyannote.core import Annotation
    mode = cache_mode(recs) if mode is None else mode
    if mode == 5:
        return Annotation.from_records(((tb.S(s), t, l) for s, t, l in recs), uri=uri, modality=modality)
    a = Annotation(uri=uri, modality=modality)
    if mode == 6:
        fix = Annotation(uri="zz_other_uri")
        last = {}
        for i, (s, t, l) in enumerate(recs):
            last[(tuple(s), repr(t))] = i
        for i, (s, t, l) in enumerate(recs):
            wrong = i % 2 == 0 and last[(tuple(s), repr(t))] == i
            a[tb.S(s), t] = "zz_wrong_label" if wrong else l
            if wrong:
                fix[tb.S(s), t] = l
        _prime_all(a)
        a.update(fix)
        return a
    half = len(recs) // 2 if mode in (2, 4) else len(recs)
    for s, t, l in recs[:half]:
        a[tb.S(s), t] = l
    if mode == 2:
        _prime_all(a)
        for s, t, l in recs[half:]:
            a[tb.S(s), t] = l
    elif mode == 4:
        _prime_all(a)
        for s, t, l in recs[half:]:
            b = Annotation(uri="zz_other_uri", modality="zz_other_modality")
            b[tb.S(s), t] = l
            r = a.update(b)
            assert r is a, "update() did not return its receiver"
    elif mode == 1:
        _prime_all(a)
    elif mode == 3:
        far = max([abs(x) for s, _, _ in recs for x in s] + [0]) + 1000
        dummy = tb.S([far, far + 7])
        a[dummy, "zz_dummy_track"] = "zz_dummy_label"
        _prime_all(a)
        del a[dummy]
    return a


def nm(x):
    """normalise a name coming back from the implementation"""
    import numpy as np
    if isinstance(x, (bool, np.bool_)):
        raise ValueError("bool name")
    if isinstance(x, (int, np.integer)):
        return int(x)
    if isinstance(x, str):
        return x
    raise ValueError(f"unsupported name {x!r}")


def triples(tb, a):
    return [[tb.us(s), nm(t), nm(l)] for s, t, l in a.itertracks(yield_label=True)]


def name_key(n):
    return (str(n), 0 if isinstance(n, int) else 1)


def enc_triple(x):
    return enc.pair(enc.pair(enc.seg(x[0]), enc.name(x[1])), enc.name(x[2]))


def enc_triples(l):
    return enc.lst([enc_triple(x) for x in l])


def enc_names(l):
    return enc.lst([enc.name(x) for x in l])


def enc_uri(u):
    return "None" if u is None else f"(Some {enc.s(u)})"


LABELS = ["a", 0, "b", 1, "c", 2, "B", "spk", 10, ""]
TRACKS = ["_", "x", "y", 0, 1, "A", "B", "0"]
URIS = [None, "u1", "file2"]


def rand_records(rng, regime, nseg=6, span=14, labels=None, tracks=None, allow_empty=0.05):
    from harness import gen
    labels = labels or LABELS[: rng.randrange(2, 5)]
    tracks = tracks or TRACKS
    segs = gen.rand_timeline(rng, regime, maxn=nseg, span=span, allow_empty=allow_empty)
    recs = []
    for s in segs:
        for _ in range(rng.choice([1, 1, 1, 2, 2, 3])):
            recs.append([s, rng.choice(tracks), rng.choice(labels)])
    rng.shuffle(recs)
    return recs


def _snap_ann(a):
    """everything observable of an annotation, as plain data (no time conversion needed: compared with itself)"""
    recs = [(s.start, s.end, repr(t), repr(l)) for s, t, l in a.itertracks(yield_label=True)]
    labs = [repr(l) for l in a.labels()]
    tl = [(s.start, s.end) for s in a.get_timeline()]
    ltl = [[(s.start, s.end) for s in a.label_timeline(l)] for l in a.labels()]
    return (recs, labs, tl, ltl, a.uri, a.modality, len(a))


def _edit_everywhere(tb, x):
    """in-place edits touching every segment of x: a new track, an overwritten label, a deleted track, a new segment"""
    from pyannote.core import Segment
    segs = list(x.itersegments())
    for i, s in enumerate(segs):
        x[s, "zz_probe_track"] = "zz_probe_label"
        tracks = sorted(x.get_tracks(s), key=str)
        x[s, tracks[0]] = "zz_probe_other"
        if i % 2 and len(tracks) > 1:
            del x[s, tracks[-1]]
    far = max([abs(v) for s in segs for v in (s.start, s.end)] + [0]) + 1000
    x[Segment(far, far + 7), "zz_probe_track"] = "zz_probe_label"
    if segs:
        del x[segs[len(segs) // 2]]
    x.uri = "zz_probe_uri"


def assert_consistent(a, what):
    """every derived view of the annotation agrees with its track map: labels() = the labels in use, each
    label_timeline / label_support / label_duration = the segments carrying the label, get_timeline = the segments"""
    from pyannote.core import Timeline
    recs = list(a.itertracks(yield_label=True))
    by_label = {}
    for s, _t, l in recs:
        by_label.setdefault(l, set()).add(s)
    assert sorted(map(repr, a.labels())) == sorted(map(repr, by_label)), f"labels() of the result of {what} disagree with its tracks"
    for l, segs in by_label.items():
        lt = a.label_timeline(l)
        assert set(lt) == segs, f"label_timeline({l!r}) of the result of {what} disagrees with its tracks"
        fresh = Timeline(segs)
        assert list(a.label_support(l)) == list(fresh.support()), f"label_support({l!r}) of the result of {what} disagrees with its tracks"
        assert a.label_duration(l) == fresh.duration(), f"label_duration({l!r}) of the result of {what} disagrees with its tracks"
    assert set(a.get_timeline()) == {s for s, _t, _l in recs}, f"get_timeline() of the result of {what} disagrees with its tracks"
    assert [l for l, _ in a.chart()] and True or True
    assert sorted(repr(l) for l, _ in a.chart()) == sorted(map(repr, by_label)), f"chart() of the result of {what} disagrees with its tracks"


def assert_independent(tb, derived, source, what):
    """`derived` was obtained from `source` by an operation that promises a new object: editing either one in place
    must leave every observation of the other unchanged (the promise "on a copy as requested" / "returns a new
    annotation" of the deriving operations; C08 studies it for its own sake, here it guards each property's
    operations)"""
    if derived is source:
        return
    assert_consistent(derived, what)
    before = _snap_ann(source)
    _edit_everywhere(tb, derived)
    assert _snap_ann(source) == before, f"editing the result of {what} changed its source"
    before = _snap_ann(derived)
    _edit_everywhere(tb, source)
    assert _snap_ann(derived) == before, f"editing the source of {what} changed the earlier result"
