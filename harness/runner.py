"""Generic driver of one property check.

  0. build /verif/coq (no-op when fresh), hygiene grep, compile the property's
     theorem file and read its Print Assumptions output
  1. corpus and known-finding inputs first, then generated cases
  2. run the implementation from /repo (fresh subprocesses) on every case
  3. encode (case, observation) as Coq terms; coqc evaluates the Gallina checker
  4. shrink failures, classify, write replays, evidence; exit 0/1
"""
import concurrent.futures as cf
import fcntl
import hashlib
import importlib
import json
import os
import random
import re
import shutil
import subprocess
import sys
import time

VERIF = os.path.dirname(os.path.dirname(os.path.abspath(__file__)))
COQ = os.path.join(VERIF, "coq")
WORK = os.path.join(VERIF, ".work")
REPO = os.environ.get("VERIF_REPO", "/repo")
NPROC = int(os.environ.get("VERIF_JOBS", "16"))
INTERP = {"venv": "/venv/bin/python", "vt": shutil.which("python3-vt") or "python3-vt"}

HEADER = """From PV Require Import Base.Prelude {extra} {mod}.
From Coq Require Import String.
{pre}
Open Scope string_scope. Open Scope Z_scope. Open Scope list_scope.
Definition cases : list case := [
{body}
].
Eval vm_compute in (report check cases).
"""


def log(*a):
    print(*a, file=sys.stderr, flush=True)


# --------------------------------------------------------------------------
# step 0: build + proof obligations
# --------------------------------------------------------------------------

FORBIDDEN = [r"\bAdmitted\b", r"\badmit\b", r"\bAxiom\b", r"\bAxioms\b", r"\bParameter\b",
             r"\bParameters\b", r"\bConjecture\b", r"Unset\s+Guard", r"bypass_check",
             r"Admit\s+Obligations", r"type-in-type", r"impredicative-set",
             r"Unset\s+Positivity", r"Unset\s+Universe"]


def strip_comments(text):
    out, depth, i = [], 0, 0
    while i < len(text):
        if text.startswith("(*", i):
            depth += 1
            i += 2
        elif text.startswith("*)", i) and depth:
            depth -= 1
            i += 2
        else:
            if not depth:
                out.append(text[i])
            i += 1
    return "".join(out)


def hygiene():
    """no axioms / admits / disabled checks anywhere in the development"""
    bad = []
    for root, _, files in os.walk(COQ):
        for f in files:
            if not f.endswith(".v"):
                continue
            p = os.path.join(root, f)
            text = strip_comments(open(p).read())
            for pat in FORBIDDEN:
                if re.search(pat, text):
                    bad.append(f"{p}: {pat}")
            depth = 0
            for line in text.splitlines():
                if re.match(r"\s*Section\b", line):
                    depth += 1
                elif re.match(r"\s*End\b", line) and depth:
                    depth -= 1
                elif depth == 0 and re.match(r"\s*(Variable|Variables|Hypothesis|Hypotheses|Context)\b", line):
                    bad.append(f"{p}: {line.strip()} outside a section")
    for p in (os.path.join(COQ, "_CoqProject"),):
        if os.path.exists(p) and re.search(r"type-in-type|impredicative-set|-vos|-vok", open(p).read()):
            bad.append(f"{p}: forbidden flag")
    return bad


def ensure_build():
    os.makedirs(WORK, exist_ok=True)
    with open(os.path.join(WORK, "build.lock"), "w") as lk:
        fcntl.flock(lk, fcntl.LOCK_EX)
        if not os.path.exists(os.path.join(COQ, "Makefile")):
            subprocess.run(["coq_makefile", "-f", "_CoqProject", "-o", "Makefile"], cwd=COQ,
                           check=True, stdout=subprocess.DEVNULL, stderr=subprocess.DEVNULL)
        r = subprocess.run(["make", "-j", str(NPROC)], cwd=COQ, stdout=subprocess.PIPE,
                           stderr=subprocess.STDOUT, text=True, timeout=3000)
        return r.returncode == 0, r.stdout[-3000:]


def proof_step(prop, workdir, whitelist):
    """compile Properties/<prop>.v afresh; return dict with obligations etc."""
    src = os.path.join(COQ, "Properties", f"{prop}.v")
    text = open(src).read()
    thms = re.findall(r"^\s*Theorem\s+(\w+)", strip_comments(text), flags=re.M)
    dst = os.path.join(workdir, f"Prop{prop}.v")
    shutil.copy(src, dst)
    cmd = ["coqc", "-Q", COQ, "PV", dst]
    t0 = time.time()
    r = subprocess.run(cmd, stdout=subprocess.PIPE, stderr=subprocess.PIPE, text=True, timeout=1200,
                       cwd=workdir)
    out = r.stdout
    closed = len(re.findall(r"Closed under the global context", out))
    axioms = []
    for block in re.split(r"Closed under the global context", out):
        if "Axioms:" in block:
            for m in re.finditer(r"^([A-Za-z_][\w.']*)\s*:", block.split("Axioms:", 1)[1], flags=re.M):
                if m.group(1) != "Axioms":          # the header of a second axiom listing in the same block
                    axioms.append(m.group(1))
    n_pa = closed + len(re.findall(r"^Axioms:", out, flags=re.M))
    not_white = sorted(set(a for a in axioms if not any(a == w or a.endswith("." + w) for w in whitelist)))
    ok = (r.returncode == 0) and n_pa >= len(thms) and not not_white and len(thms) > 0
    return dict(ok=ok, theorems=thms, obligations=len(thms), discharged=len(thms) if r.returncode == 0 else 0,
                print_assumptions=n_pa, closed=closed, axioms=sorted(set(axioms)), unexpected_axioms=not_white,
                cmd="coqc -Q /verif/coq PV /verif/coq/Properties/%s.v" % prop,
                stderr=r.stderr[-2000:], wall=time.time() - t0)


# --------------------------------------------------------------------------
# step 2: run implementation
# --------------------------------------------------------------------------

def run_impl(mod, cases, workdir, tag):
    """run mod.run over cases in parallel fresh subprocesses; returns list of obs"""
    if not cases:
        return []
    n = min(NPROC, max(1, len(cases) // 20))
    chunks = [cases[i::n] for i in range(n)]
    procs = []
    env = dict(os.environ)
    env["PYTHONPATH"] = REPO + os.pathsep + VERIF
    env["PYTHONHASHSEED"] = "0"
    env["PYANNOTE_CORE_VERIF"] = "1"
    env["VERIF_REPO"] = REPO
    for k, ch in enumerate(chunks):
        fin = os.path.join(workdir, f"{tag}_in_{k}.json")
        fout = os.path.join(workdir, f"{tag}_out_{k}.json")
        json.dump(ch, open(fin, "w"))
        p = subprocess.Popen([INTERP[getattr(mod, "INTERP", "venv")], "-W", "ignore",
                              os.path.join(VERIF, "harness", "worker.py"), mod.__name__, fin, fout],
                             env=env, stdout=subprocess.DEVNULL, stderr=subprocess.PIPE, text=True, cwd="/")
        procs.append((p, fout, len(ch)))
    outs = []
    for p, fout, m in procs:
        _, err = p.communicate(timeout=3600)
        if p.returncode != 0 or not os.path.exists(fout):
            log(err[-2000:])
            outs.append([{"__exc__": "worker crashed: " + err[-300:]}] * m)
        else:
            outs.append(json.load(open(fout)))
    obs = [None] * len(cases)
    for k, o in enumerate(outs):
        obs[k::n] = o
    return obs


# --------------------------------------------------------------------------
# step 3: coq evaluation
# --------------------------------------------------------------------------

def coq_eval(mod, pairs, workdir, tag):
    """pairs: list of (case, obs). returns list of verdict codes (0 ok, 1 spec, 2 model,
    3 implementation raised / off-grid, 4 coq could not evaluate)"""
    codes = [0] * len(pairs)
    terms = []
    for i, (c, o) in enumerate(pairs):
        if isinstance(o, dict) and "__exc__" in o:
            codes[i] = 3
            continue
        try:
            terms.append((i, mod.encode(c, o)))
        except Exception as e:  # observation outside the encodable domain
            o_ = {"__exc__": f"unencodable observation: {type(e).__name__}: {e}"}
            pairs[i] = (c, o_)
            codes[i] = 3
    shard = getattr(mod, "SHARD", 400)
    shards = [terms[i:i + shard] for i in range(0, len(terms), shard)]

    def one(k):
        sh = shards[k]
        path = os.path.join(workdir, f"{tag}_cases_{k}.v")
        with open(path, "w") as f:
            f.write(HEADER.format(mod=mod.CHECK_MODULE, extra=getattr(mod, "COQ_IMPORTS", ""), pre=getattr(mod, "COQ_PRELUDE", ""), body=";\n".join(t for _, t in sh)))
        try:
            r = subprocess.run(["coqc", "-Q", COQ, "PV", path], stdout=subprocess.PIPE, stderr=subprocess.PIPE,
                               text=True, timeout=1800, cwd=workdir)
        except subprocess.TimeoutExpired:
            return k, None, "timeout"
        if r.returncode != 0:
            return k, None, r.stderr[-1500:]
        m = re.search(r"=\s*(\[.*?\])\s*:\s*list", r.stdout, flags=re.S)
        if not m:
            return k, None, "unparsable: " + r.stdout[-500:]
        body = re.sub(r"\s+", "", m.group(1))
        res = [(int(a), int(b_)) for a, b_ in re.findall(r"\((\d+)(?:%nat)?,\s*(\d+)(?:%nat)?\)", body)]
        if len(res) != body.count("(") or (not res and body.replace(" ", "").replace("\n", "") != "[]"):
            return k, None, "unparsable report: " + body[:300]
        return k, res, ""

    with cf.ThreadPoolExecutor(max_workers=NPROC) as ex:
        for k, res, err in ex.map(one, range(len(shards))):
            if res is None:
                log(f"coq shard {k} failed: {err}")
                for i, _ in shards[k]:
                    codes[i] = 4
            else:
                for local, code in res:
                    codes[shards[k][local][0]] = code
    return codes


# --------------------------------------------------------------------------
# shrinking
# --------------------------------------------------------------------------

def generic_shrink(case):
    """structural candidates: drop one element of any list nested in the case"""
    def rec(v):
        if isinstance(v, list):
            if len(v) > 0 and not all(isinstance(x, (int, str, bool)) or x is None for x in v):
                for i in range(len(v)):
                    yield v[:i] + v[i + 1:]
            for i, x in enumerate(v):
                for y in rec(x):
                    yield v[:i] + [y] + v[i + 1:]
        elif isinstance(v, dict):
            for k in v:
                for y in rec(v[k]):
                    d = dict(v)
                    d[k] = y
                    yield d
    yield from rec(case)


def shrink(mod, case, obs, code, workdir, budget_rounds=25):
    fn = getattr(mod, "shrink", None)
    if fn is None:
        return case, obs, code
    valid = getattr(mod, "valid", lambda c: True)
    cur, cur_obs, cur_code = case, obs, code
    for rnd in range(budget_rounds):
        cands = []
        seen = set()
        for c in fn(cur):
            key = json.dumps(c, sort_keys=True)
            if key in seen or not valid(c):
                continue
            seen.add(key)
            cands.append(c)
            if len(cands) >= 150:
                break
        if not cands:
            break
        obs_l = run_impl(mod, cands, workdir, f"shr{rnd}")
        pairs = list(zip(cands, obs_l))
        codes = coq_eval(mod, pairs, workdir, f"shr{rnd}")
        better = [(len(json.dumps(pairs[i][0])), i) for i, cd in enumerate(codes)
                  if cd != 0 and cd != 4 and (cd == cur_code or (cur_code != 1 and cd == 1) or (cd == 1 and cur_code == 3) or (cd == 3 and cur_code == 1))]
        if not better:
            break
        _, i = min(better)
        if len(json.dumps(pairs[i][0])) >= len(json.dumps(cur)):
            break
        cur, cur_obs, cur_code = pairs[i][0], pairs[i][1], codes[i]
    return cur, cur_obs, cur_code


# --------------------------------------------------------------------------
# main
# --------------------------------------------------------------------------

def load_known():
    p = os.path.join(VERIF, "known_findings.json")
    if not os.path.exists(p):
        return []
    return json.load(open(p))


def main(prop, tier="quick", seed=None, replay=None):
    t0 = time.time()
    prop = prop.upper()
    mod = importlib.import_module(f"harness.props.{prop.lower()}")
    seed = int(seed if seed is not None else os.environ.get("VERIF_SEED", "20260930"))
    tier = tier or os.environ.get("VERIF_TIER", "quick")
    workdir = os.path.join(WORK, f"{prop}-{os.getpid()}")
    os.makedirs(workdir, exist_ok=True)
    violations = []  # (replay_path, suffix)
    try:
        ok, out = ensure_build()
        bad = hygiene()
        if not ok:
            log("BUILD FAILED\n" + out)
        proof = proof_step(prop, workdir, getattr(mod, "AXIOM_WHITELIST", [])) if ok else dict(
            ok=False, theorems=[], obligations=0, discharged=0, axioms=[], unexpected_axioms=[],
            cmd="make -C /verif/coq", stderr=out, closed=0, print_assumptions=0, wall=0)
        if bad:
            proof["ok"] = False
            proof["hygiene"] = bad

        rng = random.Random(seed)
        known = [k for k in load_known() if k.get("property") == prop]
        corpus = []
        cdir = os.path.join(VERIF, "corpus", prop)
        if os.path.isdir(cdir):
            for f in sorted(os.listdir(cdir)):
                if f.endswith(".json"):
                    d = json.load(open(os.path.join(cdir, f)))
                    corpus.append(d["case"] if "case" in d else d)
        known_cases = [k["case"] for k in known if k.get("status") == "known" and "case" in k]
        if replay:
            d = json.load(open(replay))
            gen = {"cases": [d["case"]], "meta": {"replay": replay}}
            corpus, known_cases = [], []
        else:
            gen = mod.generate(rng, tier)
        cases = known_cases + corpus + gen["cases"]
        n_known = len(known_cases)
        log(f"[{prop}] {len(cases)} cases ({n_known} known-finding inputs, {len(corpus)} corpus), proof ok={proof['ok']}")

        obs = run_impl(mod, cases, workdir, "main")
        pairs = list(zip(cases, obs))
        codes = coq_eval(mod, pairs, workdir, "main")
        obs = [p[1] for p in pairs]

        failing = [i for i, cd in enumerate(codes) if cd != 0]
        # known findings
        printed = set()
        unlisted = []
        km = getattr(mod, "known_match", None)
        for i in failing:
            hit = None
            for k in known:
                if k.get("status") != "known":
                    continue
                if ("case" in k and json.dumps(k["case"], sort_keys=True) == json.dumps(cases[i], sort_keys=True)) or \
                        (km and km(k, cases[i], obs[i], codes[i])):
                    hit = k
                    break
            if hit:
                if hit["id"] not in printed:
                    printed.add(hit["id"])
                    print(f"KNOWN-FINDING: property={prop} {hit['id']}: {hit['what']}", flush=True)
            else:
                unlisted.append(i)

        os.makedirs(os.path.join(VERIF, "replays"), exist_ok=True)
        if unlisted:
            # shrink up to 3 failures: prefer spec failures (code 1/3), smallest first
            order = sorted(unlisted, key=lambda i: (0 if codes[i] in (1, 3, 5) else 1, len(json.dumps(cases[i]))))
            done_kinds = set()
            for i in order[:40]:
                kind = "failing-input" if codes[i] in (1, 3, 5) else "correspondence-broken"
                if kind in done_kinds:
                    continue
                done_kinds.add(kind)
                if codes[i] == 4:
                    c2, o2, cd2 = cases[i], obs[i], 4
                else:
                    c2, o2, cd2 = shrink(mod, cases[i], obs[i], codes[i], workdir)
                kind = "failing-input" if cd2 in (1, 3, 5) else "correspondence-broken"
                h = hashlib.sha1(json.dumps(c2, sort_keys=True).encode()).hexdigest()[:10]
                path = os.path.join(VERIF, "replays", f"{prop}-{h}.json")
                json.dump({"property": prop, "kind": kind, "verdict_code": cd2, "seed": seed, "tier": tier,
                           "case": c2, "implementation_observed": o2,
                           "checker": f"coq/{mod.CHECK_MODULE.replace('.', '/')}.v : check",
                           "meaning": {1: "the property's boolean specification fails on this input",
                                       3: "the implementation raised / returned a value outside the model's domain",
                                       2: "implementation differs from the Coq model on behaviour the property does not fix",
                                       5: "the property's specification fails in exactly the way a recorded finding describes",
                                       4: "coqc could not evaluate the checker"}[cd2],
                           "replay": f"cd /verif && ./check {prop} --replay {path}",
                           "unshrunk_case": cases[i]}, open(path, "w"), indent=1)
                violations.append((path, "" if kind == "failing-input" else " no-failing-input-found"))
        if not proof["ok"] and not any(s == "" for _, s in violations):
            path = os.path.join(VERIF, "replays", f"{prop}-proof.json")
            json.dump({"property": prop, "kind": "proof-broken", "theorem_file": f"coq/Properties/{prop}.v",
                       "detail": {k: proof.get(k) for k in ("unexpected_axioms", "hygiene", "stderr", "obligations", "print_assumptions")}},
                      open(path, "w"), indent=1)
            violations.append((path, " no-failing-input-found"))

        # evidence
        nontriv = set()
        for c, o in pairs:
            try:
                if not (isinstance(o, dict) and "__exc__" in o) and mod.nontrivial(c, o):
                    nontriv.add(hashlib.sha1(json.dumps(c, sort_keys=True).encode()).digest())
            except Exception:
                pass
        sample_idx = sorted(set([n_known + len(corpus)] + [rng.randrange(len(cases)) for _ in range(3)])) if cases else []
        samples = [{"case": cases[i], "observed": obs[i], "verdict": codes[i]} for i in sample_idx if i < len(cases)]
        ev = {
            "property_id": prop, "tier": tier if tier in ("quick", "thorough") else "quick", "seed": seed,
            "level": "proof",
            "coverage": {
                "obligations": proof["obligations"], "discharged": proof["discharged"],
                "checker_cmd": proof["cmd"],
                "trusted_base": [
                    "Coq 8.16.1 kernel and its vm_compute evaluator (no native_compute)",
                    "Print Assumptions: " + ("all %d theorems closed under the global context" % proof["closed"]
                                             if not proof["axioms"] else "axioms used: " + ", ".join(proof["axioms"])),
                    "hand-written Gallina model coq/Model/*.v tied to /repo by this run's correspondence cases",
                    "Python harness: runs /repo, converts floats to exact ticks (fractions.Fraction), writes Coq terms",
                ] + list(getattr(mod, "TRUSTED", [])),
                "theorems": proof["theorems"],
                "evaluations": len(cases), "distinct_nontrivial": len(nontriv),
                "rule": mod.RULE, "samples": samples,
                "traces_validated_against_impl": len(cases),
                "correspondence_failures": len(failing), "known_finding_hits": sorted(printed),
                "exhaustive": bool(gen["meta"].get("exhaustive", False)),
                "generator": gen["meta"],
            },
            "assumptions": list(getattr(mod, "ASSUMPTIONS", [])),
            "wall_s": round(time.time() - t0, 2),
            "violations": len(violations),
        }
        if not replay:
            os.makedirs(os.path.join(VERIF, "evidence"), exist_ok=True)
            json.dump(ev, open(os.path.join(VERIF, "evidence", f"{prop}.json"), "w"), indent=1)
        for path, suffix in violations:
            print(f"VIOLATION property={prop} replay={path}{suffix}", flush=True)
        log(f"[{prop}] {len(cases)} cases, {len(nontriv)} distinct non-trivial, {len(failing)} failing, "
            f"{len(violations)} violations, {time.time() - t0:.1f}s")
        return 1 if violations else 0
    finally:
        if not os.environ.get("VERIF_KEEP"):
            shutil.rmtree(workdir, ignore_errors=True)
