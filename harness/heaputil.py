"""Identities of the mutable containers reachable from an object (C08: separation of a derived
object from its source). Generic walk: dict / list / set / numpy arrays and every instance of a
class from pyannote.core or sortedcontainers count as mutable containers; tuples and frozensets are
traversed but not counted; segments, strings and numbers are immutable values."""


def containers(*roots):
    import numpy as np
    from pyannote.core import Segment
    seen = {}
    stack = list(roots)
    while stack:
        o = stack.pop()
        if o is None or id(o) in seen or isinstance(o, (str, bytes, int, float, bool, complex, Segment, type)):
            continue
        if isinstance(o, (tuple, frozenset)):
            stack.extend(o)
            continue
        mod = type(o).__module__ or ""
        if not (isinstance(o, (dict, list, set, bytearray, np.ndarray))
                or mod.startswith(("sortedcontainers", "pyannote.core"))):
            continue
        seen[id(o)] = type(o).__name__
        if isinstance(o, dict):
            stack.extend(o.keys())
            stack.extend(o.values())
        elif isinstance(o, (list, set)):
            stack.extend(o)
        if hasattr(o, "__dict__"):
            stack.extend(vars(o).values())
    return seen


def shared(xs, ys):
    """sorted type names of the containers reachable from both groups of roots"""
    cx, cy = containers(*xs), containers(*ys)
    return sorted(cx[i] for i in set(cx) & set(cy))
