"""Runs one property's implementation driver over a JSON list of cases.
Invoked as a fresh subprocess with PYTHONPATH=/repo:/verif."""
import importlib
import json
import sys
import warnings

warnings.filterwarnings("ignore")


def main():
    modname, fin, fout = sys.argv[1:4]
    mod = importlib.import_module(modname)
    cases = json.load(open(fin))
    out = []
    for c in cases:
        try:
            out.append(mod.run(c))
        except Exception as e:  # an exception the driver did not anticipate
            out.append({"__exc__": f"{type(e).__name__}: {e}"[:300]})
    json.dump(out, open(fout, "w"))


if __name__ == "__main__":
    main()
