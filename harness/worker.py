"""Runs one property's implementation driver over a JSON list of cases.
Invoked as a fresh subprocess with PYTHONPATH=/repo:/verif.

Every case runs under a wall-clock limit and the process under an address-space limit: an
implementation that loops for ever or allocates without bound is a failing case (reported like an
unexpected exception), not a hung check."""
import importlib
import json
import os
import signal
import sys
import warnings

warnings.filterwarnings("ignore")

CASE_SECONDS = float(os.environ.get("VERIF_CASE_SECONDS", "30"))
MAX_TIMEOUTS = 4     # after that many, the remaining cases of this worker are reported as timeouts without being run
MEM_BYTES = int(os.environ.get("VERIF_WORKER_MEM", str(6 << 30)))


class CaseTimeout(BaseException):
    pass


def _on_alarm(signum, frame):
    raise CaseTimeout()


def main():
    modname, fin, fout = sys.argv[1:4]
    try:
        import resource
        resource.setrlimit(resource.RLIMIT_AS, (MEM_BYTES, MEM_BYTES))
    except Exception:
        pass
    cov = None
    if os.environ.get("VERIF_COVERAGE"):      # tools/coverage_run.sh: which lines of /repo do the drivers reach?
        try:
            import coverage
            cov = coverage.Coverage(branch=True, data_file=os.path.join(os.environ["VERIF_COVERAGE"], f"cov.{os.getpid()}"),
                                    include=[os.path.join(os.environ.get("VERIF_REPO", "/repo"), "pyannote", "core", "*")])
            cov.start()
        except Exception:
            cov = None
    mod = importlib.import_module(modname)
    from harness import timebase as _tb
    cases = json.load(open(fin))
    signal.signal(signal.SIGALRM, _on_alarm)
    out = []
    timeouts = 0
    for c in cases:
        if timeouts >= MAX_TIMEOUTS:
            out.append({"__exc__": "Timeout: not run, the implementation had already exceeded the time limit "
                                   f"{MAX_TIMEOUTS} times in this worker"})
            continue
        try:
            signal.setitimer(signal.ITIMER_REAL, CASE_SECONDS)
            try:
                _f = os.environ.get("VERIF_NUMMODE")
                _tb.NUMMODE = int(_f) if _f else _tb.nummode_of(c)
                _j = os.environ.get("VERIF_JITTER")
                _tb.JITTER = int(_j) if _j else _tb.jitter_of(c)
                _tb._jit_counter[0] = 0
                _h = os.environ.get("VERIF_PRECHIST")
                _tb.PRECHIST = int(_h) if _h else _tb.prechist_of(c)
                r = mod.run(c)
            finally:
                signal.setitimer(signal.ITIMER_REAL, 0)
            out.append(r)
        except CaseTimeout:
            timeouts += 1
            out.append({"__exc__": f"Timeout: the implementation did not return within {CASE_SECONDS:g} s"})
        except MemoryError:
            out.append({"__exc__": "MemoryError: the implementation exceeded the worker's memory limit"})
        except Exception as e:  # an exception the driver did not anticipate
            out.append({"__exc__": f"{type(e).__name__}: {e}"[:300]})
    json.dump(out, open(fout, "w"))
    if cov is not None:
        cov.stop()
        cov.save()


if __name__ == "__main__":
    main()
