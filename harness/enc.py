"""Encoding of Python values as Coq terms (generated cases_*.v files open
Z_scope, string_scope and list notations)."""
from fractions import Fraction


def z(n):
    n = int(n)
    return f"({n})" if n < 0 else str(n)


def nat(n):
    n = int(n)
    assert n >= 0
    return f"{n}%nat"


def b(v):
    return "true" if v else "false"


def seg(s):
    return f"({z(s[0])},{z(s[1])})"


def lst(items):
    return "[" + ";".join(items) + "]"


def opt(x, f=lambda v: v):
    return "None" if x is None else f"(Some {f(x)})"


def pair(x, y):
    return f"({x},{y})"


def s(text):
    text = str(text)
    for ch in text:
        if ord(ch) < 32 or ord(ch) > 126:
            raise ValueError("non-printable character in string literal")
    return '"' + text.replace('"', '""') + '"'


def name(n):
    """track names / labels: Python int or str"""
    if isinstance(n, bool):
        raise ValueError("bool names are out of scope")
    if isinstance(n, int):
        return f"(NInt {z(n)})"
    if isinstance(n, str):
        return f"(NStr {s(n)})"
    if isinstance(n, list) and len(n) == 2 and n[0] in ("i", "s"):
        return name(int(n[1]) if n[0] == "i" else str(n[1]))
    raise ValueError(f"unsupported name {n!r}")


def segs(l):
    return lst([seg(x) for x in l])


def zs(l):
    return lst([z(x) for x in l])


def bs(l):
    return lst([b(x) for x in l])
