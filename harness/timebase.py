"""Time regimes: how integer ticks of the Coq model map to the numbers handed
to the implementation, and back (exactly, via Fraction)."""
from fractions import Fraction

REGIMES = {
    # name: ticks per second, eps in ticks, argument of Segment.set_precision
    "K0": dict(scale=1 << 10, eps=0, prec=None),
    "K4": dict(scale=1 << 22, eps=4, prec=None),
    "K1": dict(scale=1, eps=1, prec=0),
}


class OffGrid(Exception):
    pass


class TB:
    def __init__(self, regime):
        r = REGIMES[regime]
        self.regime = regime
        self.scale = r["scale"]
        self.eps = r["eps"]
        self.prec = r["prec"]

    def enter(self):
        from pyannote.core import Segment
        Segment.set_precision(self.prec)

    @staticmethod
    def leave():
        from pyannote.core import Segment
        Segment.set_precision(None)

    def t(self, ticks):
        """ticks -> number given to the implementation"""
        if self.scale == 1:
            return int(ticks)
        return ticks / self.scale  # exact: power-of-two scale, |ticks| < 2**53

    def u(self, value, mult=1):
        """number returned by the implementation -> ticks (times mult), exactly"""
        try:
            f = Fraction(value) * self.scale * mult
        except (TypeError, ValueError, OverflowError) as e:
            raise OffGrid(repr(value)) from e
        if f.denominator != 1:
            raise OffGrid(repr(value))
        return int(f)

    def S(self, s):
        from pyannote.core import Segment
        return Segment(self.t(s[0]), self.t(s[1]))

    def us(self, segment):
        return [self.u(segment.start), self.u(segment.end)]
