"""Time regimes: how integer ticks of the Coq model map to the numbers handed
to the implementation, and back (exactly, via Fraction)."""
from fractions import Fraction

REGIMES = {
    # name: ticks per second, eps in ticks, argument of Segment.set_precision
    "K0": dict(scale=1 << 10, eps=0, prec=None),
    "K4": dict(scale=1 << 22, eps=4, prec=None),
    "K1": dict(scale=1, eps=1, prec=0),
    # set_precision(0) with a 1/1024 s tick: segment bounds must be whole seconds (multiples of 1024 ticks), while
    # sliding-window parameters - which are not segments and are never rounded - may be any tick
    "P0": dict(scale=1 << 10, eps=1 << 10, prec=0),
    # decimal grid: ticks of 0.1 s, i.e. non-dyadic floats (0.1, 0.2, 0.30000000000000004 never arises: every time is
    # the double nearest k / 10). Only for operations that COMPARE bounds (no sums at ties): values read back are
    # accepted within 1e-6 tick of a grid point.
    "D1": dict(scale=10, eps=0, prec=None),
    # set_precision(3) with millisecond ticks: decimal (non-dyadic) values under a decimal precision. Segments must be
    # at least two ticks long (whether a ONE-tick segment is empty depends on float noise in end - start).
    "P3": dict(scale=1000, eps=1, prec=3),
}


# numeric type of the times handed to the implementation: 0 = the regime's native type (float; int in K1),
# 1 = the other builtin type (float in K1; int for whole seconds elsewhere), 2 = numpy.float64. Set per case by the
# worker as a function of the case, so a replay uses the same type.
NUMMODE = 0
# precision settings made (and abandoned) before the regime's own one: 0 none, 1 set_precision(2), 2 set_precision(0)
# then set_precision(6). The precision is process-wide state; an earlier setting must leave no trace.
PRECHIST = 0
# in precision mode (the regime calls set_precision(n)): 1 = every Segment the harness builds is requested a little OFF
# the grid (a different offset on each call, always less than half a grid unit), so that the same segment is reached
# from different raw values; the library rounds at construction, so every later behaviour must be that of the grid value
JITTER = 0
_JITSEQ = [0.0, 0.25, -0.25, 0.4, -0.4, 0.1, -0.125, 0.375]
_jit_counter = [0]


def nummode_of(case):
    import hashlib
    import json
    h = hashlib.sha256(json.dumps(case, sort_keys=True, default=str).encode()).digest()
    return (0, 0, 1, 2)[h[0] % 4]


def jitter_of(case):
    import hashlib
    import json
    h = hashlib.sha256(json.dumps(case, sort_keys=True, default=str).encode()).digest()
    return h[2] % 2


def prechist_of(case):
    import hashlib
    import json
    h = hashlib.sha256(json.dumps(case, sort_keys=True, default=str).encode()).digest()
    return h[1] % 3


class OffGrid(Exception):
    pass


class TB:
    def __init__(self, regime):
        r = REGIMES[regime]
        self.regime = regime
        self.scale = r["scale"]
        self.eps = r["eps"]
        self.prec = r["prec"]

    def enter(self):
        from pyannote.core import Segment
        if PRECHIST == 1:
            Segment.set_precision(2)
        elif PRECHIST == 2:
            Segment.set_precision(0)
            Segment.set_precision(6)
        Segment.set_precision(self.prec)

    @staticmethod
    def leave():
        from pyannote.core import Segment
        Segment.set_precision(None)

    def t(self, ticks):
        """ticks -> number given to the implementation"""
        m = NUMMODE
        if self.scale == 1:
            v = int(ticks)
            if m == 1:
                return float(v)
            if m == 2:
                import numpy as np
                return np.float64(v)
            return v
        v = ticks / self.scale  # exact: power-of-two scale, |ticks| < 2**53
        if m == 2:
            import numpy as np
            return np.float64(v)
        if m == 1 and v == int(v) and abs(v) < 2 ** 53:
            return int(v)
        return v

    def u(self, value, mult=1):
        """number returned by the implementation -> ticks (times mult), exactly"""
        try:
            f = Fraction(value) * self.scale * mult
        except (TypeError, ValueError, OverflowError) as e:
            raise OffGrid(repr(value)) from e
        if f.denominator != 1:
            if self.regime in ("D1", "P3"):
                k = round(f)
                if abs(f - k) <= Fraction(1, 10 ** 6):
                    return int(k)
            raise OffGrid(repr(value))
        return int(f)

    def S(self, s):
        from pyannote.core import Segment
        if JITTER and self.prec is not None:
            unit = 10.0 ** (-self.prec)
            _jit_counter[0] += 1
            k = _jit_counter[0]
            return Segment(self.t(s[0]) + _JITSEQ[k % 8] * unit, self.t(s[1]) + _JITSEQ[(3 * k + 1) % 8] * unit)
        return Segment(self.t(s[0]), self.t(s[1]))

    def us(self, segment):
        return [self.u(segment.start), self.u(segment.end)]
