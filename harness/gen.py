"""Shared case generators: small-scope exhaustive timelines and structured random ones."""
import itertools

from harness.timebase import REGIMES

G4 = [0, 4, 5, 9, 10, 15, 19, 20]


def place(regime, g):
    """grid index -> tick coordinate for the exhaustive small scopes"""
    if regime == "K4":
        return G4[g] if 0 <= g < len(G4) else 5 * g
    return g


def grid_segments(regime, n=6, with_empty=False):
    pts = [place(regime, g) for g in range(n)]
    eps = REGIMES[regime]["eps"]
    out = []
    for i, x in enumerate(pts):
        for y in pts[i + (0 if with_empty else 1):]:
            out.append([x, y])
    return out


def small_timelines(regime, max_segs, n=6):
    """all sets of at most max_segs segments with start < end on the n-point grid"""
    segs = grid_segments(regime, n)
    for k in range(max_segs + 1):
        for combo in itertools.combinations(segs, k):
            yield [list(s) for s in combo]


def rand_point(rng, regime, span=40):
    g = rng.randrange(span)
    if regime == "K4":
        return 5 * g + rng.choice([0, 0, 0, 0, 1, -1, 4, -4, 2])
    if regime == "K0":
        return g
    return g


def rand_segment(rng, regime, span=40, maxlen=12, allow_empty=0.05):
    a = rand_point(rng, regime, span)
    if rng.random() < allow_empty:
        eps = REGIMES[regime]["eps"]
        return [a, a + rng.choice([0, eps, -1, -3])]
    ln = rng.randrange(1, maxlen)
    if regime == "K4":
        b = a + 5 * ln + rng.choice([0, 0, 0, 1, -1, 4, -4])
        if b <= a:
            b = a + 5
    else:
        b = a + ln
    return [a, b]


def rand_timeline(rng, regime, maxn=12, span=40, allow_empty=0.05):
    n = rng.choice([0, 1, 2, 3, 4, 5, 6, 8, 10, maxn]) if maxn >= 10 else rng.randrange(maxn + 1)
    segs = []
    pool = []
    for _ in range(n):
        r = rng.random()
        if pool and r < 0.35:
            # share a bound / abut / nest with an existing segment
            o = rng.choice(pool)
            kind = rng.randrange(6)
            eps = REGIMES[regime]["eps"]
            d = rng.choice([1, 2, 3, 5, eps, eps + 1, 2 * eps + 1]) or 1
            if kind == 0:
                s = [o[0], o[1] + d]
            elif kind == 1:
                s = [o[1], o[1] + d + eps]           # abuts
            elif kind == 2:
                s = [o[1] + d, o[1] + 2 * d + eps + 1]  # small gap
            elif kind == 3:
                s = [o[0] + 1, o[1] - 1] if o[1] - o[0] > 2 + eps else [o[0], o[1]]
            elif kind == 4:
                s = [o[0] - d, o[1]]
            else:
                s = list(o)                     # duplicate
        else:
            s = rand_segment(rng, regime, span, allow_empty=allow_empty)
        segs.append(s)
        pool.append(s)
    return segs


def shrink_segs(segs):
    for i in range(len(segs)):
        yield segs[:i] + segs[i + 1:]


def stats(cases, key_fns):
    out = {}
    for name, fn in key_fns.items():
        hist = {}
        for c in cases:
            k = str(fn(c))
            hist[k] = hist.get(k, 0) + 1
        out[name] = dict(sorted(hist.items(), key=lambda kv: (len(kv[0]), kv[0]))[:30])
    return out


def shift(obj, off):
    """shift every segment (a list of exactly two ints) found anywhere inside obj by off ticks"""
    if isinstance(obj, list):
        if len(obj) == 2 and all(isinstance(x, int) and not isinstance(x, bool) for x in obj):
            return [obj[0] + off, obj[1] + off]
        return [shift(x, off) for x in obj]
    return obj


FAR_SECONDS = [7200, 100000, -30000, 86400 * 3, 1_700_000_000, 1_700_000_000, -1_600_000_000]   # ... and epoch-sized stamps


def _maxabs(obj):
    if isinstance(obj, bool):
        return 0
    if isinstance(obj, int):
        return abs(obj)
    if isinstance(obj, dict):
        return max([_maxabs(v) for v in obj.values()] + [0])
    if isinstance(obj, (list, tuple)):
        return max([_maxabs(v) for v in obj] + [0])
    return 0


def far_copies(rng, cases, keys, count):
    """translated copies of `count` sampled cases: the same timelines hours or days away from the origin (either
    sign), where an absolute-magnitude-dependent tolerance or a lost low-order bit would show; `keys` name the
    fields that hold segments (anything else - collars, labels, indices - is kept)"""
    out = []
    pool = [c for c in cases if any(c.get(k) for k in keys)]
    for _ in range(min(count, len(pool))):
        c = rng.choice(pool)
        # (epoch-sized stamps only on the dyadic grids where doubled ticks still fit a double exactly)
        secs = rng.choice(FAR_SECONDS if c["regime"] in ("K0", "K1") else FAR_SECONDS[:4])
        off = secs * REGIMES[c["regime"]]["scale"]
        d = dict(c)
        for k in keys:
            if k in d:
                d[k] = shift(d[k], off)
        out.append(d)
    return out


def big_timeline(rng, regime, n):
    """about n distinct segments on a dense grid: runs of 1-4 segments sharing a start (different ends), short
    lengths so that each segment meets a handful of others, a few long ones spanning many; sizes that cross
    the chunk / load-factor thresholds an implementation may use (256, 512, 1000)"""
    u = 5 if regime == "K4" else 1
    segs = set()
    start = 0
    while len(segs) < n:
        for _ in range(rng.choice([1, 1, 2, 3, 3, 4])):
            ln = rng.choice([1, 2, 3, 4, 6]) if rng.random() < 0.97 else rng.randrange(20, 200)
            segs.add((start * u, (start + ln) * u))
        start += rng.choice([0, 1, 1, 1, 2, 5]) if rng.random() < 0.9 else 12
    out = [list(s) for s in segs]
    rng.shuffle(out)
    return out


def decimal_copies(rng, cases, count, pred=lambda c: True):
    """copies of sampled K0 cases re-read on the decimal grid D1 (one tick = 0.1 s: non-dyadic doubles)"""
    pool = [c for c in cases if c.get("regime") == "K0" and pred(c) and _maxabs(c) < 10 ** 9]   # (decimal read-back needs room)
    out = []
    for _ in range(min(count, len(pool))):
        d = dict(rng.choice(pool))
        d["regime"] = "D1"
        out.append(d)
    return out


def _scale2(obj):
    if isinstance(obj, list):
        if len(obj) == 2 and all(isinstance(x, int) and not isinstance(x, bool) for x in obj):
            return [2 * obj[0], 2 * obj[1]]
        return [_scale2(x) for x in obj]
    return obj


def p3_copies(rng, cases, keys, count, pred=lambda c: True, extra=lambda d: d):
    """copies of sampled K0 cases re-read in regime P3 (set_precision(3), millisecond ticks, decimal values) with every
    bound doubled, so that every length and gap is an even number of ticks (never exactly one tick, where emptiness
    depends on float noise)"""
    pool = [c for c in cases if c.get("regime") == "K0" and pred(c) and _maxabs(c) < 10 ** 9]   # (decimal read-back needs room)
    out = []
    for _ in range(min(count, len(pool))):
        d = dict(rng.choice(pool))
        d["regime"] = "P3"
        for k in keys:
            if k in d:
                d[k] = _scale2(d[k])
        out.append(extra(d))
    return out
