#!/usr/bin/env python3
"""Regenerates /verif/MANIFEST.json from the table below (kept valid at all times)."""
import json
import os

VERIF = os.path.dirname(os.path.dirname(os.path.abspath(__file__)))
ALL = [f"C{i:02d}" for i in range(1, 21)]

# property -> (level text, level note, technique, design_ref)
CLAIMED = {
    "C03": (
        "31 Coq theorems (coq/Properties/C03.v) state the whole interval algebra for all segments over Z ticks and "
        "every precision eps >= 0 (duration identity exact at eps = 0, within eps otherwise); all closed under the "
        "global context. The model is tied to /repo on every run by evaluating the Gallina checker (vm_compute) on "
        "the implementation's outputs: all pairs/triples of a 6-point grid in three time regimes plus random "
        "wide-range triples.",
        "Trusted: Coq kernel + vm_compute; hand-written model coq/Model/Segment.v; Python harness (runs /repo, exact "
        "float->tick conversion, term printing). Float arithmetic is exact on the grids used; arbitrary reals enter "
        "through their order type. Segment.middle is tied but not part of any theorem.",
        "Coq proof (lia over Z) + model/implementation correspondence evaluated in Coq",
        "DESIGN.md 4/C03"),
    "C01": (
        "20 Coq theorems (coq/Properties/C01.v): the model keeps the three containers of timeline.py separately; "
        "C01_history_refines_set proves by induction over arbitrary operation lists (any number of registers, reads "
        "interleaved anywhere) that every reachable object is in step (set = sorted list, boundaries = sorted multiset "
        "of all bounds, members non-empty) and holds exactly the mathematical set obtained by replaying the history; "
        "the read theorems derive iteration order, len, bool, in, t[k], index, ==, !=, timeline-in-timeline and extent "
        "from that set. Tied to /repo by operation histories with full read-backs checked in Coq.",
        "Trusted: Coq kernel + vm_compute; model coq/Model/Timeline.v part 1 (Python set modelled as its canonical "
        "sorted duplicate-free list; SortedList.add/remove as bisect-right insert / first-occurrence removal); harness. "
        "Timeline.__init__ is exercised with lists and generators of segments only; uri is not constrained by C01.",
        "Coq proof (invariant + refinement to a mathematical set, induction over histories) + history correspondence evaluated in Coq",
        "DESIGN.md 4/C01"),
    "C18": (
        "9 Coq theorems (coq/Properties/C18.v): for every strictly sorted timeline and every t, overlapping(t) is the "
        "order-preserving filter by start <= t <= end (also stated for every reachable Timeline object of C01); the "
        "pre-repair query is characterised exactly (it lost precisely the members starting at t) and refuted by a "
        "vm_compute witness (finding F9, fixed in /repo). Tied to /repo on all small timelines x every tick.",
        "Trusted: Coq kernel + vm_compute; model of overlapping_iter in coq/Model/Timeline.v (the repaired scan); harness.",
        "Coq proof (list induction) + exhaustive small-scope correspondence evaluated in Coq",
        "DESIGN.md 4/C18"),
    "C04": (
        "17 Coq theorems (coq/Properties/C04.v) about the single left-to-right sweep of support_iter, for every "
        "well-formed timeline (what C01 proves every Timeline iterates), every collar and every precision eps >= 0: "
        "outputs strictly sorted and separated by more than max(eps, collar-1) (so exactly the gaps that are empty at "
        "the precision or strictly shorter than the collar are bridged), bounds are original bounds, every original "
        "lies in exactly one output, nothing is lost and anything gained lies in a bridged gap, idempotence; at "
        "eps = 0, collar = 0: the support is THE canonical decomposition (uniqueness proved), absorbs covered "
        "segments, and duration() equals the number of covered unit cells; for every eps, measure <= duration() <= measure + eps per member.",
        "Trusted: Coq kernel + vm_compute; model of support_iter/support/duration in coq/Model/Timeline.v; harness. "
        "Measure equality is exact at eps = 0; for eps > 0 the structural theorems and the two-sided measure bound hold and the K4/K1 "
        "correspondence compares exactly.",
        "Coq proof (custom induction principle over the sweep, canonical-form uniqueness) + exhaustive small-scope correspondence",
        "DESIGN.md 4/C04"),
    "C05": (
        "15 Coq theorems (coq/Properties/C05.v): co_iter equals the plain nested comprehension over intersecting "
        "pairs (the SortedList range query loses nothing), each pair once, chronological; crop in loose / strict / "
        "intersection mode characterised by membership against the regions of support(S); the returns_mapping dict "
        "lists exactly the originals that produced each piece; Timeline support == its support(), Segment support == "
        "one-segment timeline, empty support gives empty result; all for every eps >= 0.",
        "Trusted: Coq kernel + vm_compute; model of co_iter/crop_iter/crop in coq/Model/Timeline.v; harness. "
        "Annotation.co_iter is proved exact and duplicate-free in the annotation model as well.",
        "Coq proof (list induction, filter algebra) + exhaustive small-scope correspondence",
        "DESIGN.md 4/C05"),
    "C06": (
        "20 Coq theorems (coq/Properties/C06.v). Exact at eps = 0 in terms of covered unit cells: gaps(S) is canonical "
        "and covers exactly S minus the timeline; crop(S) and gaps(S) partition S; gaps twice = support of crop; "
        "extrude in intersection mode covers exactly timeline minus R, loose keeps exactly the segments with no cell "
        "in R, strict exactly those with some cell outside R; covers(other) iff every cell of other is covered. For every "
        "precision eps >= 0 (the default microsecond included): every reported gap is longer than eps, inside the support and disjoint from "
        "every piece of the merged crop; every time point of the support is annotated, in a reported gap, or in a sliver no longer "
        "than eps (Segment and Timeline supports); covers(other) iff no reported gap intersects a member of other; extrude in each mode = "
        "crop on the reported gaps of `removed` within the extent with loose and strict swapped.",
        "Trusted: Coq kernel + vm_compute; model of gaps_iter/gaps/extrude/covers in coq/Model/Timeline.v; harness. "
        "Cell-exact forms at eps = 0; interval forms up to slivers no longer than eps for every eps.",
        "Coq proof (canonical decompositions, cell-wise reasoning) + exhaustive small-scope correspondence",
        "DESIGN.md 4/C06"),
    "C10": (
        "17 Coq theorems (coq/Properties/C10.v). Exact at eps = 0: segmentation() covers exactly the covered cells, its "
        "pieces are pairwise non-overlapping, bounded by original bounds with no original bound strictly inside, and "
        "every original segment is the union of the pieces it contains; Timeline.get_overlap() is the canonical "
        "decomposition of the cells covered by two distinct segments. For every precision eps >= 0: pieces longer than eps, bounded by "
        "consecutive original bounds, inside the merged support, disjoint, covering each original up to stretches no longer than eps; "
        "Timeline.get_overlap and Annotation.get_overlap sound (shared time or a bridged gap <= eps) and complete (every pairwise "
        "intersection longer than eps - of tracks with different labels for annotations - is reported).",
        "Trusted: Coq kernel + vm_compute; model of segmentation/get_overlap in coq/Model/Timeline.v; harness. "
        "Annotation.get_overlap is tied by the correspondence and its theorem is added with the annotation model.",
        "Coq proof (sorted distinct boundaries, canonical decompositions) + exhaustive small-scope correspondence",
        "DESIGN.md 4/C10"),
}


CLAIMED.update({
    "C02": (
        "16 Coq theorems (coq/Properties/C02.v): the model mirrors annotation.py (ground-truth track map, cached per-label "
        "timelines with dirty flags, cached segment timeline with its flag). C02_invariant_in_every_reachable_state proves, "
        "by induction over arbitrary operation lists on any number of objects with reads interleaved anywhere, the "
        "dirty-flag invariant AInv; the read theorems show that labels(), label_timeline() (hence label_support / "
        "label_duration / chart) and get_timeline() of any state satisfying AInv equal what is computed from scratch from "
        "the track map, carry the current uri and leave the track map unchanged; empty segments are never stored "
        "(finding F2 refuted as a theorem about the old constructor). Tied by write/read histories checked in Coq.",
        "Trusted: Coq kernel + vm_compute; model coq/Model/Annotation.v (Python dicts as insertion-ordered association "
        "lists, SortedDict as a segment-sorted list); harness. labels() order is proved as a set (membership + NoDup); its "
        "str-sorted order and itertracks order are tied exactly by the correspondence for names with distinct str(). "
        "from_df is run through pandas and compared with from_records (modelled, not proved).",
        "Coq proof (invariant by induction over histories + refinement of reads to from-scratch functions) + history correspondence",
        "DESIGN.md 4/C02"),
    "C07": (
        "14 Coq theorems (coq/Properties/C07.v): loose/strict = restriction of the track map, uri/modality carried, extrude = "
        "crop on the complement with modes swapped, intersection mode = exactly one (s & r, label) track per original track "
        "and intersecting support region (multiset equality by Permutation, invariant preserved, names never overwritten), "
        "and per label crop time + extrude time = original time (exact on unit cells at eps = 0). The correspondence "
        "compares crop / extrude in the three modes exactly for loose/strict and, for intersection mode, by the "
        "order-independent specification: same (piece, label) multiset, distinct track names per piece, every requested "
        "original name in use.",
        "Trusted: Coq kernel + vm_compute; model coq/Model/AnnotationOps.v (crop, new_track, extrude as coded); harness.",
        "Coq proof (fold invariants, Permutation of track contents, pigeonhole, unit-cell measure) + correspondence with a boolean specification evaluated in Coq",
        "DESIGN.md 4/C07"),
    "C08": (
        "7 Coq theorems (coq/Properties/C08.v). Purity half, on the value model: every read query refreshes caches yet "
        "leaves track map, uri and modality unchanged, keeps the invariant and does not change the answer of any later "
        "read. Independence half, on an abstract heap (cells = mutable containers): separation of source and derived "
        "object at derivation time plus a footprint discipline of every mutator call implies, for every later history of "
        "mutator calls on either side, that the other side's content is unchanged (frame theorem; fails without "
        "separation). The two premises are facts about the code and are observed on every case: identities of all "
        "reachable dict/list/set/SortedDict/SortedList/Timeline/Annotation objects after each derivation and after the "
        "mutations, and full snapshots of the untouched side, for every deriving operation x cache state x mutated side.",
        "Trusted: Coq kernel; models; harness (snapshots through the public API; container identities by a generic walk "
        "over __dict__ / dict / list / set contents, harness/heaputil.py). The premises of the frame theorem are checked "
        "per explored case, not proved of the code.",
        "Coq proof (purity on the value model; frame theorem for independence) + per-case observation of separation and derive-then-mutate histories",
        "DESIGN.md 4/C08"),
    "C09": (
        "11 Coq theorems (coq/Properties/C09.v): support(collar) holds exactly one track per label in use and segment of that "
        "label's timeline support(collar) (Permutation; track names distinct by injectivity of the bijective base-26 words), "
        "label_duration = measure of the union, chart sorted / complete / duplicate-free, argmax maximal with and without "
        "support, matrix entries and transpose. The correspondence compares support(collar) as (segment, label) "
        "sets with distinct track names, label durations and the co-occurrence matrix exactly, chart and argmax through "
        "their boolean specifications (ties free).",
        "Trusted: Coq kernel + vm_compute; model coq/Model/AnnotationOps.v; harness (percent=True fractions are checked in "
        "the driver in floating point).",
        "Coq proof (invariants, Permutation, permutation-invariant sums) + correspondence evaluated in Coq",
        "DESIGN.md 4/C09"),
    "C11": (
        "16 Coq theorems (coq/Properties/C11.v): rename_labels gives every track mapping.get(label, label) exactly once "
        "(swap and chain corollaries), keeps segments, track names, uri, modality, in place or on a copy, and keeps the "
        "C02 invariant; subset(L) / subset(L, invert=True) keep exactly the tracks whose label is / is not in L and "
        "partition the annotation; rename_tracks keeps every (segment, label) with the k-th track named by the k-th generated "
        "value, relabel_tracks keeps every (segment, track) with the k-th label, generated mappings follow labels() order, "
        "generated values pairwise distinct (string and int generators, and user-supplied iterables holding enough values without repetition; one that runs dry makes the call fail).",
        "Trusted: Coq kernel + vm_compute; model; harness.",
        "Coq proof + correspondence evaluated in Coq",
        "DESIGN.md 4/C11"),
    "C12": (
        "Theorems in coq/Properties/C12.v (see file header); the correspondence compares ==, != on perturbed / shuffled "
        "copies, the record / dataframe / timeline round trips, and RTTM / LAB / UEM lines and str(segment) as strings "
        "against the Text model (exact decimal rounding of dyadic times).",
        "Trusted: Coq kernel + vm_compute; model coq/Model/Text.v; harness; pandas paths are run, not modelled.",
        "Coq proof (partial, see Properties/C12.v) + string-level correspondence evaluated in Coq",
        "DESIGN.md 4/C12"),
    "C13": (
        "15 Coq theorems (coq/Properties/C13.v). Exact level on rationals: nearest within half a unit, on-grid values "
        "unchanged, no drift under any number of re-wrappings, operations keep grid bounds, monotone, congruent; the old "
        "truncating formula refuted (finding F1). The binary64 evaluation (math.floor(x / P + 0.5) * P) is modelled with "
        "Coq primitive floats and tied bit-for-bit (float.hex) for n = 0..6; and, over the reals with Flocq's binary64 rounding, "
        "proved to stay within half a grid unit of the requested value plus 8 * 2^-53 * (|x| + P) + 2^-1072 * (P + 1) for every input, "
        "to return bounds already on the float grid (up to 2^40 ticks) unchanged - no drift, rounding twice = once - and to be monotone; "
        "the primitive-float model evaluated by the correspondence is proved equal to that real expression when nothing overflows.",
        "Trusted: Coq kernel, its vm_compute and primitive-float operations; model coq/Model/Precision.v; harness. The seven binary64 "
        "theorems rely on the standard library's real-number axioms (ClassicalDedekindReals.sig_not_dec, sig_forall_dec, "
        "functional_extensionality_dep, Classical_Prop.classic) and model IEEE arithmetic by Flocq's round; the two link theorems also use the "
        "standard library's specification axioms of the primitive floats and 63-bit integers (FloatAxioms, Uint63).",
        "Coq proof (exact arithmetic) + bit-exact float correspondence evaluated in Coq",
        "DESIGN.md 4/C13"),
    "C14": (
        "18 Coq theorems (coq/Properties/C14.v), 16 on the exact (tick-aligned) tier: constructor validation, positions, "
        "iteration = positions 0..N-1 with N = ceil((end-start)/step), len() = N wherever closest_frame(end) lands, "
        "closest_frame nearest and inverse of the centre, range_to_segment tiling, __call__ positions and the align_last "
        "flush condition. Decimal (non-dyadic) parameters are tied by a tolerance tier of the correspondence (exact integers in 2^-130 s), not proved.",
        "Trusted: Coq kernel + vm_compute; model coq/Model/Window.v (exact quotients; DESIGN 2.4); harness.",
        "Coq proof (Z division lemmas, lia/nia) + exhaustive small-geometry correspondence",
        "DESIGN.md 4/C14"),
    "C15": (
        "14 Coq theorems (coq/Properties/C15.v): loose = frames touching the focus, strict = frames inside it, strict "
        "subset of loose, center by definition of closest_frame, fixed count = samples, index array = range, Timeline "
        "focus = increasing duplicate-free union over support segments, empty focus empty; return_ranges = separated half-open "
        "runs describing exactly the same index set (merge rule proved set-preserving from monotonicity of the per-segment ranges); "
        "binary64 level: the float quotient behind each index is within 8 * 2^-53 relative of the exact one (justifies the tolerance tier).",
        "Trusted: Coq kernel + vm_compute; model coq/Model/Window.v; harness. The binary64 theorem relies on the standard library's "
        "real-number axioms (sig_not_dec, sig_forall_dec, functional_extensionality_dep, classic) and models IEEE arithmetic by Flocq's round.",
        "Coq proof + exhaustive small-geometry correspondence",
        "DESIGN.md 4/C15"),
    "C16": (
        "7 Coq theorems (coq/Properties/C16.v) on abstract rows: without fixed exactly the requested rows that exist, in "
        "bounds; with fixed exactly b - a rows with clamped indices; cropped window start; iteration and extent. ufuncs, "
        "align and >2-D data are asserted by the driver (modelled, not proved). Known finding F5 recorded.",
        "Trusted: Coq kernel + vm_compute; model coq/Model/Feature.v; harness.",
        "Coq proof + correspondence evaluated in Coq",
        "DESIGN.md 4/C16"),
    "C17": (
        "17 Coq theorems (coq/Properties/C17.v): the centre rule for ranges, the assembled discretize matrix (window, frame count, "
        "label order, entry = 1 iff the frame is in a centre-mode range of the label's support, clipping never wraps), the "
        "one_hot_encoding matrix (-1 outside the support, saturation, refusal of a missing label), decode error bounds and the "
        "refutation of the one-step claim (F7). The correspondence checks discretize and one_hot_encoding "
        "against the model exactly and against the centre rule as a boolean specification, and one_hot_decoding against "
        "the model; known finding F7 (decoded offsets up to 1.5 step late) is recognised by a dedicated verdict code; "
        "finding F11 (negative slice bound) fixed.",
        "Trusted: Coq kernel + vm_compute; model coq/Model/Discretize.v; harness.",
        "Coq proof (rounding lemmas by nia, range-merge invariants) + correspondence with boolean specification evaluated in Coq",
        "DESIGN.md 4/C17"),
    "C19": (
        "14 Coq theorems (coq/Properties/C19.v): int_generator, pairwise, string_generator as the filtered stream of "
        "words (skip honoured, order kept), new_track returns the candidate when free else a fresh name = prefix + least "
        "free integer (pigeonhole proved), random_subsegment inside its source for every draw u in [0,1); the words are the bijective "
        "base-26 numerals (value i + 1, capitals only) hence never collide. to_annotation and random_segment are tied only.",
        "Trusted: Coq kernel + vm_compute; models coq/Model/Generators.v, AnnotationOps.v; harness (np.random.random is "
        "replaced by a stub returning k/1024 so that model and implementation see the same draw).",
        "Coq proof + correspondence evaluated in Coq",
        "DESIGN.md 4/C19"),
    "C20": (
        "25 Coq theorems (coq/Properties/C20.v): to_condensed symmetric, rejects the diagonal, numbers pairs in row-major "
        "order 0..n(n-1)/2-1 strictly increasingly; to_squared inverse both ways (exact integer square root); pdist layout "
        "at to_condensed positions, cdist entries, metric definitions; propagate_constraints returns exactly the pairs "
        "implied by closing the cannot-link pairs under the must-link equivalence (sound and complete), raises exactly when a "
        "must-link group contains a cannot-link pair, and never exhausts the model's fuel (non-degenerate input pairs; "
        "degenerate ones tied only). l2_normalize: proved over the reals (unit norm, entries = original / norm, zero rows unchanged; "
        "real-number axioms) and checked numerically on floats within 4 ulp by the driver; the binary64 evaluation of to_squared (float sqrt, "
        "truncation) is proved to return exactly the model's indices for every n <= 2^20.",
        "Trusted: Coq kernel + vm_compute; model coq/Model/Condensed.v (exact arithmetic; the float sqrt of to_squared is "
        "tied up to n = 10^7 at row starts/ends); harness running under python3-vt with the repository files loaded "
        "through a synthetic package. The l2_normalize and binary64 to_squared theorems rely on the standard library's real-number axioms "
        "(sig_not_dec, sig_forall_dec, functional_extensionality_dep).",
        "Coq proof (nia over Z) + exhaustive/sampled correspondence",
        "DESIGN.md 4/C20"),
})

NOT_YET = "check not built yet in this round (planned: see DESIGN.md section 8)"


def main():
    checks = []
    for pid in ALL:
        if pid not in CLAIMED:
            continue
        text, note, tech, ref = CLAIMED[pid]
        checks.append({
            "property_id": pid,
            "quick_cmd": f"./check {pid} --tier quick",
            "thorough_cmd": f"./check {pid} --tier thorough",
            "evidence_file": f"/verif/evidence/{pid}.json",
            "replay_cmd_template": f"./check {pid} --replay {{path}}",
            "engine": "coq-correspondence",
            "level_claimed": {"category": "proof", "text": text, "design_ref": ref},
            "level_note": note,
            "technique": tech,
        })
    man = {
        "version": 1,
        "setup_cmd": "cd /verif/coq && coq_makefile -f _CoqProject -o Makefile && make -j16",
        "hooks": {
            "guard": "PYANNOTE_CORE_VERIF",
            "enable": "no source hooks: every observation goes through the public API; checks import /repo via PYTHONPATH=/repo",
            "baseline_off_cmd": "cd /repo && /venv/bin/python -m pytest -ra -q -p no:cacheprovider --timeout=900 --continue-on-collection-errors",
            "source_commits": [],
            "add_only": True,
        },
        "engines": [{
            "name": "coq-correspondence", "path": "/verif/check",
            "serves_properties": sorted(CLAIMED),
            "kind_free_text": "Coq 8.16 theorems about a hand-written Gallina model + correspondence check: the "
                              "implementation's outputs are encoded as Coq terms and a Gallina checker is evaluated by coqc",
        }],
        "checks": checks,
        "notes": "fix: commits in /repo are listed in known_findings.json (status fixed); see DESIGN.md section 5",
        "not_applicable": [{"property_id": p, "reason": NOT_YET} for p in ALL if p not in CLAIMED],
    }
    json.dump(man, open(os.path.join(VERIF, "MANIFEST.json"), "w"), indent=1)


if __name__ == "__main__":
    main()
