#!/usr/bin/env python3
"""Regenerates /verif/MANIFEST.json from the table below (kept valid at all times)."""
import json
import os

VERIF = os.path.dirname(os.path.dirname(os.path.abspath(__file__)))
ALL = [f"C{i:02d}" for i in range(1, 21)]

# property -> (level text, level note, technique, design_ref)
CLAIMED = {
    "C03": (
        "31 Coq theorems (coq/Properties/C03.v) state the whole interval algebra for all segments over Z ticks and "
        "every precision eps >= 0 (duration identity exact at eps = 0, within eps otherwise); all closed under the "
        "global context. The model is tied to /repo on every run by evaluating the Gallina checker (vm_compute) on "
        "the implementation's outputs: all pairs/triples of a 6-point grid in three time regimes plus random "
        "wide-range triples.",
        "Trusted: Coq kernel + vm_compute; hand-written model coq/Model/Segment.v; Python harness (runs /repo, exact "
        "float->tick conversion, term printing). Float arithmetic is exact on the grids used; arbitrary reals enter "
        "through their order type. Segment.middle is tied but not part of any theorem.",
        "Coq proof (lia over Z) + model/implementation correspondence evaluated in Coq",
        "DESIGN.md 4/C03"),
    "C01": (
        "20 Coq theorems (coq/Properties/C01.v): the model keeps the three containers of timeline.py separately; "
        "C01_history_refines_set proves by induction over arbitrary operation lists (any number of registers, reads "
        "interleaved anywhere) that every reachable object is in step (set = sorted list, boundaries = sorted multiset "
        "of all bounds, members non-empty) and holds exactly the mathematical set obtained by replaying the history; "
        "the read theorems derive iteration order, len, bool, in, t[k], index, ==, !=, timeline-in-timeline and extent "
        "from that set. Tied to /repo by operation histories with full read-backs checked in Coq.",
        "Trusted: Coq kernel + vm_compute; model coq/Model/Timeline.v part 1 (Python set modelled as its canonical "
        "sorted duplicate-free list; SortedList.add/remove as bisect-right insert / first-occurrence removal); harness. "
        "Timeline.__init__ is exercised with lists and generators of segments only; uri is not constrained by C01.",
        "Coq proof (invariant + refinement to a mathematical set, induction over histories) + history correspondence evaluated in Coq",
        "DESIGN.md 4/C01"),
    "C18": (
        "6 Coq theorems (coq/Properties/C18.v): for every strictly sorted timeline and every t, overlapping(t) is the "
        "order-preserving filter by start <= t <= end (also stated for every reachable Timeline object of C01); the "
        "pre-repair query is characterised exactly (it lost precisely the members starting at t) and refuted by a "
        "vm_compute witness (finding F9, fixed in /repo). Tied to /repo on all small timelines x every tick.",
        "Trusted: Coq kernel + vm_compute; model of overlapping_iter in coq/Model/Timeline.v (the repaired scan); harness.",
        "Coq proof (list induction) + exhaustive small-scope correspondence evaluated in Coq",
        "DESIGN.md 4/C18"),
    "C04": (
        "15 Coq theorems (coq/Properties/C04.v) about the single left-to-right sweep of support_iter, for every "
        "well-formed timeline (what C01 proves every Timeline iterates), every collar and every precision eps >= 0: "
        "outputs strictly sorted and separated by more than max(eps, collar-1) (so exactly the gaps that are empty at "
        "the precision or strictly shorter than the collar are bridged), bounds are original bounds, every original "
        "lies in exactly one output, nothing is lost and anything gained lies in a bridged gap, idempotence; at "
        "eps = 0, collar = 0: the support is THE canonical decomposition (uniqueness proved), absorbs covered "
        "segments, and duration() equals the number of covered unit cells.",
        "Trusted: Coq kernel + vm_compute; model of support_iter/support/duration in coq/Model/Timeline.v; harness. "
        "Measure statements are exact at eps = 0; for eps > 0 the structural theorems hold and the K4/K1 "
        "correspondence compares exactly.",
        "Coq proof (custom induction principle over the sweep, canonical-form uniqueness) + exhaustive small-scope correspondence",
        "DESIGN.md 4/C04"),
    "C05": (
        "13 Coq theorems (coq/Properties/C05.v): co_iter equals the plain nested comprehension over intersecting "
        "pairs (the SortedList range query loses nothing), each pair once, chronological; crop in loose / strict / "
        "intersection mode characterised by membership against the regions of support(S); the returns_mapping dict "
        "lists exactly the originals that produced each piece; Timeline support == its support(), Segment support == "
        "one-segment timeline, empty support gives empty result; all for every eps >= 0.",
        "Trusted: Coq kernel + vm_compute; model of co_iter/crop_iter/crop in coq/Model/Timeline.v; harness. "
        "Annotation.co_iter is tied and stated in the annotation model (see C07/C09 files) once built.",
        "Coq proof (list induction, filter algebra) + exhaustive small-scope correspondence",
        "DESIGN.md 4/C05"),
    "C06": (
        "9 Coq theorems (coq/Properties/C06.v), exact at eps = 0 in terms of covered unit cells: gaps(S) is canonical "
        "and covers exactly S minus the timeline; crop(S) and gaps(S) partition S; gaps twice = support of crop; "
        "extrude in intersection mode covers exactly timeline minus R, loose keeps exactly the segments with no cell "
        "in R, strict exactly those with some cell outside R; covers(other) iff every cell of other is covered.",
        "Trusted: Coq kernel + vm_compute; model of gaps_iter/gaps/extrude/covers in coq/Model/Timeline.v; harness. "
        "For eps > 0 (K4, K1 regimes) the tie compares implementation and model exactly but the cell-level theorems are "
        "stated at eps = 0 only (DESIGN 2.2).",
        "Coq proof (canonical decompositions, cell-wise reasoning) + exhaustive small-scope correspondence",
        "DESIGN.md 4/C06"),
    "C10": (
        "6 Coq theorems (coq/Properties/C10.v), exact at eps = 0: segmentation() covers exactly the covered cells, its "
        "pieces are pairwise non-overlapping, bounded by original bounds with no original bound strictly inside, and "
        "every original segment is the union of the pieces it contains; Timeline.get_overlap() is the canonical "
        "decomposition of the cells covered by two distinct segments.",
        "Trusted: Coq kernel + vm_compute; model of segmentation/get_overlap in coq/Model/Timeline.v; harness. "
        "Annotation.get_overlap is tied by the correspondence and its theorem is added with the annotation model.",
        "Coq proof (sorted distinct boundaries, canonical decompositions) + exhaustive small-scope correspondence",
        "DESIGN.md 4/C10"),
}

NOT_YET = "check not built yet in this round (planned: see DESIGN.md section 8)"


def main():
    checks = []
    for pid in ALL:
        if pid not in CLAIMED:
            continue
        text, note, tech, ref = CLAIMED[pid]
        checks.append({
            "property_id": pid,
            "quick_cmd": f"./check {pid} --tier quick",
            "thorough_cmd": f"./check {pid} --tier thorough",
            "evidence_file": f"/verif/evidence/{pid}.json",
            "replay_cmd_template": f"./check {pid} --replay {{path}}",
            "engine": "coq-correspondence",
            "level_claimed": {"category": "proof", "text": text, "design_ref": ref},
            "level_note": note,
            "technique": tech,
        })
    man = {
        "version": 1,
        "setup_cmd": "cd /verif/coq && coq_makefile -f _CoqProject -o Makefile && make -j16",
        "hooks": {
            "guard": "PYANNOTE_CORE_VERIF",
            "enable": "no source hooks: every observation goes through the public API; checks import /repo via PYTHONPATH=/repo",
            "baseline_off_cmd": "cd /repo && /venv/bin/python -m pytest -ra -q -p no:cacheprovider --timeout=900 --continue-on-collection-errors",
            "source_commits": [],
            "add_only": True,
        },
        "engines": [{
            "name": "coq-correspondence", "path": "/verif/check",
            "serves_properties": sorted(CLAIMED),
            "kind_free_text": "Coq 8.16 theorems about a hand-written Gallina model + correspondence check: the "
                              "implementation's outputs are encoded as Coq terms and a Gallina checker is evaluated by coqc",
        }],
        "checks": checks,
        "notes": "fix: commits in /repo are listed in known_findings.json (status fixed); see DESIGN.md section 5",
        "not_applicable": [{"property_id": p, "reason": NOT_YET} for p in ALL if p not in CLAIMED],
    }
    json.dump(man, open(os.path.join(VERIF, "MANIFEST.json"), "w"), indent=1)


if __name__ == "__main__":
    main()
