"""C16: SlidingWindowFeature.crop, iteration, extent, ufuncs, align."""
import itertools

from harness import enc, gen
from harness.timebase import TB, REGIMES
from harness.tlutil import mk_sup, enc_sup

PROP = "C16"
CHECK_MODULE = "Check.C16"
COQ_IMPORTS = "Model.Feature"
SHARD = 300
MODES = {"loose": "ALoose", "strict": "AStrict", "center": "ACenter"}
RULE = ("[also: ufuncs with thirteen kinds of scalar operand on either side] " +
        "features with n = 1..12 rows of dimension 2-D / 3-D / 4-D whose first entry encodes the row index, windows "
        "with duration, step in 1..3 ticks and start in -1..1: every focus segment with bounds in -8..n*step+8 "
        "(sampled in quick) left of, right of, straddling either end of, or covering the data, timeline focuses of up "
        "to 3 segments, each mode, fixed in {None, 0, duration, duration+step, duration+3*step+1} (long enough for >= 0 "
        "frames); return_data=False on segment focuses; iteration, extent, NumPy ufuncs and align(self) asserted in "
        "the driver; crops on decimal windows judged in the driver against the window crop (rows = selected indices that exist, edge rows repeated with fixed, return_data=False window start); decimal windows (10 ms / 25 ms, 0.1, 0.3, 1/3 s ...) with 1..60 rows (sampled in quick): align(self) identity, align to a feature of another length, iteration count; regime K0; non-trivial = some requested frame lies outside the data")


def generate(rng, tier):
    cases = []
    regime = "K0"
    for d, s, st in itertools.product(range(1, 4), range(1, 4), range(-1, 2)):
        for n in ([1, 2, 5, 12] if tier != "thorough" else range(1, 13)):
            hi = n * s + 8
            focuses = [[a, b] for a in range(-8, hi) for b in range(a, hi + 1)]
            for f in rng.sample(focuses, 60 if tier == "thorough" else 12):
                m = rng.choice(list(MODES))
                fixed = rng.choice([None, None, d, d + s, d + 3 * s + 1, 0])
                cases.append({"k": "crop", "regime": regime, "dur": d, "step": s, "start": st, "n": n,
                              "focus": ["seg", f], "mode": m, "fixed": fixed, "ndim": rng.choice([2, 3, 4])})
                cases.append({"k": "cropwin", "regime": regime, "dur": d, "step": s, "start": st, "n": n,
                              "focus": f, "mode": m})
            # focuses shorter than a window, at and around both edges of the data (inverted strict ranges)
            lo_, hi_ = st, st + n * s
            edge = [[a, a + ln] for a in (lo_ - 1, lo_, lo_ + 1, lo_ + s, hi_ - d, hi_ - 1, hi_, hi_ + 1) for ln in range(0, d + 1)]
            for f in (edge if tier == "thorough" else rng.sample(edge, min(len(edge), 10))):
                m = rng.choice(list(MODES))
                cases.append({"k": "crop", "regime": regime, "dur": d, "step": s, "start": st, "n": n,
                              "focus": ["seg", f], "mode": "strict" if rng.random() < 0.6 else m, "fixed": None, "ndim": 2})
                cases.append({"k": "cropwin", "regime": regime, "dur": d, "step": s, "start": st, "n": n,
                              "focus": f, "mode": "strict" if rng.random() < 0.6 else m})
            for _ in range(12 if tier == "thorough" else 3):
                tl = [[a, a + rng.randrange(0, 6)] for a in (rng.randrange(-8, hi) for _ in range(rng.randrange(0, 4)))]
                cases.append({"k": "crop", "regime": regime, "dur": d, "step": s, "start": st, "n": n,
                              "focus": ["tl", tl], "mode": rng.choice(list(MODES)), "fixed": None, "ndim": 2})
            cases.append({"k": "iter", "regime": regime, "dur": d, "step": s, "start": st, "n": n})
    # frames no longer than the time precision (regime K4: frames of up to eps = 4 ticks, i.e. at most a microsecond):
    # such frame segments are "empty", iteration still pairs every row with its position
    for regime, durs in (("K4", (1, 2, 3, 4, 5)),):
        for d in durs:
            for n in (1, 2, 5, 9):
                cases.append({"k": "iter", "regime": regime, "dur": d, "step": rng.choice([1, 2, d]), "start": rng.choice([0, 3, -2]), "n": n})
    # decimal window parameters (the library default is 25 ms / 10 ms), every feature length up to 60 and some longer
    for step, dur in ((0.01, 0.025), (0.1, 0.1), (0.3, 0.5), (0.016, 0.02), (1 / 3, 1.0), (0.02, 0.02)):
        for n in (list(range(1, 61)) + [97, 128, 333] if tier == "thorough" else rng.sample(range(1, 61), 14) + [57, 97]):
            cases.append({"k": "alignf", "regime": "K0", "step": step.hex(), "dur": dur.hex(),
                          "start": rng.choice([0.0, 0.0, 0.5, -0.37, 12.34]).hex(), "n": n, "m": rng.choice([1, 2, 7, 14, 28, 56, 33])})
    # crops on decimal windows: the rows returned are those whose index the window crop selects and that exist
    for _ in range(2500 if tier == "thorough" else 300):
        step = rng.choice([0.01, 0.02, 0.016, 0.1, 0.3, 0.005])
        dur = step * rng.choice([1, 2, 2.5, 3])
        start = rng.choice([0.0, 0.0, 0.5, -0.37, 12.34])
        n = rng.choice([1, 2, 7, 30, 57, 120])
        a_ = start + round(rng.uniform(-20 * step, (n + 20) * step), rng.choice([1, 2, 3]))
        b_ = a_ + round(rng.uniform(0, (n + 10) * step), rng.choice([1, 2, 3]))
        cases.append({"k": "cropf", "regime": "K0", "step": float(step).hex(), "dur": float(dur).hex(), "start": float(start).hex(),
                      "n": n, "focus": [float(a_).hex(), float(b_).hex()], "mode": rng.choice(list(MODES)),
                      "fixed": rng.choice([None, None, float(round(rng.uniform(0, 40 * step), 2)).hex()]),
                      "as_tl": rng.random() < 0.3})
    kinds = {}
    for c in cases:
        kinds[c["k"]] = kinds.get(c["k"], 0) + 1
    return {"cases": cases, "meta": {"exhaustive": False, "kinds": kinds}}


def _feature(tb, case, ndim=2):
    import numpy as np
    from pyannote.core import SlidingWindow, SlidingWindowFeature
    n = case["n"]
    shape = {2: (n, 3), 3: (n, 2, 2), 4: (n, 2, 1, 2)}[ndim]
    per = 1
    for x in shape[1:]:
        per *= x
    data = np.arange(n * per, dtype=float).reshape(shape)
    w = SlidingWindow(duration=tb.t(case["dur"]), step=tb.t(case["step"]), start=tb.t(case["start"]))
    return SlidingWindowFeature(data, w, labels=["l%d" % i for i in range(shape[1])]), per


def _rows(arr, per, shape_tail):
    import numpy as np
    arr = np.asarray(arr)
    assert arr.shape[1:] == shape_tail, (arr.shape, shape_tail)
    out = []
    for row in arr:
        flat = row.reshape(-1)
        k = int(flat[0]) // per
        assert list(flat) == [float(k * per + j) for j in range(per)]
        out.append(k)
    return out


def run(case):
    import numpy as np
    from pyannote.core import SlidingWindowFeature, Segment, SlidingWindow
    tb = TB(case["regime"])
    tb.enter()
    try:
        k = case["k"]
        if k == "crop":
            f, per = _feature(tb, case, case["ndim"])
            focus = mk_sup(tb, case["focus"])
            kw = {} if case["fixed"] is None else {"fixed": tb.t(case["fixed"])}
            before = f.data.copy()
            r = f.crop(focus, mode=case["mode"], **kw)
            assert (f.data == before).all()
            return {"obs": _rows(r, per, f.data.shape[1:])}
        if k == "cropwin":
            f, per = _feature(tb, case)
            focus = tb.S(case["focus"])
            nrows = len(f.crop(focus, mode=case["mode"]))
            try:
                r = f.crop(focus, mode=case["mode"], return_data=False)
            except IndexError:
                return {"obs": None, "ok": True, "nrows": nrows}
            ok = isinstance(r, SlidingWindowFeature) and r.sliding_window.step == f.sliding_window.step \
                and r.sliding_window.duration == f.sliding_window.duration and r.labels == f.labels
            return {"obs": [_rows(r.data, per, f.data.shape[1:]), tb.u(r.sliding_window.start)], "ok": bool(ok), "nrows": nrows}
        if k == "cropf":
            from pyannote.core import Timeline
            fl = float.fromhex
            n = case["n"]
            w = SlidingWindow(duration=fl(case["dur"]), step=fl(case["step"]), start=fl(case["start"]))
            data = np.arange(n * 2, dtype=float).reshape((n, 2))
            f = SlidingWindowFeature(data, w, labels=["a", "b"])
            seg = Segment(fl(case["focus"][0]), fl(case["focus"][1]))
            focus = Timeline([seg, Segment(seg.end + 5 * w.step, seg.end + 9 * w.step)]) if case["as_tl"] else seg
            kw = {} if case["fixed"] is None or case["as_tl"] else {"fixed": fl(case["fixed"])}
            got = np.asarray(f.crop(focus, mode=case["mode"], **kw))
            idx = [int(i) for i in w.crop(focus, mode=case["mode"], **kw)]
            if kw:
                want = data[[min(max(i, 0), n - 1) for i in idx]]          # out-of-range frames repeat the edge rows
                ok = len(idx) == w.samples(kw["fixed"], mode=case["mode"])
            else:
                want = data[[i for i in idx if 0 <= i < n]]
                ok = True
            ok = ok and got.shape == want.shape and bool((got == want).all()) and bool((f.data == data).all())
            if not kw and len(want) and not case["as_tl"]:
                r = f.crop(focus, mode=case["mode"], return_data=False)
                first = [i for i in idx if 0 <= i < n][0]
                ok = ok and isinstance(r, SlidingWindowFeature) and r.sliding_window.step == w.step \
                    and r.sliding_window.duration == w.duration and r.labels == f.labels \
                    and abs(r.sliding_window.start - w[first].start) <= 1e-9 and bool((np.asarray(r.data) == want).all())
            return {"ok": bool(ok), "nrows": int(len(want))}
        if k == "alignf":
            fl = float.fromhex
            n, m = case["n"], case["m"]
            mk = lambda rows: SlidingWindowFeature(
                np.arange(rows * 3, dtype=float).reshape((rows, 3)) ** 2 / 7.0,
                SlidingWindow(duration=fl(case["dur"]), step=fl(case["step"]), start=fl(case["start"])), labels=["a", "b", "c"])
            f, g = mk(n), mk(m)
            al = f.align(f)
            ok = isinstance(al, SlidingWindowFeature) and al.data.shape == f.data.shape \
                and bool(np.allclose(al.data, f.data, rtol=1e-9, atol=1e-9)) and al.labels == f.labels \
                and al.sliding_window.step == f.sliding_window.step and al.sliding_window.start == f.sliding_window.start
            # aligned to another feature on the same window: one row per frame of the target, equal to the source's
            # rows where both have the frame
            ag = f.align(g)
            k_ = min(n, m)
            ok = ok and ag.data.shape == (m, 3) and bool(np.allclose(ag.data[:k_], f.data[:k_], rtol=1e-9, atol=1e-9))
            ok = ok and len(list(f)) == n and len(f) == n and np.sqrt(f).data.shape == f.data.shape
            return {"ok": bool(ok)}
        if k == "iter":
            f, per = _feature(tb, case)
            for _k, _x in enumerate(f):      # an iteration abandoned after two frames: the next one restarts at frame 0
                if _k == 1:
                    break
            next(iter(f), None)
            it = [[_rows([row], per, f.data.shape[1:])[0], tb.us(seg)] for seg, row in f]
            it2 = [[_rows([row], per, f.data.shape[1:])[0], tb.us(seg)] for row, seg in f.iterfeatures(window=True)]
            ok = it == it2 and len(list(f.iterfeatures())) == len(f) == case["n"] and f.dimension == 3
            ext = f.extent
            g = np.sqrt(f)
            h = f + 1
            a2 = np.add(f, f)
            # the other operand as every kind of scalar (Python numbers, NumPy scalars of every width), either side
            scal = []
            for sc in (2, 2.0, True, np.int64(2), np.int32(2), np.intp(2), np.uint8(2), np.int8(2), np.float64(2), np.float32(2),
                       np.float16(2), np.array(2), np.array(2.0, dtype=np.float32)):
                scal += [(f * sc, f.data * sc), (sc * f, sc * f.data), (np.maximum(f, sc), np.maximum(f.data, sc))]
            for x, expect in [(g, np.sqrt(f.data)), (h, f.data + 1), (a2, f.data * 2)] + scal:
                ok = ok and isinstance(x, SlidingWindowFeature) and x.sliding_window is f.sliding_window \
                    and x.labels == f.labels and bool((x.data == expect).all())
            # two iterations alive at once (a feature and a ufunc result, which share the window object; the window
            # itself walked meanwhile): each pairs row i with position i. (A feature is its own iterator, so nested
            # loops over the SAME feature object restart each other - existing behaviour the property does not cover.)
            both = list(zip(f, g))
            ok = ok and len(both) == case["n"] and all(s1 == s2 == f.sliding_window[i] for i, ((s1, _r1), (s2, _r2)) in enumerate(both))
            seen = []
            wi = iter(f.sliding_window)
            for i, (s1, _r1) in enumerate(f):
                next(wi, None)
                seen.append(s1 == f.sliding_window[i])
            ok = ok and len(seen) == case["n"] and all(seen)
            al = f.align(f)
            ok = ok and isinstance(al, SlidingWindowFeature) and al.sliding_window is f.sliding_window \
                and bool(np.array_equal(al.data, f.data)) and al.labels == f.labels
            return {"obs": [[i, s] for i, s in it], "extent2": [tb.u(ext.start, 2), tb.u(ext.end, 2)], "ok": bool(ok)}
    finally:
        tb.leave()


def encode(case, o):
    e = enc
    if case["k"] in ("alignf", "cropf"):
        return f"KDriver {e.z(case['n'])} {e.b(o['ok'])}"
    eps = REGIMES[case["regime"]]["eps"]
    geo = f"{e.z(case['dur'])} {e.z(case['step'])} {e.z(case['start'])} {e.z(case['n'])}"
    k = case["k"]
    if k == "crop":
        return (f"KCrop {e.z(eps)} {geo} {enc_sup(case['focus'])} {MODES[case['mode']]} {e.opt(case['fixed'], e.z)} "
                f"{e.zs(o['obs'])}")
    if k == "cropwin":
        ob = "None" if o["obs"] is None else f"(Some ({e.zs(o['obs'][0])},{e.z(o['obs'][1])}))"
        return f"KCropWin {geo} {e.seg(case['focus'])} {MODES[case['mode']]} {ob} {e.b(o['ok'])}"
    if k == "iter":
        obs = e.lst([e.pair(e.z(i), e.opt(s, e.seg)) for i, s in o["obs"]])
        return f"KIter {geo} {obs} {e.seg(o['extent2'])} {e.b(o['ok'])}"


def nontrivial(case, o):
    if case["k"] == "crop":
        f = case["focus"]
        segs = [f[1]] if f[0] == "seg" else f[1]
        hi = case["start"] + case["n"] * case["step"]
        return any(s[0] < case["start"] or s[1] > hi for s in segs)
    return True


def known_match(entry, case, obs, code):
    # F5: crop(..., return_data=False) raises IndexError when no frame is kept
    return entry.get("id") == "F5" and case.get("k") == "cropwin" and isinstance(obs, dict) \
        and obs.get("obs") is None and obs.get("nrows") == 0


def shrink(case):
    if case["k"] == "crop" and case["focus"][0] == "tl":
        for s in gen.shrink_segs(case["focus"][1]):
            yield {**case, "focus": ["tl", s]}
    if case["k"] == "crop" and case.get("fixed") is not None and case["fixed"] > 0:
        yield {**case, "fixed": case["fixed"] - 1}
    if case["n"] > 1:
        yield {**case, "n": case["n"] - 1}
