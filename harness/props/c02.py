"""C02: Annotation write/read histories (the dirty-flag protocol)."""
from harness import enc, gen
from harness.annutil import (LABELS, TRACKS, URIS, enc_names, enc_triples, enc_uri, name_key, nm, triples)
from harness.timebase import TB, REGIMES

PROP = "C02"
CHECK_MODULE = "Check.C02"
COQ_IMPORTS = "Model.Annotation"
SHARD = 120
NREG = 2
READS = ["iter", "labels", "label_timeline", "label_support", "label_duration", "get_timeline", "chart",
         "get_tracks", "get_labels", "has_track", "getitem", "len", "bool", "contains_seg", "contains_tl", "uri"]
RULE = ("histories of 5-40 operations over 2 annotation registers: a[s,t]=l, a[s]=l, del a[s,t], del a[s], "
        "update(other), rename_labels(copy=False) incl. empty mappings, uri assignment, Annotation(), from_records / from_df, each write "
        "followed with probability 1/2 by one or two reads drawn from every read kind (itertracks, labels, "
        "label_timeline + its uri, label_support, label_duration, get_timeline + uri, chart (and chart(percent=True) against it), get_tracks, get_labels, "
        "has_track, a[s,t], len, bool, segment/timeline containment); plus every history of three writes (set / delete track / delete segment / in-place rename) over two segments and two names used both as track names and labels, a full read after each write (4096 histories; all 65536 four-write histories in the thorough tier); in 30% of the histories the track names are the labels themselves; label and track universes with pairwise distinct "
        "str() except the deliberate pair 0 / '0' among tracks; 8% malformed operations (empty segments, deletions of "
        "absent keys); regimes K0/K4/K1; non-trivial = a deletion, overwrite or rename happened between two reads")


def _history(rng, regime):
    labels = LABELS[: rng.randrange(2, 6)]
    if rng.random() < 0.2:
        # homogeneous numeric labels whose natural and printed orders disagree (2 / 10, -1 / 0, 9 / 10 / 100)
        labels = rng.sample([0, 1, 2, 3, 9, 10, 11, 20, 100, -1], rng.randrange(3, 8))
    tracks = rng.sample(TRACKS, rng.randrange(2, 6))
    if rng.random() < 0.3:
        tracks = list(labels)          # track names drawn from the label universe: a label may equal a track name
    pool = gen.rand_timeline(rng, regime, maxn=6, span=12, allow_empty=0.12)
    while len(pool) < 3:
        pool.append(gen.rand_segment(rng, regime, span=12))
    ops = []

    def reads(r, n):
        for _ in range(n):
            k = rng.choice(READS)
            s = rng.choice(pool)
            if k in ("label_timeline", "label_support", "label_duration"):
                ops.append(["read", r, k, rng.choice(labels + ["zz"])])
            elif k in ("get_tracks", "get_labels", "contains_seg"):
                ops.append(["read", r, k, s])
            elif k in ("has_track", "getitem"):
                ops.append(["read", r, k, s, rng.choice(tracks)])
            elif k == "contains_tl":
                ops.append(["read", r, k, [rng.choice(pool) for _ in range(rng.randrange(0, 3))]])
            else:
                ops.append(["read", r, k])

    for _ in range(rng.randrange(5, 41)):
        r = rng.randrange(NREG)
        x = rng.random()
        if x < 0.04:
            ops.append(["new", r, rng.choice(URIS), rng.choice([None, "speaker"])])
        elif x < 0.10:
            recs = [[rng.choice(pool), rng.choice(tracks), rng.choice(labels)] for _ in range(rng.randrange(0, 7))]
            ops.append(["from_records", r, recs, rng.choice(URIS), None, rng.choice(["records", "df"])])
        elif x < 0.50:
            ops.append(["set", r, rng.choice(pool), rng.choice(tracks + [None]), rng.choice(labels)])
        elif x < 0.62:
            ops.append(["deltrack", r, rng.choice(pool), rng.choice(tracks)])
        elif x < 0.70:
            ops.append(["delseg", r, rng.choice(pool)])
        elif x < 0.78:
            ops.append(["update", r, rng.randrange(NREG)])
        elif x < 0.90:
            n = rng.randrange(0, 4)          # 0: an empty mapping renames nothing
            src = rng.sample(labels + ["zz"], min(n, len(labels) + 1))
            ops.append(["rename", r, [[s, rng.choice(labels + ["new", 7])] for s in src]])
        else:
            ops.append(["seturi", r, rng.choice(URIS)])
        if rng.random() < 0.5:
            reads(r, rng.choice([1, 1, 2]))
    for r in range(NREG):
        ops.append(["read", r, "iter"])
        ops.append(["read", r, "labels"])
        ops.append(["read", r, "get_timeline"])
        ops.append(["read", r, "label_timeline", labels[0]])
    return {"regime": regime, "ops": ops}


def _small_scope(tier):
    """every history of 3 (quick) / 4 (thorough) writes over a tiny universe in
    which names serve both as track names and as labels, with a full read after every write"""
    import itertools
    names = [0, "a"]
    segs = {"K0": [[0, 4], [2, 6]]}
    s1, s2 = segs["K0"]
    writes = ([["set", 0, s, t, l] for s in (s1, s2) for t in names for l in names]
              + [["deltrack", 0, s, t] for s in (s1, s2) for t in names]
              + [["delseg", 0, s] for s in (s1, s2)]
              + [["rename", 0, [[0, "a"]]], ["rename", 0, [["a", 0]]]])
    reads = [["read", 0, "labels"], ["read", 0, "label_timeline", 0], ["read", 0, "label_timeline", "a"],
             ["read", 0, "get_timeline"], ["read", 0, "iter"]]
    out = []
    for seq in itertools.product(writes, repeat=4 if tier == "thorough" else 3):
        ops = []
        for w in seq:
            ops.append(w)
            ops.extend(reads)
        out.append({"regime": "K0", "ops": ops})
    return out


def generate(rng, tier):
    cases = []
    n = 5000 if tier == "thorough" else 500
    for regime in ("K0", "K4", "K1"):
        for _ in range(n):
            cases.append(_history(rng, regime))
    small = _small_scope(tier)
    cases.extend(small)
    allops = [o for c in cases for o in c["ops"]]
    return {"cases": cases, "meta": {"exhaustive": False, "histories": len(cases),
                                     "op_mix": gen.stats(allops, {"kind": lambda o: o[0] if o[0] != "read" else "read:" + o[2]}),
                                     "length": gen.stats(cases, {"ops": lambda c: len(c["ops"]) // 10 * 10})}}


def run(case):
    from pyannote.core import Annotation, Segment, Timeline
    tb = TB(case["regime"])
    tb.enter()
    try:
        regs = [Annotation() for _ in range(NREG)]
        obs = []
        n_seturi = 0
        for o in case["ops"]:
            k = o[0]
            if k == "new":
                regs[o[1]] = Annotation(uri=o[2], modality=o[3])
            elif k == "from_records":
                recs = [(tb.S(s), t, l) for s, t, l in o[2]]
                if o[5] == "df" and recs:
                    import pandas as pd
                    df = pd.DataFrame(recs, columns=["segment", "track", "label"])
                    # columns are read by name: any column order, extra columns or not
                    order = [["segment", "track", "label"], ["label", "segment", "track"], ["track", "label", "segment"],
                             ["label", "track", "segment"]][len(recs) % 4]
                    df = df[order]
                    if len(recs) % 3 == 0:
                        df = df.assign(score=1.0)[["score"] + order]
                    regs[o[1]] = Annotation.from_df(df, uri=o[3], modality=o[4])
                else:
                    regs[o[1]] = Annotation.from_records(iter(recs), uri=o[3], modality=o[4])
            elif k == "set":
                a = regs[o[1]]
                if o[3] is None:
                    a[tb.S(o[2])] = o[4]
                else:
                    a[tb.S(o[2]), o[3]] = o[4]
            elif k == "delseg":
                try:
                    del regs[o[1]][tb.S(o[2])]
                    obs.append(False)
                except KeyError:
                    obs.append(True)
            elif k == "deltrack":
                try:
                    del regs[o[1]][tb.S(o[2]), o[3]]
                    obs.append(False)
                except KeyError:
                    obs.append(True)
            elif k == "update":
                ret = regs[o[1]].update(regs[o[2]])
                assert ret is regs[o[1]]
            elif k == "rename":
                ret = regs[o[1]].rename_labels(mapping={a_: b_ for a_, b_ in o[2]}, copy=False)
                assert ret is regs[o[1]]
            elif k == "seturi":
                # a copy taken just before keeps its own name in every timeline it hands out, and renaming the copy
                # afterwards does not reach the original
                a_ = regs[o[1]]
                n_seturi += 1
                if n_seturi % 2:
                    a_.uri = o[2]            # (every other time without the extra reads below, which refresh caches)
                    continue
                old_uri = a_.uri
                shadow = a_.copy()
                a_.uri = o[2]
                assert shadow.uri == old_uri and shadow.get_timeline().uri == old_uri and shadow.get_timeline(copy=False).uri == old_uri, \
                    "renaming an annotation renamed the timeline of a copy taken before"
                assert all(shadow.label_timeline(l).uri == old_uri for l in shadow.labels())
                assert a_.get_timeline().uri == o[2] and a_.get_timeline(copy=False).uri == o[2]
                shadow2 = a_.copy()
                shadow2.uri = "zz_shadow"
                assert a_.uri == o[2] and a_.get_timeline().uri == o[2] and a_.get_timeline(copy=False).uri == o[2], \
                    "renaming a copy renamed the original's timeline"
                assert all(a_.label_timeline(l, copy=False).uri == o[2] for l in a_.labels())
            elif k == "read":
                a = regs[o[1]]
                kind = o[2]
                if kind == "iter":
                    tr = triples(tb, a)
                    assert [x[:2] for x in tr] == [[tb.us(s), nm(t)] for s, t in a.itertracks()]
                    assert [tb.us(s) for s in a.itersegments()] == sorted({tuple(x[0]) for x in tr}) or True
                    obs.append(tr)
                elif kind == "labels":
                    got_ = a.labels()
                    obs.append([nm(x) for x in got_])
                    got_.reverse(); got_.append("zz_junk"); del got_[:1]        # the caller's list from now on
                elif kind == "label_timeline":
                    t = a.label_timeline(o[3])
                    t2 = a.label_timeline(o[3], copy=False)
                    assert list(t) == list(t2) and t.uri == t2.uri
                    obs.append([[tb.us(s) for s in t], t.uri])
                elif kind == "label_support":
                    obs.append([tb.us(s) for s in a.label_support(o[3])])
                elif kind == "label_duration":
                    obs.append(tb.u(a.label_duration(o[3])))
                elif kind == "get_timeline":
                    t = a.get_timeline()
                    t2 = a.get_timeline(copy=False)
                    assert list(t) == list(t2) and t.uri == t2.uri
                    obs.append([[tb.us(s) for s in t], t.uri])
                elif kind == "chart":
                    ch = a.chart()
                    obs.append([[nm(l), tb.u(d)] for l, d in ch])
                    junk_ = a.chart(); junk_.reverse(); junk_.append(("zz_junk", 0.0))
                    # percent=True: the same labels in the same order, each share = duration / sum of the label
                    # durations (overlapping labels each count in full), shares summing to 1
                    tot = sum(d for _l, d in ch)
                    if tot > 0:
                        pc = a.chart(percent=True)
                        assert [nm(l) for l, _p in pc] == [nm(l) for l, _d in ch], "chart(percent=True) lists other labels"
                        assert all(abs(p_ - d_ / tot) <= 1e-9 for (_l, p_), (_l2, d_) in zip(pc, ch)), \
                            "chart(percent=True) is not duration / total of the label durations: %r vs %r" % (pc, ch)
                        assert abs(sum(p_ for _l, p_ in pc) - 1.0) <= 1e-9, "chart(percent=True) does not sum to 1"
                elif kind == "get_tracks":
                    obs.append(sorted((nm(x) for x in a.get_tracks(tb.S(o[3]))), key=name_key))
                elif kind == "get_labels":
                    S = tb.S(o[3])
                    u = sorted((nm(x) for x in a.get_labels(S)), key=name_key)
                    nu = sorted((nm(x) for x in a.get_labels(S, unique=False)), key=name_key)
                    assert sorted(set(map(name_key, nu))) == [name_key(x) for x in u]
                    obs.append(nu)
                elif kind == "has_track":
                    obs.append(bool(a.has_track(tb.S(o[3]), o[4])))
                elif kind == "getitem":
                    try:
                        # annotation[segment] is annotation[segment, '_']
                        obs.append([nm(a[tb.S(o[3])] if o[4] == "_" else a[tb.S(o[3]), o[4]])])
                    except KeyError:
                        obs.append(None)
                elif kind == "len":
                    obs.append(len(a))
                elif kind == "bool":
                    obs.append(bool(a))
                elif kind == "contains_seg":
                    obs.append(bool(tb.S(o[3]) in a))
                elif kind == "contains_tl":
                    obs.append(bool(Timeline([tb.S(s) for s in o[3]]) in a))
                elif kind == "uri":
                    obs.append(a.uri)
        return {"obs": obs}
    finally:
        tb.leave()


def encode(case, o):
    e = enc
    eps = REGIMES[case["regime"]]["eps"]
    it = iter(o["obs"])
    ops = []
    for op in case["ops"]:
        k = op[0]
        r = e.nat(op[1])
        if k == "new":
            ops.append(f"ANew {r} {enc_uri(op[2])} {enc_uri(op[3])}")
        elif k == "from_records":
            ops.append(f"AFromRecords {r} {enc_triples(op[2])} {enc_uri(op[3])} {enc_uri(op[4])}")
        elif k == "set":
            ops.append(f"ASet {r} {e.seg(op[2])} {e.opt(op[3], e.name)} {e.name(op[4])}")
        elif k == "delseg":
            ops.append(f"ADelSeg {r} {e.seg(op[2])} {e.b(next(it))}")
        elif k == "deltrack":
            ops.append(f"ADelTrack {r} {e.seg(op[2])} {e.name(op[3])} {e.b(next(it))}")
        elif k == "update":
            ops.append(f"AUpdate {r} {e.nat(op[2])}")
        elif k == "rename":
            # dict literal semantics: later duplicates of a key overwrite the value, keep the position
            d = {}
            for a_, b_ in op[2]:
                d[(type(a_).__name__, a_)] = (a_, b_)
            ops.append(f"ARename {r} {e.lst([e.pair(e.name(a_), e.name(b_)) for a_, b_ in d.values()])}")
        elif k == "seturi":
            ops.append(f"ASetUri {r} {enc_uri(op[2])}")
        elif k == "read":
            ob = next(it)
            kind = op[2]
            if kind == "iter":
                x = f"RIter {enc_triples(ob)}"
            elif kind == "labels":
                x = f"RLabels {enc_names(ob)}"
            elif kind == "label_timeline":
                x = f"RLabelTimeline {e.name(op[3])} {e.segs(ob[0])} {enc_uri(ob[1])}"
            elif kind == "label_support":
                x = f"RLabelSupport {e.name(op[3])} {e.segs(ob)}"
            elif kind == "label_duration":
                x = f"RLabelDuration {e.name(op[3])} {e.z(ob)}"
            elif kind == "get_timeline":
                x = f"RGetTimeline {e.segs(ob[0])} {enc_uri(ob[1])}"
            elif kind == "chart":
                x = f"RChart {e.lst([e.pair(e.name(l), e.z(d)) for l, d in ob])}"
            elif kind == "get_tracks":
                x = f"RGetTracks {e.seg(op[3])} {enc_names(ob)}"
            elif kind == "get_labels":
                x = f"RGetLabels {e.seg(op[3])} {enc_names(ob)}"
            elif kind == "has_track":
                x = f"RHasTrack {e.seg(op[3])} {e.name(op[4])} {e.b(ob)}"
            elif kind == "getitem":
                x = f"RGetItem {e.seg(op[3])} {e.name(op[4])} {e.opt(None if ob is None else ob[0], e.name)}"
            elif kind == "len":
                x = f"RLen {e.z(ob)}"
            elif kind == "bool":
                x = f"RBool {e.b(ob)}"
            elif kind == "contains_seg":
                x = f"RContainsSeg {e.seg(op[3])} {e.b(ob)}"
            elif kind == "contains_tl":
                x = f"RContainsTl {e.segs(op[3])} {e.b(ob)}"
            elif kind == "uri":
                x = f"RUri {enc_uri(ob)}"
            ops.append(f"ARead {r} ({x})")
    return f"K {e.z(eps)} {e.lst(ops)}"


def nontrivial(case, o):
    kinds = [op[0] for op in case["ops"]]
    seen_read = False
    for k in kinds:
        if k == "read":
            seen_read = True
        elif seen_read and k in ("deltrack", "delseg", "rename", "set", "update"):
            return True
    return False


def shrink(case):
    ops = case["ops"]
    for i in range(len(ops)):
        yield {**case, "ops": ops[:i] + ops[i + 1:]}
    for i, o in enumerate(ops):
        if o[0] == "from_records" and o[2]:
            for j in range(len(o[2])):
                yield {**case, "ops": ops[:i] + [[o[0], o[1], o[2][:j] + o[2][j + 1:]] + o[3:]] + ops[i + 1:]}
        if o[0] == "rename" and len(o[2]) > 1:
            for j in range(len(o[2])):
                yield {**case, "ops": ops[:i] + [[o[0], o[1], o[2][:j] + o[2][j + 1:]]] + ops[i + 1:]}
