"""C11: rename_labels / rename_tracks / relabel_tracks / subset."""
from harness import enc, gen
from harness.annutil import assert_independent, enc_names, enc_triples, mk_ann, nm, rand_records, triples, LABELS
from harness.props.c07 import enc_oann, _oann
from harness.timebase import TB, REGIMES

PROP = "C11"
CHECK_MODULE = "Check.C11"
COQ_IMPORTS = "Model.AnnotationOps Check.AnnCommon"
SHARD = 150
RULE = ("(annotation, mapping, copy flag, generator, label subset): mappings that are partial, permuting (swaps and "
        "3-cycles), merging two labels into one, chained (a->b, b->c), mentioning absent labels, mapping onto existing "
        "labels; generators 'string', 'int' and explicit iterables; subsets incl. absent labels and the empty set; "
        "observed: result records, labels(), uri/modality, the receiver's records after the call, the caller's mapping left as given, the same call with the mapping held in a defaultdict / dict subclass with __missing__ / OrderedDict / mappingproxy / ChainMap, caller-owned name iterators (list iterator and generator object) drained after the call; regimes K0/K1; "
        "non-trivial = the mapping touches at least two present labels")


def _mapping(rng, labels):
    k = rng.randrange(6)
    ls = list(labels)
    rng.shuffle(ls)
    if k == 0 and len(ls) >= 2:
        return [[ls[0], ls[1]], [ls[1], ls[0]]]                       # swap
    if k == 1 and len(ls) >= 3:
        return [[ls[0], ls[1]], [ls[1], ls[2]], [ls[2], ls[0]]]       # cycle
    if k == 2 and len(ls) >= 2:
        return [[ls[0], ls[1]]]                                       # merge onto existing
    if k == 3 and len(ls) >= 2:
        return [[ls[0], ls[1]], [ls[1], "new"]]                       # chain
    if k == 4:
        return [["absent", ls[0]], [ls[0], "z9"]]                     # absent source
    return [[l, rng.choice(LABELS + ["new", 7])] for l in ls[: rng.randrange(0, len(ls) + 1)]]


def generate(rng, tier):
    cases = []
    n = 5000 if tier == "thorough" else 700
    for regime in ("K0", "K1"):
        for _ in range(n):
            labels = LABELS[: rng.randrange(1, 6)]
            if rng.random() < 0.3:
                # labels that look like generated names (the output of an earlier normalisation)
                labels = rng.sample(["A", "B", "C", "D", 0, 1, 2], rng.randrange(1, 5)) + labels[:1]
            elif rng.random() < 0.2:
                # numeric labels whose numeric and printed orders disagree (2 / 10, 9 / 10 / 11, 100 / 20)
                labels = rng.sample([0, 1, 2, 3, 9, 10, 11, 20, 100, -1], rng.randrange(2, 8))
            recs = rand_records(rng, regime, nseg=rng.choice([1, 2, 4, 6] if len(labels) < 5 else [6, 9, 12]), span=12,
                                labels=labels)
            ntr = len(recs) + 3
            g = rng.choice([["string"], ["int"], ["list", [rng.choice(["g%d" % i, 100 + i]) for i in range(ntr)]]])
            sub = rng.sample(labels + ["absent"], rng.randrange(0, len(labels) + 1))
            cases.append({"regime": regime, "recs": recs, "mapping": _mapping(rng, labels), "copy": rng.random() < 0.5,
                          "gen": g, "subset": sub})
    return {"cases": cases, "meta": {"exhaustive": False,
                                     "sizes": gen.stats(cases, {"n_records": lambda c: len(c["recs"]),
                                                                "mapping_size": lambda c: len(c["mapping"]),
                                                                "gen": lambda c: c["gen"][0]})}}


def _gen(g):
    if g[0] == "list":
        return iter(list(g[1]))
    return g[0]


def run(case):
    tb = TB(case["regime"])
    tb.enter()
    try:
        mk = lambda: mk_ann(tb, case["recs"], "u", "m")
        a = mk()
        if case["copy"] and len(case["recs"]) % 2:
            a.labels()  # some cache state at derivation time
        mapping = {x: y for x, y in case["mapping"]}
        given = list(mapping.items())
        r = a.rename_labels(mapping=mapping, copy=case["copy"])
        assert (r is a) == (not case["copy"])
        # the mapping belongs to the caller (it is typically applied to one file after the other)
        assert list(mapping.items()) == given, "rename_labels edited the caller's mapping: %r -> %r" % (given, list(mapping.items()))
        out = {"renamed": _oann(tb, r), "receiver": triples(tb, a), "renamed_labels": [nm(l) for l in r.labels()]}
        # any mapping type: labels that are not keys are left alone whatever the container does for missing keys
        import collections
        import types

        class _Loud(dict):
            def __missing__(self, key):
                return "zz_missing"
        for what, mp in (("defaultdict", collections.defaultdict(lambda: "zz_default", mapping)), ("dict subclass with __missing__", _Loud(mapping)),
                         ("OrderedDict", collections.OrderedDict(mapping)), ("mappingproxy", types.MappingProxyType(dict(mapping))),
                         ("ChainMap", collections.ChainMap(dict(mapping), {}))):
            r2 = mk().rename_labels(mapping=mp, copy=case["copy"])
            assert _oann(tb, r2) == out["renamed"] and [nm(l) for l in r2.labels()] == out["renamed_labels"], \
                "rename_labels depends on the container type of the mapping (%s)" % what
            assert list(mp.items()) == given, "rename_labels edited the caller's mapping (%s)" % what
        out["generated"] = _oann(tb, mk().rename_labels(generator=_gen(case["gen"])))
        out["rename_tracks"] = _oann(tb, mk().rename_tracks(generator=_gen(case["gen"])))
        out["relabel_tracks"] = _oann(tb, mk().relabel_tracks(generator=_gen(case["gen"])))
        b = mk()
        out["subset"] = _oann(tb, b.subset(list(case["subset"])))
        for arg in (tuple(case["subset"]), iter(list(case["subset"])), (x for x in case["subset"]), dict.fromkeys(case["subset"]).keys()):
            assert _oann(tb, b.subset(arg)) == out["subset"], "subset() depends on the container type of `labels`"
        assert _oann(tb, b.subset(iter(list(case["subset"])), invert=True)) == _oann(tb, b.subset(set(case["subset"]), invert=True))
        out["subset_inv"] = _oann(tb, b.subset(set(case["subset"]), invert=True))
        assert triples(tb, b) == triples(tb, mk())
        # a caller-owned iterator is advanced by exactly one element per name handed out
        if case["gen"][0] == "list":
            pool = list(case["gen"][1])
            for what, f, n_used in (("relabel_tracks", lambda x, g: x.relabel_tracks(generator=g), lambda x: len(list(x.itertracks()))),
                                    ("rename_tracks", lambda x, g: x.rename_tracks(generator=g), lambda x: len(list(x.itertracks()))),
                                    ("rename_labels", lambda x, g: x.rename_labels(generator=g), lambda x: len(x.labels()))):
                for how in ("list iterator", "generator object"):
                    src = mk()
                    it = iter(pool) if how == "list iterator" else (x for x in pool)
                    need = n_used(src)
                    if need <= len(pool):
                        f(src, it)
                        left = list(it)       # the caller goes on drawing from its own iterator (not closed, not advanced further)
                        assert left == pool[need:], f"{what} left {left!r} in the caller's {how} after taking {need} of {pool!r}"
        # every result that is promised to be a new annotation is independent of its source (checked last: it edits both)
        assert_independent(tb, r, a, "rename_labels(mapping)")
        for what, f in (("rename_labels(generator)", lambda x: x.rename_labels(generator=_gen(case["gen"]))),
                        ("rename_tracks", lambda x: x.rename_tracks(generator=_gen(case["gen"]))),
                        ("relabel_tracks", lambda x: x.relabel_tracks(generator=_gen(case["gen"]))),
                        ("subset", lambda x: x.subset(list(case["subset"]))),
                        ("subset(invert)", lambda x: x.subset(set(case["subset"]), invert=True))):
            src = mk()
            assert_independent(tb, f(src), src, what)
        return out
    finally:
        tb.leave()


def encode(case, o):
    e = enc
    eps = REGIMES[case["regime"]]["eps"]
    d = {}
    for a_, b_ in case["mapping"]:
        d[(type(a_).__name__, a_)] = (a_, b_)
    mp = e.lst([e.pair(e.name(a_), e.name(b_)) for a_, b_ in d.values()])
    g = case["gen"]
    gg = "GString" if g[0] == "string" else "GInt" if g[0] == "int" else f"(GList {enc_names(g[1])})"
    return (f"K {e.z(eps)} {enc_triples(case['recs'])} {mp} {e.b(case['copy'])} {gg} {enc_names(case['subset'])} "
            f"{enc_oann(o['renamed'])} {enc_triples(o['receiver'])} {enc_names(o['renamed_labels'])} "
            f"{enc_oann(o['generated'])} {enc_oann(o['rename_tracks'])} {enc_oann(o['relabel_tracks'])} "
            f"{enc_oann(o['subset'])} {enc_oann(o['subset_inv'])}")


def nontrivial(case, o):
    present = {(type(r[2]).__name__, r[2]) for r in case["recs"]}
    return sum(1 for a_, _ in case["mapping"] if (type(a_).__name__, a_) in present) >= 2


def shrink(case):
    recs = case["recs"]
    for i in range(len(recs)):
        yield {**case, "recs": recs[:i] + recs[i + 1:]}
    m = case["mapping"]
    for i in range(len(m)):
        yield {**case, "mapping": m[:i] + m[i + 1:]}
    for i in range(len(case["subset"])):
        yield {**case, "subset": case["subset"][:i] + case["subset"][i + 1:]}
