"""C06: Timeline.gaps, extrude (three modes), covers."""
import itertools

from harness import enc, gen
from harness.timebase import TB, REGIMES
from harness.tlutil import mk_tl, segs_of, mk_sup, enc_sup

PROP = "C06"
CHECK_MODULE = "Check.C06"
COQ_IMPORTS = "Model.Timeline"
SHARD = 300
RULE = ("[also: K0 timelines completed with an open-ended segment within an open-ended support (gaps, covers, extrude); copies translated by up to 1.7e9 s] " +
        "(timeline, support for gaps: None/Segment/Timeline, removed region, other timeline): every timeline of <=2 "
        "(quick) / <=3 (thorough) segments x every region of <=2 segments on a 6-point grid (overhanging the extent on "
        "both sides, empty) in K0, a random third in K4/K1, plus random larger ones; observed: gaps, list(gaps_iter), "
        "extrude in three modes, covers both ways; copies translated 2 h, 28 h, 3 d or -8 h 20 min from the origin; non-trivial = non-empty timeline and non-empty region")


def generate(rng, tier):
    cases = []
    k = 3 if tier == "thorough" else 2
    nex = 0
    for regime in ("K0", "K4", "K1"):
        tls = list(gen.small_timelines(regime, k))
        sups = list(gen.small_timelines(regime, 2))
        for t, s in itertools.product(tls, sups):
            if regime != "K0" and rng.random() > (0.34 if tier != "thorough" else 1.0):
                continue
            variants = [(None if not s else ["tl", s]), ]
            if len(s) == 1:
                variants.append(["seg", s[0]])
            for sup in variants:
                rem = ["tl", s] if sup is None or sup[0] == "tl" else sup
                cases.append({"regime": regime, "t": t, "sup": sup, "removed": rem, "other": s})
                nex += 1
        for _ in range(5000 if tier == "thorough" else 500):
            t = gen.rand_timeline(rng, regime)

            def region():
                r = rng.random()
                if r < 0.3:
                    return ["seg", gen.rand_segment(rng, regime, span=50, maxlen=30, allow_empty=0.1)]
                return ["tl", gen.rand_timeline(rng, regime, maxn=5, span=50)]
            sup = None if rng.random() < 0.2 else region()
            cases.append({"regime": regime, "t": t, "sup": sup, "removed": region(),
                          "other": gen.rand_timeline(rng, regime, maxn=5)})
    for regime in ("K0", "K4"):
        for nbig in ([300, 640, 1100] if tier == "thorough" else [290 + 35 * len(regime)]):
            u_ = 5 if regime == "K4" else 1
            big = gen.big_timeline(rng, regime, nbig)
            hi = max(x[1] for x in big)
            reg = lambda k_: ["tl", [[a, a + rng.choice([3, 9, 40]) * u_] for a in sorted(rng.sample(range(0, hi, u_), k_))]]
            cases.append({"regime": regime, "t": big, "sup": rng.choice([None, reg(12)]), "removed": reg(20),
                          "other": gen.big_timeline(rng, regime, 40)})
    cases += gen.decimal_copies(rng, cases, (1500 if tier == "thorough" else 150), lambda c: len(c['t']) < 50)
    cases += gen.p3_copies(rng, cases, ['t', 'sup', 'removed', 'other'], (1000 if tier == "thorough" else 120), lambda c: len(c['t']) < 50)
    cases += gen.far_copies(rng, cases, ['t', 'sup', 'removed', 'other'], (400 if tier == "thorough" else 60))
    return {"cases": cases, "meta": {"exhaustive": True, "small_scope_cases": nex,
                                     "sizes": gen.stats(cases, {"n_t": lambda c: len(c["t"]),
                                                                "sup_kind": lambda c: c["sup"][0] if c["sup"] else "None"})}}


def run(case):
    tb = TB(case["regime"])
    tb.enter()
    try:
        t = mk_tl(tb, case["t"], uri="u")
        o = mk_tl(tb, case["other"])
        sup = mk_sup(tb, case["sup"])
        rem = mk_sup(tb, case["removed"])
        g = t.gaps(support=sup) if sup is not None else t.gaps()
        assert g.uri == "u"
        out = {"gaps": segs_of(tb, g),
               "gaps_iter": segs_of(tb, t.gaps_iter(support=sup) if sup is not None else t.gaps_iter())}
        for m in ("loose", "strict", "intersection"):
            out["ex_" + m] = segs_of(tb, t.extrude(rem, mode=m))
        out["covers"] = bool(t.covers(o))
        out["covers_rev"] = bool(o.covers(t))
        # returned timelines belong to the caller: editing them must not change what the next call returns
        from harness.tlutil import assert_fresh
        assert_fresh(tb, (lambda: t.gaps(support=sup)) if sup is not None else (lambda: t.gaps()), "gaps()")
        assert_fresh(tb, lambda: t.extrude(rem, mode=("loose", "strict", "intersection")[len(case["t"]) % 3]), "extrude()")
        assert segs_of(tb, t.gaps(support=sup) if sup is not None else t.gaps()) == out["gaps"]
        if tb.prec is None and case["regime"] == "K0" and len(case["t"]) < 30:
            # the same timeline completed with an open-ended segment, within an open-ended support: the gaps are those
            # of the finite part up to where the open-ended segment starts; covers and extrude agree
            from pyannote.core import Segment, Timeline
            inf = float("inf")
            mem = list(t)
            lo_ = min([s_.start for s_ in mem] + [0]) - 3
            hi_ = max([s_.end for s_ in mem] + [0]) + 5
            opn = Timeline(mem + [Segment(hi_, inf)])
            want = list(t.gaps(support=Segment(lo_, hi_)))
            got = list(opn.gaps(support=Segment(lo_, inf)))
            assert got == want, "gaps within an open-ended support: %r, expected %r" % (got, want)
            assert bool(opn.covers(Timeline([Segment(lo_, inf)]))) == (not want)
            assert list(Timeline([Segment(lo_, inf)]).extrude(opn, mode="intersection")) == want
            lft = Timeline(mem + [Segment(-inf, lo_)])
            assert list(lft.gaps(support=Segment(-inf, hi_))) == want
        return out
    finally:
        tb.leave()


def encode(case, o):
    e = enc
    eps = REGIMES[case["regime"]]["eps"]
    sup = "None" if case["sup"] is None else f"(Some {enc_sup(case['sup'])})"
    return (f"K {e.z(eps)} {e.segs(case['t'])} {sup} {enc_sup(case['removed'])} {e.segs(case['other'])} "
            f"{e.segs(o['gaps'])} {e.segs(o['gaps_iter'])} {e.segs(o['ex_loose'])} {e.segs(o['ex_strict'])} "
            f"{e.segs(o['ex_intersection'])} {e.b(o['covers'])} {e.b(o['covers_rev'])}")


def nontrivial(case, o):
    return len(case["t"]) >= 1 and bool(case["removed"][1])


def shrink(case):
    for s in gen.shrink_segs(case["t"]):
        yield {**case, "t": s}
    for s in gen.shrink_segs(case["other"]):
        yield {**case, "other": s}
    for key in ("sup", "removed"):
        v = case[key]
        if v and v[0] == "tl":
            for s in gen.shrink_segs(v[1]):
                yield {**case, key: ["tl", s]}
