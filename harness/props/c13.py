"""C13: Segment.set_precision(n) rounds every bound to the nearest grid point, once and for all."""
from fractions import Fraction
import math

from harness import enc

PROP = "C13"
# the binary64 theorems (Properties/C13.v, module Binary64) use the standard library's real numbers
AXIOM_WHITELIST = ["sig_not_dec", "sig_forall_dec", "functional_extensionality_dep", "classic",
                   # kernel primitives (binary64 floats, 63-bit integers) and their specification axioms, declared by the
                   # standard library (Coq.Floats.PrimFloat / FloatAxioms, Coq.Numbers.Cyclic.Int63): used by the link theorem
                   "Prim2SF_SF2Prim", "Prim2SF_valid", "SF2Prim_Prim2SF", "PrimFloat.eqb", "PrimFloat.float", "eqb", "float",
                   "PrimInt63.add", "PrimInt63.eqb", "PrimInt63.int", "PrimInt63.land", "PrimInt63.leb", "PrimInt63.lor",
                   "PrimInt63.lsl", "PrimInt63.lsr", "PrimInt63.ltb", "PrimInt63.sub", "Uint63.add_spec", "Uint63.eqb_correct",
                   "Uint63.eqb_refl", "Uint63.leb_spec", "Uint63.lor_spec", "Uint63.lsl_spec", "Uint63.lsr_spec", "Uint63.ltb_spec",
                   "Uint63.of_to_Z", "Uint63.sub_spec", "abs", "add", "add_spec", "div", "div_spec", "frshiftexp", "ldshiftexp",
                   "ltb", "mul", "mul_spec", "normfr_mantissa", "of_uint63", "of_uint63_spec", "opp", "opp_spec"]
TRUSTED = ["C13_binary64_within_half_unit / C13_rounded_arithmetic_within_half_unit: Coq standard-library axioms of the real numbers "
           "(ClassicalDedekindReals.sig_not_dec, sig_forall_dec), FunctionalExtensionality.functional_extensionality_dep and "
           "Classical_Prop.classic, through Reals and Flocq 4; IEEE-754 binary64 arithmetic modelled by Flocq's round on the reals"]
CHECK_MODULE = "Check.C13"
COQ_IMPORTS = "Model.Precision"
COQ_PRELUDE = "From Coq Require Import PrimFloat."
SHARD = 400
RULE = ("[also: overlaps of 0 / 2 / 3 ticks at every precision and of one tick at precision 0: intersects, & and co_iter agree] " +
        "(n, x): n in 0..6, x signed in a wide range: random doubles, k*10^-n (already rounded, also after float "
        "multiplication), ties k+0.5 units and their float neighbours (nextafter), negative times; observed bit-for-bit "
        "(float.hex): Segment(x, x+1000 units).start, then copy(), s&s, s|s, Timeline([s]).support()[0] and 50 "
        "re-wrappings; |result - x| <= unit/2 checked with fractions; monotonicity and ==/hash on neighbouring inputs; "
        "n = 0 additionally on arbitrary doubles against exact integer arithmetic; set_precision(None) restores "
        "unrounded bounds and the 1e-6 threshold; the rounding still in force while each of thirteen library iterators is suspended, closed or exhausted and after eleven plain queries; non-trivial = x negative or within 1e-9 units of a tie")
TRUSTED = ["Coq primitive floats (binary64 operations of the kernel's evaluator) for the bit-exact float level"]


def generate(rng, tier):
    cases = []
    per_n = 1500 if tier == "thorough" else 180
    for n in range(0, 7):
        P = 10 ** (-n)
        xs = []
        for _ in range(per_n):
            r = rng.random()
            k = rng.randrange(-10 ** rng.randrange(1, 9), 10 ** rng.randrange(1, 9))
            if r < 0.25:
                x = k * P
            elif r < 0.45:
                x = (k + 0.5) * P
                x = rng.choice([x, math.nextafter(x, math.inf), math.nextafter(x, -math.inf)])
            elif r < 0.55:
                x = float(Fraction(k, 10 ** n))
            elif r < 0.65:
                x = rng.choice([0.0, -0.0, P, -P, P / 2, -P / 2, 3 * P / 2, -3 * P / 2])
            else:
                x = rng.uniform(-1, 1) * 10 ** rng.randrange(-3, 6)
            xs.append(float(x))
        for x in xs:
            cases.append({"k": "f", "n": n, "x": x.hex()})
    for _ in range(3000 if tier == "thorough" else 300):
        x = rng.uniform(-1, 1) * 2.0 ** rng.randrange(-5, 40)
        if rng.random() < 0.3:
            x = math.floor(x) + 0.5
        cases.append({"k": "x0", "x": float(x).hex()})
    for n_ in range(0, 7):
        for _ in range(12 if tier == "thorough" else 4):
            cases.append({"k": "stale", "n": n_, "x": float(rng.uniform(-50, 50)).hex()})
    cases.append({"k": "none"})
    # the precision stays in force while a library iterator is suspended half-way, after it was closed, after it was
    # exhausted and after every other query
    for n_ in range(0, 7):
        for _ in range(10 if tier == "thorough" else 3):
            cases.append({"k": "suspended", "n": n_, "x": float(rng.uniform(-50, 50)).hex()})
    # one-tick and two-tick segments on the grid combined with ordinary ones: the operations agree with bool() on what
    # is empty (a one-tick segment is empty iff its float duration does not exceed the precision)
    for n_ in range(0, 7):
        for k_ in list(range(-8, 9)) + [rng.randrange(-5000, 5000) for _ in range(10 if tier == "thorough" else 3)]:
            cases.append({"k": "tick", "n": n_, "x": float(k_).hex()})
    kinds = {}
    for c in cases:
        kinds[c["k"]] = kinds.get(c["k"], 0) + 1
    return {"cases": cases, "meta": {"exhaustive": False, "kinds": kinds}}


def run(case):
    from pyannote.core import Segment, Timeline
    import pyannote.core.segment as S
    k = case["k"]
    try:
        if k == "f":
            n = case["n"]
            x = float.fromhex(case["x"])
            Segment.set_precision(n)
            P = S.SEGMENT_PRECISION
            s = Segment(x, x + 1000 * P)
            r = s.start
            c = s.copy()
            a = s & s
            o = s | s
            sup = Timeline([s]).support()[0] if s else s
            w = s
            for _ in range(50):
                w = Segment(w.start, w.end)
                w = w.copy() & w
            near = abs(Fraction(r) - Fraction(x)) <= Fraction(P) / 2 + abs(Fraction(x)) * Fraction(1, 2 ** 50) + Fraction(P) * Fraction(1, 2 ** 40)
            # monotone and consistent ==/hash on neighbours
            y = math.nextafter(x, math.inf)
            z = x + P / 3
            sy, sz = Segment(y, y + 1000 * P), Segment(z, z + 1000 * P)
            mono = (s.start <= sy.start <= Segment(math.nextafter(y, math.inf), 0).start) and s.start <= sz.start
            eqh = (sy.start != s.start or (Segment(sy.start, 5) == Segment(s.start, 5)
                                           and hash(Segment(sy.start, 5)) == hash(Segment(s.start, 5))))
            # a segment built from raw bounds and one built from the already rounded bounds are the same segment:
            # equal, hash-equal, one element of a set, one member of a timeline, found by `in`
            s2 = Segment(s.start, s.end)
            eqh = eqh and s == s2 and hash(s) == hash(s2) and len({s, s2, sy if sy.start == s.start and sy.end == s.end else s}) == 1 \
                and len(Timeline([s, s2])) == (1 if s else 0) and ((s2 in Timeline([s])) == bool(s))
            return {"P": float(P).hex(), "r": float(r).hex(), "copy": float(c.start).hex(), "and": float(a.start).hex(),
                    "or": float(o.start).hex(), "sup": float(sup.start).hex(), "w": float(w.start).hex(),
                    "near": bool(near), "mono": bool(mono), "eqh": bool(eqh),
                    "end_ok": Segment(s.end, s.end + P).start == s.end}
        if k == "x0":
            x = float.fromhex(case["x"])
            Segment.set_precision(0)
            r = Segment(x, x + 3).start
            assert float(r).is_integer()
            return {"r": int(r)}
        if k == "stale":
            # operands created BEFORE set_precision(n): whatever an operation returns afterwards is on the grid of the
            # precision in force (nested, overlapping and identical operands; &, |, copy)
            n = case["n"]
            x = float.fromhex(case["x"])
            Segment.set_precision(None)
            old = Segment(x + 0.123456789, x + 3.987654321)
            old2 = Segment(x + 1.1111111, x + 7.7777777)
            Segment.set_precision(n)
            big = Segment(x - 100, x + 100)
            ok = True
            for r in (big & old, old & big, old & old, old & old2, old | old2, old | old, old.copy(), big | old):
                again = Segment(r.start, r.end)
                ok = ok and r == again and hash(r) == hash(again) and r.start == again.start and r.end == again.end
            want = Segment(old.start, old.end)
            ok = ok and (big & old) == want and (old & big) == want and (old & old) == want
            return {"ok": bool(ok)}
        if k == "tick":
            n = case["n"]
            kk = int(float.fromhex(case["x"]))
            Segment.set_precision(n)
            P = 10 ** (-n)
            ok = True
            for width in (1, 2):
                a = Segment(kk * P, (kk + width) * P)
                for b in (Segment((kk + 5) * P, (kk + 9) * P), Segment((kk - 9) * P, (kk - 4) * P), Segment((kk - 3) * P, (kk + 6) * P)):
                    hull = Segment(min(a.start, b.start), max(a.end, b.end))
                    if not a:
                        ok = ok and (a | b) == b and (b | a) == b and not (a & b) and a.duration == 0
                        ok = ok and Timeline([a, b]).extent() == b and len(Timeline([a, b])) == 1
                    else:
                        ok = ok and (a | b) == hull and (b | a) == hull and a.duration > 0 and len(Timeline([a, b])) == 2
                        ok = ok and Timeline([a, b]).extent() == hull
                    ok = ok and (a | b) == Segment((a | b).start, (a | b).end)
            # intersects() and the emptiness of & use the same threshold: overlaps of 0 and 2 ticks at every precision,
            # of exactly one tick at precision 0 (integer arithmetic, no float noise)
            for ov, want in ((0, False), (2, True), (3, True)) + (((1, False),) if n == 0 else ()):
                a = Segment(kk * P, (kk + 5) * P)
                b = Segment((kk + 5 - ov) * P, (kk + 11) * P)
                got = (bool(a.intersects(b)), bool(b.intersects(a)), bool(a & b), bool(b & a),
                       len(list(Timeline([a]).co_iter(Timeline([b])))) == 1)
                assert got == (want,) * 5, "overlap of %d tick(s) at precision %d: intersects / & / co_iter say %r" % (ov, n, got)
            return {"ok": bool(ok)}
        if k == "suspended":
            from pyannote.core import Annotation, SlidingWindow
            n = case["n"]
            x = float.fromhex(case["x"])
            Segment.set_precision(n)
            P = S.SEGMENT_PRECISION
            probe = lambda: (lambda q: (q.start, q.end))(Segment(x + 0.123456789, x + 0.123456789 + 1000 * P))
            ref = probe()
            base = math.floor(x)
            segs = [Segment(base + 10 * i * P + 3 * j * P, base + 10 * i * P + 3 * j * P + 20 * P) for i in range(4) for j in range(2)]
            segs += [Segment(base + 500 * P, base + 520 * P), Segment(base + 900 * P, base + 930 * P)]
            t = Timeline(segs)
            t2 = Timeline([Segment(base + 5 * P, base + 15 * P), Segment(base + 505 * P, base + 910 * P)])
            a = Annotation()
            for i_, sg in enumerate(segs):
                a[sg, i_ % 2] = "ab"[i_ % 2]
            big = Segment(base - 100 * P, base + 2000 * P)
            w = SlidingWindow(duration=20 * P, step=10 * P, start=base)
            makers = {
                "iter(timeline)": lambda: iter(t), "support_iter": lambda: t.support_iter(),
                "support_iter(collar)": lambda: t.support_iter(2 * P), "gaps_iter": lambda: t.gaps_iter(big),
                "co_iter": lambda: t.co_iter(t2), "crop_iter": lambda: t.crop_iter(t2, mode="intersection"),
                "crop_iter(mapping)": lambda: t.crop_iter(t2, mode="loose", returns_mapping=True),
                "overlapping_iter": lambda: t.overlapping_iter(base + 12 * P), "itersegments": lambda: a.itersegments(),
                "itertracks": lambda: a.itertracks(yield_label=True), "ann.co_iter": lambda: a.co_iter(a),
                "window": lambda: iter(w(big)), "window.iter": lambda: iter(SlidingWindow(duration=20 * P, step=10 * P, start=base, end=base + 100 * P)),
            }
            bad = []
            for name, mk in makers.items():
                g = mk()
                try:
                    next(g)
                except StopIteration:
                    pass
                if probe() != ref:
                    bad.append(name + " suspended")
                if hasattr(g, "close"):
                    g.close()
                if probe() != ref:
                    bad.append(name + " closed")
                for _ in mk():
                    pass
                if probe() != ref:
                    bad.append(name + " exhausted")
                Segment.set_precision(n)
            for name, f in (("support", lambda: t.support(P)), ("gaps", lambda: t.gaps(big)), ("crop", lambda: t.crop(t2)),
                            ("extrude", lambda: t.extrude(t2)), ("segmentation", lambda: t.segmentation()),
                            ("get_overlap", lambda: t.get_overlap()), ("ann.support", lambda: a.support(P)),
                            ("ann.crop", lambda: a.crop(t2)), ("ann.extrude", lambda: a.extrude(t2)),
                            ("discretize", lambda: a.discretize(big, resolution=10 * P)), ("extent", lambda: t.extent())):
                f()
                if probe() != ref:
                    bad.append(name)
                Segment.set_precision(n)
            assert not bad, "Segment bounds are no longer rounded to the precision in force after / during: " + ", ".join(bad)
            return {"ok": True}
        if k == "none":
            Segment.set_precision(3)
            Segment.set_precision(None)
            x = 0.123456789012
            s = Segment(x, x + 1e-6)
            ok = s.start == x and not bool(Segment(0, 1e-6)) and bool(Segment(0, 1.1e-6)) and S.SEGMENT_PRECISION == 1e-6 \
                and S.AUTO_ROUND_TIME is False and Segment(-x, 2).start == -x
            import importlib
            import pyannote.core
            Segment.set_precision(2)
            importlib.reload(pyannote.core)
            ok = ok and S.AUTO_ROUND_TIME is False
            return {"ok": bool(ok)}
    finally:
        Segment.set_precision(None)


def _f(h):
    x = float.fromhex(h)
    if x == 0.0:
        return "(-0)%float" if math.copysign(1.0, x) < 0 else "0%float"
    return f"({h})%float"


def encode(case, o):
    e = enc
    k = case["k"]
    if k == "f":
        return (f"KF {_f(o['P'])} {_f(case['x'])} {_f(o['r'])} {_f(o['copy'])} {_f(o['and'])} {_f(o['or'])} {_f(o['sup'])} "
                f"{_f(o['w'])} {e.b(o['near'])} {e.b(o['mono'] and o['end_ok'])} {e.b(o['eqh'])}")
    if k == "x0":
        fr = Fraction(float.fromhex(case["x"]))
        return f"KX0 {e.z(fr.numerator)} {e.z(fr.denominator)} {e.z(o['r'])}"
    return f"KNone {e.b(o['ok'])}"


def nontrivial(case, o):
    if case["k"] == "none":
        return True
    return float.fromhex(case["x"]) < 0 or case["k"] == "x0"
