"""C07: Annotation.crop / extrude never lose, duplicate or relabel a track."""
from harness import enc, gen
from harness.annutil import (LABELS, URIS, enc_triples, enc_uri, mk_ann, rand_records, triples)
from harness.timebase import TB, REGIMES
from harness.tlutil import mk_sup, enc_sup

PROP = "C07"
CHECK_MODULE = "Check.C07"
COQ_IMPORTS = "Model.AnnotationOps Check.AnnCommon"
SHARD = 150
RULE = ("(annotation built by successive insertions, support): random annotations with 1-3 tracks per segment, the "
        "same track name on different segments, mixed int/str names incl. 0, '0', 'A', 'B'; supports: random "
        "Segment/Timeline, or the intersection of two overlapping original segments (so that two originals collapse "
        "onto the same piece), or a region cutting several segments; crop and extrude in the three modes; "
        "regimes K0/K4/K1; copies translated 2 h, 28 h, 3 d or -8 h 20 min from the origin; non-trivial = intersection-mode result has a piece shared by two tracks")


def _support(rng, regime, recs):
    segs = [r[0] for r in recs if r[0][1] > r[0][0]]
    x = rng.random()
    if segs and x < 0.45:
        a, b = rng.choice(segs), rng.choice(segs)
        lo, hi = max(a[0], b[0]), min(a[1], b[1])
        if hi > lo:
            s = [lo, hi] if rng.random() < 0.7 else [lo - rng.choice([0, 1]), hi + rng.choice([0, 1])]
            extra = [gen.rand_segment(rng, regime, span=14)] if rng.random() < 0.3 else []
            return ["seg", s] if not extra and rng.random() < 0.5 else ["tl", [s] + extra]
    if x < 0.7:
        return ["seg", gen.rand_segment(rng, regime, span=14, maxlen=10, allow_empty=0.08)]
    return ["tl", gen.rand_timeline(rng, regime, maxn=4, span=14)]


def generate(rng, tier):
    cases = []
    n = 6000 if tier == "thorough" else 700
    for regime in ("K0", "K4", "K1"):
        for _ in range(n):
            recs = rand_records(rng, regime, nseg=rng.choice([2, 3, 4, 6]), span=12)
            cases.append({"regime": regime, "recs": recs, "uri": rng.choice(URIS),
                          "modality": rng.choice([None, "speaker"]), "sup": _support(rng, regime, recs)})
    # collision families: an inner segment [u, e], an outer one containing it (same track name, other label), and a
    # support that cuts the outer one down to exactly [u, e] while leaving the inner one whole - every position of the
    # support piece relative to the inner segment, both insertion orders, str and int track names, a second piece
    import itertools
    unit = {"K0": 1, "K4": 5, "K1": 1}
    for regime in ("K0", "K4", "K1"):
        w = unit[regime]
        for (u, e), (da, db), (pa, pb), tr, order, second in itertools.product(
                [(3, 5), (4, 8)], [(3, 5), (0, 2), (2, 0), (1, 1)], [(0, 0), (0, 1), (1, 0), (0, 4)], ["_", 0, "0"],
                (0, 1), (False, True)):
            inner = [[u * w, e * w], tr, "b"]
            outer = [[(u - da) * w, (e + db) * w], tr, "a"]
            recs = [outer, inner] if order == 0 else [inner, outer]
            pieces = [[(u - pa) * w, (e + pb) * w]]
            if second:
                pieces.append([(e + pb + 2) * w, (e + pb + 4) * w])
                recs.append([[(e + pb + 2) * w, (e + pb + 3) * w], tr, "b"])
            if tier != "thorough" and (da + db + pa + pb) % 2 and regime != "K0":
                continue
            cases.append({"regime": regime, "recs": recs, "uri": "u1", "modality": None, "sup": ["tl", pieces]})
    # many tracks of one name cut down to the same piece (generated names '0' ... '9', '10', '11', ...)
    for regime in ("K0", "K4"):
        w_ = 5 if regime == "K4" else 1
        for nclash in ((3, 10, 11, 12, 13, 14, 21) if tier == "thorough" else (11, 13, 14)):
            for tr in ("_", 0):
                recs = [[[(30 - i) * w_, (40 + i) * w_], tr, LABELS[i % 4]] for i in range(nclash)]
                rng.shuffle(recs)
                if rng.random() < 0.5:
                    recs.append([[30 * w_, 40 * w_], "10", "a"])
                cases.append({"regime": regime, "recs": recs, "uri": "u1", "modality": "m",
                              "sup": ["seg", [30 * w_, 40 * w_]] if rng.random() < 0.5 else ["tl", [[30 * w_, 40 * w_], [90 * w_, 95 * w_]]]})
    cases += gen.decimal_copies(rng, cases, (1500 if tier == "thorough" else 150))
    cases += gen.p3_copies(rng, cases, ['recs', 'sup'], (1000 if tier == "thorough" else 120))
    cases += gen.far_copies(rng, cases, ['recs', 'sup'], (400 if tier == "thorough" else 60))
    return {"cases": cases, "meta": {"exhaustive": False,
                                     "sizes": gen.stats(cases, {"n_records": lambda c: len(c["recs"]),
                                                                "sup_kind": lambda c: c["sup"][0]})}}


def _oann(tb, a):
    return {"recs": triples(tb, a), "uri": a.uri, "modality": a.modality}


def run(case):
    tb = TB(case["regime"])
    tb.enter()
    try:
        a = mk_ann(tb, case["recs"], case["uri"], case["modality"])
        sup = mk_sup(tb, case["sup"])
        out = {}
        for m, k in (("loose", "loose"), ("strict", "strict"), ("intersection", "inter")):
            out[k] = _oann(tb, a.crop(sup, mode=m))
            out["x" + k] = _oann(tb, a.extrude(sup, mode=m))
        # the source is unchanged by the six derivations, and each result is a new annotation: editing it in place
        # leaves the source alone and conversely (one mode per case, chosen from the case)
        from harness.annutil import assert_independent, triples
        assert triples(tb, a) == triples(tb, mk_ann(tb, case["recs"], case["uri"], case["modality"])), "crop / extrude changed their receiver"
        m = ("loose", "strict", "intersection")[len(case["recs"]) % 3]
        src = mk_ann(tb, case["recs"], case["uri"], case["modality"])
        assert_independent(tb, src.crop(sup, mode=m), src, "crop")
        src = mk_ann(tb, case["recs"], case["uri"], case["modality"])
        assert_independent(tb, src.extrude(sup, mode=m), src, "extrude")
        return out
    finally:
        tb.leave()


def enc_oann(o):
    return f"(OA {enc_triples(o['recs'])} {enc_uri(o['uri'])} {enc_uri(o['modality'])})"


def encode(case, o):
    e = enc
    eps = REGIMES[case["regime"]]["eps"]
    return (f"K {e.z(eps)} {enc_triples(case['recs'])} {enc_uri(case['uri'])} {enc_uri(case['modality'])} "
            f"{enc_sup(case['sup'])} {enc_oann(o['loose'])} {enc_oann(o['strict'])} {enc_oann(o['inter'])} "
            f"{enc_oann(o['xloose'])} {enc_oann(o['xstrict'])} {enc_oann(o['xinter'])}")


def nontrivial(case, o):
    segs = [tuple(x[0]) for x in o["inter"]["recs"]]
    return len(segs) != len(set(segs))


def shrink(case):
    recs = case["recs"]
    for i in range(len(recs)):
        yield {**case, "recs": recs[:i] + recs[i + 1:]}
    if case["sup"][0] == "tl":
        for s in gen.shrink_segs(case["sup"][1]):
            yield {**case, "sup": ["tl", s]}
