"""C17: Annotation.discretize, one_hot_encoding, one_hot_decoding."""
from harness import enc, gen
from harness.annutil import enc_names, enc_triples, mk_ann, nm, rand_records, LABELS
from harness.timebase import TB, REGIMES
from harness.tlutil import mk_sup, enc_sup

PROP = "C17"
CHECK_MODULE = "Check.C17"
COQ_IMPORTS = "Model.AnnotationOps Check.AnnCommon Model.Discretize"
SHARD = 100
RULE = ("[also: labels renamed to 77 / '77' give the same one-hot matrix, a list holding only spellings of numeric labels is refused] " +
        "discretize: random annotations (overlapping same-label tracks, 1-3 labels, gaps) on a 60-tick span, support "
        "None / larger / smaller than the extent, resolution a number or a SlidingWindow with duration = 1..5 steps, "
        "optional duration and explicit label lists (permuted, with an absent label), and the falsy-but-valid duration=0, labels=[] and an empty support segment; track-collision families (a support cutting one track down to exactly another segment with the same track name); one_hot_encoding: annotation "
        "cropped to the support, support a Segment or a Timeline with a hole, explicit label lists incl. a missing "
        "label (ValueError), followed by one_hot_decoding of the result; regime K0; discretize also on decimal resolutions (10 ms, 16 ms, 0.3 s ...) and bounds, judged in the driver against the property's clauses with exact rationals (frame count, window, centre rule with its one-step margin), a third of them under Segment.set_precision(1 or 2) with on-tick times on both sides of zero judged against the requested times; non-trivial = at least two "
        "frames active for some label")


def generate(rng, tier):
    cases = []
    n = 4000 if tier == "thorough" else 500
    for _ in range(n):
        labels = LABELS[: rng.randrange(1, 4)]
        recs = rand_records(rng, "K0", nseg=rng.choice([1, 2, 3, 5]), span=60, labels=labels, tracks=["_", "x", 0],
                            allow_empty=0.0)
        recs = [[[2 * s[0], 2 * s[1] + rng.choice([0, 2, 8])], t, l] for s, t, l in recs]
        step = rng.choice([1, 2, 4, 5])
        dur = step * rng.choice([1, 1, 1, 2, 3, 4, 5, 6, 8])
        if recs and rng.random() < 0.25:
            # a short track right at the beginning of the extent (frame ranges with negative bounds)
            lo0 = min(r[0][0] for r in recs)
            recs.append([[lo0, lo0 + rng.choice([1, 2, step])], "y", rng.choice(LABELS[:4])])
        lo = min((r[0][0] for r in recs), default=0)
        hi = max((r[0][1] for r in recs), default=10)
        x = rng.random()
        sup = None if x < 0.35 else [lo - rng.randrange(0, 12), hi + rng.randrange(0, 12)] if x < 0.7 else \
            [lo + rng.randrange(0, 8), max(lo + 9, hi - rng.randrange(0, 8))]
        lab = None if rng.random() < 0.6 else rng.sample(labels + ["zz"], rng.randrange(1, len(labels) + 2))
        duration = None if rng.random() < 0.7 else rng.randrange(1, 80)
        # optional arguments given explicitly with falsy-but-valid values
        y = rng.random()
        if y < 0.04:
            duration = 0
        elif y < 0.08:
            lab = []
        elif y < 0.12:
            sup = [lo + 3, lo + 3]                 # an empty support segment
        cases.append({"k": "disc", "recs": recs, "sup": sup, "dur": dur, "step": step, "labels": lab, "duration": duration,
                      "as_window": dur != step or rng.random() < 0.3})
    # collision families: a support that cuts a long track of one label down to exactly a segment that carries another
    # label under the same track name; both labels must still be marked on the frames well inside the support
    import itertools
    for (u, e), (da, db), tr, order, step, lab in itertools.product(
            [(20, 36), (8, 40)], [(10, 12), (5, 0), (0, 8)], ["_", 0], (0, 1), (1, 2, 4), [None, ["a", 0], [0, "zz", "a"]]):
        if tier != "thorough" and (u + da + order + step) % 3 == 0:
            continue
        inner = [[u, e], tr, 0]
        outer = [[u - da, e + db], tr, "a"]
        recs = [outer, inner] if order == 0 else [inner, outer]
        if rng.random() < 0.5:
            recs.append([[e + 4, e + 14], "x", rng.choice(["a", 0])])
        cases.append({"k": "disc", "recs": recs, "sup": [u, e] if rng.random() < 0.7 else [u, e + 6], "dur": step, "step": step,
                      "labels": lab, "duration": None, "as_window": rng.random() < 0.5})
    for _ in range(n):
        labels = LABELS[: rng.randrange(1, 4)]
        step = rng.choice([1, 2, 4])
        dur = step * rng.choice([1, 1, 2, 3])
        a, b = rng.randrange(-10, 10) * 2, rng.randrange(30, 90) * 2
        if rng.random() < 0.5:
            sup = ["seg", [a, b]]
        else:
            m = rng.randrange(a + 10, b - 10)
            sup = ["tl", [[a, m], [m + rng.randrange(2, 20), b + 10]]]
        recs = []
        for _ in range(rng.randrange(0, 6)):
            region = sup[1] if sup[0] == "seg" else rng.choice(sup[1])
            if region[1] - region[0] < 4:
                continue
            s0 = rng.randrange(region[0], region[1] - 2)
            s1 = rng.randrange(s0 + 1, region[1] + 1)
            recs.append([[s0, s1], rng.choice(["_", "x"]), rng.choice(labels)])
        lab = None if rng.random() < 0.6 else rng.sample(labels + ["zz"], rng.randrange(1, len(labels) + 2))
        if rng.random() < 0.05:
            lab = []                               # an explicit empty label list
        cases.append({"k": "onehot", "recs": recs, "sup": sup, "dur": dur, "step": step, "labels": lab,
                      "via_feature": rng.random() < 0.3})
    # decimal resolutions and bounds (10 ms frames, times written with two or three decimals), as users have them
    for _ in range(3000 if tier == "thorough" else 300):
        # a third of the cases run under Segment.set_precision(prec) with every time a multiple of the tick
        # (rounding is then a no-op up to float noise), times on both sides of zero
        prec = rng.choice([1, 2]) if rng.random() < 0.33 else None
        step = rng.choice([0.01, 0.02, 0.016, 0.1, 0.25, 0.005, 0.3] if prec is None else
                          [0.1, 0.25, 0.3, 0.05, 0.2] if prec == 1 else [0.01, 0.02, 0.016, 0.005, 0.1])
        ratio = rng.choice([1, 1, 2, 2.5, 3, 5])
        nlab = rng.randrange(1, 4)
        recs = []
        digs = [1, 2, 3] if prec is None else list(range(1, prec + 1))
        rd = (lambda v: round(v, 2)) if prec is None else (lambda v: round(v, prec))
        t0 = rng.choice([0.0, 0.0, 12.34, -3.3, 100.5] if prec is None else [-3.3, -2.0, -0.5, -12.3, 0.0, -40.0])
        t0 = rd(t0) if prec is not None else t0
        for _r in range(rng.randrange(1, 7)):
            a_ = t0 + round(rng.uniform(0, 40 * step * 10), rng.choice(digs))
            b_ = a_ + max(2 * step, round(rng.uniform(step, 60 * step), rng.choice(digs)))
            if prec is not None:
                a_, b_ = round(a_, prec), round(b_, prec)
                # at least two ticks long (a one-tick segment is empty or not depending on float noise)
                if b_ - a_ < max(2 * step, 2.5 * 10.0 ** -prec):
                    b_ = round(a_ + 2 * step + 3 * 10.0 ** -prec, prec)
            recs.append([[float(a_).hex(), float(b_).hex()],
                         rng.choice(["_", "x", 0]), ["a", "b", 0][rng.randrange(nlab)]])
        lo = min(float.fromhex(r[0][0]) for r in recs)
        hi = max(float.fromhex(r[0][1]) for r in recs)
        x = rng.random()
        sup = None if x < 0.4 else [float(rd(lo - round(rng.uniform(0, 1), 2))).hex(), float(rd(hi + round(rng.uniform(0, 1), 2))).hex()] if x < 0.7 \
            else [float(rd(lo + round(rng.uniform(0, (hi - lo) / 3), 2))).hex(), float(rd(hi - round(rng.uniform(0, (hi - lo) / 3), 2))).hex()]
        if sup is not None and float.fromhex(sup[1]) - float.fromhex(sup[0]) < max(2 * step, 2.5 * 10.0 ** -(prec or 9)):
            sup = None
        if sup is not None and prec is not None:
            # an overlap of about one tick between a record and the support is kept or dropped depending on float noise
            tick = 10.0 ** -prec
            lo_, hi_ = float.fromhex(sup[0]), float.fromhex(sup[1])
            if any(-0.5 * tick < min(float.fromhex(r[0][1]), hi_) - max(float.fromhex(r[0][0]), lo_) < 2.5 * tick for r in recs):
                sup = None
        cases.append({"k": "discf", "prec": prec, "recs": recs, "sup": sup, "step": float(step).hex(), "dur": float(step * ratio).hex(),
                      "as_window": ratio != 1 or rng.random() < 0.3,
                      "labels": None if rng.random() < 0.7 else rng.sample(["a", "b", 0, "zz"], 4),
                      "duration": None if rng.random() < 0.7 else float(round(rng.uniform(step, 300 * step), 2)).hex()})
    kinds = {}
    for c in cases:
        kinds[c["k"]] = kinds.get(c["k"], 0) + 1
    return {"cases": cases, "meta": {"exhaustive": False, "kinds": kinds,
                                     "dur_over_step": gen.stats(cases, {"ratio": lambda c: (c["dur"] // c["step"]) if isinstance(c["dur"], int) else "decimal"})}}


def _odisc(tb, f):
    import numpy as np
    d = np.asarray(f.data)
    assert d.ndim == 2
    w = f.sliding_window
    return {"n": int(d.shape[0]), "labels": [nm(x) for x in f.labels], "cols": [[int(v) for v in d[:, j]] for j in range(d.shape[1])],
            "wstart": tb.u(w.start), "wdur": tb.u(w.duration), "wstep": tb.u(w.step)}


def _run_discf(case):
    from pyannote.core import Segment
    from pyannote.core import segment as _segmod
    if case.get("prec") is None:
        return _run_discf_(case)
    saved = (_segmod.AUTO_ROUND_TIME, _segmod.SEGMENT_PRECISION)
    Segment.set_precision(case["prec"])
    try:
        return _run_discf_(case)
    finally:
        _segmod.AUTO_ROUND_TIME, _segmod.SEGMENT_PRECISION = saved


class _Req:
    """the times the caller asked for (what was read back from a Segment may already have been rounded)"""
    def __init__(self, start, end):
        self.start, self.end = start, end


def _run_discf_(case):
    """discretize on decimal inputs, judged against the clauses of the property with exact rational arithmetic; under a
    precision the oracle is computed from the requested (on-tick) times, the window start may differ from the request by float noise (1e-9 s)"""
    from fractions import Fraction as Fr
    import numpy as np
    from pyannote.core import Annotation, Segment, SlidingWindow
    fl = float.fromhex
    a = Annotation()
    for (s0, s1), t_, l_ in case["recs"]:
        a[Segment(fl(s0), fl(s1)), t_] = l_
    step, dur = fl(case["step"]), fl(case["dur"])
    kw = {"resolution": SlidingWindow(duration=dur, step=step, start=7.0) if case["as_window"] else step}
    if case["sup"] is not None:
        kw["support"] = Segment(fl(case["sup"][0]), fl(case["sup"][1]))
    if case["labels"] is not None:
        kw["labels"] = list(case["labels"])
    if case["duration"] is not None:
        kw["duration"] = fl(case["duration"])
    f = a.discretize(**kw)
    d = np.asarray(f.data)
    w = f.sliding_window
    fdur = dur if case["as_window"] else step
    prec = case.get("prec")
    S = kw.get("support") or a.get_timeline().extent()
    tracks = list(a.itertracks(yield_label=True))
    if prec is not None:
        # requested times: rounding them to the tick must be a no-op
        S = _Req(*map(fl, case["sup"])) if case["sup"] is not None else \
            _Req(min(fl(r[0][0]) for r in case["recs"]), max(fl(r[0][1]) for r in case["recs"]))
        assert len(tracks) == len({(tuple(r[0]), repr(r[1])) for r in case["recs"]})
        want = sorted((fl(r[0][0]), fl(r[0][1])) for r in {(tuple(r[0]), repr(r[1])): r for r in case["recs"]}.values())
        got = sorted((s.start, s.end) for s, _t, _l in tracks)
        assert all(abs(g[0] - w_[0]) <= 1e-9 and abs(g[1] - w_[1]) <= 1e-9 for g, w_ in zip(got, want)), \
            "segments on the precision grid were moved by rounding: %r stored for %r" % (got, want)
        last = {}
        for r in case["recs"]:
            last[(tuple(r[0]), repr(r[1]))] = r
        tracks = [(_Req(fl(r[0][0]), fl(r[0][1])), r[1], r[2]) for r in last.values()]
    if case["labels"] is not None:
        labels = list(case["labels"])
    else:
        # columns default to the labels present within the support (the annotation is cropped first), in labels() order
        labels = [l for l in a.labels()
                  if any(min(Fr(s.end), Fr(S.end)) - max(Fr(s.start), Fr(S.start)) > Fr(1e-6)
                         for s, _t, l2 in tracks if l2 == l)]
    ok = d.ndim == 2 and d.shape[1] == len(labels) and list(f.labels) == labels and bool(np.isin(d, (0, 1)).all())
    ok = ok and (w.start == S.start if prec is None else abs(w.start - S.start) <= 1e-9) and w.step == step and w.duration == fdur
    N = d.shape[0]
    q = (Fr(fl(case["duration"])) if case["duration"] is not None else Fr(S.end) - Fr(S.start)) / Fr(step)
    if case["duration"] is not None:
        ok = ok and abs(Fr(N) - q) <= Fr(1, 2) + Fr(1, 10 ** 9)        # round(duration / step), either way at a tie
    else:
        ok = ok and abs(Fr(N) - q) <= 1 + Fr(1, 10 ** 9)               # within one frame of extent / step
    st, hs = Fr(step), Fr(fdur) / 2
    for k_, lab in enumerate(labels):
        segs = sorted((Fr(s.start), Fr(s.end)) for s, _t, l in tracks if l == lab)
        merged = []
        for x0, x1 in segs:
            if merged and x0 <= merged[-1][1]:
                merged[-1][1] = max(merged[-1][1], x1)
            else:
                merged.append([x0, x1])
        inside = [[max(x0, Fr(S.start)), min(x1, Fr(S.end))] for x0, x1 in merged]
        for j in range(N):
            c = Fr(S.start if prec is not None else w.start) + j * st + hs
            # under a precision the stored bounds differ from the requested ones by float noise: exact ties are not judged
            tl_ = Fr(0) if prec is None else Fr(1, 10 ** 9)
            if any(x0 + tl_ <= c - st and c + st + tl_ <= x1 for x0, x1 in inside):
                ok = ok and d[j, k_] == 1
            elif all(c + st + tl_ <= x0 or x1 + tl_ <= c - st for x0, x1 in merged):
                ok = ok and d[j, k_] == 0
    return {"ok": bool(ok), "n": int(N)}


def run(case):
    from pyannote.core import SlidingWindow
    if case["k"] == "discf":
        return _run_discf(case)
    from pyannote.core.utils.numpy import one_hot_encoding, one_hot_decoding
    tb = TB("K0")
    tb.enter()
    try:
        a = mk_ann(tb, case["recs"])
        t = tb.t
        if case["k"] == "disc":
            kw = {}
            if case["sup"] is not None:
                kw["support"] = tb.S(case["sup"])
            kw["resolution"] = SlidingWindow(duration=t(case["dur"]), step=t(case["step"]), start=123.0) \
                if case["as_window"] else t(case["step"])
            if case["labels"] is not None:
                kw["labels"] = list(case["labels"])
            if case["duration"] is not None:
                kw["duration"] = t(case["duration"])
            try:
                f = a.discretize(**kw)
            except ValueError:
                return {"obs": None}
            return {"obs": _odisc(tb, f)}
        sup = mk_sup(tb, case["sup"])
        w = SlidingWindow(duration=t(case["dur"]), step=t(case["step"]), start=55.0)
        try:
            y = one_hot_encoding(a, sup, w, labels=None if case["labels"] is None else list(case["labels"]))
        except ValueError:
            return {"obs": None, "decoded": []}
        # labels are told apart as labels, not by how they print: the first two labels renamed to 77 and '77' give the
        # same matrix column for column, and a label list holding only the spelling of a numeric label is refused
        import numpy as np
        labs_ = a.labels()
        if len(labs_) >= 2 and 77 not in y.labels and "77" not in y.labels:
            ren = {labs_[0]: 77, labs_[1]: "77"}
            y2 = one_hot_encoding(a.rename_labels(mapping=ren), sup, w, labels=[ren.get(l, l) for l in y.labels])
            assert y2.data.shape == y.data.shape and bool((y2.data == y.data).all()), \
                "one_hot_encoding changes when two labels are renamed to 77 and '77'"
            if any(isinstance(l, int) for l in labs_):
                try:
                    one_hot_encoding(a, sup, w, labels=[str(l) if isinstance(l, int) else l for l in labs_] + ["zz_other"])
                    raise AssertionError("a label list without the numeric labels (only their spelling) was accepted")
                except ValueError:
                    pass
        dec = one_hot_decoding(y.data, y if case["via_feature"] else y.sliding_window, labels=y.labels)
        per = {}
        for s, k, l in dec.itertracks(yield_label=True):
            assert y.labels[k] == l
            per.setdefault(int(k), []).append([tb.u(s.start, 2), tb.u(s.end, 2)])
        decoded = [[k, sorted(per.get(k, []))] for k in range(len(y.labels))]
        return {"obs": _odisc(tb, y), "decoded": decoded}
    finally:
        tb.leave()


def _enc_od(o):
    e = enc
    if o is None:
        return "None"
    cols = e.lst([e.zs(c) for c in o["cols"]])
    return f"(Some (OD {e.z(o['n'])} {enc_names(o['labels'])} {cols} {e.z(o['wstart'])} {e.z(o['wdur'])} {e.z(o['wstep'])}))"


def encode(case, o):
    e = enc
    if case["k"] == "discf":
        return f"KDriver {e.z(o['n'])} {e.b(o['ok'])}"
    labs = "None" if case["labels"] is None else f"(Some {enc_names(case['labels'])})"
    if case["k"] == "disc":
        return (f"KDisc 0 {enc_triples(case['recs'])} {e.opt(case['sup'], e.seg)} {e.z(case['dur'])} {e.z(case['step'])} "
                f"{labs} {e.opt(case['duration'], e.z)} {_enc_od(o['obs'])}")
    dec = e.lst([e.pair(e.z(k), e.segs(v)) for k, v in o["decoded"]])
    return (f"KOneHot 0 {enc_triples(case['recs'])} {enc_sup(case['sup'])} {e.z(case['dur'])} {e.z(case['step'])} "
            f"{labs} {_enc_od(o['obs'])} {dec}")


def nontrivial(case, o):
    if case["k"] == "discf":
        return o.get("n", 0) >= 3
    return o["obs"] is not None and any(sum(1 for v in c if v > 0) >= 2 for c in o["obs"]["cols"])


def known_match(entry, case, obs, code):
    # F7: decoded offsets are the centre of the first inactive frame (Coq checker code 5 means: the
    # decoding equals the model's, whose error bounds are proved, and only the one-step claim fails)
    return entry.get("id") == "F7" and case.get("k") == "onehot" and code == 5


def shrink(case):
    recs = case["recs"]
    if case["k"] == "discf" and len(recs) <= 1:
        return
    for i in range(len(recs)):
        yield {**case, "recs": recs[:i] + recs[i + 1:]}
    if case.get("labels") is not None:
        yield {**case, "labels": None}
    if case["k"] == "disc" and case.get("duration") is not None:
        yield {**case, "duration": None}
