"""C19: name generators, new_track, to_annotation, random samplers."""
from fractions import Fraction

from harness import enc, gen
from harness.annutil import enc_names, enc_triples, mk_ann, nm, rand_records, triples, TRACKS
from harness.timebase import TB, REGIMES
from harness.tlutil import mk_tl

PROP = "C19"
CHECK_MODULE = "Check.C19"
COQ_IMPORTS = "Model.AnnotationOps Check.AnnCommon"
SHARD = 60
RULE = ("[also: pairwise over None / falsy / repeated items and empty inputs; skip collections shared by several generators] " +
        "string_generator: first N <= 800 values with skip collections given as list or set (members among the "
        "first 800 words, incl. 'A', 'Z', 'AA', 'ZZ'); int_generator; pairwise; new_track on annotations whose segment "
        "already holds generated names ('0','1',...), the candidate, or prefixed names; up to seven tracks on one segment from pools of names that parse to the same integers ('0' / '00', '1' / '01', 'T0' / 'T00'); prefixes with format characters ('%', '%s', 'T%d', '{}') in 15%; to_annotation with each "
        "generator kind, incl. caller-owned iterators that run out of names before the segments do (refused, never an incomplete annotation); random_subsegment refusing a fixed duration that exceeds the segment by less than a microsecond; random_subsegment with np.random.random replaced by a stub returning k/1024 (so the model "
        "computes the same value) and random_segment under 5 seeds; non-trivial = skip non-empty / candidate taken / "
        "min_duration given")
F = 1 << 20


def _word(i):
    i += 1
    s = ""
    while i > 0:
        i, r = divmod(i - 1, 26)
        s = chr(65 + r) + s
    return s


def generate(rng, tier):
    cases = []
    n = 200 if tier == "thorough" else 40
    for _ in range(n):
        N = rng.choice([1, 5, 26, 27, 60, 200, 710, 800])
        k = rng.choice([0, 1, 2, 5, 30])
        skip = [_word(rng.choice([0, 1, 25, 26, 27, 51, 52, 701, 702, rng.randrange(800)])) for _ in range(k)]
        if rng.random() < 0.2:
            skip.append("notaword")
        cases.append({"k": "str", "n": N, "skip": skip, "as_set": rng.random() < 0.5})
    cases.append({"k": "str", "n": 30, "skip": None, "as_set": False})
    for N in (0, 1, 10, 300):
        cases.append({"k": "int", "n": N})
    for _ in range(20):
        cases.append({"k": "pair", "l": [rng.randrange(-5, 6) for _ in range(rng.randrange(0, 7))]})
    cases.append({"k": "pair", "l": []})
    cases.append({"k": "pair", "l": [0]})
    for regime in ("K0", "K1"):
        for _ in range(n * 4):
            recs = rand_records(rng, regime, nseg=rng.choice([1, 2, 3]), span=8,
                                tracks=(["0", "1", "2", "x", 0, 1, "T0", "T1", "A"] if rng.random() < 0.6 else
                                        ["00", "01", "1", "0", "T00", "T01", "007", "2", 2, "T1", "-1", "+1", " 1"]))
            if rng.random() < 0.4:
                # several tracks on ONE segment, drawn from names that parse to small integers in more than one way
                seg0 = gen.rand_segment(rng, regime, span=8, allow_empty=0.0)
                pool = rng.choice([["0", "00", "01", "1", "2", "02", "007", "3"], ["T0", "T00", "T01", "T1", "0", "1", "T2"],
                                   ["0", "1", "2", "3", "4", "5", "6", "7", "8", "9", "10", "11"], [0, 1, "0", "1", 2, "2"]])
                recs = [[list(seg0), t_, rng.choice(["a", "b", 0])] for t_ in rng.sample(pool, rng.randrange(1, min(7, len(pool)) + 1))]
            s = rng.choice(recs)[0] if recs and rng.random() < 0.85 else gen.rand_segment(rng, regime, span=8)
            cases.append({"k": "newtrack", "regime": regime, "recs": recs, "s": s,
                          "cand": rng.choice([None, "0", "1", "x", 0, "fresh", "A", ""]),
                          "prefix": rng.choice([None, None, "T", ""] if rng.random() < 0.85 else ["%", "%%", "100%", "%s", "T%d", "a b", "{}"])})
        for _ in range(n):
            g = rng.choice([["string"], ["int"], ["list", [rng.choice(["g%d" % i, 100 + i]) for i in range(14)]],
                            ["list", [rng.choice(["g%d" % i, 100 + i]) for i in range(rng.randrange(0, 5))]]])
            cases.append({"k": "toann", "regime": regime, "segs": gen.rand_timeline(rng, regime), "gen": g})
    for _ in range(n * 5):
        s = gen.rand_segment(rng, "K0", span=30, maxlen=20, allow_empty=0.05)
        sd = max(0, s[1] - s[0])
        dur = rng.choice([sd, max(0, sd - 1), sd + 1, sd // 2, 1, 0])
        md = None if rng.random() < 0.5 else rng.choice([0, dur // 2, dur, max(0, dur - 1)])
        cases.append({"k": "subseg", "s": s, "dur": dur, "min": md, "k1": rng.choice([0, 1, 512, 1023, rng.randrange(1024)]),
                      "k2": rng.choice([0, 1023, rng.randrange(1024)])})
    for _ in range(n):
        # a fixed duration exceeding the segment's by less than a microsecond (in units of 2^-30 s) must be refused
        s = gen.rand_segment(rng, "K0", span=30, maxlen=20, allow_empty=0.0)
        cases.append({"k": "subseg_excess", "s": s, "excess": rng.choice([1, 64, 512, 1000, 1073])})
    for seed in range(5):
        cases.append({"k": "randseg", "segs": [x for x in gen.rand_timeline(rng, "K0", maxn=5) if x[1] > x[0]] or [[0, 3]],
                      "seed": seed, "weighted": seed % 2 == 0})
    for seed in range(40 if tier == "thorough" else 12):
        base = rng.randrange(0, 20)
        segs = [[base, base + 3], [base + 3, base + 8], [base + 2, base + 5], [base + 20, base + 21], [base + 1, base + 30]]
        cases.append({"k": "randseg", "segs": rng.sample(segs, rng.randrange(2, 6)), "seed": 100 + seed, "weighted": seed % 3 != 0})
    kinds = {}
    for c in cases:
        kinds[c["k"]] = kinds.get(c["k"], 0) + 1
    return {"cases": cases, "meta": {"exhaustive": False, "kinds": kinds}}


def run(case):
    import itertools
    import numpy as np
    from pyannote.core.utils.generators import string_generator, int_generator, pairwise
    k = case["k"]
    if k == "str":
        skip = case["skip"]
        if skip is None:
            return {"obs": list(itertools.islice(string_generator(), case["n"]))}
        # the skip collection belongs to the caller: it is left as given and serves a second generator just as well
        box = set(skip) if case["as_set"] else list(skip)
        given = type(box)(box)
        first = list(itertools.islice(string_generator(skip=box), case["n"]))
        assert box == given, "string_generator edited the caller's skip collection: %r -> %r" % (given, box)
        g2 = string_generator(skip=box)
        half = list(itertools.islice(g2, case["n"] // 2))
        g3 = string_generator(skip=box)            # two generators over one collection, advanced by turns
        again = half + list(itertools.islice(g2, case["n"] - len(half)))
        third = list(itertools.islice(g3, case["n"]))
        assert again == first and third == first and box == given, "a second string_generator over the same skip collection differs"
        return {"obs": first}
    if k == "int":
        return {"obs": list(itertools.islice(int_generator(), case["n"]))}
    if k == "pair":
        r = [list(p) for p in pairwise(case["l"])]
        # the same through one-shot iterators (a generator, iter(list)): pairs must still be consecutive
        assert [list(p) for p in pairwise(iter(case["l"]))] == r, "pairwise(iter(l)) differs from pairwise(l)"
        assert [list(p) for p in pairwise(x for x in case["l"])] == r, "pairwise(generator) differs from pairwise(l)"
        # items of any kind: None, falsy values, repeated values
        for conv in (lambda v: None if v % 3 == 0 else v, lambda v: "" if v % 2 else 0, lambda v: (v,), lambda v: None):
            items = [conv(v) for v in case["l"]]
            assert list(pairwise(items)) == list(zip(items, items[1:])), "pairwise(%r) is not the consecutive pairs" % (items,)
            assert list(pairwise(iter(items))) == list(zip(items, items[1:]))
        return {"obs": r}
    if k == "newtrack":
        tb = TB(case["regime"])
        tb.enter()
        try:
            a = mk_ann(tb, case["recs"])
            kw = {}
            if case["cand"] is not None:
                kw["candidate"] = case["cand"]
            if case["prefix"] is not None:
                kw["prefix"] = case["prefix"]
            before = triples(tb, a)
            r = a.new_track(tb.S(case["s"]), **kw)
            assert triples(tb, a) == before
            return {"obs": nm(r)}
        finally:
            tb.leave()
    if k == "toann":
        tb = TB(case["regime"])
        tb.enter()
        try:
            t = mk_tl(tb, case["segs"], uri="u")
            g = case["gen"]
            try:
                a = t.to_annotation(generator=iter(list(g[1])) if g[0] == "list" else g[0], modality="m")
            except (StopIteration, RuntimeError) as exc:
                # the caller's iterator ran out of names
                assert g[0] == "list" and len(g[1]) < len(t), "to_annotation raised %r with enough names" % (exc,)
                return {"obs": None}
            assert a.uri == "u" and a.modality == "m"
            labels = [l for _, _, l in a.itertracks(yield_label=True)]
            assert len(set(map(repr, labels))) == len(labels)
            return {"obs": triples(tb, a)}
        finally:
            tb.leave()
    if k == "subseg":
        from pyannote.core import Segment
        from pyannote.core.utils import random as R
        tb = TB("K0")
        vals = iter([case["k1"] / 1024.0, case["k2"] / 1024.0] * 2)
        orig = np.random.random
        np.random.random = lambda: next(vals)
        try:
            kw = {} if case["min"] is None else {"min_duration": tb.t(case["min"])}
            try:
                g = R.random_subsegment(tb.S(case["s"]), tb.t(case["dur"]), **kw)
                x = next(g)
            except ValueError:
                return {"obs": None}
            conv = lambda v: int(Fraction(v) * 1024 * F) if (Fraction(v) * 1024 * F).denominator == 1 else (_ for _ in ()).throw(ValueError("off grid"))
            return {"obs": [conv(x.start), conv(x.end)]}
        finally:
            np.random.random = orig
    if k == "subseg_excess":
        from pyannote.core.utils import random as R
        tb = TB("K0")
        seg = tb.S(case["s"])
        dur = (seg.end - seg.start) + case["excess"] / float(1 << 30)
        assert dur > seg.end - seg.start
        orig = np.random.random
        np.random.random = lambda: 0.0
        try:
            try:
                x = next(R.random_subsegment(seg, dur))
            except ValueError:
                return {"obs": None}
            return {"obs": [float(x.start).hex(), float(x.end).hex()]}
        finally:
            np.random.random = orig
    if k == "randseg":
        from pyannote.core.utils import random as R
        tb = TB("K0")
        np.random.seed(case["seed"])
        segs = [tb.S(s) for s in case["segs"]]
        g = R.random_segment(segs, weighted=case["weighted"])
        return {"obs": [tb.us(next(g)) for _ in range(20)]}
    raise ValueError(k)


def encode(case, o):
    e = enc
    k = case["k"]
    if k == "str":
        return f"KStr {e.nat(case['n'])} {e.lst([e.s(x) for x in (case['skip'] or [])])} {e.lst([e.s(x) for x in o['obs']])}"
    if k == "int":
        return f"KInt {e.nat(case['n'])} {e.zs(o['obs'])}"
    if k == "pair":
        return f"KPair {e.zs(case['l'])} {e.lst([e.pair(e.z(a), e.z(b)) for a, b in o['obs']])}"
    if k == "newtrack":
        eps = REGIMES[case["regime"]]["eps"]
        pf = "None" if case["prefix"] is None else f"(Some {e.s(case['prefix'])})"
        return (f"KNewTrack {e.z(eps)} {enc_triples(case['recs'])} {e.seg(case['s'])} {e.opt(case['cand'], e.name)} "
                f"{pf} {e.name(o['obs'])}")
    if k == "toann":
        eps = REGIMES[case["regime"]]["eps"]
        g = case["gen"]
        gg = "GString" if g[0] == "string" else "GInt" if g[0] == "int" else f"(GList {enc_names(g[1])})"
        return f"KToAnn {e.z(eps)} {e.segs(case['segs'])} {gg} " + ("None" if o["obs"] is None else f"(Some {enc_triples(o['obs'])})")
    if k == "subseg":
        return (f"KSubseg 0 {e.seg(case['s'])} {e.z(case['dur'])} {e.opt(case['min'], e.z)} {e.z(case['k1'])} "
                f"{e.z(case['k2'])} {e.opt(o['obs'], e.seg)}")
    if k == "subseg_excess":
        return f"KSubsegExcess {e.seg(case['s'])} {e.z(case['excess'])} {e.b(o['obs'] is None)}"
    if k == "randseg":
        return f"KRandSeg 0 {e.segs(case['segs'])} {e.segs(o['obs'])}"


def nontrivial(case, o):
    k = case["k"]
    if k == "str":
        return bool(case["skip"])
    if k == "newtrack":
        return case["cand"] is not None
    if k == "subseg":
        return case["min"] is not None or o["obs"] is None
    return True
