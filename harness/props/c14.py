"""C14: SlidingWindow positions, iteration, len, closest_frame, tiling, __call__."""
import itertools

from harness import enc, gen
from harness.timebase import TB, REGIMES
from harness.tlutil import mk_sup, enc_sup

PROP = "C14"
# the binary64 theorems (Properties/C14.v, module Binary64) use the standard library's real numbers
AXIOM_WHITELIST = ["sig_not_dec", "sig_forall_dec", "functional_extensionality_dep", "classic"]
TRUSTED = ["C14 module Binary64: Coq standard-library axioms of the real numbers (ClassicalDedekindReals.sig_not_dec, sig_forall_dec), "
           "FunctionalExtensionality.functional_extensionality_dep, Classical_Prop.classic, through Reals and Flocq 4; "
           "IEEE-754 binary64 arithmetic modelled by Flocq's round on the reals"]
CHECK_MODULE = "Check.C14"
COQ_IMPORTS = "Model.Window"
SHARD = 150
RULE = ("[also: window(support) repeated with other start / end settings of the called window, next() on fresh windows and copies, open-ended support segments] " +
        "tick-aligned geometries (binary grid, exact tier): constructor validation over duration, step in -1..4, "
        "end-start in -1..3; every window with duration, step in 1..4 ticks, start in -2..2, end-start in 1..10 or "
        "infinite (quick; 1..5 and 1..14 thorough) observed through window[i] for i in -3..N+3, list() twice "
        "(restart), len(), copy(), closest_frame at every half tick around the positions, range_to_segment, "
        "segment_to_range, samples; __call__ over segment and timeline supports (shorter than the window, exact "
        "multiples of the step, overlapping members) with and without align_last; plus random larger geometries; "
        "regimes K0 and K4 (x5 ticks, plus ends overhanging the last position by 1..6 ticks, i.e. by less than the precision); non-trivial = duration != step or a finite end")


def _unit(regime):
    return 5 if regime == "K4" else 1


def generate(rng, tier):
    cases = []
    for d, s, e in itertools.product(range(-1, 5), range(-1, 5), [None, -1, 0, 1, 3]):
        cases.append({"k": "ctor", "regime": "K0", "dur": d, "step": s, "start": 1, "end": None if e is None else 1 + e})
    dmax = 5 if tier == "thorough" else 4
    emax = 14 if tier == "thorough" else 10
    for regime in ("K0", "K4"):
        u = _unit(regime)
        for d, s, st in itertools.product(range(1, dmax + 1), range(1, dmax + 1), range(-2, 3)):
            for e in [None] + list(range(1, emax + 1)):
                if regime == "K4" and (e is not None and e % 3):
                    continue
                cases.append({"k": "win", "regime": regime, "dur": d * u, "step": s * u, "start": st * u,
                              "end": None if e is None else (st + e) * u})
        if regime == "K4":
            # an end that overhangs the last position by less than / about the precision (1..6 ticks of 2^-22 s)
            for d, s, n_, r in itertools.product((5, 10, 15), (5, 10), (1, 2, 4), (1, 2, 3, 4, 5, 6)):
                cases.append({"k": "win", "regime": regime, "dur": d, "step": s, "start": 0, "end": n_ * s + r})
                cases.append({"k": "win", "regime": regime, "dur": d, "step": s, "start": -10, "end": -10 + n_ * s + r})
        for _ in range(2000 if tier == "thorough" else 200):
            d, s = rng.randrange(1, 40), rng.randrange(1, 40)
            st = rng.randrange(-50, 50)
            e = None if rng.random() < 0.2 else st + rng.randrange(1, 300)
            cases.append({"k": "win", "regime": regime, "dur": d * u, "step": s * u, "start": st * u,
                          "end": None if e is None else e * u})
        for d, s in itertools.product(range(1, 5), range(1, 5)):
            for ln in range(0, 10):
                for al in (False, True):
                    cases.append({"k": "call", "regime": regime, "dur": d * u, "step": s * u, "start": 0,
                                  "sup": ["seg", [3 * u, (3 + ln) * u]], "align": al})
        for _ in range(1500 if tier == "thorough" else 250):
            d, s = rng.randrange(1, 6), rng.randrange(1, 6)
            sup = ["tl", gen.rand_timeline(rng, regime, maxn=5, span=30)] if rng.random() < 0.7 else \
                ["seg", gen.rand_segment(rng, regime, span=30, maxlen=25)]
            cases.append({"k": "call", "regime": regime, "dur": d * u, "step": s * u, "start": rng.randrange(-3, 4) * u,
                          "sup": sup, "align": rng.random() < 0.5})
    # window(support) with the support hours, days or decades away from the origin (epoch-sized stamps on the dyadic grids)
    cases += gen.far_copies(rng, [c_ for c_ in cases if c_["k"] == "call" and c_["regime"] in ("K0", "K1")], ["sup"],
                            300 if tier == "thorough" else 80)
    # tolerance tier: decimal (non-dyadic) parameters as users write them (the library default is 30 ms / 10 ms)
    steps = [0.01, 0.02, 0.016, 0.1, 0.25, 1 / 3, 0.005, 0.0125, 0.3]
    for _ in range(3000 if tier == "thorough" else 400):
        step = rng.choice(steps)
        dur = rng.choice([step, 2.5 * step, 3 * step, 0.025, 0.03, 0.1, 1.0, step / 2])
        start = rng.choice([0.0, 0.0, 0.5, -0.37, 100.2, 12.34])
        n = rng.choice([1, 2, 7, 14, 28, 56, 57, 100, 333, 1000, rng.randrange(1, 400)])
        end = None if rng.random() < 0.15 else start + n * step + rng.choice([0.0, 0.0, step / 2, -step / 2, 1e-9, -1e-9, dur])
        if end is not None and end <= start:
            end = start + step
        idx = sorted({-2, -1, 0, 1, 2, n - 2, n - 1, n, n + 1, n + 5, rng.randrange(0, n + 1), rng.randrange(0, n + 1)})
        ts = []
        for _k in range(8):
            i = rng.randrange(-3, n + 4)
            ts.append(start + i * step + dur / 2 + rng.choice([0.0, step / 2, -step / 2, step / 2 + 1e-9, step / 2 - 1e-9,
                                                                   rng.uniform(-step, step), 1e-10]))
        cases.append({"k": "winf", "regime": "K0", "dur": float(dur).hex(), "step": float(step).hex(),
                      "start": float(start).hex(), "end": None if end is None else float(end).hex(), "idx": idx,
                      "ts": [float(x).hex() for x in ts],
                      "r2s": [[i0, nn] for i0 in (0, 1, rng.randrange(2, n + 2), -2) for nn in (0, 1, rng.randrange(2, 60))]})
    kinds = {}
    for c in cases:
        kinds[c["k"]] = kinds.get(c["k"], 0) + 1
    return {"cases": cases, "meta": {"exhaustive": True, "kinds": kinds, "max_ticks_exhaustive": dmax}}


def _fx(v):
    """exact value of a binary64 in units of 2^-130"""
    from fractions import Fraction
    f = Fraction(float(v)) * (1 << 130)
    if f.denominator != 1:
        raise ValueError("float too small for the 2^-130 grid")
    return int(f)


def _queries(case):
    """deterministic probe points derived from the geometry"""
    d, s, st, e = case["dur"], case["step"], case["start"], case["end"]
    n = 6 if e is None else max(0, -(-(e - st) // s))
    idx = list(range(-3, min(n, 40) + 4))
    ts2 = sorted({2 * (st + i * s) + d + off for i in range(-2, min(n, 12) + 2) for off in (-s, -1, 0, 1, s, s + 1)}
                 | ({2 * e, 2 * e - 1} if e is not None else set()))
    ts = [t // 2 for t in ts2 if t % 2 == 0]          # closest_frame is queried on the tick grid
    r2s = [(i0, nn) for i0 in (-2, 0, 1, 3) for nn in (0, 1, 2, 5)]
    segs = [[st + a, st + a + b] for a in (-s, 0, 1, s) for b in (0, 1, d, 2 * s + 1)]
    ds = [0, 1, d, d + s, d + 2 * s + 1, 3 * s, 7 * s + d]
    return idx, ts, r2s, segs, ds


def _run_float(case):
    import math
    from pyannote.core import SlidingWindow
    fl = float.fromhex
    kw = dict(duration=fl(case["dur"]), step=fl(case["step"]), start=fl(case["start"]))
    if case["end"] is not None:
        kw["end"] = fl(case["end"])
    w = SlidingWindow(**kw)
    items = []
    for i in case["idx"]:
        x = w[i]
        items.append([i, None if x is None else [_fx(x.start), _fx(x.end)]])
    if case["end"] is not None:
        ln = len(w)
        if ln <= 2000:
            it = list(w)
            assert len(it) == ln, "len() differs from the number of iterated positions"
            it2 = list(w)
            assert it == it2, "a second iteration differs from the first"
            for i in (0, 1, ln // 2, ln - 1):
                if 0 <= i < ln:
                    assert it[i] == w[i], "iteration and indexing disagree"
    else:
        ln = None
    c = w.copy()
    assert (c.duration, c.step, c.start) == (w.duration, w.step, w.start) and (c.end == w.end or (math.isinf(c.end) and math.isinf(w.end)))
    closest = [[_fx(fl(t)), int(w.closest_frame(fl(t)))] for t in case["ts"]]
    r2s = []
    for i0, n in case["r2s"]:
        sg = w.range_to_segment(i0, n)
        r2s.append([[i0, n], [_fx(sg.start), _fx(sg.end)]])
    return {"items": items, "len": ln, "closest": closest, "r2s": r2s}


def run(case):
    from pyannote.core import SlidingWindow, Segment
    if case["k"] == "winf":
        return _run_float(case)
    tb = TB(case["regime"])
    tb.enter()
    try:
        t = tb.t
        k = case["k"]
        kw = dict(duration=t(case["dur"]), step=t(case["step"]), start=t(case["start"]))
        if case.get("end") is not None:
            kw["end"] = t(case["end"])
        if k == "ctor":
            try:
                SlidingWindow(**kw)
                return {"ok": True}
            except ValueError:
                return {"ok": False}
        w = SlidingWindow(**kw)
        if k == "win":
            idx, ts, r2s, segs, ds = _queries(case)
            items = []
            for i in idx:
                x = w[i]
                items.append([i, None if x is None else tb.us(x)])
            if case["end"] is not None:
                it1 = [tb.us(x) for x in w]
                next(iter(w))  # leave a half-consumed iteration behind
                it2 = [tb.us(x) for x in w]
                ln = len(w)
            else:
                it1 = it2 = None
                try:
                    len(w)
                    ln = -1
                except ValueError:
                    ln = None
            c = w.copy()
            import math
            # next() straight on a freshly built window and on a fresh copy (no iter() first): positions 0, 1, 2, ...
            for fresh in (SlidingWindow(**kw), w.copy()):
                got = []
                for _ in range(4):
                    try:
                        got.append(tb.us(next(fresh)))
                    except StopIteration:
                        got.append(None)
                        break
                want = []
                for i_ in range(4):
                    x_ = w[i_]
                    want.append(None if x_ is None else tb.us(x_))
                    if x_ is None:
                        break
                assert got == want, "next() on a fresh window gives %r, positions 0.. are %r" % (got, want)
            cp = [tb.u(c.duration), tb.u(c.step), tb.u(c.start), None if math.isinf(c.end) else tb.u(c.end)]
            closest = [[x, int(w.closest_frame(t(x)))] for x in ts]
            r2 = [[[i0, n], [tb.u(y, 2) for y in (lambda s_: (s_.start, s_.end))(w.range_to_segment(i0, n))]] for i0, n in r2s]
            s2 = [[s_, [int(v) for v in w.segment_to_range(tb.S(s_))]] for s_ in segs]
            smp = [[d_, [int(w.samples(t(d_), mode=m)) for m in ("strict", "loose", "center")]] for d_ in ds]
            return {"items": items, "it1": it1, "it2": it2, "len": ln, "copy": cp, "closest": closest,
                    "r2s": r2, "s2r": s2, "smp": smp}
        if k == "call":
            sup = mk_sup(tb, case["sup"])
            obs = [tb.us(x) for x in w(sup, align_last=case["align"])]
            if tb.prec is None:
                # an open-ended support segment: the positions start + k * step are served lazily, for ever
                import itertools
                from pyannote.core import Segment as _Seg
                a0 = t(case["start"] + 3 * case["step"])
                first = list(itertools.islice(w(_Seg(a0, float("inf")), align_last=False), 5))
                want = [(a0 + k_ * kw["step"], a0 + k_ * kw["step"] + kw["duration"]) for k_ in range(5)]
                assert [(x.start, x.end) for x in first] == want, "window(Segment(a, inf)) starts with %r, expected %r" % (first, want)
            # the positions depend on the support and on (duration, step) only: not on the window's own start / end
            bounds = [v for x in ([sup] if not hasattr(sup, "extent") else list(sup)) for v in (x.start, x.end)]
            if bounds:
                lo, hi = min(bounds), max(bounds)
                for st_, en_ in ((kw["start"], (lo + hi) / 2), (kw["start"], hi + t(3)), (lo - t(5), lo + t(1)), (lo - t(9), lo - t(2)),
                                 (hi + t(1), None), ((lo + hi) / 2, hi)):
                    kw2 = dict(kw, start=st_)
                    if en_ is not None:
                        kw2["end"] = en_
                    try:
                        w2 = SlidingWindow(**kw2)
                    except ValueError:
                        continue
                    got = [tb.us(x) for x in w2(sup, align_last=case["align"])]
                    assert got == obs, "window(support) depends on the window's own start / end (%r, %r): %r vs %r" % (st_, en_, got, obs)
            return {"obs": obs}
    finally:
        tb.leave()


def encode(case, o):
    e = enc
    eps = REGIMES[case["regime"]]["eps"]
    k = case["k"]
    if k == "winf":
        fx = lambda h: _fx(float.fromhex(h))
        items = e.lst([e.pair(e.z(i), e.opt(v, e.seg)) for i, v in o["items"]])
        closest = e.lst([e.pair(e.z(a), e.z(b)) for a, b in o["closest"]])
        r2s = e.lst([e.pair(e.pair(e.z(a[0]), e.z(a[1])), e.seg(b)) for a, b in o["r2s"]])
        return (f"KWinF {e.z(fx(case['dur']))} {e.z(fx(case['step']))} {e.z(fx(case['start']))} "
                f"{e.opt(None if case['end'] is None else fx(case['end']), e.z)} {items} {e.opt(o['len'], e.z)} {closest} {r2s}")
    geo = f"{e.z(case['dur'])} {e.z(case['step'])} {e.z(case['start'])}"
    if k == "ctor":
        return f"KCtor {geo} {e.opt(case['end'], e.z)} {e.b(o['ok'])}"
    if k == "win":
        items = e.lst([e.pair(e.z(i), e.opt(v, e.seg)) for i, v in o["items"]])
        cp = o["copy"]
        cps = f"({e.z(cp[0])},{e.z(cp[1])},{e.z(cp[2])},{e.opt(cp[3], e.z)})"
        closest = e.lst([e.pair(e.z(a), e.z(b)) for a, b in o["closest"]])
        r2s = e.lst([e.pair(e.pair(e.z(a[0]), e.z(a[1])), e.seg(b)) for a, b in o["r2s"]])
        s2r = e.lst([e.pair(e.seg(a), e.pair(e.z(b[0]), e.z(b[1]))) for a, b in o["s2r"]])
        smp = e.lst([e.pair(e.z(a), f"({e.z(b[0])},{e.z(b[1])},{e.z(b[2])})") for a, b in o["smp"]])
        return (f"KWin {e.z(eps)} {geo} {e.opt(case['end'], e.z)} {items} {e.opt(o['it1'], e.segs)} "
                f"{e.opt(o['it2'], e.segs)} {e.opt(o['len'], e.z)} {cps} {closest} {r2s} {s2r} {smp}")
    if k == "call":
        return f"KCall {e.z(eps)} {geo} {enc_sup(case['sup'])} {e.b(case['align'])} {e.segs(o['obs'])}"


def nontrivial(case, o):
    if case["k"] == "winf":
        return case["end"] is not None
    return case["k"] != "ctor" and (case["dur"] != case["step"] or case.get("end") is not None)


def shrink(case):
    if case["k"] == "call" and case["sup"][0] == "tl":
        for s in gen.shrink_segs(case["sup"][1]):
            yield {**case, "sup": ["tl", s]}
