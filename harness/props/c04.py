"""C04: Timeline.support(collar) and duration()."""
from harness import enc, gen
from harness.timebase import TB, REGIMES
from harness.tlutil import mk_tl, segs_of

PROP = "C04"
CHECK_MODULE = "Check.C04"
COQ_IMPORTS = "Model.Timeline"
SHARD = 500
RULE = ("[also: support(collar) of a returned support against the same segments rebuilt; copies translated by up to 1.7e9 s] " +
        "(timeline, collar): all timelines of <=3 (quick) / <=4 (thorough) segments on a 6-point grid x collars "
        "0..5 grid units, plus random timelines of up to 12 segments with the collar drawn from {0, g-1, g, g+1} "
        "for an existing gap g; regimes K0/K4/K1; observed: list(t), support(c), list(support_iter(c)), duration(), "
        "support(c).support(c); copies translated 2 h, 28 h, 3 d or -8 h 20 min from the origin; non-trivial = at least two segments and the support merges or separates something")


def _gaps(segs):
    s = sorted(segs)
    out = set()
    for a, b in zip(s, s[1:]):
        if b[0] - a[1] > 0:
            out.add(b[0] - a[1])
    return sorted(out)


def generate(rng, tier):
    cases = []
    k = 4 if tier == "thorough" else 3
    for regime in ("K0", "K4", "K1"):
        unit = 5 if regime == "K4" else 1
        for segs in gen.small_timelines(regime, k):
            cs = {0}
            for g in _gaps(segs):
                cs |= {g - 1, g, g + 1}
            cs |= {unit, 2 * unit}
            for c in sorted(x for x in cs if x >= 0):
                cases.append({"regime": regime, "segs": segs, "collar": c})
        for _ in range(6000 if tier == "thorough" else 600):
            segs = gen.rand_timeline(rng, regime)
            g = _gaps(segs)
            c = rng.choice([0, 1, 2, 3]) if not g or rng.random() < 0.3 else max(0, rng.choice(g) + rng.choice([-1, 0, 1]))
            cases.append({"regime": regime, "segs": segs, "collar": c})
    # large timelines (sizes crossing 256 / 512 / 1000 members, runs of equal starts)
    for regime in ("K0", "K4"):
        for nbig in ([300, 640, 1100] if tier == "thorough" else [300 + 40 * len(regime)]):
            cases.append({"regime": regime, "segs": gen.big_timeline(rng, regime, nbig), "collar": rng.choice([0, 1, 2, 6])})
    cases += gen.decimal_copies(rng, cases, (1500 if tier == "thorough" else 150), lambda c: c['collar'] == 0 and len(c['segs']) < 50)
    cases += gen.p3_copies(rng, cases, ['segs'], (1000 if tier == "thorough" else 120), lambda c: len(c['segs']) < 50 and c['collar'] == 0)     # collar 0 only: a decimal gap tied with the collar rounds either way
    cases += gen.far_copies(rng, cases, ['segs'], (400 if tier == "thorough" else 60))
    return {"cases": cases, "meta": {"exhaustive": True, "small_scope_max_segments": k,
                                     "sizes": gen.stats(cases, {"n_segments": lambda c: len(c["segs"]),
                                                                "collar": lambda c: min(c["collar"], 20)})}}


def run(case):
    tb = TB(case["regime"])
    tb.enter()
    try:
        t = mk_tl(tb, case["segs"])
        c = tb.t(case["collar"])
        sup = t.support(c) if case["collar"] else (t.support() if len(case["segs"]) % 2 else t.support(c))
        out = {"iter": segs_of(tb, t), "support": segs_of(tb, sup),
               "support_iter": segs_of(tb, t.support_iter(c)),
               "duration": tb.u(t.duration()), "twice": segs_of(tb, sup.support(c))}
        from pyannote.core import Timeline as _TL
        s0 = t.support()
        assert list(s0.support(c)) == list(_TL(list(s0)).support(c)) == list(t.support(c)), \
            "support(collar) of a timeline returned by support() differs from support(collar) of the same segments"
        assert list(sup.support()) == list(_TL(list(sup)).support())
        # a returned support is the caller's to edit: the next call still returns the support of the timeline
        from harness.tlutil import assert_fresh
        assert_fresh(tb, lambda: t.support(), "support()")
        assert_fresh(tb, lambda: t.support(c), "support(collar)")
        assert segs_of(tb, t) == out["iter"] and tb.u(t.duration()) == out["duration"]
        return out
    finally:
        tb.leave()


def encode(case, o):
    e = enc
    eps = REGIMES[case["regime"]]["eps"]
    return (f"K {e.z(eps)} {e.segs(case['segs'])} {e.z(case['collar'])} {e.segs(o['iter'])} {e.segs(o['support'])} "
            f"{e.segs(o['support_iter'])} {e.z(o['duration'])} {e.segs(o['twice'])}")


def nontrivial(case, o):
    return len(o["iter"]) >= 2 and (len(o["support"]) < len(o["iter"]) or len(o["support"]) >= 2)


def shrink(case):
    for s in gen.shrink_segs(case["segs"]):
        yield {**case, "segs": s}
    if case["collar"]:
        yield {**case, "collar": 0}
        yield {**case, "collar": case["collar"] - 1}
