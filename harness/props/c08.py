"""C08: derived objects are independent of their source; reads are pure."""
from harness import enc, gen
from harness.annutil import (enc_names, enc_triples, enc_uri, mk_ann, nm, rand_records, triples, LABELS, TRACKS)
from harness.timebase import TB
from harness.tlutil import mk_sup
from harness import heaputil

PROP = "C08"
CHECK_MODULE = "Check.C08"
COQ_IMPORTS = "Model.AnnotationOps Check.AnnCommon"
SHARD = 150
ANN_DERIVE = ["copy", "crop_loose", "crop_strict", "crop_intersection", "extrude_loose", "extrude_strict",
              "extrude_intersection", "support", "subset", "subset_inv", "rename_labels_copy", "rename_labels_gen",
              "rename_tracks", "relabel_tracks", "update_copy", "empty"]
ANN_TO_TL = ["get_timeline", "label_timeline", "label_support", "get_overlap", "get_overlap_labels"]
TL_DERIVE = ["tl_copy", "tl_copy_func", "tl_crop_loose", "tl_crop_strict", "tl_crop_intersection", "tl_extrude",
             "tl_support", "tl_gaps", "tl_segmentation", "tl_union", "tl_or", "tl_get_overlap", "tl_empty"]
TL_TO_ANN = ["to_annotation"]
PURE_OPS = ["co_iter", "mul", "to_rttm", "to_lab", "eq", "ne", "chart", "argmax", "itertracks", "labels", "contains",
            "discretize", "tl_co_iter", "tl_covers", "tl_eq", "tl_to_uem", "tl_overlapping", "tl_str",
            "absent_label", "absent_segment", "internal_views", "ann_all_reads", "tl_all_reads", "mutator_args",
            "one_label_duration", "one_label_timeline", "one_label_support", "one_label_get_labels", "plain_results"]
RULE = ("for every deriving operation of Annotation and Timeline (copy, crop x3, extrude x3, support, subset, "
        "rename_labels copy/generated, rename_tracks, relabel_tracks, update(copy=True), get_timeline, label_timeline, "
        "label_support, get_overlap, to_annotation, Timeline copy/crop/extrude/support/gaps/segmentation/union) in each "
        "cache state of the source (never read / fully read / partially dirty): derive, snapshot both sides, apply 1-6 "
        "random mutations (insert, overwrite, delete track/segment, in-place rename, uri change, update; add, remove, "
        "update for timelines) to ONE side, and snapshot the other side again; at derivation time and after the mutations "
        "the identities of all reachable mutable containers (dict, list, set, SortedDict, SortedList, Timeline, Annotation) "
        "of the two sides and of the arguments are compared (separation, the premise of the frame theorem); plus purity of every query "
        "(co_iter, *, serialisation, ==, chart, argmax, discretize, covers, ...) on receiver and arguments, incl. plain lists / sets returned by queries that the caller edits before asking again; "
        "every label-taking query asked about absent labels, every segment-taking query about absent segments, internal views (copy=False) read, sweeps of all reads of Annotation and Timeline; regimes K0/K1; non-trivial = the derived object is non-empty and at least two mutations were applied")


def generate(rng, tier):
    cases = []
    n = 12 if tier == "thorough" else 2
    for regime in ("K0", "K1"):
        for op in ANN_DERIVE + ANN_TO_TL + TL_DERIVE + TL_TO_ANN:
            for cache in ("none", "full", "partial"):
                for side in ("derived", "source"):
                    for _ in range(n):
                        labels = LABELS[: rng.randrange(2, 5)]
                        recs = rand_records(rng, regime, nseg=rng.choice([2, 3, 5]), span=12, labels=labels, allow_empty=0.0)
                        muts = []
                        for _ in range(rng.randrange(1, 7)):
                            muts.append([rng.choice(["set", "set", "overwrite", "deltrack", "delseg", "rename", "seturi",
                                                     "update", "add", "remove"]),
                                         gen.rand_segment(rng, regime, span=12, allow_empty=0.0),
                                         rng.choice(TRACKS), rng.choice(labels + ["new"]), rng.randrange(100)])
                        cases.append({"k": "indep", "regime": regime, "op": op, "cache": cache, "side": side, "recs": recs,
                                      "other": rand_records(rng, regime, nseg=2, span=12, labels=labels, allow_empty=0.0),
                                      "sup": ["seg", gen.rand_segment(rng, regime, span=12, maxlen=8, allow_empty=0.0)]
                                      if rng.random() < 0.5 else ["tl", gen.rand_timeline(rng, regime, maxn=3, span=12)],
                                      "labels": labels, "muts": muts})
        for op in PURE_OPS:
            for cache in ("none", "full", "partial", "dirty2"):
                for _ in range(n * 2):
                    labels = LABELS[: rng.randrange(2, 5)]
                    cases.append({"k": "pure", "regime": regime, "op": op, "cache": cache,
                                  "recs": rand_records(rng, regime, nseg=rng.choice([2, 3, 5]), span=12, labels=labels, allow_empty=0.0),
                                  "other": rand_records(rng, regime, nseg=3, span=12, labels=labels, allow_empty=0.0),
                                  "labels": labels})
    kinds = {}
    for c in cases:
        kinds[c["op"]] = kinds.get(c["op"], 0) + 1
    return {"cases": cases, "meta": {"exhaustive": False, "per_operation": kinds}}


def _snap(tb, x):
    from pyannote.core import Annotation, Timeline
    if isinstance(x, Annotation):
        labs = [nm(l) for l in x.labels()]
        tl = x.get_timeline()
        assert tl.uri == x.uri
        return {"recs": triples(tb, x), "labels": labs, "uri": x.uri, "modality": x.modality,
                "timeline": [tb.us(s) for s in tl], "label_tls": [[tb.us(s) for s in x.label_timeline(l)] for l in x.labels()],
                "extent": tb.us(tl.extent())}
    if isinstance(x, Timeline):
        members = list(x)
        assert len(x) == len(members) and bool(x) == bool(members), "len() / bool() of a timeline disagree with its iteration"
        assert all(m in x for m in members) and x == Timeline(members), "membership / == of a timeline disagree with its iteration"
        return {"recs": [], "labels": [], "uri": x.uri, "modality": None, "timeline": [tb.us(s) for s in x],
                "label_tls": [], "extent": tb.us(x.extent())}
    raise TypeError(type(x))


def _raw_snap(tb, x):
    """snapshot that does not go through the cache-refreshing reads (used before a derivation
    so that the cache state under test is not disturbed): internal track map only"""
    from pyannote.core import Annotation
    if isinstance(x, Annotation):
        return triples(tb, x)
    return [tb.us(s) for s in x]


def _prime(a, cache, labels):
    if cache == "full":
        a.labels()
        a.get_timeline()
        for l in a.labels():
            a.label_timeline(l)
    elif cache == "dirty2":
        # warm caches, then ONE edit that dirties two built labels at once (a track relabelled from one to the other)
        a.labels()
        a.get_timeline()
        for l in a.labels():
            a.label_timeline(l)
        for s, t, l in list(a.itertracks(yield_label=True)):
            others = [x for x in a.labels() if x != l]
            if others:
                a[s, t] = others[0]
                break
    elif cache == "partial":
        a.labels()
        a.get_timeline()
        segs = list(a.itersegments())
        if segs:
            a[segs[0], "zz_partial"] = labels[0]   # leaves one label and nothing else dirty
            del a[segs[0], "zz_partial"]


def _derive(tb, op, a, t, other, sup, labels):
    """derive; plain Python containers handed over as arguments (label sets / lists, mappings) must come back
    unchanged as well"""
    import copy as _copy
    args = {"lset": set(labels[:2]) | {"zz_absent"}, "llist": list(labels[:1]) + ["zz_absent"],
            "mapping": {labels[0]: labels[1], "zz_absent": "zz_other"}}
    before = _copy.deepcopy(args)
    d = _derive1(tb, op, a, t, other, sup, labels, args)
    assert args == before, f"{op} changed a container passed as argument: {before} -> {args}"
    return d


def _derive1(tb, op, a, t, other, sup, labels, args):
    from pyannote.core import Segment
    if op == "copy": return a.copy()
    if op.startswith("crop_"): return a.crop(sup, mode=op[5:])
    if op.startswith("extrude_"): return a.extrude(sup, mode=op[8:])
    if op == "support": return a.support()
    if op == "subset": return a.subset(args["lset"])
    if op == "subset_inv": return a.subset(args["llist"], invert=True)
    if op == "rename_labels_copy": return a.rename_labels(mapping=args["mapping"])
    if op == "rename_labels_gen": return a.rename_labels(generator="int")
    if op == "rename_tracks": return a.rename_tracks()
    if op == "relabel_tracks": return a.relabel_tracks(generator="int")
    if op == "update_copy": return a.update(other, copy=True)
    if op == "empty": return a.empty()
    if op == "get_timeline": return a.get_timeline()
    if op == "label_timeline": return a.label_timeline(labels[0])
    if op == "label_support": return a.label_support(labels[0])
    if op == "get_overlap": return a.get_overlap()
    if op == "get_overlap_labels": return a.get_overlap(labels=args["lset"])
    if op == "to_annotation": return t.to_annotation()
    if op == "tl_copy": return t.copy()
    if op == "tl_copy_func": return t.copy(lambda s: Segment(s.start, s.end))
    if op.startswith("tl_crop_"): return t.crop(sup, mode=op[8:])
    if op == "tl_extrude": return t.extrude(sup)
    if op == "tl_support": return t.support()
    if op == "tl_gaps": return t.gaps(support=sup)
    if op == "tl_segmentation": return t.segmentation()
    if op == "tl_union": return t.union(other.get_timeline())
    if op == "tl_or": return t | other.get_timeline()
    if op == "tl_get_overlap": return t.get_overlap()
    if op == "tl_empty": return t.empty()
    raise ValueError(op)


def _mutate(tb, x, muts, other):
    from pyannote.core import Annotation, Timeline
    for kind, seg, track, label, salt in muts:
        S = tb.S(seg)
        if isinstance(x, Annotation):
            segs = list(x.itersegments())
            if kind in ("set", "add"):
                x[S, track] = label
            elif kind == "overwrite" and segs:
                s0 = segs[salt % len(segs)]
                tr = sorted(x.get_tracks(s0), key=str)
                x[s0, tr[salt % len(tr)]] = label
            elif kind == "deltrack" and segs:
                s0 = segs[salt % len(segs)]
                tr = sorted(x.get_tracks(s0), key=str)
                del x[s0, tr[salt % len(tr)]]
            elif kind in ("delseg", "remove") and segs:
                del x[segs[salt % len(segs)]]
            elif kind == "rename" and x.labels():
                x.rename_labels(mapping={x.labels()[salt % len(x.labels())]: label}, copy=False)
            elif kind == "seturi":
                x.uri = "mut%d" % (salt % 3)
            elif kind == "update":
                x.update(other)
        elif isinstance(x, Timeline):
            segs = list(x)
            if kind in ("set", "add", "overwrite"):
                x.add(S)
            elif kind in ("delseg", "remove", "deltrack") and segs:
                x.remove(segs[salt % len(segs)])
            elif kind == "update":
                x.update(other.get_timeline())
            elif kind == "seturi":
                x.uri = "mut%d" % (salt % 3)
            elif kind == "rename":
                x |= other.get_timeline()


def run(case):
    import io
    from pyannote.core import Segment, SlidingWindow
    tb = TB(case["regime"])
    tb.enter()
    try:
        labels = case["labels"]
        a = mk_ann(tb, case["recs"], "u", "m")
        other = mk_ann(tb, case["other"], "v", None)
        op = case["op"]
        if case["k"] == "indep":
            sup = mk_sup(tb, case["sup"])
            src = a.get_timeline() if (op.startswith("tl_") or op == "to_annotation") else a
            t = src if src is not a else None
            if src is a:
                _prime(a, case["cache"], labels)
            raw_before = _raw_snap(tb, src)
            other_before = _snap(tb, other)
            d = _derive(tb, op, a, t, other, sup, labels)
            # separation at derivation time: no mutable container is reachable from both the derived
            # object and the source / the arguments (premise (i) of the frame theorem of C08)
            sh = heaputil.shared([a, src, other, sup], [d])
            assert _raw_snap(tb, src) == raw_before, "derivation changed its source"
            assert _snap(tb, other) == other_before, "derivation changed its argument"
            sb_src, sb_d = _snap(tb, src), _snap(tb, d)
            x, y = (d, src) if case["side"] == "derived" else (src, d)
            sb_y = sb_src if y is src else sb_d
            ids_y = sorted(heaputil.containers(y))
            _mutate(tb, x, case["muts"], other)
            # footprint discipline (premise (ii)): the mutators acquired nothing owned by the other side or
            # by their argument, and the other side still owns the same containers
            sh += heaputil.shared([x], [y, other])
            yids_same = sorted(heaputil.containers(y)) == ids_y
            return {"ub": sb_y, "ua": _snap(tb, y), "n_derived": len(sb_d["timeline"]), "shared": sh, "yids": yids_same}
        # purity of queries
        _prime(a, case["cache"], labels)
        t = a.get_timeline()
        to = other.get_timeline()
        raw = _raw_snap(tb, a)
        before = [_snap(tb, a.copy()), _snap(tb, other), _snap(tb, t), _snap(tb, to)]
        if case["cache"] != "dirty2":            # (dirty2 edits the content: applied once, above)
            _prime(a, case["cache"], labels)
        if op == "co_iter": list(a.co_iter(other))
        elif op == "mul": a * other
        elif op == "to_rttm": a.to_rttm()
        elif op == "to_lab": a.to_lab()
        elif op == "eq": a == other
        elif op == "ne": a != other
        elif op == "chart": a.chart()
        elif op == "argmax": a.argmax(Segment(tb.t(2), tb.t(9)))
        elif op == "itertracks": list(a.itertracks(yield_label=True)); str(a)
        elif op == "labels": a.labels(); a.get_labels(Segment(tb.t(0), tb.t(1)))
        elif op == "contains": (to in a); (Segment(tb.t(0), tb.t(1)) in a)
        elif op == "discretize": a.discretize(resolution=tb.t(2) if a else tb.t(2)) if a else None
        elif op == "tl_co_iter": list(t.co_iter(to))
        elif op == "tl_covers": t.covers(to)
        elif op == "tl_eq": (t == to, t != to, to in t)
        elif op == "tl_to_uem": t.to_uem()
        elif op == "tl_overlapping": t.overlapping(tb.t(3))
        elif op == "tl_str": str(t); repr(t); len(t); t.duration()
        elif op.startswith("one_label_"):
            # the FIRST read after the last edit asks about one label only; every other label must still be answered
            # from the current tracks afterwards
            present = [l for _s, _t, l in a.itertracks(yield_label=True)]
            for lab in (present[:1] if present else []) + [labels[0]]:
                if op == "one_label_duration": a.label_duration(lab)
                elif op == "one_label_timeline": a.label_timeline(lab)
                elif op == "one_label_support": a.label_support(lab)
                else: a.label_timeline(lab, copy=False)
        elif op == "mutator_args":
            # in-place operations that take another object: the ARGUMENT is only read - unchanged right after the
            # call and unaffected by later edits of the receiver (and conversely); both size relations
            far = tb.t(5000)
            for recv0, arg in ((t, to), (to, t)):
                for how in ("update", "ior"):
                    recv = recv0.copy()
                    b_arg = _snap(tb, arg)
                    if how == "update":
                        recv.update(arg)
                    else:
                        recv |= arg
                    assert _snap(tb, arg) == b_arg, f"Timeline {how} changed its argument"
                    recv.add(Segment(far, far + 1))
                    for m_ in list(arg)[:2]:
                        recv.discard(m_)
                    assert _snap(tb, arg) == b_arg, f"editing the receiver of Timeline {how} changed the argument"
                    b_recv = _snap(tb, recv)
                    arg2 = arg.copy()            # the argument itself must stay as it is for the final comparison
                    recv2 = recv0.copy()
                    recv2.update(arg2) if how == "update" else recv2.__ior__(arg2)
                    b2 = _snap(tb, recv2)
                    arg2.add(Segment(far + 3, far + 4))
                    for m_ in list(arg2)[:1]:
                        arg2.remove(m_)
                    assert _snap(tb, recv2) == b2, f"editing the argument of Timeline {how} changed the receiver"
                    assert _snap(tb, recv) == b_recv
            for copy_flag in (False, True):
                recv = a.copy()
                b_arg = _snap(tb, other)
                res = recv.update(other, copy=copy_flag)
                assert _snap(tb, other) == b_arg, "Annotation.update changed its argument"
                for s_ in list(res.itersegments()):
                    res[s_, "zz_m"] = "zz_l"
                    del res[s_, sorted(res.get_tracks(s_), key=str)[0]]
                assert _snap(tb, other) == b_arg, "editing the result of Annotation.update changed the argument"
        elif op == "plain_results":
            # queries that answer with a plain list / set / dict: the caller may edit the answer freely; asking again
            # gives the same answer (and the source's own views are compared before / after below)
            segs_ = list(a.itersegments())
            S0 = segs_[0] if segs_ else Segment(tb.t(0), tb.t(1))
            queries = [("labels", lambda: a.labels()), ("chart", lambda: a.chart()), ("get_tracks", lambda: a.get_tracks(S0)),
                       ("get_labels", lambda: a.get_labels(S0)), ("get_labels(unique=False)", lambda: a.get_labels(S0, unique=False)),
                       ("overlapping", lambda: t.overlapping(S0.start)), ("itertracks", lambda: list(a.itertracks(yield_label=True))),
                       ("itersegments", lambda: list(a.itersegments())), ("list(timeline)", lambda: list(t)),
                       ("other.labels", lambda: other.labels())]
            for what, q in queries * 2:
                r = q()
                if isinstance(r, list):
                    keep = list(r)
                    r.append("zz_junk"); r.reverse(); del r[-1:]; r.insert(0, None)
                elif isinstance(r, (set, dict)):
                    keep = type(r)(r)
                    r.clear()
                    (r.add("zz_junk") if isinstance(r, set) else r.update(zz_junk=1))
                else:
                    continue
                assert q() == keep, "editing the %s() answer changed what %s() answers next" % (what, what)
            # ... and an answer the caller kept is a snapshot: later edits of the annotation do not reach it
            c_ = a.copy()
            kept = [(what, f(), None) for what, f in (("labels", lambda: c_.labels()), ("chart", lambda: c_.chart()),
                                                      ("get_tracks", lambda: c_.get_tracks(S0)), ("get_labels", lambda: c_.get_labels(S0)),
                                                      ("get_labels(unique=False)", lambda: c_.get_labels(S0, unique=False)),
                                                      ("get_timeline", lambda: c_.get_timeline()), ("label_timeline", lambda: (c_.label_timeline(c_.labels()[0]) if c_.labels() else None)))]
            import copy as _copy
            kept = [(what, r, _copy.copy(r) if not hasattr(r, "segments_list_") else list(r)) for what, r, _ in kept]
            c_[S0, "zz_track"] = "zz_label"
            for t_ in sorted(c_.get_tracks(S0), key=str)[:1]:
                del c_[S0, t_]
            c_[Segment(tb.t(7000), tb.t(7001)), "zz_track2"] = "zz_label2"
            c_.labels(); c_.get_timeline()
            for what, r, snap in kept:
                now = r if not hasattr(r, "segments_list_") else list(r)
                assert now == snap and (not isinstance(snap, (set, frozenset)) or isinstance(r, (set, frozenset))), \
                    "the %s() answer kept by the caller changed when the annotation was edited" % what
        elif op == "absent_label":
            # every query that takes a label, asked about a label the annotation does not carry
            for lab in ("zz_absent", 12345, ""):
                if lab in a.labels():
                    continue
                a.label_duration(lab); a.label_support(lab); a.label_timeline(lab); a.label_timeline(lab, copy=False)
                a.subset([lab]); a.subset({lab}, invert=True); a.get_overlap(labels=[lab]); (lab in a.labels())
                a.rename_labels(mapping={lab: "zz_other"}); list(a.itertracks(yield_label=True))
        elif op == "absent_segment":
            for S in (Segment(tb.t(100), tb.t(101)), Segment(tb.t(0), tb.t(0)), Segment(tb.t(-7), tb.t(50))):
                if S in a:
                    continue
                a.get_tracks(S); a.get_labels(S); a.get_labels(S, unique=False); a.has_track(S, "_"); (S in a)
                a.new_track(S); a.new_track(S, candidate="_", prefix="p"); a.crop(S); a.argmax(S)
                try:
                    a[S]
                except KeyError:
                    pass
                try:
                    a[S, "_"]
                except KeyError:
                    pass
        elif op == "internal_views":
            # views handed out without copying are only read here
            v = a.get_timeline(copy=False); list(v); len(v); v.extent(); v.duration()
            for lab in a.labels():
                w = a.label_timeline(lab, copy=False); list(w); w.support(); w.duration()
            list(a.itersegments()); len(a); bool(a); str(a); repr(a)
        elif op == "ann_all_reads":
            S = Segment(tb.t(2), tb.t(9))
            a.chart(percent=True); a.argmax(); a.get_overlap(); a.support(tb.t(1)); a.crop(S, mode="loose"); a.extrude(S)
            list(a.co_iter(a)); a * a; a.subset(a.labels()[:1]); a.label_duration(a.labels()[0]) if a.labels() else None
            a.relabel_tracks(); a.rename_tracks(generator="int"); a.rename_labels(generator="string"); a.empty(); a.copy()
            list(a.itertracks()); [a.get_tracks(s) for s in a.itersegments()]; [a.get_labels(s) for s in a.itersegments()]
            a.update(other, copy=True); (a == a.copy()); a.to_rttm(); a.to_lab()
        elif op == "tl_all_reads":
            S = Segment(tb.t(2), tb.t(9))
            t.extent(); t.support(); t.support(tb.t(1)); t.duration(); t.gaps(); t.gaps(support=S); t.segmentation()
            t.crop(S); t.crop(to, mode="strict", returns_mapping=True); t.extrude(S); t.get_overlap(); t.covers(to)
            list(t.overlapping_iter(tb.t(3))); t.overlapping(tb.t(100)); (S in t); (to in t); (t.empty() in t); t.union(to)
            t | to; t.copy(); t.to_annotation(); t.to_uem(); list(t.co_iter(to)); list(iter(t)); t[0] if t else None
            t.index(t[0]) if t else None; bool(t); len(t); str(t)
        assert _raw_snap(tb, a) == raw
        after = [_snap(tb, a), _snap(tb, other), _snap(tb, t), _snap(tb, to)]
        return {"before": before, "after": after}
    finally:
        tb.leave()


def _enc_snap(s):
    e = enc
    return (f"(SN {enc_triples(s['recs'])} {enc_names(s['labels'])} {enc_uri(s['uri'])} {enc_uri(s['modality'])} "
            f"{e.segs(s['timeline'])} {e.lst([e.segs(x) for x in s['label_tls']])} {e.seg(s['extent'])})")


def encode(case, o):
    e = enc
    if case["k"] == "indep":
        return (f"KIndep {_enc_snap(o['ub'])} {_enc_snap(o['ua'])} {_enc_snap(o['ub'])} {_enc_snap(o['ub'])} "
                f"{e.z(len(o.get('shared', [])))} {e.b(o.get('yids', True))}")
    b, a = o["before"], o["after"]
    return f"KPure {_enc_snap(b[0])} {_enc_snap(a[0])} {e.lst([_enc_snap(x) for x in b[1:]])} {e.lst([_enc_snap(x) for x in a[1:]])}"


def nontrivial(case, o):
    if case["k"] == "indep":
        return o.get("n_derived", 0) > 0 and len(case["muts"]) >= 2
    return True


def shrink(case):
    if case["k"] == "indep":
        m = case["muts"]
        for i in range(len(m)):
            yield {**case, "muts": m[:i] + m[i + 1:]}
    recs = case["recs"]
    for i in range(len(recs)):
        yield {**case, "recs": recs[:i] + recs[i + 1:]}
