"""C15: SlidingWindow.crop (loose / strict / center, fixed, return_ranges, Timeline focus)."""
import itertools

from harness import enc, gen
from harness.timebase import TB, REGIMES

PROP = "C15"
# the binary64 theorems (Properties/C15.v, module Binary64) use the standard library's real numbers
AXIOM_WHITELIST = ["sig_not_dec", "sig_forall_dec", "functional_extensionality_dep", "classic"]
TRUSTED = ["C15 module Binary64: Coq standard-library axioms of the real numbers (ClassicalDedekindReals.sig_not_dec, sig_forall_dec), "
           "FunctionalExtensionality.functional_extensionality_dep, Classical_Prop.classic, through Reals and Flocq 4; "
           "IEEE-754 binary64 arithmetic modelled by Flocq's round on the reals"]
CHECK_MODULE = "Check.C15"
COQ_IMPORTS = "Model.Window"
SHARD = 300
RULE = ("[also: Timeline focuses built in part, cropped, then completed in place; every crop repeated with windows that differ only by an `end`] " +
        "tick-aligned windows with duration, step in 1..4 ticks and start in -2..2 x every focus segment with bounds "
        "in -6..10 (inside, straddling or before the window start, shorter than a frame, empty) x fixed in "
        "{None, 0, 1, duration, duration+2*step+1}; timeline focuses (overlapping, abutting, tiny, empty) of up to 4 "
        "segments; each mode, index-array and return_ranges forms; random larger geometries; regimes K0, K4; "
        "regime P0 (set_precision(0), sub-second window geometry, whole-second focuses); tolerance tier: decimal (non-dyadic) steps 0.01, 0.016, 1/3, ... and durations, focus bounds on, next to and "
        "between frame boundaries, passed as exact integers in units of 2^-130 s, each observed range bound required to "
        "be the rounding of a quotient within 2^-40 x (sum of operand magnitudes) / step of the exact one; "
        "non-trivial = the loose result has at least two frames")


def generate(rng, tier):
    cases = []
    for regime in ("K0", "K4"):
        u = 5 if regime == "K4" else 1
        geos = list(itertools.product(range(1, 5), range(1, 5), range(-2, 3)))
        for d, s, st in geos:
            focuses = [[a, b] for a in range(-6, 11) for b in range(a, 11)]
            if tier != "thorough":
                focuses = rng.sample(focuses, 40)
            for f in focuses:
                fixed = rng.choice([None, None, 0, 1, d, d + 2 * s + 1])
                cases.append({"k": "seg", "regime": regime, "dur": d * u, "step": s * u, "start": st * u,
                              "focus": [f[0] * u, f[1] * u], "fixed": None if fixed is None else fixed * u})
            for _ in range(40 if tier == "thorough" else 8):
                cases.append({"k": "tl", "regime": regime, "dur": d * u, "step": s * u, "start": st * u,
                              "focus": gen.rand_timeline(rng, regime, maxn=4, span=16)})
            cases.append({"k": "tl", "regime": regime, "dur": d * u, "step": s * u, "start": st * u, "focus": []})
        for _ in range(3000 if tier == "thorough" else 300):
            d, s, st = rng.randrange(1, 30), rng.randrange(1, 30), rng.randrange(-40, 40)
            a = rng.randrange(-60, 200)
            cases.append({"k": "seg", "regime": regime, "dur": d * u, "step": s * u, "start": st * u,
                          "focus": [a * u, (a + rng.randrange(0, 120)) * u],
                          "fixed": rng.choice([None, None, rng.randrange(0, 100) * u])})
    # precision mode (regime P0: set_precision(0), ticks of 1/1024 s): the window geometry is sub-second and must not
    # be affected by the rounding of segments; focus bounds are whole seconds
    q, sec = 256, 1024
    for _ in range(4000 if tier == "thorough" else 500):
        d, s_, st = rng.randrange(1, 9), rng.randrange(1, 9), rng.randrange(-6, 7)
        if rng.random() < 0.3:
            d, s_, st = d * 50 + 13, s_ * 40 + 7, st * 100 + 19          # not multiples of a quarter second either
        else:
            d, s_, st = d * q, s_ * q, st * q
        a = rng.randrange(-4, 7)
        if rng.random() < 0.7:
            cases.append({"k": "seg", "regime": "P0", "dur": d, "step": s_, "start": st,
                          "focus": [a * sec, (a + rng.randrange(0, 5)) * sec],
                          "fixed": rng.choice([None, None, rng.randrange(0, 12) * q])})
        else:
            cases.append({"k": "tl", "regime": "P0", "dur": d, "step": s_, "start": st,
                          "focus": [[x * sec, y * sec] for x, y in gen.rand_timeline(rng, "K1", maxn=4, span=10)]})
    # tolerance tier: decimal (non-dyadic) window parameters and focus bounds, as real users write them;
    # bounds placed on and next to frame boundaries so that the exact quotients sit at or near rounding ties
    steps = [0.01, 0.02, 0.016, 0.1, 0.25, 1 / 3, 0.005, 0.0125]
    for _ in range(6000 if tier == "thorough" else 800):
        step = rng.choice(steps)
        dur = rng.choice([step, 2.5 * step, 3 * step, 0.025, 0.03, 0.1, 1.0, step / 2])
        start = rng.choice([0.0, 0.0, 0.5, -0.37, 100.2, 12.34])
        def bound():
            k = rng.randrange(-5, 400)
            base = start + k * step
            jit = rng.choice([0.0, dur, -dur, dur / 2, -dur / 2, 1e-9, -1e-9, step / 2, rng.uniform(-step, step),
                              rng.uniform(-3.0, 3.0)])
            return base + jit
        a, b = sorted([bound(), bound()])
        cases.append({"k": "segf", "regime": "K0", "dur": dur.hex(), "step": step.hex(), "start": float(start).hex(),
                      "focus": [a.hex(), b.hex()]})
    kinds = {}
    for c in cases:
        kinds[c["k"]] = kinds.get(c["k"], 0) + 1
    return {"cases": cases, "meta": {"exhaustive": tier == "thorough", "kinds": kinds}}


def _fx(h):
    """exact value of a binary64 (given as hex) in units of 2^-130"""
    from fractions import Fraction
    v = Fraction(float.fromhex(h)) * (1 << 130)
    if v.denominator != 1:
        raise ValueError("float too small for the 2^-130 grid")
    return int(v)


def run(case):
    from pyannote.core import SlidingWindow, Timeline
    if case["k"] == "segf":
        from pyannote.core import Segment
        fl = float.fromhex
        w = SlidingWindow(duration=fl(case["dur"]), step=fl(case["step"]), start=fl(case["start"]))
        f = Segment(fl(case["focus"][0]), fl(case["focus"][1]))
        out = []
        for m in ("loose", "strict", "center"):
            (i, j), = w.crop(f, mode=m, return_ranges=True)
            idx = w.crop(f, mode=m)
            assert [int(x) for x in idx] == list(range(int(i), int(j)))
            out.append([int(i), int(j)])
            # with `fixed` the number of frames is samples(fixed, mode), whatever the focus, in both output forms
            for fx in (fl(case["dur"]), 10 * fl(case["step"]), 1.0, 0.5, 1.5, 0.06, fl(case["dur"]) + 3 * fl(case["step"])):
                (fi, fj), = w.crop(f, mode=m, fixed=fx, return_ranges=True)
                want = w.samples(fx, mode=m)
                assert fj - fi == want == len(w.crop(f, mode=m, fixed=fx)), \
                    f"crop(fixed={fx!r}, mode={m}) has {fj - fi} frames, samples() says {want}"
        return {"obs": out}
    tb = TB(case["regime"])
    tb.enter()
    try:
        t = tb.t
        w = SlidingWindow(duration=t(case["dur"]), step=t(case["step"]), start=t(case["start"]))
        out = []
        if case["k"] == "seg":
            f = tb.S(case["focus"])
            kw = {} if case["fixed"] is None else {"fixed": t(case["fixed"])}
            for m in ("loose", "strict", "center"):
                idx = w.crop(f, mode=m, **kw)
                rng_ = w.crop(f, mode=m, return_ranges=True, **kw)
                assert str(idx.dtype) == "int64"
                out.append({"idx": [int(x) for x in idx], "rng": [[int(a), int(b)] for a, b in rng_]})
        else:
            # the focus is the caller's object: built in part, cropped with this very window (answers discarded),
            # then completed in place - the crops observed below see its current content
            segs_ = [tb.S(s) for s in case["focus"]]
            far_ = max([abs(v) for s in case["focus"] for v in s] + [0]) + 40 * max(1, case["step"])
            dummy_ = tb.S([far_, far_ + 3 * max(1, case["step"])])
            f = Timeline(segs_[:len(segs_) // 2] + [dummy_])
            for m in ("loose", "strict", "center"):
                w.crop(f, mode=m), w.crop(f, mode=m, return_ranges=True)
            f.remove(dummy_)
            for s_ in segs_[len(segs_) // 2:]:
                f.add(s_)
            for m in ("loose", "strict", "center"):
                idx = w.crop(f, mode=m)
                rng_ = w.crop(f, mode=m, return_ranges=True)
                out.append({"idx": [int(x) for x in idx], "rng": [[int(a), int(b)] for a, b in rng_]})
        # a window built with an `end` (as __call__ builds them) crops exactly like the same window without one
        kw_ = ({} if case.get("fixed") is None else {"fixed": t(case["fixed"])}) if case["k"] == "seg" else {}
        for e_ in (case["start"] + 3 * case["step"], case["start"] + 40 * case["step"], case["start"] + case["dur"] + 1):
            try:
                w2 = SlidingWindow(duration=t(case["dur"]), step=t(case["step"]), start=t(case["start"]), end=t(e_))
            except ValueError:
                continue
            for k_, m in enumerate(("loose", "strict", "center")):
                got = {"idx": [int(x) for x in w2.crop(f, mode=m, **kw_)],
                       "rng": [[int(a), int(b)] for a, b in w2.crop(f, mode=m, return_ranges=True, **kw_)]}
                assert got == out[k_], "crop(mode=%s) by a window with end=%r differs from the window without end: %r vs %r" % (m, e_, got, out[k_])
        return {"obs": out}
    finally:
        tb.leave()


def encode(case, o):
    e = enc
    if case["k"] == "segf":
        return (f"KSegF {e.z(_fx(case['dur']))} {e.z(_fx(case['step']))} {e.z(_fx(case['start']))} "
                f"{e.seg([_fx(case['focus'][0]), _fx(case['focus'][1])])} {e.lst([e.pair(e.z(a), e.z(b)) for a, b in o['obs']])}")
    eps = REGIMES[case["regime"]]["eps"]
    geo = f"{e.z(case['dur'])} {e.z(case['step'])} {e.z(case['start'])}"
    obs = e.lst([f"(O1 {e.zs(x['idx'])} {e.lst([e.pair(e.z(a), e.z(b)) for a, b in x['rng']])})" for x in o["obs"]])
    if case["k"] == "seg":
        return f"KSeg {geo} {e.seg(case['focus'])} {e.opt(case['fixed'], e.z)} {obs}"
    return f"KTl {e.z(eps)} {geo} {e.segs(case['focus'])} {obs}"


def nontrivial(case, o):
    if case["k"] == "segf":
        return o["obs"][0][1] - o["obs"][0][0] >= 2
    return len(o["obs"][0]["idx"]) >= 2


def shrink(case):
    if case["k"] == "tl":
        for s in gen.shrink_segs(case["focus"]):
            yield {**case, "focus": s}
