"""C18: Timeline.overlapping(t). Timeline bounds on even ticks, queries on every tick, plus
queries on quarter ticks (time points off the grid of the rounding regime K1)."""
from harness import enc, gen
from harness.timebase import TB, REGIMES
from harness.tlutil import mk_tl, segs_of

PROP = "C18"
CHECK_MODULE = "Check.C18"
COQ_IMPORTS = "Model.Timeline"
SHARD = 300
RULE = ("[also: nan, +-inf, open-ended segments] " +
        "timelines with bounds on even ticks (so that half-grid time points exist), every tick t from below the "
        "first bound to above the last: all timelines of <=3 (quick) / <=4 (thorough) segments on a 6-point grid, "
        "plus random timelines of up to 12 segments; regimes K0/K4/K1; also every quarter tick within one tick "
        "of a bound (off the rounding grid of K1, where a probe Segment(t, t) would be rounded); time points no double holds (exact rationals a hair beside every bound, integer nanosecond timelines beyond 2^53) compared exactly in the driver; copies translated 2 h, 28 h, 3 d or -8 h 20 min from the origin; non-trivial = "
        "some queried t equals a start or an end of a member")


def _case(regime, segs):
    segs2 = [[2 * a, 2 * b] for a, b in segs]
    pts = sorted({x for s in segs2 for x in s}) or [0]
    ts = list(range(pts[0] - 2, pts[-1] + 3)) if pts[-1] - pts[0] <= 60 else \
        sorted({p + d for p in pts for d in (-2, -1, 0, 1, 2)})
    qs = sorted({4 * p + d for p in pts[:8] for d in (-3, -2, -1, 1, 2, 3)})
    return {"regime": regime, "segs": segs2, "ts": ts, "qs": qs}


def generate(rng, tier):
    cases = []
    k = 4 if tier == "thorough" else 3
    for regime in ("K0", "K4", "K1"):
        for segs in gen.small_timelines(regime, k):
            cases.append(_case(regime, segs))
        for _ in range(3000 if tier == "thorough" else 300):
            cases.append(_case(regime, gen.rand_timeline(rng, regime)))
        for nbig in ([300, 520, 700, 1100] if tier == "thorough" else [300 + 37 * len(regime), 640]):
            # large timelines (more than 256 / 512 / 1000 segments) with runs of equal starts; queried at the starts
            # of the segments sitting around positions 256 k of the sorted order, and at random bounds
            if regime == "K1" and tier != "thorough":
                continue
            big = gen.big_timeline(rng, regime, nbig)
            srt = sorted(tuple(x) for x in big)
            pts = {srt[i][0] for k in (256, 512, 768, 1000, 1024) for i in range(k - 6, k + 6) if 0 <= i < len(srt)}
            pts |= {rng.choice(srt)[rng.randrange(2)] for _ in range(25)}
            c = _case(regime, big)
            c["ts"] = sorted({2 * p + d for p in pts for d in (-1, 0, 1)})
            c["qs"] = c["qs"][:12]
            cases.append(c)
        if regime == "K0":
            # the same shapes on a decimal grid (0.1 s: non-dyadic doubles), queried at every bound
            for _ in range(1500 if tier == "thorough" else 200):
                cases.append(_case("D1", gen.rand_timeline(rng, "K0", maxn=8, span=30)))
        for _ in range(200 if tier == "thorough" else 25):
            # the same, hours or days away from the origin
            off = rng.choice(gen.FAR_SECONDS if regime == "K1" else gen.FAR_SECONDS[:4]) * REGIMES[regime]["scale"]   # (doubled and quartered ticks must fit a double)
            cases.append(_case(regime, gen.shift(gen.rand_timeline(rng, regime, maxn=6), off)))
    return {"cases": cases, "meta": {"exhaustive": True, "small_scope_max_segments": k,
                                     "sizes": gen.stats(cases, {"n_segments": lambda c: len(c["segs"])})}}


def run(case):
    tb = TB(case["regime"])
    tb.enter()
    try:
        t = mk_tl(tb, case["segs"])
        out = []
        members = list(t)
        far = max([abs(x) for s in case["segs"] for x in s] + [0]) + 1000
        dummy = tb.S([far, far + 3])
        for x in case["ts"]:
            tx = tb.t(x)
            if members:
                # same time point probed before, during and after a count-preserving edit: an answer remembered
                # from an earlier call must not survive the edit
                t.overlapping(tx)
                victim = members[(x * 7) % len(members)]
                t.remove(victim)
                t.add(dummy)
                during = segs_of(tb, t.overlapping(tx))
                assert tb.us(victim) not in during, "overlapping(t) returned a segment that had been removed"
                t.remove(dummy)
                t.add(victim)
            out.append([segs_of(tb, t.overlapping(tx)), segs_of(tb, t.overlapping_iter(tx))])
        outq = []
        for q in case.get("qs", []):
            tq = q / (4 * tb.scale)          # exact: power-of-two denominators
            outq.append([segs_of(tb, t.overlapping(tq)), segs_of(tb, t.overlapping_iter(tq))])
        if tb.prec is None and case["ts"]:
            # membership of a time point in the stored segments does not depend on the precision in force: the same
            # queries under a coarser precision set AFTER the timeline was built (stored bounds are not re-rounded)
            from pyannote.core import Segment
            try:
                Segment.set_precision(1 if len(case["segs"]) % 2 else 0)
                again = [[segs_of(tb, t.overlapping(tb.t(x))), segs_of(tb, t.overlapping_iter(tb.t(x)))] for x in case["ts"][:40]]
            finally:
                Segment.set_precision(None)
            assert again == out[:40], "overlapping(t) changed when the time precision was changed after the timeline was built"
        # time points that no double holds (exact rationals a hair beside a bound, integers beyond 2^53): the answer is
        # still start <= t <= end, compared exactly
        from fractions import Fraction
        hair = Fraction(1, 10 ** 30)
        for b_ in sorted({v for s_ in members for v in (s_.start, s_.end)})[:12]:
            for tq in (Fraction(b_) + hair, Fraction(b_) - hair, Fraction(b_)):
                want = [s_ for s_ in members if Fraction(s_.start) <= tq <= Fraction(s_.end)]
                assert t.overlapping(tq) == want and list(t.overlapping_iter(tq)) == want, \
                    "overlapping(%r) != the segments with start <= t <= end" % (tq,)
        if tb.prec is None:
            # open-ended segments and infinite time points: still start <= t <= end
            from pyannote.core import Segment, Timeline
            inf = float("inf")
            lo_ = min([s_.start for s_ in members] + [0]) - 5
            hi_ = max([s_.end for s_ in members] + [0]) + 5
            open_ = Timeline(list(members) + [Segment(hi_, inf), Segment(-inf, lo_), Segment(-inf, inf)])
            nan = float("nan")
            assert open_.overlapping(nan) == [] and list(open_.overlapping_iter(nan)) == [] and t.overlapping(nan) == [], \
                "overlapping(nan) is not empty (no segment has start <= nan <= end)"
            for tq in (inf, -inf, hi_, lo_, hi_ + 1e300, -1e300, (lo_ + hi_) / 2):
                want = [s_ for s_ in open_ if s_.start <= tq <= s_.end]
                assert open_.overlapping(tq) == want and list(open_.overlapping_iter(tq)) == want, \
                    "overlapping(%r) != the segments with start <= t <= end (open-ended segments)" % (tq,)
        if tb.prec is None and case["segs"]:
            from pyannote.core import Segment, Timeline
            base = 1_700_000_000_000_000_000
            big = Timeline([Segment(base + 1000 * a_, base + 1000 * b_) for a_, b_ in case["segs"] if b_ > a_])
            for x in case["ts"][:20]:
                for tq in (base + 1000 * x, base + 1000 * x + 50, base + 1000 * x - 50):
                    want = [s_ for s_ in big if s_.start <= tq <= s_.end]
                    assert big.overlapping(tq) == want and list(big.overlapping_iter(tq)) == want, \
                        "overlapping(%r) != the segments with start <= t <= end (integer nanosecond times)" % (tq,)
        return {"q": out, "qq": outq}
    finally:
        tb.leave()


def encode(case, o):
    e = enc
    eps = REGIMES[case["regime"]]["eps"]
    qs = [e.pair(e.z(t), e.pair(e.segs(a), e.segs(b))) for t, (a, b) in zip(case["ts"], o["q"])]
    qqs = [e.pair(e.z(t), e.pair(e.segs(a), e.segs(b))) for t, (a, b) in zip(case.get("qs", []), o.get("qq", []))]
    return f"K {e.z(eps)} {e.segs(case['segs'])} {e.lst(qs)} {e.lst(qqs)}"


def nontrivial(case, o):
    b = {x for s in case["segs"] for x in s}
    return any(t in b for t in case["ts"]) and len(case["segs"]) >= 2


def shrink(case):
    for s in gen.shrink_segs(case["segs"]):
        yield {**case, "segs": s}
    for i in range(len(case["ts"])):
        yield {**case, "ts": case["ts"][:i] + case["ts"][i + 1:]}
    for i in range(len(case.get("qs", []))):
        yield {**case, "qs": case["qs"][:i] + case["qs"][i + 1:]}
