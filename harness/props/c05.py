"""C05: Timeline.co_iter and crop (three modes, mapping)."""
import itertools

from harness import enc, gen
from harness.timebase import TB, REGIMES
from harness.tlutil import mk_tl, segs_of, mk_sup, enc_sup

PROP = "C05"
CHECK_MODULE = "Check.C05"
COQ_IMPORTS = "Model.AnnotationOps Check.AnnCommon"
SHARD = 300
RULE = ("[also: x.co_iter(x) against x.co_iter(x.copy()); copies translated by up to 1.7e9 s] " +
        "(timeline, other timeline, support as Segment or Timeline): every timeline of <=2 (quick) / <=3 (thorough) "
        "segments x every support of <=2 segments on a 6-point grid (overlapping, abutting, nested, touching support "
        "bounds) in K0, a random third of that product in K4/K1, plus random larger pairs; observed: list(co_iter), "
        "crop in the three modes (Timeline and crop_iter), crop(returns_mapping=True); copies translated 2 h, 28 h, 3 d or -8 h 20 min from the origin; non-trivial = at least one "
        "intersecting pair and a non-empty support")


def _sup_of(segs, rng=None):
    if len(segs) == 1 and (rng is None or rng.random() < 0.5):
        return ["seg", segs[0]]
    return ["tl", segs]


def generate(rng, tier):
    cases = []
    k = 3 if tier == "thorough" else 2
    nex = 0
    for regime in ("K0", "K4", "K1"):
        tls = list(gen.small_timelines(regime, k))
        sups = list(gen.small_timelines(regime, 2))
        for t, s in itertools.product(tls, sups):
            if regime != "K0" and rng.random() > (0.34 if tier != "thorough" else 1.0):
                continue
            for sup in ([["seg", s[0]], ["tl", s]] if len(s) == 1 else [["tl", s]]):
                cases.append({"regime": regime, "t": t, "other": s, "sup": sup})
                nex += 1
        for _ in range(5000 if tier == "thorough" else 500):
            t = gen.rand_timeline(rng, regime)
            o = gen.rand_timeline(rng, regime, maxn=6)
            r = rng.random()
            if r < 0.25:
                sup = ["seg", gen.rand_segment(rng, regime, maxlen=25, allow_empty=0.1)]
            else:
                sup = ["tl", gen.rand_timeline(rng, regime, maxn=5)]
            cases.append({"regime": regime, "t": t, "other": o, "sup": sup})
    from harness.annutil import rand_records, LABELS
    for regime in ("K0", "K4", "K1"):
        for _ in range(3000 if tier == "thorough" else 300):
            tr = ["x", "y", 0, 1, "A", "_"]
            def distinct(recs):
                seen, out = set(), []
                for s_, t_, l_ in recs:
                    if (tuple(s_), str(t_)) not in seen:
                        seen.add((tuple(s_), str(t_)))
                        out.append([s_, t_, l_])
                return out
            cases.append({"k": "ann", "regime": regime,
                          "a": distinct(rand_records(rng, regime, nseg=rng.choice([1, 3, 5]), span=12, tracks=tr, allow_empty=0.0)),
                          "b": distinct(rand_records(rng, regime, nseg=rng.choice([1, 2, 4]), span=12, tracks=tr, allow_empty=0.0))})
    for regime in ("K0", "K4"):
        for nbig in ([300, 640, 1100] if tier == "thorough" else [280 + 45 * len(regime)]):
            u_ = 5 if regime == "K4" else 1
            big = gen.big_timeline(rng, regime, nbig)
            hi = max(x[1] for x in big)
            sup = ["tl", [[a, a + rng.choice([3, 9, 40]) * u_] for a in sorted(rng.sample(range(0, hi, u_), 25))]]
            cases.append({"regime": regime, "t": big, "other": gen.big_timeline(rng, regime, 60), "sup": sup})
    cases += gen.decimal_copies(rng, cases, (1500 if tier == "thorough" else 150), lambda c: len(c.get('t', [])) < 50)
    cases += gen.p3_copies(rng, cases, ['t', 'other', 'sup', 'a', 'b'], (1000 if tier == "thorough" else 120), lambda c: len(c.get('t', [])) < 50)
    cases += gen.far_copies(rng, cases, ['t', 'other', 'sup', 'a', 'b'], (400 if tier == "thorough" else 60))
    return {"cases": cases, "meta": {"exhaustive": True, "small_scope_cases": nex,
                                     "sizes": gen.stats(cases, {"n_t": lambda c: len(c.get("t", c.get("a", []))),
                                                                "sup_kind": lambda c: c["sup"][0] if "sup" in c else "ann"})}}


def run(case):
    tb = TB(case["regime"])
    tb.enter()
    try:
        if case.get("k") == "ann":
            from harness.annutil import mk_ann, nm
            a, b = mk_ann(tb, case["a"]), mk_ann(tb, case["b"])
            for x in (a, b):
                assert list(x.co_iter(x)) == list(x.co_iter(x.copy())), "co_iter(x, x) differs from co_iter(x, x.copy())"
            return {"obs": [[[tb.us(s), nm(t)], [tb.us(S), nm(T)]] for (s, t), (S, T) in a.co_iter(b)]}
        t = mk_tl(tb, case["t"], uri="u")
        o = mk_tl(tb, case["other"])
        sup = mk_sup(tb, case["sup"])
        out = {"coiter": [[tb.us(a), tb.us(b)] for a, b in t.co_iter(o)]}
        for x in (t, o):
            assert list(x.co_iter(x)) == list(x.co_iter(x.copy())), "co_iter(x, x) differs from co_iter(x, x.copy())"
        for m in ("loose", "strict", "intersection"):
            c = t.crop(sup, mode=m)
            assert c.uri == "u"
            out[m] = segs_of(tb, c)
            out[m + "_iter"] = segs_of(tb, t.crop_iter(sup, mode=m))
        c, mapping = t.crop(sup, mode="intersection", returns_mapping=True)
        out["map_tl"] = segs_of(tb, c)
        out["mapping"] = [[tb.us(k), segs_of(tb, v)] for k, v in mapping.items()]
        from harness.tlutil import assert_fresh
        assert_fresh(tb, lambda: t.crop(sup, mode=("loose", "strict", "intersection")[len(case["t"]) % 3]), "crop()")
        if not isinstance(sup, type(t)):
            pass
        else:
            # the support itself is only read by crop: same segments afterwards, and its own support() still fresh
            assert segs_of(tb, sup) == segs_of(tb, mk_sup(tb, case["sup"]))
            assert_fresh(tb, lambda: sup.support(), "support() of a timeline that served as crop support")
        return out
    finally:
        tb.leave()


def encode(case, o):
    e = enc
    eps = REGIMES[case["regime"]]["eps"]
    if case.get("k") == "ann":
        from harness.annutil import enc_triples
        sn = lambda x: e.pair(e.seg(x[0]), e.name(x[1]))
        return f"KAnnCo {e.z(eps)} {enc_triples(case['a'])} {enc_triples(case['b'])} {e.lst([e.pair(sn(p), sn(q)) for p, q in o['obs']])}"
    co = e.lst([e.pair(e.seg(a), e.seg(b)) for a, b in o["coiter"]])
    mp = e.lst([e.pair(e.seg(k), e.segs(v)) for k, v in o["mapping"]])
    return (f"K {e.z(eps)} {e.segs(case['t'])} {e.segs(case['other'])} {enc_sup(case['sup'])} {co} "
            f"{e.segs(o['loose'])} {e.segs(o['strict'])} {e.segs(o['intersection'])} "
            f"{e.segs(o['loose_iter'])} {e.segs(o['strict_iter'])} {e.segs(o['intersection_iter'])} "
            f"{e.segs(o['map_tl'])} {mp}")


def nontrivial(case, o):
    if case.get("k") == "ann":
        return len(o["obs"]) >= 2
    return len(o["loose"]) >= 1 and len(case["t"]) >= 1


def shrink(case):
    if case.get("k") == "ann":
        for key in ("a", "b"):
            for i in range(len(case[key])):
                yield {**case, key: case[key][:i] + case[key][i + 1:]}
        return
    for s in gen.shrink_segs(case["t"]):
        yield {**case, "t": s}
    for s in gen.shrink_segs(case["other"]):
        yield {**case, "other": s}
    if case["sup"][0] == "tl":
        for s in gen.shrink_segs(case["sup"][1]):
            yield {**case, "sup": ["tl", s]}
        if len(case["sup"][1]) == 1:
            yield {**case, "sup": ["seg", case["sup"][1][0]]}
