"""C03: Segment algebra. A case is a triple of segments in integer ticks."""
import itertools

from harness import enc, gen
from harness.timebase import TB, REGIMES

PROP = "C03"
CHECK_MODULE = "Check.C03"
SHARD = 500
RULE = ("[also: five one-tick neighbours of every first operand (never equal, strictly ordered); copies translated by up to 1.7e9 s] " +
        "triples (a,b,c) of segments in ticks under regimes K0 (eps=0), K4 (eps=4 ticks of 2^-22 s, default "
        "1e-6 precision) and K1 (set_precision(0), eps=1): all pairs over a 6-point grid exhaustively (empty and "
        "inverted segments included) with c cycling over the grid, plus random wide-range triples whose bounds "
        "are tied to each other by offsets around eps; overlaps(t) also at the quarter ticks around both bounds of a; copies translated 2 h, 28 h, 3 d or -8 h 20 min from the origin; non-trivial = a and b both non-empty and not equal")
ASSUMPTIONS = ["float arithmetic on the three grids is exact (DESIGN 2.1); arbitrary reals are represented by their order type"]

GRID = {"K0": [0, 1, 2, 3, 4, 5], "K4": [0, 4, 5, 9, 10, 15], "K1": [0, 1, 2, 3, 4, 5]}


def all_segs(regime):
    g = GRID[regime]
    return [[x, y] for x in g for y in g]


def generate(rng, tier):
    cases = []
    meta = {"exhaustive": True, "by_regime": {}}
    for regime in ("K0", "K4", "K1"):
        segs = all_segs(regime)
        n0 = len(cases)
        if tier == "thorough":
            for a, b, c in itertools.product(segs, repeat=3):
                cases.append({"regime": regime, "a": a, "b": b, "c": c})
        else:
            k = 0
            for a, b in itertools.product(segs, repeat=2):
                cases.append({"regime": regime, "a": a, "b": b, "c": segs[(k * 7) % len(segs)]})
                k += 1
        nrand = 20000 if tier == "thorough" else 1500
        eps = REGIMES[regime]["eps"]
        span = (1 << 18) * REGIMES[regime]["scale"] if regime != "K1" else 1 << 30
        for _ in range(nrand):
            pts = [rng.randrange(-span, span)]
            offs = [0, 1, -1, eps, eps + 1, -eps, -eps - 1, eps - 1, 2 * eps + 1, rng.randrange(-50, 50),
                    rng.randrange(-span // 8, span // 8)]
            for _ in range(5):
                pts.append(rng.choice(pts) + rng.choice(offs))
            pts = [max(-span, min(span, p)) for p in pts]
            a, b, c = [[rng.choice(pts), rng.choice(pts)] for _ in range(3)]
            if rng.random() < 0.8:
                a.sort()
            if rng.random() < 0.8:
                b.sort()
            if rng.random() < 0.8:
                c.sort()
            cases.append({"regime": regime, "a": a, "b": b, "c": c})
        meta["by_regime"][regime] = len(cases) - n0
    meta["note"] = "grid part exhaustive over pairs (quick) / triples (thorough); random part sampled"
    cases += gen.decimal_copies(rng, cases, (1500 if tier == "thorough" else 150), lambda c: max(abs(x) for k_ in 'abc' for x in c[k_]) < 10 ** 6)
    cases += gen.p3_copies(rng, cases, ['a', 'b', 'c'], (1000 if tier == "thorough" else 120), lambda c: max(abs(x) for k_ in 'abc' for x in c[k_]) < 10 ** 6)
    cases += gen.far_copies(rng, cases, ['a', 'b', 'c'], (400 if tier == "thorough" else 60))
    return {"cases": cases, "meta": meta}


def _quarters(case):
    a = case["a"]
    if max(abs(a[0]), abs(a[1])) >= 1 << 48:
        return []
    return sorted({4 * p + d for p in a for d in (-3, -2, -1, 1, 2, 3)})


def _probe(tb, case):
    from pyannote.core import Segment
    a, b, c = tb.S(case["a"]), tb.S(case["b"]), tb.S(case["c"])
    # same value through another numeric type, for hash/== consistency
    b2 = Segment(float(b.start), float(b.end)) if case["regime"] == "K1" else \
        Segment(int(b.start) if float(b.start).is_integer() else b.start,
                int(b.end) if float(b.end).is_integer() else b.end)
    try:
        x = a ^ b
        xor = tb.us(x)
    except ValueError:
        xor = None
    # neighbours one tick away (either bound, either direction) are different segments: never equal, strictly ordered,
    # two members of a set - also on the decimal grids of the precision regimes, where a tick is not a power of two
    if max(abs(v) for v in case["a"]) < 1 << 40:
        for d0, d1 in ((1, 0), (0, 1), (-1, 0), (0, -1), (1, 1)):
            n_ = tb.S([case["a"][0] + d0, case["a"][1] + d1])
            assert not (a == n_) and (a != n_), "segments one tick apart compare equal: %r %r" % (a, n_)
            assert (a < n_) != (n_ < a) and len({a, n_}) == 2 and (a <= n_) != (n_ <= a), "one tick apart: order / set membership inconsistent: %r %r" % (a, n_)
    return {
        "bool": bool(a), "dur": tb.u(a.duration), "mid2": tb.u(a.middle, 2),
        "and": tb.us(a & b), "or": tb.us(a | b), "xor": xor,
        "inter": bool(a.intersects(b)), "inter_ba": bool(b.intersects(a)), "in": bool(a in b), "eq": bool(a == b2) and bool(a == b) == bool(a == b2),
        "lt": bool(a < b), "hasheq": hash(a) == hash(b2) and (hash(a) == hash(b)) == (hash(a) == hash(b2)),
        "ov1": bool(a.overlaps(b.start)), "ov2": bool(a.overlaps(b.end)),
        # time points off the grid (quarter ticks): under set_precision a probe Segment(t, t) would be rounded
        "ovq": [[q, bool(a.overlaps(q / (4 * tb.scale)))] for q in _quarters(case)],
        "and_l": tb.us((a & b) & c), "and_r": tb.us(a & (b & c)),
        "or_l": tb.us((a | b) | c), "or_r": tb.us(a | (b | c)),
        "sorted": [tb.us(s) for s in sorted([a, b, c])],
    }


def run(case):
    from pyannote.core import Segment
    from harness import timebase
    tb = TB(case["regime"])
    if timebase.PRECHIST:
        # the same questions asked first under ANOTHER precision (answers discarded): the precision is process-wide
        # state and nothing remembered from an earlier setting may leak into the answers under the current one
        try:
            Segment.set_precision(None if tb.prec is not None else (0 if timebase.PRECHIST == 1 else 1))
            _probe(tb, case)
        except Exception:
            pass
    tb.enter()
    try:
        return _probe(tb, case)
    finally:
        tb.leave()


def encode(case, o):
    e = enc
    eps = REGIMES[case["regime"]]["eps"]
    return "K " + " ".join([
        e.z(eps), e.seg(case["a"]), e.seg(case["b"]), e.seg(case["c"]),
        e.b(o["bool"]), e.z(o["dur"]), e.z(o["mid2"]),
        e.seg(o["and"]), e.seg(o["or"]), e.opt(o["xor"], e.seg),
        e.b(o["inter"]), e.b(o["inter_ba"]), e.b(o["in"]), e.b(o["eq"]), e.b(o["lt"]), e.b(o["hasheq"]),
        e.b(o["ov1"]), e.b(o["ov2"]), e.lst([e.pair(e.z(q), e.b(v)) for q, v in o.get("ovq", [])]),
        e.seg(o["and_l"]), e.seg(o["and_r"]), e.seg(o["or_l"]), e.seg(o["or_r"]),
        e.segs(o["sorted"])])


def nontrivial(case, o):
    eps = REGIMES[case["regime"]]["eps"]
    a, b = case["a"], case["b"]
    return a[1] - a[0] > eps and b[1] - b[0] > eps and a != b


def shrink(case):
    for k in ("a", "b", "c"):
        for i in (0, 1):
            v = case[k][i]
            for nv in {0, v // 2, v - 1 if v > 0 else v + 1}:
                if nv != v:
                    d = dict(case)
                    d[k] = list(case[k])
                    d[k][i] = nv
                    yield d
