"""C10: segmentation and get_overlap (timeline part; the annotation part is added with the annotation model)."""
from harness import enc, gen
from harness.timebase import TB, REGIMES
from harness.tlutil import mk_tl, segs_of

PROP = "C10"
CHECK_MODULE = "Check.C10"
COQ_IMPORTS = "Model.Timeline"
SHARD = 400
RULE = ("timelines: all of <=3 (quick) / <=4 (thorough) segments on a 6-point grid plus random ones of up to 12 "
        "segments (nested, chained, abutting, identical bounds, holes); regimes K0/K4/K1; observed: segmentation(), "
        "get_overlap(); non-trivial = at least two segments that intersect")


def generate(rng, tier):
    cases = []
    k = 4 if tier == "thorough" else 3
    for regime in ("K0", "K4", "K1"):
        for segs in gen.small_timelines(regime, k):
            cases.append({"regime": regime, "segs": segs})
        for _ in range(6000 if tier == "thorough" else 800):
            cases.append({"regime": regime, "segs": gen.rand_timeline(rng, regime)})
    return {"cases": cases, "meta": {"exhaustive": True, "small_scope_max_segments": k,
                                     "sizes": gen.stats(cases, {"n_segments": lambda c: len(c["segs"])})}}


def run(case):
    tb = TB(case["regime"])
    tb.enter()
    try:
        t = mk_tl(tb, case["segs"])
        return {"segmentation": segs_of(tb, t.segmentation()), "overlap": segs_of(tb, t.get_overlap())}
    finally:
        tb.leave()


def encode(case, o):
    e = enc
    eps = REGIMES[case["regime"]]["eps"]
    return f"K {e.z(eps)} {e.segs(case['segs'])} {e.segs(o['segmentation'])} {e.segs(o['overlap'])}"


def nontrivial(case, o):
    return len(o["overlap"]) >= 1


def shrink(case):
    for s in gen.shrink_segs(case["segs"]):
        yield {**case, "segs": s}
