"""C10: segmentation and get_overlap (timeline part; the annotation part is added with the annotation model)."""
from harness import enc, gen
from harness.timebase import TB, REGIMES
from harness.tlutil import mk_tl, segs_of

PROP = "C10"
CHECK_MODULE = "Check.C10"
COQ_IMPORTS = "Model.AnnotationOps Check.AnnCommon"
SHARD = 400
RULE = ("timelines: all of <=3 (quick) / <=4 (thorough) segments on a 6-point grid plus random ones of up to 12 "
        "segments (nested, chained, abutting, identical bounds, holes); regimes K0/K4/K1; observed: segmentation(), "
        "get_overlap(); annotations: get_overlap with and without a label request (as list, tuple, set, dict view or one-shot iterator; absent labels; a label named twice; labels that print alike such as 1 and '1'); copies translated 2 h, 28 h, 3 d or -8 h 20 min from the origin; non-trivial = at least two segments that intersect")


def generate(rng, tier):
    cases = []
    k = 4 if tier == "thorough" else 3
    for regime in ("K0", "K4", "K1"):
        for segs in gen.small_timelines(regime, k):
            cases.append({"regime": regime, "segs": segs})
        for _ in range(6000 if tier == "thorough" else 800):
            cases.append({"regime": regime, "segs": gen.rand_timeline(rng, regime)})
    from harness.annutil import rand_records, LABELS
    for regime in ("K0", "K4", "K1"):
        for _ in range(5000 if tier == "thorough" else 600):
            labels = LABELS[: rng.randrange(1, 5)]
            if rng.random() < 0.2:
                # different labels that print alike (a number and its spelling)
                labels = rng.choice([[0, "0"], [1, "1", "a"], [0, "0", 1, "1"], [10, "10", 2]])
            recs = rand_records(rng, regime, nseg=rng.choice([1, 2, 4, 6]), span=12, labels=labels,
                                tracks=["x", "y", 0, 1, "A", "_"], allow_empty=0.0)
            seen, out = set(), []
            for s_, t_, l_ in recs:
                if (tuple(s_), str(t_)) not in seen:
                    seen.add((tuple(s_), str(t_)))
                    out.append([s_, t_, l_])
            lab = rng.choice([None, None, [], rng.sample(labels + ["zz"], rng.randrange(1, len(labels) + 1))])
            if lab and rng.random() < 0.3:
                # a label named twice in the request is still one label
                lab = lab + [rng.choice(lab)]
                rng.shuffle(lab)
            cases.append({"k": "ann", "regime": regime, "recs": out, "labels": lab})
    for regime in ("K0", "K4"):
        for nbig in ([300, 640, 1100] if tier == "thorough" else [270 + 50 * len(regime)]):
            cases.append({"regime": regime, "segs": gen.big_timeline(rng, regime, nbig)})
    cases += gen.decimal_copies(rng, cases, (1500 if tier == "thorough" else 150), lambda c: len(c.get('segs', [])) < 50)
    cases += gen.p3_copies(rng, cases, ['segs', 'recs'], (1000 if tier == "thorough" else 120), lambda c: len(c.get('segs', [])) < 50)
    cases += gen.far_copies(rng, cases, ['segs', 'recs'], (400 if tier == "thorough" else 60))
    return {"cases": cases, "meta": {"exhaustive": True, "small_scope_max_segments": k,
                                     "sizes": gen.stats(cases, {"n_segments": lambda c: len(c.get("segs", c.get("recs", [])))})}}


def run(case):
    tb = TB(case["regime"])
    tb.enter()
    try:
        if case.get("k") == "ann":
            from harness.annutil import mk_ann
            a = mk_ann(tb, case["recs"], "u")
            if case["labels"] is None:
                r = a.get_overlap()
            else:
                # `labels` is an Iterable: a list, a tuple, a set, a dict view, or a one-shot iterator / generator
                ls = list(case["labels"])
                how = (len(ls) + len(case["recs"])) % 6
                # (an EMPTY `labels` stays a list: the code tests its truthiness, so [] means "all labels" while an
                # empty iterator means "none"; DESIGN 4/C10 excludes the empty case from "when given")
                arg = [ls, tuple(ls), set(ls), dict.fromkeys(ls).keys(), iter(ls), (x for x in ls)][how] if ls else ls
                given_ = set(arg) if isinstance(arg, set) else None
                r = a.get_overlap(labels=arg)
                assert given_ is None or arg == given_, "get_overlap(labels) edited the caller's set of labels: %r -> %r" % (given_, arg)
            return {"overlap": segs_of(tb, r)}
        t = mk_tl(tb, case["segs"])
        out = {"segmentation": segs_of(tb, t.segmentation()), "overlap": segs_of(tb, t.get_overlap())}
        if tb.prec is None and case["regime"] == "K0" and len(case["segs"]) < 30:      # (dyadic grid: no sub-microsecond slivers)
            # the same timeline with two open-ended segments added: still exactly the pieces between consecutive
            # boundaries that some segment covers
            from pyannote.core import Segment, Timeline
            inf = float("inf")
            mem = list(t)
            lo_ = min([s_.start for s_ in mem] + [0]); hi_ = max([s_.end for s_ in mem] + [0])
            opn = Timeline(mem + [Segment(-inf, lo_ + (hi_ - lo_) / 4), Segment(hi_ - (hi_ - lo_) / 4, inf), Segment(hi_ + 5, hi_ + 7)])
            bnd = sorted({v for s_ in opn for v in (s_.start, s_.end)})
            want = [(x, y) for x, y in zip(bnd, bnd[1:]) if any(s_.start <= x and y <= s_.end for s_ in opn)]
            got = [(s_.start, s_.end) for s_ in opn.segmentation()]
            assert got == want, "segmentation with open-ended segments: %r, expected %r" % (got, want)
        from harness.tlutil import assert_fresh
        assert_fresh(tb, lambda: t.segmentation(), "segmentation()")
        assert_fresh(tb, lambda: t.get_overlap(), "get_overlap()")
        return out
    finally:
        tb.leave()


def encode(case, o):
    e = enc
    eps = REGIMES[case["regime"]]["eps"]
    if case.get("k") == "ann":
        from harness.annutil import enc_triples, enc_names
        labs = "None" if case["labels"] is None else f"(Some {enc_names(case['labels'])})"
        return f"KAnn {e.z(eps)} {enc_triples(case['recs'])} {labs} {e.segs(o['overlap'])}"
    return f"K {e.z(eps)} {e.segs(case['segs'])} {e.segs(o['segmentation'])} {e.segs(o['overlap'])}"


def nontrivial(case, o):
    return len(o["overlap"]) >= 1


def shrink(case):
    if case.get("k") == "ann":
        for i in range(len(case["recs"])):
            yield {**case, "recs": case["recs"][:i] + case["recs"][i + 1:]}
        if case["labels"]:
            yield {**case, "labels": None}
        return
    for s in gen.shrink_segs(case["segs"]):
        yield {**case, "segs": s}
