"""C01: Timeline edit histories over a bank of registers, with read-backs."""
import itertools

from harness import enc, gen
from harness.timebase import TB, REGIMES

PROP = "C01"
CHECK_MODULE = "Check.C01"
COQ_IMPORTS = "Model.Timeline"
SHARD = 150
NREG = 3
RULE = ("histories of Timeline(...), add, remove/discard, update/|=, union/|, copy(segment_func) over 3 registers "
        "with full read-backs (list, len, bool, extent, t[k] for every k in -n-2..n+1, `in` and index() for members "
        "and non-members, ==, !=, timeline-in-timeline): every add/remove history of length <=3 (quick) / <=4 "
        "(thorough) over six segments of the grid 0..3 read back after every step, plus random histories of 5-40 "
        "operations with a read after a write with probability 1/2, regimes K0/K4/K1; pairs of timelines with the same "
        "starts and the same ends paired differently (built directly or reached by edits) compared both ways; constructor input as list / generator / set / tuple by turns, the caller's container also feeding a twin timeline that is edited at once and never changing under timeline edits; non-trivial = at least "
        "one removal of a present segment or an update/union, and at least two reads")


def _pool(rng, regime, n=8):
    pool = gen.rand_timeline(rng, regime, maxn=n, span=14, allow_empty=0.1)
    while len(pool) < 4:
        pool.append(gen.rand_segment(rng, regime, span=14))
    return pool


def _rand_history(rng, regime):
    pool = _pool(rng, regime)
    ops = []
    n = rng.randrange(5, 41)
    for _ in range(n):
        k = rng.random()
        r = rng.randrange(NREG)
        if k < 0.10:
            ops.append(["new", r, [rng.choice(pool) for _ in range(rng.randrange(0, 6))]])
        elif k < 0.45:
            ops.append(["add", r, rng.choice(pool)])
        elif k < 0.70:
            ops.append(["remove", r, rng.choice(pool), rng.randrange(2)])
        elif k < 0.78:
            ops.append(["update", r, rng.randrange(NREG), rng.randrange(2)])
        elif k < 0.86:
            ops.append(["union", r, rng.randrange(NREG), rng.randrange(NREG), rng.randrange(2)])
        elif k < 0.93:
            f = rng.choice([None, ["id"], ["shift", rng.randrange(-3, 4)], ["clip", rng.choice(pool)],
                            ["collapse"], ["const", rng.choice(pool)], ["widen", rng.randrange(-2, 3)]])
            ops.append(["copy", r, rng.randrange(NREG), f])
        else:
            ops.append(["cmp", rng.randrange(NREG), rng.randrange(NREG)])
        if ops[-1][0] != "cmp" and rng.random() < 0.5:
            probes = [rng.choice(pool) for _ in range(3)] + [gen.rand_segment(rng, regime, span=14)]
            ops.append(["read", ops[-1][1], probes])
    for r in range(NREG):
        ops.append(["read", r, list(pool[:4])])
    ops.append(["cmp", 0, 1])
    return {"regime": regime, "ops": ops}


def generate(rng, tier):
    cases = []
    depth = 4 if tier == "thorough" else 3
    segs = [[0, 1], [0, 2], [0, 3], [1, 2], [1, 3], [2, 3]]
    atoms = [["add", 0, s] for s in segs] + [["remove", 0, s, 0] for s in segs]
    nex = 0
    for regime in ("K0", "K1"):
        for n in range(1, depth + 1):
            for hist in itertools.product(atoms, repeat=n):
                ops = []
                for o in hist:
                    ops.append(o)
                    ops.append(["read", 0, segs])
                cases.append({"regime": regime, "ops": ops})
                nex += 1
        if tier != "thorough":
            break
    nrand = 6000 if tier == "thorough" else 500
    for regime in ("K0", "K4", "K1"):
        for _ in range(nrand):
            cases.append(_rand_history(rng, regime))
    for regime in ("K0", "K4", "K1"):
        for _ in range(nrand // 5):
            # two timelines with the same starts and the same ends, paired differently ([a,c],[b,d] against [a,d],[b,c]),
            # plus shared segments: they differ, however they were built
            m = 5 if regime == "K4" else 1
            a_, b_, c_, d_ = sorted(rng.sample(range(-6, 14), 4))
            x, y = [[a_ * m, c_ * m], [b_ * m, d_ * m]], [[a_ * m, d_ * m], [b_ * m, c_ * m]]
            extra = [[v[0] * m, v[1] * m] for v in gen.rand_timeline(rng, "K0", maxn=3, span=14, allow_empty=0.0)]
            extra = [e_ for e_ in extra if e_ not in x and e_ not in y]
            ops = [["new", 0, x + extra], ["new", 1, extra + y[::-1]], ["cmp", 0, 1], ["cmp", 1, 0]]
            if rng.random() < 0.5:
                # reach the second pairing by edits
                ops = [["new", 0, x + extra], ["new", 1, extra + x], ["remove", 1, x[0], 0], ["remove", 1, x[1], 0],
                       ["add", 1, y[0]], ["add", 1, y[1]], ["cmp", 0, 1], ["cmp", 1, 0]]
            ops += [["read", 0, x + y], ["read", 1, x + y], ["copy", 2, 1, None], ["cmp", 2, 0], ["cmp", 2, 1]]
            cases.append({"regime": regime, "ops": ops})
    for _ in range(nrand // 3):
        # the K0 shapes on the decimal grid D1 (ticks of 0.1 s: non-dyadic doubles)
        h = _rand_history(rng, "K0")
        h["regime"] = "D1"
        # no arithmetic on decimal bounds (0.4 - 0.3 is not the double 0.1): copies use the identity only
        h["ops"] = [[o[0], o[1], o[2], (["id"] if o[3] is not None else None)] if o[0] == "copy" else o for o in h["ops"]]
        cases.append(h)
    return {"cases": cases, "meta": {
        "exhaustive": True, "exhaustive_histories": nex, "exhaustive_depth": depth,
        "random_histories": 3 * nrand,
        "op_mix": gen.stats([o for c in cases[nex:] for o in c["ops"]], {"kind": lambda o: o[0]}),
        "length": gen.stats(cases[nex:], {"ops": lambda c: len(c["ops"]) // 10 * 10})}}


def _sfun(tb, f):
    from pyannote.core import Segment
    if f is None:
        return None
    k = f[0]
    if k == "id":
        return lambda s: s
    if k == "shift":
        d = tb.t(f[1])
        return lambda s: Segment(s.start + d, s.end + d)
    if k == "clip":
        w = tb.S(f[1])
        return lambda s: s & w
    if k == "collapse":
        return lambda s: Segment(s.start, s.start)
    if k == "const":
        c = tb.S(f[1])
        return lambda s: c
    if k == "widen":
        d = tb.t(f[1])
        return lambda s: Segment(s.start - d, s.end + d)
    raise ValueError(k)


def run(case):
    from pyannote.core import Timeline, Segment
    tb = TB(case["regime"])
    tb.enter()
    try:
        regs = [Timeline() for _ in range(NREG)]
        obs = []
        kept = []
        for o in case["ops"]:
            k = o[0]
            if k == "new":
                src = [tb.S(s) for s in o[2]]
                # any iterable: list / generator / set / tuple by turns. A caller-owned container also feeds a second
                # timeline that is edited at once, is then edited itself, and must never change under timeline edits
                kind = len(src) % 4
                if kind == 1:
                    regs[o[1]] = Timeline(segments=(x for x in src))
                else:
                    box = list(src) if kind == 0 else set(src) if kind == 2 else tuple(src)
                    regs[o[1]] = Timeline(segments=box)
                    twin = Timeline(segments=box)
                    far = max([abs(v) for x in src for v in (x.start, x.end)] + [0]) + 1000
                    twin.add(Segment(far, far + 7))
                    for x in list(twin)[:1]:
                        twin.remove(x)
                    kept.append((box, type(box)(box)))
                    if kind == 0:
                        extra_box = list(box)
                        extra_box.append(Segment(far + 10, far + 17))
                    elif kind == 2 and len(kept) % 2:
                        # the caller goes on using its set; the snapshot follows
                        box.add(Segment(far + 10, far + 17))
                        kept[-1] = (box, set(box))
            elif k == "add":
                ret = regs[o[1]].add(tb.S(o[2]))
                assert ret is regs[o[1]]
            elif k == "remove":
                t = regs[o[1]]
                ret = t.discard(tb.S(o[2])) if o[3] else t.remove(tb.S(o[2]))
                assert ret is t
            elif k == "update":
                t = regs[o[1]]
                if o[3]:
                    alias = t
                    t |= regs[o[2]]
                    assert t is alias, "`t |= other` rebinds instead of updating the timeline in place"
                    regs[o[1]] = alias
                else:
                    assert t.update(regs[o[2]]) is t
            elif k == "union":
                regs[o[1]] = (regs[o[2]] | regs[o[3]]) if o[4] else regs[o[2]].union(regs[o[3]])
            elif k == "copy":
                regs[o[1]] = regs[o[2]].copy(_sfun(tb, o[3]))
            elif k == "read":
                t = regs[o[1]]
                n = len(t)
                items = []
                for i in range(-n - 2, n + 2):
                    try:
                        items.append([i, tb.us(t[i])])
                    except IndexError:
                        items.append([i, None])
                probes = []
                for s in o[2]:
                    S = tb.S(s)
                    try:
                        idx = t.index(S)
                    except ValueError:
                        idx = None
                    probes.append([s, bool(S in t), idx])
                obs.append({"iter": [tb.us(s) for s in t], "len": n, "bool": bool(t), "extent": tb.us(t.extent()),
                            "items": items, "probes": probes})
            elif k == "cmp":
                a, b = regs[o[1]], regs[o[2]]
                obs.append({"eq": bool(a == b), "ne": bool(a != b), "in": bool(b in a)})
            if k not in ("read", "cmp"):
                for box, snap in kept:
                    assert box == snap, "a timeline edit changed the container a timeline was built from"
        return {"obs": obs}
    finally:
        tb.leave()


def _enc_sfun(f):
    e = enc
    if f is None:
        return "None"
    k = f[0]
    return "(Some " + {"id": lambda: "FId", "shift": lambda: f"(FShift {e.z(f[1])})",
                       "clip": lambda: f"(FClip {e.seg(f[1])})", "collapse": lambda: "FCollapse",
                       "const": lambda: f"(FConst {e.seg(f[1])})", "widen": lambda: f"(FWiden {e.z(f[1])})"}[k]() + ")"


def encode(case, o):
    e = enc
    eps = REGIMES[case["regime"]]["eps"]
    it = iter(o["obs"])
    ops = []
    for op in case["ops"]:
        k = op[0]
        if k == "new":
            ops.append(f"ONew {e.nat(op[1])} {e.segs(op[2])}")
        elif k == "add":
            ops.append(f"OAdd {e.nat(op[1])} {e.seg(op[2])}")
        elif k == "remove":
            ops.append(f"ORemove {e.nat(op[1])} {e.seg(op[2])}")
        elif k == "update":
            ops.append(f"OUpdate {e.nat(op[1])} {e.nat(op[2])}")
        elif k == "union":
            ops.append(f"OUnion {e.nat(op[1])} {e.nat(op[2])} {e.nat(op[3])}")
        elif k == "copy":
            ops.append(f"OCopy {e.nat(op[1])} {e.nat(op[2])} {_enc_sfun(op[3])}")
        elif k == "read":
            ob = next(it)
            items = e.lst([e.pair(e.z(i), e.opt(v, e.seg)) for i, v in ob["items"]])
            probes = e.lst([e.pair(e.seg(s), e.pair(e.b(c), e.opt(ix, e.z))) for s, c, ix in ob["probes"]])
            ops.append(f"ORead {e.nat(op[1])} (RB {e.segs(ob['iter'])} {e.z(ob['len'])} {e.b(ob['bool'])} "
                       f"{e.seg(ob['extent'])} {items} {probes})")
        elif k == "cmp":
            ob = next(it)
            ops.append(f"OCmp {e.nat(op[1])} {e.nat(op[2])} {e.b(ob['eq'])} {e.b(ob['ne'])} {e.b(ob['in'])}")
    return f"K {e.z(eps)} {e.lst(ops)}"


def nontrivial(case, o):
    kinds = [op[0] for op in case["ops"]]
    return kinds.count("read") >= 2 and ("remove" in kinds or "update" in kinds or "union" in kinds)


def shrink(case):
    ops = case["ops"]
    for i in range(len(ops)):
        yield {**case, "ops": ops[:i] + ops[i + 1:]}
    for i, o in enumerate(ops):
        if o[0] == "new" and o[2]:
            for j in range(len(o[2])):
                yield {**case, "ops": ops[:i] + [["new", o[1], o[2][:j] + o[2][j + 1:]]] + ops[i + 1:]}
        if o[0] == "read" and o[2]:
            for j in range(len(o[2])):
                yield {**case, "ops": ops[:i] + [["read", o[1], o[2][:j] + o[2][j + 1:]]] + ops[i + 1:]}
