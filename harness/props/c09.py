"""C09: Annotation.support, label durations, chart, argmax, co-occurrence matrix."""
from fractions import Fraction

from harness import enc, gen
from harness.annutil import enc_names, enc_triples, enc_uri, mk_ann, nm, rand_records, triples, LABELS
from harness.props.c07 import enc_oann, _oann
from harness.timebase import TB, REGIMES
from harness.tlutil import mk_sup, enc_sup

PROP = "C09"
CHECK_MODULE = "Check.C09"
COQ_IMPORTS = "Model.AnnotationOps Check.AnnCommon"
SHARD = 150
RULE = ("[also: chart(percent=True) as exact rationals against the model; lists got from labels() / chart() scrambled before the observed queries] " +
        "(annotation a, annotation b, collar, support): random annotations (overlapping same-label tracks, several "
        "tracks per segment, labels present in one operand only, empty operands), collar from {0, g-1, g, g+1} for an "
        "existing same-label gap g, support random Segment/Timeline/None; observed: a.support(collar), label_duration "
        "of every label, chart(), chart(percent=True) (fractions checked in the driver), argmax(), argmax(support), "
        "a*b and b*a; regimes K0/K4/K1; copies translated 2 h, 28 h, 3 d or -8 h 20 min from the origin; non-trivial = two labels and an intersecting pair across a and b")


def generate(rng, tier):
    cases = []
    n = 5000 if tier == "thorough" else 600
    for regime in ("K0", "K4", "K1"):
        for _ in range(n):
            la = LABELS[: rng.randrange(1, 5)]
            lb = rng.sample(LABELS, rng.randrange(1, 4))
            a = rand_records(rng, regime, nseg=rng.choice([0, 2, 4, 6, 8]), span=14, labels=la)
            b = rand_records(rng, regime, nseg=rng.choice([0, 2, 4, 6]), span=14, labels=lb)
            gaps = set()
            ss = sorted(r[0] for r in a)
            for x, y in zip(ss, ss[1:]):
                if y[0] - x[1] > 0:
                    gaps.add(y[0] - x[1])
            collar = 0 if not gaps or rng.random() < 0.3 else max(0, rng.choice(sorted(gaps)) + rng.choice([-1, 0, 1]))
            x = rng.random()
            sup = None if x < 0.2 else (["seg", gen.rand_segment(rng, regime, span=14, maxlen=10)] if x < 0.6
                                        else ["tl", gen.rand_timeline(rng, regime, maxn=3, span=14)])
            if rng.random() < 0.06:
                sup = rng.choice([["tl", []], ["seg", [5, 5]]])      # falsy supports: must not be taken for "no support"
            cases.append({"regime": regime, "a": a, "b": b, "collar": collar, "sup": sup})
    # collision families for argmax(support): an outer segment and an inner one with the same track name and different
    # labels, a support piece that cuts the outer one down to exactly the inner one, and a third track that decides
    # which label is maximal within the support only if no track was lost while cropping
    import itertools
    unit = {"K0": 1, "K4": 5, "K1": 1}
    for regime in ("K0", "K4", "K1"):
        w = unit[regime]
        for (u, e), (da, db), tr, order, extra, lab in itertools.product(
                [(3, 5), (4, 8)], [(3, 6), (0, 5), (2, 0), (1, 1)], ["_", 0], (0, 1), (1, 2, 3),
                [("a", "b"), (0, "a"), ("b", 1)]):
            inner = [[u * w, e * w], tr, lab[1]]
            outer = [[(u - da) * w, (e + db) * w], tr, lab[0]]
            third = [[(e + 2) * w, (e + 2 + extra) * w], "z", lab[1]]
            a = [outer, inner, third] if order == 0 else [inner, third, outer]
            sup = ["tl", [[u * w, e * w], [(e + 2) * w, (e + 5) * w]]]
            if tier != "thorough" and (da + extra + order) % 2 and regime != "K0":
                continue
            cases.append({"regime": regime, "a": a, "b": [], "collar": 0, "sup": sup})
    cases += gen.far_copies(rng, cases, ['a', 'b', 'sup'], (400 if tier == "thorough" else 60))
    return {"cases": cases, "meta": {"exhaustive": False,
                                     "sizes": gen.stats(cases, {"n_a": lambda c: len(c["a"]), "n_b": lambda c: len(c["b"]),
                                                                "collar": lambda c: min(c["collar"], 10)})}}


def run(case):
    import numpy as np
    tb = TB(case["regime"])
    tb.enter()
    try:
        a = mk_ann(tb, case["a"])
        b = mk_ann(tb, case["b"])
        c = tb.t(case["collar"])
        sup = mk_sup(tb, case["sup"])
        # answers handed out earlier and edited by the caller do not change what is answered now
        for junk in (a.labels(), a.chart(), b.labels()):
            junk.reverse(); junk.append("zz_junk"); del junk[:1]
        labels = a.labels()
        durs = [[nm(l), tb.u(a.label_duration(l))] for l in labels]
        chart = a.chart()
        pc = a.chart(percent=True)
        total = sum(d for _, d in chart)
        if total > 0:
            assert [l for l, _ in pc] == [l for l, _ in chart]
            assert all(abs(p - d / total) <= 1e-12 for (_, p), (_, d) in zip(pc, chart))
            assert abs(sum(p for _, p in pc) - 1.0) < 1e-9
        m = a * b
        mr = b * a
        assert m.shape == (len(labels), len(b.labels())) and mr.shape == m.T.shape
        s = a.support(c) if case["collar"] else a.support()
        am = a.argmax()
        ams = a.argmax(sup) if sup is not None else a.argmax(None)
        out_support = _oann(tb, s)
        if len(labels) >= 2:
            # two labels that print alike (77 and '77'): each label's tracks are still merged on their own
            b2 = a.rename_labels(mapping={labels[0]: 77, labels[1]: "77"})
            s2 = b2.support(c) if case["collar"] else b2.support()
            for lab in (77, "77"):
                want_ = list(b2.label_timeline(lab).support(c))
                assert list(s2.label_timeline(lab)) == want_, \
                    "support(collar): label %r has %r, its own timeline support is %r" % (lab, list(s2.label_timeline(lab)), want_)
            assert sorted(map(repr, s2.labels())) == sorted(map(repr, b2.labels()))
        from harness.annutil import assert_independent
        assert_independent(tb, s, a, "support")          # edits both, after everything else was observed
        return {"support": out_support, "durs": durs, "chart": [[nm(l), tb.u(d)] for l, d in chart],
                "argmax": None if am is None else [nm(am)], "argmax_sup": None if ams is None else [nm(ams)],
                "mul": [[tb.u(x) for x in row] for row in m.tolist()],
                "mul_rev": [[tb.u(x) for x in row] for row in mr.tolist()],
                "labels_a": [nm(l) for l in labels], "labels_b": [nm(l) for l in b.labels()],
                "pct": None if not total > 0 else [[nm(l), list(Fraction(float(p)).as_integer_ratio())] for l, p in pc]}
    finally:
        tb.leave()


def encode(case, o):
    e = enc
    eps = REGIMES[case["regime"]]["eps"]
    nz = lambda l: e.lst([e.pair(e.name(n), e.z(d)) for n, d in l])
    mat = lambda m: e.lst([e.zs(r) for r in m])
    sup = "None" if case["sup"] is None else f"(Some {enc_sup(case['sup'])})"
    on = lambda x: "None" if x is None else f"(Some {e.name(x[0])})"
    return (f"K {e.z(eps)} {enc_triples(case['a'])} {enc_triples(case['b'])} {e.z(case['collar'])} {sup} "
            f"{enc_oann(o['support'])} {nz(o['durs'])} {nz(o['chart'])} {on(o['argmax'])} {on(o['argmax_sup'])} "
            f"{mat(o['mul'])} {mat(o['mul_rev'])} {enc_names(o['labels_a'])} {enc_names(o['labels_b'])} "
            + ("None" if o["pct"] is None else "(Some " + e.lst([e.pair(e.name(n), e.pair(e.z(r[0]), e.z(r[1]))) for n, r in o["pct"]]) + ")"))


def nontrivial(case, o):
    return len(o["labels_a"]) >= 2 and any(x != 0 for r in o["mul"] for x in r)


def shrink(case):
    for key in ("a", "b"):
        recs = case[key]
        for i in range(len(recs)):
            yield {**case, key: recs[:i] + recs[i + 1:]}
    if case["collar"]:
        yield {**case, "collar": 0}
    if case["sup"] is not None:
        yield {**case, "sup": None}
