"""C12: content equality, round trips, RTTM/LAB/UEM text, str(Segment)."""
import copy as _copy

from harness import enc, gen
from harness.annutil import enc_triples, enc_uri, mk_ann, rand_records, LABELS
from harness.timebase import TB, REGIMES

PROP = "C12"
CHECK_MODULE = "Check.C12"
COQ_IMPORTS = "Model.AnnotationOps Check.AnnCommon Model.Text"
SHARD = 150
TRACKS = ["_", "x", "y", 0, 1, "A", "01", "x01", "x1", 10, "9"]     # digit runs: 1 / '01', 10 / '9' must sort as strings
RULE = ("(annotation a, annotation b = a rebuilt in shuffled insertion order with at most one perturbation: a segment "
        "bound, a track name, a label, an extra or a missing track; different uri/modality): observed a==b, a!=b, "
        "copy/from_records/from_df/timeline round trips (also with a caller's name iterator one name short), timelines merged in place from overlapping parts, timeline ==/!=, to_rttm / to_lab / to_uem (also through "
        "write_*), str(segment); times shifted to negative values in a third of the cases and beyond one day (either sign) in 8%; uris and labels with spaces "
        "in 15%; regimes K0 (1/1024 s grid, exercises .3f rounding ties), K4, K1 and P3 (set_precision(3), decimal millisecond values); non-trivial = at least two records")


def _distinct_str(recs):
    seen = set()
    out = []
    for s, t, l in recs:
        k = (tuple(s), str(t))
        if k in seen:
            continue
        seen.add(k)
        out.append([s, t, l])
    return out


def generate(rng, tier):
    cases = []
    n = 5000 if tier == "thorough" else 600
    kinds = {}
    for regime in ("K0", "K4", "K1", "P3"):
        for _ in range(n if regime != "P3" else n // 2):
            labels = list(LABELS[: rng.randrange(1, 5)])
            if rng.random() < 0.15:
                labels.append(rng.choice(["bad label", "bad label", " lead", "trail ", " "]))
            a = _distinct_str(rand_records(rng, regime, nseg=rng.choice([0, 1, 2, 4, 6]), span=14, labels=labels,
                                           tracks=TRACKS, allow_empty=0.0))
            if rng.random() < 0.33:
                off = rng.choice([3, 20, 100]) * (5 if regime == "K4" else 1) + (1 if regime == "K0" else 0)
                a = [[[s[0] - off, s[1] - off], t, l] for s, t, l in a]
            if rng.random() < 0.08:
                # times beyond one day (hours do not wrap in the printed form), either sign
                from harness.timebase import REGIMES as _R
                big = rng.choice([90000, -90000, 400000, 86400]) * _R[regime]["scale"]
                a = [[[s[0] + big, s[1] + big], t, l] for s, t, l in a]
            if regime == "K0" and rng.random() < 0.5:
                # spread over the 1/1024 grid so that .3f rounding is exercised
                m = rng.choice([1, 3, 37, 64, 125, 333])
                a = [[[s[0] * m + rng.randrange(3), s[1] * m + 3 + rng.randrange(3)], t, l] for s, t, l in a]
            b = _copy.deepcopy(a)
            rng.shuffle(b)
            kind = rng.choice(["same", "same", "bound", "track", "label", "extra", "missing", "swap_ends"])
            if b and kind == "bound":
                i = rng.randrange(len(b))
                b[i][0][rng.randrange(2)] += rng.choice([-1, 1]) * (5 if regime == "K4" else 2)
            elif b and kind == "track":
                i = rng.randrange(len(b))
                b[i][1] = rng.choice([t for t in TRACKS + ["q"] if str(t) != str(b[i][1])])
            elif b and kind == "label":
                i = rng.randrange(len(b))
                b[i][2] = rng.choice([l for l in LABELS + ["q"] if l != b[i][2]])
            elif kind == "extra":
                b.append([gen.rand_segment(rng, regime, span=14, allow_empty=0.0), "q", rng.choice(labels)])
            elif kind == "swap_ends":
                # the same starts and the same ends, paired differently ([0,2],[1,3] against [0,3],[1,2])
                eps_ = REGIMES[regime]["eps"]
                pairs = [(i, j) for i in range(len(b)) for j in range(len(b))
                         if i < j and b[i][0][1] != b[j][0][1] and b[j][0][1] - b[i][0][0] > eps_ and b[i][0][1] - b[j][0][0] > eps_]
                if pairs:
                    i, j = rng.choice(pairs)
                    b[i][0][1], b[j][0][1] = b[j][0][1], b[i][0][1]
            elif b and kind == "missing":
                b.pop(rng.randrange(len(b)))
            b = _distinct_str(b)
            if regime == "P3":
                # every length an even number of ticks: never exactly one tick (see timebase.REGIMES["P3"])
                a = [[[2 * s[0], 2 * s[1]], t, l] for s, t, l in a]
                b = [[[2 * s[0], 2 * s[1]], t, l] for s, t, l in b]
            kinds[kind] = kinds.get(kind, 0) + 1
            cases.append({"regime": regime, "a": a, "b": b,
                          "ua": rng.choice([None, "u1", "", "file2", "my file"] if rng.random() < 0.3 else [None, "u1"]),
                          "ub": rng.choice([None, "u1", "other"])})
    return {"cases": cases, "meta": {"exhaustive": False, "perturbation_kinds": kinds,
                                     "sizes": gen.stats(cases, {"n_records": lambda c: len(c["a"])})}}


_SEG_RE = None


def _parse_seg_str(text):
    """'[ HH:MM:SS.mmm --> -HH:MM:SS.mmm]' -> [start_ms, end_ms]; '[]' or anything else -> None"""
    import re
    global _SEG_RE
    if _SEG_RE is None:
        one = r"\s*(-?)\s*(\d+):(\d\d):(\d\d)\.(\d{3})"
        _SEG_RE = re.compile(r"^\[" + one + r" -->" + one + r"\]$")
    m = _SEG_RE.match(text)
    if not m:
        return None
    g = m.groups()
    def ms(sign, h, mi, sec, milli):
        v = ((int(h) * 60 + int(mi)) * 60 + int(sec)) * 1000 + int(milli)
        return -v if sign == "-" else v
    if int(g[2]) >= 60 or int(g[3]) >= 60 or int(g[7]) >= 60 or int(g[8]) >= 60:
        return None
    return [ms(*g[0:5]), ms(*g[5:10])]


def _lines(f):
    try:
        txt = f()
    except ValueError:
        return None
    if txt == "":
        return []
    assert txt.endswith("\n")
    return txt[:-1].split("\n")


def run(case):
    import io
    import pandas as pd
    from pyannote.core import Annotation, Timeline
    tb = TB(case["regime"])
    tb.enter()
    try:
        a = mk_ann(tb, case["a"], case["ua"], None)
        b = mk_ann(tb, case["b"], case["ub"], "m")
        out = {"eq": bool(a == b), "ne": bool(a != b)}
        c = a.copy()
        out["eq_self_copy"] = bool(a == c) and not bool(a != c) and bool(a == a)
        recs = list(a.itertracks(yield_label=True))
        r = Annotation.from_records(iter(recs), uri="zzz", modality="q")
        out["rt_records"] = bool(r == a) and bool(a == r) and not bool(r != a)
        if recs:
            df = pd.DataFrame(recs, columns=["segment", "track", "label"])
            d = Annotation.from_df(df)
            tdf = Timeline.from_df(df, uri="x")
            out["rt_df"] = bool(d == a) and not bool(d != a) and bool(tdf == a.get_timeline())
        else:
            out["rt_df"] = True
        t = a.get_timeline()
        t2 = t.to_annotation().get_timeline()
        t3 = t.to_annotation(generator="int", modality="m").get_timeline()
        out["rt_timeline"] = bool(t == t2) and not bool(t != t2) and bool(t3 == t)
        if len(t):
            # a caller-owned name iterator one name short: refused, or else every segment is there all the same
            try:
                t4 = t.to_annotation(generator=iter(["n%d" % i for i in range(len(t) - 1)])).get_timeline()
                assert t4 == t, "to_annotation returned %d of %d segments when the names ran out" % (len(t4), len(t))
            except (StopIteration, RuntimeError):
                pass
            t5 = t.to_annotation(generator=iter(["n%d" % i for i in range(len(t))])).get_timeline()
            assert t5 == t
        # equality after an in-place edit of a copy: a copy that gained or lost a segment / track differs from its
        # source, the source still equals a fresh copy of itself and has kept its size
        from pyannote.core import Segment as _Seg
        far = max([abs(x) for r_ in case["a"] for x in r_[0]] + [0]) + 100
        extra = tb.S([far, far + 5])
        n_t, n_a = len(t), len(a)
        tc = t.copy()
        tc.add(extra)
        ok_c = bool(tc != t) and not bool(tc == t) and len(t) == n_t and len(tc) == n_t + 1 and bool(t == t.copy())
        tc.remove(extra)
        ok_c = ok_c and bool(tc == t) and not bool(tc != t)
        if n_t:
            tc.remove(t[0])
            ok_c = ok_c and bool(tc != t) and len(t) == n_t and (t[0] in t) and (t[0] not in tc)
        tg = a.get_timeline()
        tg.add(extra)
        ok_c = ok_c and bool(a.get_timeline() == t) and bool(tg != t) and len(a.get_timeline()) == n_t
        ac = a.copy()
        ac[extra, "zz"] = "zz_label"
        ok_c = ok_c and bool(ac != a) and not bool(ac == a) and len(a) == n_a and bool(a == a.copy())
        del ac[extra, "zz"]
        ok_c = ok_c and bool(ac == a) and not bool(ac != a)
        out["rt_timeline"] = out["rt_timeline"] and ok_c
        tbb = b.get_timeline()
        out["tl_eq"] = bool(t == tbb)
        out["tl_ne"] = bool(t != tbb)

        def via_write(method):
            def f():
                s = io.StringIO()
                getattr(a if method != "write_uem" else t, method)(s)
                return s.getvalue()
            return f
        out["rttm"] = _lines(a.to_rttm)
        assert out["rttm"] == _lines(via_write("write_rttm"))
        out["lab"] = _lines(a.to_lab)
        assert out["lab"] == _lines(via_write("write_lab"))
        out["uem"] = _lines(t.to_uem)
        assert out["uem"] == _lines(via_write("write_uem"))
        # one line per segment, however the timeline was constructed: repeated segments in the constructor input
        from pyannote.core import Timeline as _TL
        _segs = list(t)
        _dup = _TL(_segs[::-1] + _segs[:2] + _segs, uri=t.uri)
        assert _dup == t and len(_dup) == len(t), "a timeline built from repeated segments differs from the plain one"
        assert _lines(_dup.to_uem) == out["uem"], "to_uem prints repeated constructor input more than once"
        _mrg = _TL(_segs[:len(_segs) // 2 + 1], uri=t.uri)
        _mrg.update(_TL(_segs[len(_segs) // 2:]))        # the two operands share a segment
        _mrg |= t
        _mrg.update(_mrg)
        assert _mrg == t and len(_mrg) == len(t) and list(_mrg) == _segs, "a timeline merged in place from overlapping parts differs from the plain one"
        assert _lines(_mrg.to_uem) == out["uem"], "to_uem prints a segment shared by the operands of an in-place merge more than once"
        out["strs"] = [str(tb.S(x[0])) for x in case["a"]]
        out["strs_ms"] = [_parse_seg_str(x) for x in out["strs"]]
        return out
    finally:
        tb.leave()


def encode(case, o):
    e = enc
    r = REGIMES[case["regime"]]
    ol = lambda x: "None" if x is None else f"(Some {e.lst([e.s(l) for l in x])})"
    return (f"K {e.z(r['eps'])} {e.z(r['scale'])} {enc_triples(case['a'])} {enc_uri(case['ua'])} "
            f"{enc_triples(case['b'])} {enc_uri(case['ub'])} {e.b(o['eq'])} {e.b(o['ne'])} {e.b(o['eq_self_copy'])} "
            f"{e.b(o['rt_records'])} {e.b(o['rt_df'])} {e.b(o['rt_timeline'])} {e.b(o['tl_eq'])} {e.b(o['tl_ne'])} "
            f"{ol(o['rttm'])} {ol(o['lab'])} {ol(o['uem'])} {e.lst([e.s(x) for x in o['strs']])} "
            f"{e.lst([e.opt(x, lambda p: e.pair(e.z(p[0]), e.z(p[1]))) for x in o['strs_ms']])}")


def nontrivial(case, o):
    return len(case["a"]) >= 2


def shrink(case):
    for key in ("a", "b"):
        recs = case[key]
        for i in range(len(recs)):
            yield {**case, key: recs[:i] + recs[i + 1:]}
    if case["ua"] is not None:
        yield {**case, "ua": None}
