"""C20: condensed-matrix indexing, 1-D pair metrics, l2_normalize, propagate_constraints.
Runs under python3-vt (SciPy); distance.py / hierarchy.py are loaded FROM /repo through a
synthetic package whose __path__ is /repo/pyannote/core/utils."""
import itertools
import os

from harness import enc

PROP = "C20"
# the l2_normalize theorems (Properties/C20.v, module RealRows) are stated over the standard library's real numbers
AXIOM_WHITELIST = ["sig_not_dec", "sig_forall_dec", "functional_extensionality_dep", "classic"]
TRUSTED = ["C20 module RealRows: Coq standard-library axioms of the real numbers (ClassicalDedekindReals.sig_not_dec, sig_forall_dec) and "
           "FunctionalExtensionality.functional_extensionality_dep, through Reals; the float computation is compared with the real one by the driver"]
CHECK_MODULE = "Check.C20"
COQ_IMPORTS = "Model.Condensed"
INTERP = "vt"
SHARD = 300
RULE = ("[also: constraints as lists of lists, tuples and (m, 2) index arrays] " +
        "to_condensed/to_squared: every (n,i,j) for n <= 12 (quick) / 40 (thorough) scalar and array forms, every k "
        "for those n, sizes filling 8- and 16-bit integers with n passed as every NumPy integer type that holds it, plus row starts/ends and random k for n up to 10^7 where a mis-rounded float sqrt could change "
        "the truncation; pdist/cdist 1-D metrics on integer-valued inputs (float and int dtype) of length 0..7 with repeated values; "
        "and on decimal / normal-distributed / tiny floats, where every pdist and cdist entry must equal the correctly rounded pair function bit for bit (driver, exact rationals); propagate_constraints on every (cannot-link, must-link) graph with <=2+<=2 edges on 4 vertices (quick) and "
        "<=3+<=3 (thorough) plus random graphs on 6 vertices; l2_normalize tolerance check on random matrices "
        "with zero rows, sparse rows and rows of magnitude 1e-100 .. 1e100; non-trivial = n >= 4 / length >= 3 / both constraint lists non-empty")
TRUSTED = ["the float side of to_squared (np.sqrt, /2) is tied, not proved: the model is exact integer arithmetic"]


def generate(rng, tier):
    cases = []
    nmax = 40 if tier == "thorough" else 12
    for n in range(2, nmax + 1):
        for i in range(n):
            for j in range(n):
                cases.append({"k": "cond", "n": n, "i": i, "j": j})
        pairs = [(i, j) for i in range(n) for j in range(n) if i != j]
        cases.append({"k": "condarr", "n": n, "ijs": pairs})
        if n >= 2:
            # index sequences as lists / tuples / arrays, with and without a diagonal pair hidden among valid ones
            for cont in ("list", "tuple", "array", "mixed"):
                sub = rng.sample(pairs, min(len(pairs), rng.randrange(1, 6)))
                cases.append({"k": "condseq", "n": n, "ijs": sub, "cont": cont})
                d_ = rng.randrange(n)
                withdiag = list(sub)
                withdiag.insert(rng.randrange(len(withdiag) + 1), (d_, d_))
                cases.append({"k": "condseq", "n": n, "ijs": withdiag, "cont": cont})
        cases.append({"k": "sq", "n": n, "ks": list(range(n * (n - 1) // 2))})
    for n in (64, 100, 127, 128, 200, 255, 256, 16384, 20000, 32767, 32768, 50000, 65535):
        ijs = [(rng.randrange(n), rng.randrange(n)) for _ in range(30)] + [(n - 2, n - 1), (1, 2), (0, n - 1)]
        cases.append({"k": "condarr", "n": n, "ijs": [(i, j) for i, j in ijs if i != j]})
    big = [10 ** e + d for e in (3, 4, 5, 6, 7) for d in (-1, 0, 1, 7)] + [rng.randrange(50, 10 ** 7) for _ in range(40 if tier == "thorough" else 10)]
    for n in big:
        ks = set()
        rows = [0, 1, 2, n // 2, n - 3, n - 2] + [rng.randrange(n - 1) for _ in range(30)]
        for i in rows:
            if 0 <= i < n - 1:
                start = i * n - i * (i + 3) // 2 + (i + 1) - 1
                end = i * n - i * (i + 3) // 2 + (n - 1) - 1
                ks |= {start, end, max(0, start - 1), min(n * (n - 1) // 2 - 1, end + 1)}
        ks |= {rng.randrange(n * (n - 1) // 2) for _ in range(30)}
        cases.append({"k": "sq", "n": n, "ks": sorted(ks)})
        ijs = [(rng.randrange(n), rng.randrange(n)) for _ in range(30)]
        cases.append({"k": "condarr", "n": n, "ijs": [(i, j) for i, j in ijs if i != j]})
    for m in ("equal", "minimum", "maximum", "average"):
        for ln in range(0, 8):
            for _ in range(6 if tier == "thorough" else 3):
                xs = [rng.randrange(-4, 5) for _ in range(ln)]
                dt = rng.choice(["float", "int"])      # integer arrays too: the result must not inherit the input dtype
                cases.append({"k": "pdist", "m": m, "xs": xs, "dtype": dt})
                ys = [rng.randrange(-4, 5) for _ in range(rng.randrange(0, 6))]
                cases.append({"k": "cdist", "m": m, "xs": xs, "ys": ys, "dtype": dt})
    verts = range(4)
    allp = [(u, v) for u in verts for v in verts if u < v]
    kmax = 3 if tier == "thorough" else 2
    subsets = [c for r in range(kmax + 1) for c in itertools.combinations(allp, r)]
    for cl in subsets:
        for ml in subsets:
            cases.append({"k": "prop", "cl": [list(p) for p in cl], "ml": [list(p) for p in ml]})
    for _ in range(2000 if tier == "thorough" else 300):
        def rp():
            u, v = rng.randrange(6), rng.randrange(6)
            return [u, v] if rng.random() < 0.9 or u != v else [u, (v + 1) % 6]
        cases.append({"k": "prop", "cl": [rp() for _ in range(rng.randrange(0, 5))],
                      "ml": [rp() for _ in range(rng.randrange(0, 6))]})
    for s in range(20):
        cases.append({"k": "l2", "seed": s})
    # decimal and random (non-dyadic) float inputs: sums and halves are rounded, so "the stated function of each pair"
    # is checked against the correctly rounded value computed with exact rationals, bit for bit
    for m in ("equal", "minimum", "maximum", "average"):
        for s in range(12 if tier == "thorough" else 4):
            cases.append({"k": "pdistf", "m": m, "seed": s, "n": rng.choice([2, 3, 5, 9])})
    kinds = {}
    for c in cases:
        kinds[c["k"]] = kinds.get(c["k"], 0) + 1
    return {"cases": cases, "meta": {"exhaustive": True, "kinds": kinds, "nmax_exhaustive": nmax}}


_MODS = {}


def _mods():
    if not _MODS:
        import importlib
        import sys
        import types
        repo = os.environ.get("VERIF_REPO", "/repo")
        pkg = types.ModuleType("pcu")
        pkg.__path__ = [os.path.join(repo, "pyannote", "core", "utils")]
        sys.modules["pcu"] = pkg
        _MODS["d"] = importlib.import_module("pcu.distance")
        _MODS["h"] = importlib.import_module("pcu.hierarchy")
    return _MODS["d"], _MODS["h"]


def run(case):
    import numpy as np
    d, h = _mods()
    k = case["k"]
    if k == "cond":
        def f(i, j):
            try:
                return int(d.to_condensed(case["n"], i, j))
            except ValueError:
                return None
        return {"obs": f(case["i"], case["j"]), "sym": f(case["j"], case["i"])}
    if k == "condarr":
        if not case["ijs"]:
            return {"obs": []}
        i, j = np.array([p[0] for p in case["ijs"]]), np.array([p[1] for p in case["ijs"]])
        obs = [int(x) for x in d.to_condensed(case["n"], i, j)]
        # the size given as a NumPy integer scalar of any width that holds it (e.g. labels.max() + 1 of a compact array)
        import warnings
        for T in (np.uint8, np.int8, np.int16, np.uint16, np.int32, np.uint32, np.int64):
            if case["n"] <= np.iinfo(T).max:
                with warnings.catch_warnings():
                    warnings.simplefilter("ignore")
                    got = [int(x) for x in d.to_condensed(T(case["n"]), i, j)]
                assert got == obs, "to_condensed(%s(%d), ...) differs from to_condensed(%d, ...)" % (T.__name__, case["n"], case["n"])
        return {"obs": obs}
    if k == "condseq":
        ii, jj = [p[0] for p in case["ijs"]], [p[1] for p in case["ijs"]]
        cont = case["cont"]
        if cont == "tuple":
            ii, jj = tuple(ii), tuple(jj)
        elif cont == "array":
            ii, jj = np.array(ii), np.array(jj)
        elif cont == "mixed":
            ii, jj = tuple(ii), list(jj)
        try:
            return {"obs": [int(x) for x in np.atleast_1d(d.to_condensed(case["n"], ii, jj))]}
        except ValueError:
            return {"obs": None}
    if k == "sq":
        i, j = d.to_squared(case["n"], np.array(case["ks"]))
        sc = [d.to_squared(case["n"], kk) for kk in case["ks"][:40]]
        return {"obs": [[int(a), int(b)] for a, b in zip(np.atleast_1d(i), np.atleast_1d(j))],
                "scalar": [[int(a), int(b)] for a, b in sc]}
    mult = {"equal": 1, "minimum": 1, "maximum": 1, "average": 2}
    dt = float if case.get("dtype", "float") == "float" else int
    if k == "pdist":
        x = np.array(case["xs"], dtype=dt)
        r = d.pdist(x, metric=case["m"])
        cd = d.cdist(x, x, metric=case["m"]) if len(x) else np.zeros((0, 0))
        f = mult[case["m"]]
        conv = lambda v: int(v * f) if float(v * f).is_integer() else (_ for _ in ()).throw(ValueError("off grid"))
        return {"obs": [conv(v) for v in np.asarray(r).tolist()],
                "cd": [[conv(v) for v in row] for row in np.asarray(cd).tolist()]}
    if k == "cdist":
        x = np.array(case["xs"], dtype=dt)
        y = np.array(case["ys"], dtype=dt)
        f = mult[case["m"]]
        if len(x) == 0:
            return {"obs": []}
        r = d.cdist(x, y, metric=case["m"])
        if case["m"] == "equal" and len(y):
            import warnings
            with warnings.catch_warnings():
                warnings.simplefilter("ignore")
                # labels of another kind on the other side (numbers against strings) are simply never equal
                mixed = np.asarray(d.cdist(x, np.array(["s%d" % int(v) for v in case["ys"]]), metric="equal"))
            assert mixed.shape == (len(x), len(y)) and not mixed.any(), "cdist 'equal' between numbers and strings: %r" % (mixed,)
            strs = np.asarray(d.cdist(np.array(["s%d" % int(v) for v in case["xs"]]), np.array(["s%d" % int(v) for v in case["ys"]]), metric="equal"))
            assert bool((strs == np.asarray(r)).all()), "cdist 'equal' on string labels differs from the same labels as numbers"
        conv = lambda v: int(v * f) if float(v * f).is_integer() else (_ for _ in ()).throw(ValueError("off grid"))
        return {"obs": [[conv(v) for v in row] for row in np.asarray(r).reshape(len(x), len(y)).tolist()]}
    if k == "prop":
        def call(cl, ml):
            try:
                return sorted([int(a), int(b)] for a, b in h.propagate_constraints(cl, ml))
            except ValueError:
                return None
        obs = call([tuple(p) for p in case["cl"]], [tuple(p) for p in case["ml"]])
        # the same constraints in other containers: lists of lists, tuples of tuples, (m, 2) index arrays
        arr = lambda ps: np.array(ps, dtype=int).reshape((len(ps), 2))
        for what, cl, ml in (("lists of lists", [list(p) for p in case["cl"]], [list(p) for p in case["ml"]]),
                             ("tuples", tuple(tuple(p) for p in case["cl"]), tuple(tuple(p) for p in case["ml"])),
                             ("must_link as an index array", [tuple(p) for p in case["cl"]], arr(case["ml"])),
                             ("both as index arrays", arr(case["cl"]), arr(case["ml"]))):
            got = call(cl, ml)
            assert got == obs, "propagate_constraints with %s gives %r, with lists of tuples %r" % (what, got, obs)
        return {"obs": obs}
    if k == "pdistf":
        from fractions import Fraction
        rs = np.random.RandomState(1000 + case["seed"])
        n = case["n"]
        kind = case["seed"] % 3
        x = rs.randn(n) if kind == 0 else np.round(rs.uniform(-3, 3, n), 1) if kind == 1 else rs.uniform(0, 1, n) * 1e-3
        x[rs.randint(n)] = x[rs.randint(n)]                         # a repeated value
        y = np.round(rs.uniform(-3, 3, rs.randint(1, 5)), 2)
        fn = {"equal": lambda a, b: 1.0 if a == b else 0.0, "minimum": min, "maximum": max,
              "average": lambda a, b: float((Fraction(a) + Fraction(b)) / 2)}[case["m"]]
        r = np.asarray(d.pdist(x, metric=case["m"]), dtype=float)
        cd = np.asarray(d.cdist(x, x, metric=case["m"]), dtype=float)
        cxy = np.asarray(d.cdist(x, y, metric=case["m"]), dtype=float)
        ok = r.shape == (n * (n - 1) // 2,) and cd.shape == (n, n) and cxy.shape == (n, len(y))
        for i in range(n):
            for j in range(n):
                ok = ok and float(cd[i, j]) == fn(float(x[i]), float(x[j]))
                if i < j:
                    ok = ok and float(r[d.to_condensed(n, i, j)]) == float(cd[i, j]) == float(r[d.to_condensed(n, j, i)])
            for j in range(len(y)):
                ok = ok and float(cxy[i, j]) == fn(float(x[i]), float(y[j]))
        return {"ok": bool(ok)}
    if k == "l2":
        rng = np.random.RandomState(case["seed"])
        X = rng.randn(6, 4) * (10.0 ** rng.randint(-3, 4))
        # rows of very small / very large magnitude (squares still representable: 1e-100 .. 1e100)
        X[rng.randint(6)] *= 10.0 ** float(rng.choice([-100, -30, -13, -12, -9, 9, 30, 100]))
        X[rng.randint(6)] = np.array([3.0, 4.0, 0.0, 0.0]) * 10.0 ** float(rng.choice([-13, -14, -40, 13]))
        X[rng.randint(6)] = 0.0
        # sparse rows: exact zeros among the coordinates of a non-zero row, integer-valued rows, a one-hot row
        X[rng.randint(6), rng.randint(4)] = 0.0
        r = rng.randint(6)
        X[r] = [3.0, 0.0, 4.0, 0.0]
        r2 = (r + 1 + rng.randint(5)) % 6
        X[r2] = 0.0
        X[r2, rng.randint(4)] = rng.choice([1.0, -2.0, 5.0])
        N = d.l2_normalize(X)
        norms = np.sqrt((N ** 2).sum(axis=1))
        zero = (X == 0).all(axis=1)
        ok = bool(np.all(np.abs(norms[~zero] - 1.0) <= 4 * np.finfo(float).eps)) and bool(np.all(N[zero] == 0)) \
            and bool(np.all(np.abs(N[~zero] * np.sqrt((X[~zero] ** 2).sum(axis=1))[:, None] - X[~zero])
                            <= 1e-9 * np.abs(X[~zero]).max(axis=1)[:, None]))
        return {"ok": ok}
    raise ValueError(k)


MET = {"equal": "MEqual", "minimum": "MMin", "maximum": "MMax", "average": "MAvg"}


def encode(case, o):
    e = enc
    k = case["k"]
    zz = lambda l: e.lst([e.pair(e.z(a), e.z(b)) for a, b in l])
    mat = lambda m: e.lst([e.zs(r) for r in m])
    if k == "cond":
        return f"KCond {e.z(case['n'])} {e.z(case['i'])} {e.z(case['j'])} {e.opt(o['obs'], e.z)} {e.opt(o['sym'], e.z)}"
    if k == "condarr":
        return f"KCondArr {e.z(case['n'])} {zz(case['ijs'])} {e.zs(o['obs'])}"
    if k == "condseq":
        return f"KCondSeq {e.z(case['n'])} {zz(case['ijs'])} {e.opt(o['obs'], e.zs)}"
    if k == "sq":
        ks = case["ks"]
        # scalar form only observed on the first 40 ks; pad with the array results beyond
        sc = o["scalar"] + o["obs"][len(o["scalar"]):]
        return f"KSq {e.z(case['n'])} {e.zs(ks)} {zz(o['obs'])} {zz(sc)}"
    if k == "pdist":
        return f"KPdist {MET[case['m']]} {e.zs(case['xs'])} {e.zs(o['obs'])} {mat(o['cd'])}"
    if k == "cdist":
        return f"KCdist {MET[case['m']]} {e.zs(case['xs'])} {e.zs(case['ys'])} {mat(o['obs'])}"
    if k == "prop":
        return f"KProp {zz(case['cl'])} {zz(case['ml'])} {e.opt(o['obs'], zz)}"
    if k in ("l2", "pdistf"):
        return f"KL2 {e.b(o['ok'])}"


def nontrivial(case, o):
    k = case["k"]
    if k in ("cond", "condarr", "sq", "condseq"):
        return case["n"] >= 4
    if k in ("pdist", "cdist"):
        return len(case["xs"]) >= 3
    if k == "prop":
        return bool(case["cl"]) and bool(case["ml"])
    return True


def shrink(case):
    if case["k"] == "prop":
        for key in ("cl", "ml"):
            l = case[key]
            for i in range(len(l)):
                yield {**case, key: l[:i] + l[i + 1:]}
    if case["k"] in ("sq",):
        for i in range(len(case["ks"])):
            yield {**case, "ks": case["ks"][:i] + case["ks"][i + 1:]}
    if case["k"] in ("pdist", "cdist"):
        for key in ("xs", "ys"):
            if key in case:
                l = case[key]
                for i in range(len(l)):
                    yield {**case, key: l[:i] + l[i + 1:]}
