(* Correspondence checker for C11: rename_labels, rename_tracks, relabel_tracks, subset. *)
From PV Require Import Check.AnnCommon.

Record case := K { c_eps : Z; c_recs : list triple;
                   c_mapping : list (name * name); c_copy : bool; c_gen : gen;
                   c_subset : list name;
                   o_renamed : oann; o_receiver : list triple;     (* rename_labels(mapping, copy) *)
                   o_renamed_labels : list name;
                   o_generated : oann;                              (* rename_labels(generator=g) on a copy *)
                   o_rename_tracks : oann; o_relabel_tracks : oann;
                   o_subset : oann; o_subset_inv : oann }.

Definition opt_exact (o : oann) (a : option ann) : bool :=
  match a with Some a' => oann_exact o a' | None => false end.

Definition check (c : case) : nat :=
  let eps := c_eps c in
  let a := ann_of eps (Some "u"%string) (Some "m"%string) (c_recs c) in
  let renamed := if c_copy c then rename_labels_copy a (c_mapping c) else rename_labels_inplace a (c_mapping c) in
  let ok :=
    oann_exact (o_renamed c) renamed
    && triples_eqb (o_receiver c) (itertracks (if c_copy c then a else renamed))
    && names_eqb (o_renamed_labels c) (snd (labels eps renamed))
    && match generated_mapping eps a (c_gen c) with
       | Some m => oann_exact (o_generated c) (rename_labels_copy a m)
       | None => false
       end
    && opt_exact (o_rename_tracks c) (rename_tracks_ann eps a (c_gen c))
    && opt_exact (o_relabel_tracks c) (relabel_tracks_ann eps a (c_gen c))
    && oann_exact (o_subset c) (subset_ann eps a (c_subset c) false)
    && oann_exact (o_subset_inv c) (subset_ann eps a (c_subset c) true) in
  if ok then 0%nat else 1%nat.
