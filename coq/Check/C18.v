(* Correspondence checker for C18: overlapping(t) / overlapping_iter(t). *)
From PV Require Import Model.Timeline.
Record case := K { c_eps : Z; c_t : list seg;
                   o_queries : list (Z * (list seg * list seg));    (* t, overlapping(t), list(overlapping_iter(t)) *)
                   o_qqueries : list (Z * (list seg * list seg)) }. (* the same with t in quarter ticks *)
Definition scale4 (s : seg) : seg := (4 * st s, 4 * en s).
Definition check (c : case) : nat :=
  let eps := c_eps c in
  let t := tl_of eps (c_t c) in
  if forallb (fun q => list_eqb seqb (fst (snd q)) (overlapping (fst q) t)
                       && list_eqb seqb (snd (snd q)) (overlapping (fst q) t)) (o_queries c)
     && forallb (fun q => list_eqb seqb (map scale4 (fst (snd q))) (overlapping (fst q) (map scale4 t))
                       && list_eqb seqb (map scale4 (snd (snd q))) (overlapping (fst q) (map scale4 t))) (o_qqueries c)
  then 0%nat else 1%nat.
