(* Correspondence checker for C16: SlidingWindowFeature.crop / iteration / extent. *)
From PV Require Import Model.Feature.

Inductive case :=
| KCrop (eps dur step start n : Z) (focus : sup) (m : amode) (fixed : option Z) (obs : list Z)
| KCropWin (dur step start n : Z) (focus : seg) (m : amode) (obs : option (list Z * Z))
           (same_step_dur_labels : bool)
| KIter (dur step start n : Z) (obs : list (Z * option seg)) (extent2 : seg) (misc_ok : bool)
(* decimal (non-dyadic) window parameters: outside the exact tier of the model. The driver evaluates the clauses of the
   property that need no model - a feature aligned to its own window is itself, ufuncs keep window and shape, iteration
   yields one pair per row - and reports whether they hold. *)
| KDriver (n : Z) (ok : bool).

Definition check (c : case) : nat :=
  match c with
  | KCrop eps dur step start n focus m fixed obs =>
      match win_make dur step start None with
      | None => 1%nat
      | Some w =>
          let f := match focus with SupSeg s => SupSeg s | SupTl l => SupTl (tl_of eps l) end in
          if list_eqb Z.eqb obs (fcrop eps w n f m fixed) then 0%nat else 1%nat
      end
  | KCropWin dur step start n focus m obs ok =>
      match win_make dur step start None with
      | None => 1%nat
      | Some w =>
          (* an exception is never acceptable (C16: "never an error"); when no frame is kept the
             window start of the empty result is left free *)
          let good := match obs, fcrop_window w n focus m with
                      | None, _ => false
                      | Some o, Some r => pair_eqb (list_eqb Z.eqb) Z.eqb o r
                      | Some o, None => match fst o with [] => true | _ => false end
                      end in
          if ok && good then 0%nat else 1%nat
      end
  | KIter dur step start n obs ext ok =>
      match win_make dur step start None with
      | None => 1%nat
      | Some w =>
          if ok && list_eqb (pair_eqb Z.eqb (option_eqb seqb)) obs (fiter w n) && seqb ext (fextent2 w n)
          then 0%nat else 1%nat
      end
  | KDriver _ ok => if ok then 0%nat else 1%nat
  end.
