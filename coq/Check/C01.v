(* Correspondence checker for C01: operation histories over a bank of
   Timeline registers, with the implementation's read-backs. *)
From PV Require Import Model.Timeline.

Inductive readback :=
  RB (iter : list seg) (len : Z) (bool_ : bool) (extent : seg)
     (items : list (Z * option seg))            (* (k, t[k]); None = IndexError *)
     (probes : list (seg * (bool * option Z))).  (* (s, (s in t, t.index(s))); None = ValueError *)

Inductive op :=
| ONew (r : nat) (segs : list seg)
| OAdd (r : nat) (x : seg)
| ORemove (r : nat) (x : seg)
| OUpdate (r r2 : nat)
| OUnion (r r1 r2 : nat)
| OCopy (r r1 : nat) (f : option sfun)
| ORead (r : nat) (rb : readback)
| OCmp (r1 r2 : nat) (eq ne contains : bool).

Record case := K { c_eps : Z; c_ops : list op }.

Definition empty_tl : tl := mkTl [] [] [].
Definition getr (regs : list tl) (r : nat) : tl := nth r regs empty_tl.
Fixpoint setr (regs : list tl) (r : nat) (t : tl) : list tl :=
  match r, regs with
  | O, _ :: rest => t :: rest
  | O, [] => [t]
  | S r', x :: rest => x :: setr rest r' t
  | S r', [] => empty_tl :: setr [] r' t
  end.

Definition ozeqb := option_eqb Z.eqb.
Definition osegeqb := option_eqb seqb.

Definition check_read (t : tl) (rb : readback) : bool :=
  match rb with
  | RB iter len b ext items probes =>
      list_eqb seqb iter (t_iter t)
      && (len =? t_len t) && Bool.eqb b (t_bool t) && seqb ext (t_extent t)
      && forallb (fun kv => osegeqb (snd kv) (t_getitem t (fst kv))) items
      && forallb (fun p => Bool.eqb (fst (snd p)) (t_contains t (fst p))
                           && ozeqb (snd (snd p)) (t_index t (fst p))) probes
  end.

(* apply one operation to the model registers; reads return whether they agree *)
Definition step (eps : Z) (regs : list tl) (o : op) : list tl * bool :=
  match o with
  | ONew r segs => (setr regs r (t_init eps segs), true)
  | OAdd r x => (setr regs r (t_add eps (getr regs r) x), true)
  | ORemove r x => (setr regs r (t_remove (getr regs r) x), true)
  | OUpdate r r2 => (setr regs r (t_update (getr regs r) (getr regs r2)), true)
  | OUnion r r1 r2 => (setr regs r (t_union eps (getr regs r1) (getr regs r2)), true)
  | OCopy r r1 f => (setr regs r (t_copy eps (getr regs r1) f), true)
  | ORead r rb => (regs, check_read (getr regs r) rb)
  | OCmp r1 r2 e n c =>
      (regs, Bool.eqb e (t_eq (getr regs r1) (getr regs r2))
             && Bool.eqb n (t_ne (getr regs r1) (getr regs r2))
             && Bool.eqb c (t_contains_tl (getr regs r1) (getr regs r2)))
  end.

Fixpoint run (eps : Z) (regs : list tl) (ops : list op) : bool :=
  match ops with
  | [] => true
  | o :: rest => let '(regs', ok) := step eps regs o in
                 if ok then run eps regs' rest else false
  end.

(* every observation of C01 is fixed by the property: any divergence is a
   failure of the property's specification *)
Definition check (c : case) : nat := if run (c_eps c) [] (c_ops c) then 0%nat else 1%nat.
