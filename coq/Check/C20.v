(* Correspondence checker for C20. *)
From PV Require Import Model.Condensed.

Inductive case :=
| KCond (n i j : Z) (obs : option Z) (obs_sym : option Z)
| KCondArr (n : Z) (ijs : list (Z * Z)) (obs : list Z)
(* index sequences of any container type; None = ValueError, required as soon as one pair has i = j *)
| KCondSeq (n : Z) (ijs : list (Z * Z)) (obs : option (list Z))
| KSq (n : Z) (ks : list Z) (obs : list (Z * Z)) (obs_scalar : list (Z * Z))
| KPdist (m : metric) (xs : list Z) (obs : list Z) (obs_cd : list (list Z))
| KCdist (m : metric) (xs ys : list Z) (obs : list (list Z))
| KProp (cl ml : list (Z * Z)) (obs : option (list (Z * Z)))
| KL2 (ok : bool).

Definition ozeqb := option_eqb Z.eqb.
Definition zz_eqb := pair_eqb Z.eqb Z.eqb.

(* pdist laid out at the to_condensed positions of the cdist matrix *)
Definition layout_ok (n : Z) (pd : list Z) (cd : list (list Z)) : bool :=
  forallb (fun i =>
    forallb (fun j =>
      if i <? j then
        match to_condensed n i j with
        | Some k => nth (Z.to_nat k) pd (-1) =? nth (Z.to_nat j) (nth (Z.to_nat i) cd []) (-2)
        | None => false
        end
      else true) (map Z.of_nat (seq 0 (Z.to_nat n)))) (map Z.of_nat (seq 0 (Z.to_nat n))).

Definition check (c : case) : nat :=
  let ok :=
    match c with
    | KCond n i j obs obs_sym => ozeqb obs (to_condensed n i j) && ozeqb obs_sym (to_condensed n j i)
                                 && ozeqb obs obs_sym
    | KCondArr n ijs obs =>
        list_eqb ozeqb (map Some obs) (map (fun p => to_condensed n (fst p) (snd p)) ijs)
    | KCondSeq n ijs obs =>
        if existsb (fun p => fst p =? snd p) ijs
        then match obs with None => true | Some _ => false end
        else match obs with
             | Some o => list_eqb ozeqb (map Some o) (map (fun p => to_condensed n (fst p) (snd p)) ijs)
             | None => false
             end
    | KSq n ks obs obs_scalar =>
        list_eqb zz_eqb obs (map (to_squared n) ks) && list_eqb zz_eqb obs_scalar (map (to_squared n) ks)
        && forallb (fun kp => ozeqb (to_condensed n (fst (snd kp)) (snd (snd kp))) (Some (fst kp)))
                   (combine ks obs)
    | KPdist m xs obs obs_cd =>
        list_eqb Z.eqb obs (pdist1d (metric_fn m) xs)
        && list_eqb (list_eqb Z.eqb) obs_cd (cdist1d (metric_fn m) xs xs)
        && layout_ok (Z.of_nat (length xs)) obs obs_cd
    | KCdist m xs ys obs => list_eqb (list_eqb Z.eqb) obs (cdist1d (metric_fn m) xs ys)
    | KProp cl ml obs => match propagate cl ml with
                         | Some r => option_eqb (list_eqb zz_eqb) obs r
                         | None => false
                         end
    | KL2 ok => ok
    end in
  if ok then 0%nat else 1%nat.
