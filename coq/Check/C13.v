(* Correspondence checker for C13: precision-mode rounding. *)
From PV Require Import Model.Precision.
From Coq Require Import PrimFloat.

Inductive case :=
| KF (P x obs r_copy r_and r_or r_sup r_50 : float) (near_ok mono_ok eqhash_ok : bool)
| KX0 (num den : Z) (obs : Z)
| KNone (ok : bool).

Definition check (c : case) : nat :=
  match c with
  | KF P x obs r_copy r_and r_or r_sup r_50 near_ok mono_ok eqhash_ok =>
      let spec_ok := feqb r_copy obs && feqb r_and obs && feqb r_or obs && feqb r_sup obs && feqb r_50 obs
                     && near_ok && mono_ok && eqhash_ok in
      verdict spec_ok (feqb obs (roundF P x))
  | KX0 num den obs => if obs =? round_units 0 num den then 0%nat else 1%nat
  | KNone ok => if ok then 0%nat else 1%nat
  end.
