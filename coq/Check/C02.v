(* Correspondence checker for C02: write/read histories over annotation registers. *)
From PV Require Import Model.Annotation.

Inductive rd :=
| RIter (obs : list triple)
| RLabels (obs : list name)
| RLabelTimeline (lab : name) (segs : list seg) (u : uri_t)
| RLabelSupport (lab : name) (segs : list seg)
| RLabelDuration (lab : name) (d : Z)
| RGetTimeline (segs : list seg) (u : uri_t)
| RChart (obs : list (name * Z))
| RGetTracks (s : seg) (obs : list name)
| RGetLabels (s : seg) (obs : list name)
| RHasTrack (s : seg) (t : name) (b : bool)
| RGetItem (s : seg) (t : name) (obs : option name)
| RLen (n : Z)
| RBool (b : bool)
| RContainsSeg (s : seg) (b : bool)
| RContainsTl (l : list seg) (b : bool)
| RUri (u : uri_t).

Inductive aop :=
| ANew (r : nat) (u m : uri_t)
| AFromRecords (r : nat) (recs : list triple) (u m : uri_t)
| ASet (r : nat) (s : seg) (t : option name) (l : name)
| ADelSeg (r : nat) (s : seg) (raised : bool)
| ADelTrack (r : nat) (s : seg) (t : name) (raised : bool)
| AUpdate (r r2 : nat)
| ARename (r : nat) (mapping : list (name * name))
| ASetUri (r : nat) (u : uri_t)
| ARead (r : nat) (x : rd).

Record case := K { c_eps : Z; c_ops : list aop }.

Definition uri_eqb := option_eqb String.eqb.
Definition triple_eqb (x y : triple) : bool :=
  seqb (fst (fst x)) (fst (fst y)) && name_eqb (snd (fst x)) (snd (fst y)) && name_eqb (snd x) (snd y).
Definition names_eqb := list_eqb name_eqb.

(* canonical order for Python sets of names / charts *)
Fixpoint ins_name {V} (kv : name * V) (l : list (name * V)) : list (name * V) :=
  match l with
  | [] => [kv]
  | y :: r => if name_ltb (fst kv) (fst y) then kv :: y :: r else y :: ins_name kv r
  end.
Definition canon {V} (l : list (name * V)) : list (name * V) := fold_left (fun acc x => ins_name x acc) l [].
Definition canon_names (l : list name) : list name := map fst (canon (map (fun n => (n, tt)) l)).
Fixpoint dedup_names (l : list name) : list name :=
  match l with
  | a :: ((b :: _) as r) => if name_eqb a b then dedup_names r else a :: dedup_names r
  | _ => l
  end.

Definition empty_ann : ann := a_empty None None.
Definition getr (regs : list ann) (r : nat) : ann := nth r regs empty_ann.
Fixpoint setr (regs : list ann) (r : nat) (a : ann) : list ann :=
  match r, regs with
  | O, _ :: rest => a :: rest
  | O, [] => [a]
  | S r', x :: rest => x :: setr rest r' a
  | S r', [] => empty_ann :: setr [] r' a
  end.

Definition do_read (eps : Z) (a : ann) (x : rd) : ann * bool :=
  match x with
  | RIter obs => (a, list_eqb triple_eqb obs (itertracks a))
  | RLabels obs => let '(a1, l) := labels eps a in (a1, names_eqb obs l)
  | RLabelTimeline lab segs u =>
      let '(a1, c) := label_timeline eps a lab in (a1, list_eqb seqb segs (c_segs c) && uri_eqb u (c_uri c))
  | RLabelSupport lab segs => let '(a1, s) := label_support eps a lab in (a1, list_eqb seqb segs s)
  | RLabelDuration lab d => let '(a1, d') := label_duration eps a lab in (a1, d =? d')
  | RGetTimeline segs u =>
      let '(a1, c) := get_timeline eps a in (a1, list_eqb seqb segs (c_segs c) && uri_eqb u (c_uri c))
  | RChart obs =>
      let '(a1, ch) := chart eps a in
      (a1, list_eqb (pair_eqb name_eqb Z.eqb) (canon obs) (canon ch))
  | RGetTracks s obs => (a, names_eqb (canon_names obs) (canon_names (get_tracks a s)))
  | RGetLabels s obs => (a, names_eqb (dedup_names (canon_names obs)) (dedup_names (canon_names (get_labels_list a s))))
  | RHasTrack s t b => (a, Bool.eqb b (has_track a s t))
  | RGetItem s t obs => (a, option_eqb name_eqb obs (getitem a s t))
  | RLen n => (a, n =? a_len a)
  | RBool b => (a, Bool.eqb b (a_bool a))
  | RContainsSeg s b => let '(a1, b') := contains_seg eps a s in (a1, Bool.eqb b b')
  | RContainsTl l b => let '(a1, b') := contains_tl eps a l in (a1, Bool.eqb b b')
  | RUri u => (a, uri_eqb u (a_uri a))
  end.

Definition step (eps : Z) (regs : list ann) (o : aop) : list ann * bool :=
  match o with
  | ANew r u m => (setr regs r (a_empty u m), true)
  | AFromRecords r recs u m => (setr regs r (from_records eps recs u m), true)
  | ASet r s t l =>
      (setr regs r (setitem eps (getr regs r) s (match t with Some t' => t' | None => default_track end) l), true)
  | ADelSeg r s raised =>
      match delitem_seg (getr regs r) s with
      | Some a' => (setr regs r a', negb raised)
      | None => (regs, raised)
      end
  | ADelTrack r s t raised =>
      match delitem_track (getr regs r) s t with
      | Some a' => (setr regs r a', negb raised)
      | None => (regs, raised)
      end
  | AUpdate r r2 => (setr regs r (update_with eps (getr regs r) (itertracks (getr regs r2))), true)
  | ARename r mapping => (setr regs r (rename_labels_inplace (getr regs r) mapping), true)
  | ASetUri r u => (setr regs r (set_uri eps (getr regs r) u), true)
  | ARead r x => let '(a', ok) := do_read eps (getr regs r) x in (setr regs r a', ok)
  end.

Fixpoint run (eps : Z) (regs : list ann) (ops : list aop) : bool :=
  match ops with
  | [] => true
  | o :: rest => let '(regs', ok) := step eps regs o in if ok then run eps regs' rest else false
  end.

Definition check (c : case) : nat := if run (c_eps c) [] (c_ops c) then 0%nat else 1%nat.
