(* Correspondence checker for C14: SlidingWindow positions, iteration, length,
   nearest frame, tiling, __call__. *)
From PV Require Import Model.Window.

Definition osegeqb := option_eqb seqb.
Definition zz_eqb := pair_eqb Z.eqb Z.eqb.

Inductive case :=
| KCtor (dur step start : Z) (wend : option Z) (ok : bool)
| KWin (eps dur step start : Z) (wend : option Z)
       (items : list (Z * option seg))                 (* window[i] *)
       (iter1 iter2 : option (list seg)) (len : option Z)   (* None when infinite *)
       (copy_params : Z * Z * Z * option Z)
       (closest : list (Z * Z))                        (* (t, closest_frame(t)) *)
       (r2s : list ((Z * Z) * seg))                    (* ((i0, n), doubled segment) *)
       (s2r : list (seg * (Z * Z)))                    (* segment_to_range *)
       (smp : list (Z * (Z * Z * Z)))                  (* d -> samples strict, loose, center *)
| KCall (eps dur step start : Z) (support : sup) (align_last : bool) (obs : list seg).

Definition check (c : case) : nat :=
  match c with
  | KCtor dur step start wend ok =>
      if Bool.eqb ok (match win_make dur step start wend with Some _ => true | None => false end) then 0%nat else 1%nat
  | KWin eps dur step start wend items iter1 iter2 len cp closest r2s s2r smp =>
      match win_make dur step start wend with
      | None => 1%nat
      | Some w =>
          let expected_iter := match wend with Some _ => Some (win_iter eps w) | None => None end in
          let spec_ok :=
            forallb (fun kv => osegeqb (snd kv) (win_get w (fst kv))) items
            && option_eqb (list_eqb seqb) iter1 expected_iter
            && option_eqb (list_eqb seqb) iter2 expected_iter
            && option_eqb Z.eqb len (win_len eps w)
            && (let '(d, s, st_, e) := cp in (d =? dur) && (s =? step) && (st_ =? start) && option_eqb Z.eqb e wend)
            && forallb (fun kv => snd kv =? closest_frame w (fst kv)) closest
            && forallb (fun kv => seqb (snd kv) (range_to_segment2 w (fst (fst kv)) (snd (fst kv)))) r2s in
          let model_eq :=
            forallb (fun kv => zz_eqb (snd kv) (segment_to_range eps w (fst kv))) s2r
            && forallb (fun kv => let '(a, b, cc) := snd kv in
                                  (a =? samples w (fst kv) AStrict) && (b =? samples w (fst kv) ALoose)
                                  && (cc =? samples w (fst kv) ACenter)) smp in
          verdict spec_ok model_eq
      end
  | KCall eps dur step start support al obs =>
      match win_make dur step start None with
      | None => 1%nat
      | Some w =>
          let segs := match support with SupSeg s => tl_of eps [s] | SupTl l => tl_of eps l end in
          if list_eqb seqb obs (win_call eps w segs al) then 0%nat else 1%nat
      end
  end.
