(* Correspondence checker for C14: SlidingWindow positions, iteration, length,
   nearest frame, tiling, __call__. *)
From PV Require Import Model.Window.

Definition osegeqb := option_eqb seqb.
Definition zz_eqb := pair_eqb Z.eqb Z.eqb.

Inductive case :=
| KCtor (dur step start : Z) (wend : option Z) (ok : bool)
| KWin (eps dur step start : Z) (wend : option Z)
       (items : list (Z * option seg))                 (* window[i] *)
       (iter1 iter2 : option (list seg)) (len : option Z)   (* None when infinite *)
       (copy_params : Z * Z * Z * option Z)
       (closest : list (Z * Z))                        (* (t, closest_frame(t)) *)
       (r2s : list ((Z * Z) * seg))                    (* ((i0, n), doubled segment) *)
       (s2r : list (seg * (Z * Z)))                    (* segment_to_range *)
       (smp : list (Z * (Z * Z * Z)))                  (* d -> samples strict, loose, center *)
| KCall (eps dur step start : Z) (support : sup) (align_last : bool) (obs : list seg)
(* tolerance tier: arbitrary binary64 parameters (decimal steps such as 0.01), every value given exactly as an integer
   in units of 2^-130 s *)
| KWinF (dur step start : Z) (wend : option Z)
        (items : list (Z * option seg)) (len : option Z) (closest : list (Z * Z)) (r2s : list ((Z * Z) * seg)).

(* A time computed by the float code from operands of total magnitude [slack] is within slack * 2^-44 of the exact
   value (512 times the worst-case rounding error of a handful of binary64 operations); an index obtained by rounding
   a quotient n / d is the rounding of some quotient within slack * 2^-40 / d of the exact one (see Check/C15.v). *)
Definition closeb (a b slack : Z) : bool := Z.abs (a - b) * 2 ^ 44 <=? slack.
Definition tol_ok (r : Z -> Z -> Z) (n d slack v : Z) : bool :=
  let D := d * 2 ^ 40 in
  (r (n * 2 ^ 40 - slack) D <=? v) && (v <=? r (n * 2 ^ 40 + slack) D).

Definition check (c : case) : nat :=
  match c with
  | KCtor dur step start wend ok =>
      if Bool.eqb ok (match win_make dur step start wend with Some _ => true | None => false end) then 0%nat else 1%nat
  | KWin eps dur step start wend items iter1 iter2 len cp closest r2s s2r smp =>
      match win_make dur step start wend with
      | None => 1%nat
      | Some w =>
          let expected_iter := match wend with Some _ => Some (win_iter eps w) | None => None end in
          let spec_ok :=
            forallb (fun kv => osegeqb (snd kv) (win_get w (fst kv))) items
            && option_eqb (list_eqb seqb) iter1 expected_iter
            && option_eqb (list_eqb seqb) iter2 expected_iter
            && option_eqb Z.eqb len (win_len eps w)
            && (let '(d, s, st_, e) := cp in (d =? dur) && (s =? step) && (st_ =? start) && option_eqb Z.eqb e wend)
            && forallb (fun kv => snd kv =? closest_frame w (fst kv)) closest
            && forallb (fun kv => seqb (snd kv) (range_to_segment2 w (fst (fst kv)) (snd (fst kv)))) r2s in
          let model_eq :=
            forallb (fun kv => zz_eqb (snd kv) (segment_to_range eps w (fst kv))) s2r
            && forallb (fun kv => let '(a, b, cc) := snd kv in
                                  (a =? samples w (fst kv) AStrict) && (b =? samples w (fst kv) ALoose)
                                  && (cc =? samples w (fst kv) ACenter)) smp in
          verdict spec_ok model_eq
      end
  | KCall eps dur step start support al obs =>
      match win_make dur step start None with
      | None => 1%nat
      | Some w =>
          let segs := match support with SupSeg s => tl_of eps [s] | SupTl l => tl_of eps l end in
          if list_eqb seqb obs (win_call eps w segs al) then 0%nat else 1%nat
      end
  | KWinF dur step start wend items len closest r2s =>
      if (0 <? dur) && (0 <? step) then
        let base := Z.abs start + dur + step in
        let ok :=
          forallb (fun kv =>
                     let i := fst kv in
                     let s_i := start + i * step in
                     let slack := base + Z.abs i * step + match wend with Some e => Z.abs e | None => 0 end in
                     match snd kv with
                     | Some o => closeb (st o) s_i slack && closeb (en o) (s_i + dur) slack
                                 && match wend with Some e => s_i * 2 ^ 44 <? e * 2 ^ 44 + slack | None => true end
                     | None => match wend with Some e => e * 2 ^ 44 <=? s_i * 2 ^ 44 + slack | None => false end
                     end) items
          && match len, wend with
             | Some n, Some e => tol_ok cdiv (e - start) step (base + Z.abs e) n
             | None, None => true
             | _, _ => false
             end
          && forallb (fun kv => let t := fst kv in
                                tol_ok rhe (2 * (t - start) - dur) (2 * step) (2 * (base + Z.abs t)) (snd kv)) closest
          && forallb (fun kv => let '(i0, n) := fst kv in
                                let o := snd kv in
                                let slack := 2 * (base + (Z.abs i0 + Z.abs n + 1) * step) in
                                let s2 := 2 * start + (2 * i0 - 1) * step + dur in      (* doubled exact start *)
                                closeb (2 * st o) (if i0 =? 0 then 2 * start else s2) slack
                                && closeb (2 * en o) (s2 + 2 * n * step) slack) r2s in
        if ok then 0%nat else 1%nat
      else 1%nat
  end.
