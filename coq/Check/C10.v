(* Correspondence checker for C10 (timeline part): segmentation, get_overlap. *)
From PV Require Import Model.Timeline.
Record case := K { c_eps : Z; c_t : list seg; o_segmentation : list seg; o_overlap : list seg }.
Definition check (c : case) : nat :=
  let eps := c_eps c in
  let t := tl_of eps (c_t c) in
  if list_eqb seqb (o_segmentation c) (segmentation eps t)
     && list_eqb seqb (o_overlap c) (get_overlap eps t)
  then 0%nat else 1%nat.
