(* Correspondence checker for C10: segmentation, Timeline.get_overlap, Annotation.get_overlap. *)
From PV Require Import Check.AnnCommon.
Inductive case :=
| K (c_eps : Z) (c_t : list seg) (o_segmentation : list seg) (o_overlap : list seg)
| KAnn (eps : Z) (recs : list triple) (labs : option (list name)) (o_overlap : list seg).
Definition check (c : case) : nat :=
  match c with
  | K eps segs oseg oov =>
      let t := tl_of eps segs in
      if list_eqb seqb oseg (segmentation eps t) && list_eqb seqb oov (get_overlap eps t) then 0%nat else 1%nat
  | KAnn eps recs labs oov =>
      let a := ann_of eps None None recs in
      if list_eqb seqb oov (get_overlap_ann eps a labs) then 0%nat else 1%nat
  end.
