(* Correspondence checker for C05: co_iter, crop in three modes, mapping. *)
From PV Require Import Model.Timeline.
Definition pairs := list (seg * seg).
Record case := K { c_eps : Z; c_t : list seg; c_other : list seg; c_sup : sup;
                   o_coiter : pairs;
                   o_loose : list seg; o_strict : list seg; o_inter : list seg;
                   o_loose_iter : list seg; o_strict_iter : list seg; o_inter_iter : list seg;
                   o_map_tl : list seg; o_mapping : list (seg * list seg) }.
Definition ppeqb := pair_eqb seqb seqb.

Fixpoint dict_sorted_insert (kv : seg * list seg) (d : list (seg * list seg)) :=
  match d with
  | [] => [kv]
  | kv' :: r => if sltb (fst kv) (fst kv') then kv :: d else kv' :: dict_sorted_insert kv r
  end.
Definition canon_mapping (d : list (seg * list seg)) : list (seg * list seg) :=
  fold_left (fun acc kv => dict_sorted_insert (fst kv, sl_of (snd kv)) acc) d [].

Definition check (c : case) : nat :=
  let eps := c_eps c in
  let t := tl_of eps (c_t c) in
  let o := tl_of eps (c_other c) in
  let s := match c_sup c with SupSeg x => SupSeg x | SupTl l => SupTl (tl_of eps l) end in
  let spec_ok :=
    list_eqb ppeqb (o_coiter c) (co_iter eps t o)
    && list_eqb seqb (o_loose c) (crop eps t s Loose)
    && list_eqb seqb (o_strict c) (crop eps t s Strict)
    && list_eqb seqb (o_inter c) (crop eps t s Inter)
    && list_eqb seqb (o_map_tl c) (crop eps t s Inter)
    && list_eqb (pair_eqb seqb (list_eqb seqb)) (canon_mapping (o_mapping c))
                (canon_mapping (crop_mapping eps t s)) in
  let model_eq :=
    list_eqb seqb (o_loose_iter c) (map snd (crop_iter eps t s Loose))
    && list_eqb seqb (o_strict_iter c) (map snd (crop_iter eps t s Strict))
    && list_eqb seqb (o_inter_iter c) (map snd (crop_iter eps t s Inter))
    && list_eqb (pair_eqb seqb (list_eqb seqb)) (o_mapping c) (crop_mapping eps t s) in
  verdict spec_ok model_eq.
