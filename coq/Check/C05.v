(* Correspondence checker for C05: co_iter, crop in three modes, mapping. *)
From PV Require Import Check.AnnCommon.
Definition pairs := list (seg * seg).
Definition tpairs := list ((seg * name) * (seg * name)).
Inductive case :=
| K (c_eps : Z) (c_t : list seg) (c_other : list seg) (c_sup : sup)
    (o_coiter : pairs)
    (o_loose o_strict o_inter : list seg)
    (o_loose_iter o_strict_iter o_inter_iter : list seg)
    (o_map_tl : list seg) (o_mapping : list (seg * list seg))
| KAnnCo (eps : Z) (ra rb : list triple) (obs : tpairs).
Definition ppeqb := pair_eqb seqb seqb.

Fixpoint dict_sorted_insert (kv : seg * list seg) (d : list (seg * list seg)) :=
  match d with
  | [] => [kv]
  | kv' :: r => if sltb (fst kv) (fst kv') then kv :: d else kv' :: dict_sorted_insert kv r
  end.
Definition canon_mapping (d : list (seg * list seg)) : list (seg * list seg) :=
  fold_left (fun acc kv => dict_sorted_insert (fst kv, sl_of (snd kv)) acc) d [].

Definition tp_eqb := pair_eqb (pair_eqb seqb name_eqb) (pair_eqb seqb name_eqb).
Definition check (c : case) : nat :=
  match c with
  | KAnnCo eps ra rb obs =>
      let a := ann_of eps None None ra in
      let b := ann_of eps None None rb in
      if list_eqb tp_eqb obs (co_iter_ann eps a b) then 0%nat else 1%nat
  | K eps ct cother csup o_coiter o_loose o_strict o_inter o_loose_iter o_strict_iter o_inter_iter o_map_tl o_mapping =>
  let t := tl_of eps ct in
  let o := tl_of eps cother in
  let s := match csup with SupSeg x => SupSeg x | SupTl l => SupTl (tl_of eps l) end in
  let spec_ok :=
    list_eqb ppeqb o_coiter (co_iter eps t o)
    && list_eqb seqb o_loose (crop eps t s Loose)
    && list_eqb seqb o_strict (crop eps t s Strict)
    && list_eqb seqb o_inter (crop eps t s Inter)
    && list_eqb seqb o_map_tl (crop eps t s Inter)
    && list_eqb (pair_eqb seqb (list_eqb seqb)) (canon_mapping o_mapping)
                (canon_mapping (crop_mapping eps t s)) in
  let model_eq :=
    list_eqb seqb o_loose_iter (map snd (crop_iter eps t s Loose))
    && list_eqb seqb o_strict_iter (map snd (crop_iter eps t s Strict))
    && list_eqb seqb o_inter_iter (map snd (crop_iter eps t s Inter))
    && list_eqb (pair_eqb seqb (list_eqb seqb)) o_mapping (crop_mapping eps t s) in
  verdict spec_ok model_eq
  end.
