(* Correspondence checker for C15: SlidingWindow.crop. *)
From PV Require Import Model.Window.

Definition zz_eqb := pair_eqb Z.eqb Z.eqb.
Definition amodes := [ALoose; AStrict; ACenter].

(* per mode: (indices, ranges) *)
Record obs1 := O1 { o_idx : list Z; o_rng : list (Z * Z) }.
Inductive case :=
| KSeg (dur step start : Z) (focus : seg) (fixed : option Z) (obs : list obs1)     (* loose, strict, center *)
| KTl (eps dur step start : Z) (focus : list seg) (obs : list obs1).

(* the index set described by half-open runs (inverted runs are empty) *)
Definition runs_indices (rs : list (Z * Z)) : list Z := flat_map (fun r => zrange (fst r) (snd r)) rs.
Fixpoint strictly_increasing (l : list Z) : bool :=
  match l with a :: ((b :: _) as r) => (a <? b) && strictly_increasing r | _ => true end.

Definition check (c : case) : nat :=
  match c with
  | KSeg dur step start focus fixed obs =>
      match win_make dur step start None with
      | None => 1%nat
      | Some w =>
          let ok := forall2b (fun (o : obs1) (m : amode) =>
                       let r := crop_range w focus m fixed in
                       list_eqb Z.eqb (o_idx o) (zrange (fst r) (snd r))
                       && list_eqb zz_eqb (o_rng o) [r]) obs amodes in
          if ok then 0%nat else 1%nat
      end
  | KTl eps dur step start focus obs =>
      match win_make dur step start None with
      | None => 1%nat
      | Some w =>
          let f := tl_of eps focus in
          let spec_ok := forall2b (fun (o : obs1) (m : amode) =>
                       list_eqb Z.eqb (o_idx o) (crop_indices_tl eps w f m)
                       && strictly_increasing (o_idx o)
                       (* return_ranges describes the same index set *)
                       && list_eqb Z.eqb (fold_left (fun acc x => zinsert x acc) (runs_indices (o_rng o)) [])
                                         (crop_indices_tl eps w f m)) obs amodes in
          let model_eq := forall2b (fun (o : obs1) (m : amode) =>
                       list_eqb zz_eqb (o_rng o) (crop_ranges_tl eps w f m)) obs amodes in
          verdict spec_ok model_eq
      end
  end.
