(* Correspondence checker for C15: SlidingWindow.crop. *)
From PV Require Import Model.Window.

Definition zz_eqb := pair_eqb Z.eqb Z.eqb.
Definition amodes := [ALoose; AStrict; ACenter].

(* per mode: (indices, ranges) *)
Record obs1 := O1 { o_idx : list Z; o_rng : list (Z * Z) }.
Inductive case :=
| KSeg (dur step start : Z) (focus : seg) (fixed : option Z) (obs : list obs1)     (* loose, strict, center *)
| KTl (eps dur step start : Z) (focus : list seg) (obs : list obs1)
(* arbitrary binary64 inputs, given exactly as integers in units of 2^-130 s; obs = the range per mode *)
| KSegF (dur step start : Z) (focus : seg) (obs : list (Z * Z)).

(* tolerance tier. A bound is round(n / d) for a rounding r in {floor, ceil, half-even}. The float code
   computes n / d with an error of at most a few units in the last place of its OPERANDS (the
   subtractions may cancel), i.e. at most [slack] / (d * 2^40) for slack = sum of |operands| + d, which
   is 2^13 times the worst case: the observed bound must be the rounding of some quotient in
   [n/d - delta, n/d + delta]. Rounding being monotone, that is  r(lo) <= v <= r(hi). *)
Definition tol_ok (r : Z -> Z -> Z) (n d slack v : Z) : bool :=
  let D := d * 2 ^ 40 in
  (r (n * 2 ^ 40 - slack) D <=? v) && (v <=? r (n * 2 ^ 40 + slack) D).
Definition rangeF_ok (dur step start : Z) (f : seg) (m : amode) (o : Z * Z) : bool :=
  let slack := Z.abs (st f) + Z.abs (en f) + Z.abs dur + Z.abs start + step in
  match m with
  | ALoose => tol_ok cdiv (st f - dur - start) step slack (fst o)
              && tol_ok fdiv (en f - start) step slack (snd o - 1)
  | AStrict => tol_ok cdiv (st f - start) step slack (fst o)
               && tol_ok fdiv (en f - dur - start) step slack (snd o - 1)
  | ACenter => tol_ok rhe (2 * (st f - start) - dur) (2 * step) (2 * slack) (fst o)
               && tol_ok rhe (2 * (en f - start) - dur) (2 * step) (2 * slack) (snd o - 1)
  end.

(* the index set described by half-open runs (inverted runs are empty) *)
Definition runs_indices (rs : list (Z * Z)) : list Z := flat_map (fun r => zrange (fst r) (snd r)) rs.
Fixpoint strictly_increasing (l : list Z) : bool :=
  match l with a :: ((b :: _) as r) => (a <? b) && strictly_increasing r | _ => true end.

Definition check (c : case) : nat :=
  match c with
  | KSeg dur step start focus fixed obs =>
      match win_make dur step start None with
      | None => 1%nat
      | Some w =>
          let ok := forall2b (fun (o : obs1) (m : amode) =>
                       let r := crop_range w focus m fixed in
                       list_eqb Z.eqb (o_idx o) (zrange (fst r) (snd r))
                       && list_eqb zz_eqb (o_rng o) [r]) obs amodes in
          if ok then 0%nat else 1%nat
      end
  | KTl eps dur step start focus obs =>
      match win_make dur step start None with
      | None => 1%nat
      | Some w =>
          let f := tl_of eps focus in
          let spec_ok := forall2b (fun (o : obs1) (m : amode) =>
                       list_eqb Z.eqb (o_idx o) (crop_indices_tl eps w f m)
                       && strictly_increasing (o_idx o)
                       (* return_ranges describes the same index set *)
                       && list_eqb Z.eqb (fold_left (fun acc x => zinsert x acc) (runs_indices (o_rng o)) [])
                                         (crop_indices_tl eps w f m)) obs amodes in
          let model_eq := forall2b (fun (o : obs1) (m : amode) =>
                       list_eqb zz_eqb (o_rng o) (crop_ranges_tl eps w f m)) obs amodes in
          verdict spec_ok model_eq
      end
  | KSegF dur step start focus obs =>
      if (0 <? dur) && (0 <? step) && forall2b (fun o m => rangeF_ok dur step start focus m o) obs amodes
      then 0%nat else 1%nat
  end.
