(* Correspondence checker for C17: discretize, one_hot_encoding, one_hot_decoding. *)
From PV Require Import Check.AnnCommon Model.Discretize.

Definition mat_eqb := list_eqb (list_eqb Z.eqb).
Record odisc := OD { o_n : Z; o_labels : list name; o_cols : list (list Z); o_wstart : Z; o_wdur : Z; o_wstep : Z }.

Inductive case :=
| KDisc (eps : Z) (recs : list triple) (support : option seg) (rdur rstep : Z)
        (labs : option (list name)) (duration : option Z) (obs : option odisc)
| KOneHot (eps : Z) (recs : list triple) (support : sup) (wdur wstep : Z) (labs : option (list name))
          (obs : option odisc) (decoded : list (Z * list seg))
(* decimal (non-dyadic) resolutions, outside the exact tier of the model: the driver evaluates the clauses of the property
   literally with exact rational arithmetic (frame count, window start, centre rule with its one-step margin) and
   reports whether they hold *)
| KDriver (nframes : Z) (ok : bool).

(* the centre rule: value forced to 1 / 0 when the frame centre is at least one step
   inside / outside the label's support *)
Definition centre_rule (w : win) (step : Z) (supp : list seg) (f v : Z) : bool :=
  let c2 := centre2 w f in
  let inside := existsb (fun r => (2 * (st r + step) <=? c2) && (c2 <=? 2 * (en r - step))) supp in
  let outside := forallb (fun r => (c2 <=? 2 * (st r - step)) || (2 * (en r + step) <=? c2)) supp in
  (if inside then v =? 1 else true) && (if outside then v <=? 0 else true).

Definition disc_eq (o : odisc) (d : disc) : bool :=
  (o_n o =? d_frames d) && names_eqb (o_labels o) (d_labels d) && mat_eqb (o_cols o) (d_cols d)
  && (o_wstart o =? w_start (d_win d)) && (o_wdur o =? w_dur (d_win d)) && (o_wstep o =? w_step (d_win d)).

Definition check (c : case) : nat :=
  match c with
  | KDisc eps recs sarg rdur rstep labs duration obs =>
      let a := ann_of eps None None recs in
      let sup := match sarg with Some s => s | None => extent_l (tl_of eps (map fst (a_tracks a))) end in
      match obs, discretize eps a sarg rdur rstep labs duration with
      | None, None => 0%nat
      | Some o, Some d =>
          let cropped := crop_ann eps a (SupSeg sup) Inter in
          let '(c1, clabs) := labels eps cropped in
          let w := d_win d in
          let spec_ok :=
            names_eqb (o_labels o) (match labs with Some l => l | None => clabs end)
            && (o_wstart o =? st sup) && (o_wdur o =? rdur) && (o_wstep o =? rstep)
            && match duration with
               | Some dd => o_n o =? rhe dd rstep
               | None => Z.abs (o_n o * rstep - (en sup - st sup)) <=? rstep
               end
            && forall2b (fun l col =>
                           (Z.of_nat (length col) =? o_n o)
                           && let supp := support eps 0 (c_segs (snd (label_timeline eps c1 l))) in
                              forallb (fun fv => centre_rule w rstep supp (fst fv) (snd fv)
                                                 && ((snd fv =? 0) || (snd fv =? 1)))
                                      (combine (zrange 0 (o_n o)) col))
                        (o_labels o) (o_cols o) in
          verdict spec_ok (disc_eq o d)
      | _, _ => 1%nat
      end
  | KOneHot eps recs sarg wdur wstep labs obs decoded =>
      let a := ann_of eps None None recs in
      match obs, one_hot_encoding eps a sarg wdur wstep labs with
      | None, None => 0%nat
      | Some o, Some d =>
          let w := d_win d in
          let sup_l := match sarg with SupSeg s => tl_of eps [s] | SupTl l => l end in
          let ssup := support eps 0 sup_l in
          let '(a1, alabs) := labels eps a in
          let enc_ok :=
            forall2b (fun l col =>
                        let supp := support eps 0 (c_segs (snd (label_timeline eps a1 l))) in
                        forallb (fun fv =>
                                   let c2 := centre2 w (fst fv) in
                                   let out_sup := forallb (fun r => (c2 <=? 2 * (st r - wstep)) || (2 * (en r + wstep) <=? c2)) ssup in
                                   let in_sup := existsb (fun r => (2 * (st r + wstep) <=? c2) && (c2 <=? 2 * (en r - wstep))) ssup in
                                   (if out_sup then snd fv =? -1 else true)
                                   && (if in_sup then centre_rule w wstep supp (fst fv) (snd fv) && (0 <=? snd fv) else true))
                                (combine (zrange 0 (o_n o)) col))
                     (o_labels o) (o_cols o) in
          let model_dec := one_hot_decoding2 w (d_cols d) in
          let dec_model_eq := list_eqb (pair_eqb Z.eqb (list_eqb seqb)) decoded model_dec in
          (* decoding restores every boundary of every label's support within one step
             (doubled ticks: 2*step), when run for run corresponds to segment for segment *)
          let dec_spec :=
            forall2b (fun l kd =>
                        let supp := support eps 0 (c_segs (snd (label_timeline eps a1 l))) in
                        forall2b (fun r (dseg : seg) =>
                                    (Z.abs (2 * st r - st dseg) <=? 2 * wstep) && (Z.abs (2 * en r - en dseg) <=? 2 * wstep))
                                 supp (snd kd))
                     (o_labels o) decoded in
          if negb (disc_eq o d) then (if enc_ok then 2%nat else 1%nat)
          else if negb enc_ok then 1%nat
          else if dec_spec then (if dec_model_eq then 0%nat else 2%nat)
          else if dec_model_eq then 5%nat      (* exactly the characterised behaviour of finding F7 *)
          else 1%nat
      | _, _ => 1%nat
      end
  | KDriver _ ok => if ok then 0%nat else 1%nat
  end.
