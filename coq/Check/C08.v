(* Correspondence checker for C08: derive-then-mutate histories. The value model says
   "the untouched side is unchanged" and "a read changes nothing observable"; the
   checker compares full observable snapshots taken from the implementation. *)
From PV Require Import Check.AnnCommon.

(* a full observable snapshot of an Annotation or a Timeline *)
Record snap := SN { s_recs : list triple; s_labels : list name; s_uri : uri_t; s_mod : uri_t;
                    s_timeline : list seg; s_label_tls : list (list seg); s_extent : seg }.
Definition snap_eqb (a b : snap) : bool :=
  triples_eqb (s_recs a) (s_recs b) && names_eqb (s_labels a) (s_labels b)
  && uri_eqb (s_uri a) (s_uri b) && uri_eqb (s_mod a) (s_mod b)
  && list_eqb seqb (s_timeline a) (s_timeline b)
  && list_eqb (list_eqb seqb) (s_label_tls a) (s_label_tls b) && seqb (s_extent a) (s_extent b).

Inductive case :=
| KPure (src_before src_after : snap) (args_before args_after : list snap)
| KIndep (untouched_before untouched_after : snap)
         (src_before_derive src_after_derive : snap)
         (shared : Z)          (* mutable containers reachable from both sides / from a side and an argument *)
         (same_cells : bool).  (* the untouched side owns the same containers after the mutations *)

Definition check (c : case) : nat :=
  match c with
  | KPure b a ab aa => if snap_eqb b a && list_eqb snap_eqb ab aa then 0%nat else 1%nat
  | KIndep b a sb sa sh same =>
      (* the observable statement of the property first; then the premises of the frame theorem
         (Proofs/HeapFrameP.v): separation and unchanged ownership (verdict 2: not fixed by the
         property itself, but the proof of independence for all histories rests on them) *)
      verdict (snap_eqb b a && snap_eqb sb sa) ((sh =? 0) && same)
  end.
