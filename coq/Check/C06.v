(* Correspondence checker for C06: gaps, extrude (three modes), covers. *)
From PV Require Import Model.Timeline.
Record case := K { c_eps : Z; c_t : list seg; c_sup : option sup; c_removed : sup; c_other : list seg;
                   o_gaps : list seg; o_gaps_iter : list seg;
                   o_ex_loose : list seg; o_ex_strict : list seg; o_ex_inter : list seg;
                   o_covers : bool; o_covers_rev : bool }.
Definition norm (eps : Z) (s : sup) : sup :=
  match s with SupSeg x => SupSeg x | SupTl l => SupTl (tl_of eps l) end.
Definition check (c : case) : nat :=
  let eps := c_eps c in
  let t := tl_of eps (c_t c) in
  let o := tl_of eps (c_other c) in
  let s := option_map (norm eps) (c_sup c) in
  let r := norm eps (c_removed c) in
  let spec_ok :=
    list_eqb seqb (o_gaps c) (gaps eps t s)
    && list_eqb seqb (o_ex_loose c) (extrude eps t r Loose)
    && list_eqb seqb (o_ex_strict c) (extrude eps t r Strict)
    && list_eqb seqb (o_ex_inter c) (extrude eps t r Inter)
    && Bool.eqb (o_covers c) (covers eps t o)
    && Bool.eqb (o_covers_rev c) (covers eps o t) in
  let model_eq := list_eqb seqb (o_gaps_iter c) (gaps_iter eps t s) in
  verdict spec_ok model_eq.
