(* Correspondence checker for C12: equality, round trips, text forms. *)
From PV Require Import Check.AnnCommon Model.Text.

Definition olines := option (list string).
Definition olines_eqb := option_eqb (list_eqb String.eqb).

Record case := K { c_eps : Z; c_scale : Z;
                   c_a : list triple; c_ua : uri_t; c_b : list triple; c_ub : uri_t;
                   o_eq : bool; o_ne : bool; o_eq_self_copy : bool;
                   o_rt_records : bool; o_rt_df : bool; o_rt_timeline : bool;
                   o_tl_eq : bool; o_tl_ne : bool;
                   o_rttm : olines; o_lab : olines; o_uem : olines;
                   o_strs : list string;
                   o_strs_ms : list (option (Z * Z)) }.   (* the printed form of each segment parsed back, in ms *)

Definition check (c : case) : nat :=
  let eps := c_eps c in
  let a := ann_of eps (c_ua c) None (c_a c) in
  let b := ann_of eps (c_ub c) (Some "m"%string) (c_b c) in
  let ta := tl_of eps (map fst (a_tracks a)) in
  let tb := tl_of eps (map fst (a_tracks b)) in
  let spec_ok :=
    Bool.eqb (o_eq c) (ann_eq a b) && Bool.eqb (o_ne c) (ann_ne a b)
    && o_eq_self_copy c && o_rt_records c && o_rt_df c && o_rt_timeline c
    && Bool.eqb (o_tl_eq c) (list_eqb seqb ta tb) && Bool.eqb (o_tl_ne c) (negb (list_eqb seqb ta tb))
    && olines_eqb (o_rttm c) (rttm_lines eps (c_scale c) a)
    && olines_eqb (o_lab c) (lab_lines eps (c_scale c) a)
    && olines_eqb (o_uem c) (uem_lines (c_scale c) (c_ua c) ta)
    (* the printed form of a non-empty segment parses back to within one millisecond of both bounds *)
    && forall2b (fun (x : triple) (p : option (Z * Z)) =>
                   let s := fst (fst x) in
                   if nonempty eps s then
                     match p with
                     | Some (a_ms, b_ms) => (Z.abs (a_ms * c_scale c - st s * 1000) <=? c_scale c)
                                            && (Z.abs (b_ms * c_scale c - en s * 1000) <=? c_scale c)
                     | None => false
                     end
                   else true) (c_a c) (o_strs_ms c) in
  let model_eq := list_eqb String.eqb (o_strs c) (map (seg_str eps (c_scale c)) (map (fun x : triple => fst (fst x)) (c_a c))) in
  verdict spec_ok model_eq.
