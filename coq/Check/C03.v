(* Correspondence checker for C03: one case = a triple of segments, the
   precision in ticks, and everything the implementation returned. *)
From PV Require Import Model.Segment.
From Coq Require Import String.

Record case := K {
  c_eps : Z; c_a : seg; c_b : seg; c_c : seg;
  o_boola : bool; o_dura : Z; o_mid2a : Z;
  o_and : seg; o_or : seg; o_xor : option seg;
  o_inter : bool; o_inter_ba : bool; o_in : bool; o_eq : bool; o_lt : bool; o_hasheq : bool;
  o_ov1 : bool; o_ov2 : bool; o_ovq : list (Z * bool);   (* overlaps(q / 4) for quarter ticks q *)
  o_and_l : seg; o_and_r : seg; o_or_l : seg; o_or_r : seg;
  o_sorted : list seg }.

Definition oseqb := option_eqb seqb.

(* what C03 fixes about [a & b]: equal to the intersection when that is
   non-empty, some empty segment otherwise *)
Definition and_spec eps (a b obs : seg) : bool :=
  if nonempty eps (sand a b) then seqb obs (sand a b) else negb (nonempty eps obs).

(* what C03 fixes about [a ^ b]: error iff an operand is empty; the gap when
   the operands are disjoint; some empty segment when they overlap *)
Definition xor_spec eps (a b : seg) (obs : option seg) : bool :=
  match sxor eps a b, obs with
  | None, None => true
  | Some g, Some o => if nonempty eps g then seqb o g else negb (nonempty eps o)
  | _, _ => false
  end.

Definition sort3 (a b c : seg) : list seg :=
  let ins x l := (fix ins l := match l with
                               | [] => [x]
                               | y :: r => if sltb x y then x :: y :: r else y :: ins r
                               end) l in
  ins a (ins b (ins c [])).

Definition check (c : case) : nat :=
  let eps := c_eps c in let a := c_a c in let b := c_b c in let cc := c_c c in
  let spec_ok :=
    Bool.eqb (o_boola c) (nonempty eps a)
    && (o_dura c =? duration eps a)
    && and_spec eps a b (o_and c)
    && seqb (o_or c) (sor eps a b)
    && xor_spec eps a b (o_xor c)
    && Bool.eqb (o_inter c) (o_inter_ba c)
    && (if nonempty eps a && nonempty eps b then Bool.eqb (o_inter c) (intersects eps a b) else true)
    && (if (st a <=? en a) && (st b <=? en b) then Bool.eqb (o_in c) (sin b a) else true)
    (* inverted operands: "closed-interval inclusion" can be read on the bounds (as coded) or on the
       point sets (an inverted segment is the empty set); wherever the two readings agree the
       answer is fixed *)
    && (let set_reading := if en a <? st a then true else (st b <=? st a) && (en a <=? en b) in
        if Bool.eqb set_reading (sin b a) then Bool.eqb (o_in c) (sin b a) else true)
    && Bool.eqb (o_eq c) (seqb a b)
    && Bool.eqb (o_lt c) (sltb a b)
    && (if seqb a b then o_hasheq c else true)
    && Bool.eqb (o_ov1 c) (overlaps a (st b))
    && Bool.eqb (o_ov2 c) (overlaps a (en b))
    && forallb (fun qv => Bool.eqb (snd qv) ((4 * st a <=? fst qv) && (4 * en a >=? fst qv))) (o_ovq c)
    && and_spec eps (sand a b) cc (o_and_l c)
    && and_spec eps a (sand b cc) (o_and_r c)
    && seqb (o_or_l c) (sor eps (sor eps a b) cc)
    && seqb (o_or_r c) (sor eps a (sor eps b cc))
    && list_eqb seqb (o_sorted c) (sort3 a b cc) in
  let model_eq :=
    (o_mid2a c =? middle2 a)
    && Bool.eqb (o_inter c) (intersects eps a b)
    && Bool.eqb (o_in c) (sin b a)
    && seqb (o_and c) (sand a b)
    && oseqb (o_xor c) (sxor eps a b)
    && seqb (o_and_l c) (sand (sand a b) cc)
    && seqb (o_and_r c) (sand a (sand b cc)) in
  verdict spec_ok model_eq.
