(* Correspondence checker for C07: Annotation.crop / extrude. *)
From PV Require Import Check.AnnCommon.

Record case := K { c_eps : Z; c_recs : list triple; c_uri : uri_t; c_mod : uri_t; c_sup : sup;
                   o_loose : oann; o_strict : oann; o_inter : oann;
                   o_xloose : oann; o_xstrict : oann; o_xinter : oann }.

(* the (piece, original track, label) requests of intersection mode, before naming *)
Definition inter_requests (eps : Z) (a : ann) (s : sup) : list triple :=
  let regions := norm_support eps s in
  let tline := tl_of eps (map fst (a_tracks a)) in
  flat_map (fun p => map (fun tl_ => (sand (fst p) (snd p), fst tl_, snd tl_))
                         (match sd_get (fst p) (a_tracks a) with Some d => d | None => [] end))
           (co_iter eps tline regions).

(* what C07 fixes about intersection mode, independently of the order in which colliding
   tracks are processed: same (piece, label) multiset (nothing lost, duplicated or
   relabelled), distinct track names per piece (nothing overwritten), and every requested
   original name is in use on its piece (a name that was free is kept; names never disappear) *)
Definition inter_spec (eps : Z) (req : list triple) (obs : list triple) : bool :=
  let req' := filter (fun x : triple => nonempty eps (fst (fst x))) req in
  list_eqb sl_eqb (seg_labels obs) (seg_labels req')
  && nodup_keys (map (fun x : triple => (fst (fst x), snd (fst x))) obs)
  && forallb (fun r : triple => existsb (fun o : triple => seqb (fst (fst o)) (fst (fst r))
                                                      && name_eqb (snd (fst o)) (snd (fst r))) obs) req'.

Definition truncating (eps : Z) (a : ann) (removed : sup) : sup :=
  let removed_l := match removed with SupSeg x => tl_of eps [x] | SupTl l => l end in
  let tline := tl_of eps (map fst (a_tracks a)) in
  SupTl (gaps eps removed_l (Some (SupTl (tl_of eps [extent_l tline])))).

Definition norm (eps : Z) (s : sup) : sup :=
  match s with SupSeg x => SupSeg x | SupTl l => SupTl (tl_of eps l) end.

Definition check (c : case) : nat :=
  let eps := c_eps c in
  let a := ann_of eps (c_uri c) (c_mod c) (c_recs c) in
  let s := norm eps (c_sup c) in
  let spec_ok :=
    oann_exact (o_loose c) (crop_ann eps a s Loose)
    && oann_exact (o_strict c) (crop_ann eps a s Strict)
    && inter_spec eps (inter_requests eps a s) (o_recs (o_inter c)) && oann_meta (o_inter c) a
    && oann_exact (o_xloose c) (extrude_ann eps a s Loose)
    && oann_exact (o_xstrict c) (extrude_ann eps a s Strict)
    && inter_spec eps (inter_requests eps a (truncating eps a s)) (o_recs (o_xinter c)) && oann_meta (o_xinter c) a in
  let model_eq :=
    oann_exact (o_inter c) (crop_ann eps a s Inter)
    && oann_exact (o_xinter c) (extrude_ann eps a s Inter) in
  verdict spec_ok model_eq.
