(* Shared helpers for annotation checkers. *)
From PV Require Export Model.AnnotationOps.

Definition uri_eqb := option_eqb String.eqb.
Definition triples_eqb := list_eqb triple_eqb.
Definition names_eqb := list_eqb name_eqb.

(* canonical ordering of records, to compare as multisets *)
Definition triple_leb (x y : triple) : bool :=
  let '(s, t, l) := x in let '(s', t', l') := y in
  sltb s s' || (seqb s s' && (name_ltb t t' || (name_eqb t t' && negb (name_ltb l' l)))).
Definition sort_triples (l : list triple) : list triple := sort_stable triple_leb l.
Definition sl_leb (x y : seg * name) : bool :=
  sltb (fst x) (fst y) || (seqb (fst x) (fst y) && negb (name_ltb (snd y) (snd x))).
Definition sort_sl (l : list (seg * name)) : list (seg * name) := sort_stable sl_leb l.
Definition sl_eqb := pair_eqb seqb name_eqb.
Definition seg_labels (l : list triple) : list (seg * name) := sort_sl (map (fun x => (fst (fst x), snd x)) l).

(* observed annotation: records from itertracks, uri, modality *)
Record oann := OA { o_recs : list triple; o_uri : uri_t; o_mod : uri_t }.
Definition oann_exact (o : oann) (a : ann) : bool :=
  triples_eqb (o_recs o) (itertracks a) && uri_eqb (o_uri o) (a_uri a) && uri_eqb (o_mod o) (a_modality a).
Definition oann_meta (o : oann) (a : ann) : bool :=
  uri_eqb (o_uri o) (a_uri a) && uri_eqb (o_mod o) (a_modality a).
Fixpoint nodup_keys (l : list (seg * name)) : bool :=
  match l with
  | [] => true
  | x :: r => negb (existsb (sl_eqb x) r) && nodup_keys r
  end.
