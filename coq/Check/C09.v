(* Correspondence checker for C09: support, durations, chart, argmax, co-occurrence. *)
From PV Require Import Check.AnnCommon.

Record case := K { c_eps : Z; c_a : list triple; c_b : list triple; c_collar : Z; c_sup : option sup;
                   o_support : oann; o_durs : list (name * Z); o_chart : list (name * Z);
                   o_argmax : option name; o_argmax_sup : option name;
                   o_mul : list (list Z); o_mul_rev : list (list Z);
                   o_labels_a : list name; o_labels_b : list name;
                   o_pct : option (list (name * (Z * Z))) }.

Definition nz_eqb := pair_eqb name_eqb Z.eqb.
Fixpoint ins_nz (kv : name * Z) (l : list (name * Z)) : list (name * Z) :=
  match l with [] => [kv] | y :: r => if name_ltb (fst kv) (fst y) then kv :: y :: r else y :: ins_nz kv r end.
Definition canon_nz (l : list (name * Z)) := fold_left (fun acc x => ins_nz x acc) l [].
Fixpoint nonincreasing (l : list (name * Z)) : bool :=
  match l with
  | a :: ((b :: _) as r) => (snd b <=? snd a) && nonincreasing r
  | _ => true
  end.
Fixpoint transpose (rows : list (list Z)) (ncols : nat) : list (list Z) :=
  match ncols with
  | O => []
  | S n => map (fun r => hd 0 r) rows :: transpose (map (fun r => tl r) rows) n
  end.
Definition mat_eqb := list_eqb (list_eqb Z.eqb).
Definition norm (eps : Z) (s : sup) : sup :=
  match s with SupSeg x => SupSeg x | SupTl l => SupTl (tl_of eps l) end.

Definition argmax_spec (eps : Z) (a : ann) (s : option sup) (obs : option name) : bool :=
  let c := match s with Some s' => crop_ann eps a s' Inter | None => a end in
  match obs with
  | None => negb (a_bool c)
  | Some l =>
      a_bool c &&
      let '(c1, labs) := labels eps c in
      let d := snd (label_duration eps c1 l) in
      name_in l labs && forallb (fun l' => snd (label_duration eps c1 l') <=? d) labs
  end.

(* chart(percent=True): the observed doubles (given exactly as numerator / denominator) against duration / total of the model *)
Definition pct_close (obs m : name * (Z * Z)) : bool :=
  let '(n, den) := snd obs in
  let '(d, T) := snd m in
  name_eqb (fst obs) (fst m) && (0 <? den) && (0 <? T) && (Z.abs (n * T - d * den) * 1099511627776 <=? den * T).
Definition pct_ok (eps : Z) (a : ann) (obs : option (list (name * (Z * Z)))) : bool :=
  match obs with
  | None => true
  | Some l => list_eqb pct_close l (snd (chart_percent eps a))
  end.

Definition check (c : case) : nat :=
  let eps := c_eps c in
  let a := ann_of eps None None (c_a c) in
  let b := ann_of eps None None (c_b c) in
  let s := option_map (norm eps) (c_sup c) in
  let sup_model := support_ann eps a (c_collar c) in
  let '(a1, labs) := labels eps a in
  let durs := map (fun l => (l, snd (label_duration eps a1 l))) labs in
  let ch := snd (chart eps a) in
  let spec_ok :=
    list_eqb sl_eqb (seg_labels (o_recs (o_support c))) (seg_labels (itertracks sup_model))
    && nodup_keys (map (fun x : triple => (fst (fst x), snd (fst x))) (o_recs (o_support c)))
    && oann_meta (o_support c) a
    && list_eqb nz_eqb (o_durs c) durs
    && list_eqb nz_eqb (canon_nz (o_chart c)) (canon_nz durs) && nonincreasing (o_chart c)
    && argmax_spec eps a None (o_argmax c) && argmax_spec eps a s (o_argmax_sup c)
    && names_eqb (o_labels_a c) labs && names_eqb (o_labels_b c) (snd (labels eps b))
    && mat_eqb (o_mul c) (mul_ann eps a b)
    && mat_eqb (o_mul_rev c) (mul_ann eps b a)
    && pct_ok eps a (o_pct c) in
  let model_eq :=
    oann_exact (o_support c) sup_model
    && list_eqb nz_eqb (o_chart c) ch
    && option_eqb name_eqb (o_argmax c) (argmax_ann eps a None)
    && option_eqb name_eqb (o_argmax_sup c) (argmax_ann eps a s) in
  verdict spec_ok model_eq.
