(* Correspondence checker for C04: support(collar) and duration(). *)
From PV Require Import Model.Timeline.
Record case := K { c_eps : Z; c_segs : list seg; c_collar : Z;
                   o_iter : list seg; o_support : list seg; o_support_iter : list seg;
                   o_duration : Z; o_twice : list seg }.
Definition check (c : case) : nat :=
  let eps := c_eps c in
  let t := tl_of eps (c_segs c) in
  let spec_ok :=
    list_eqb seqb (o_iter c) t
    && list_eqb seqb (o_support c) (support eps (c_collar c) t)
    && (o_duration c =? tl_duration eps t)
    && list_eqb seqb (o_twice c) (support eps (c_collar c) (support eps (c_collar c) t)) in
  let model_eq := list_eqb seqb (o_support_iter c) (support_iter eps (c_collar c) t) in
  verdict spec_ok model_eq.
