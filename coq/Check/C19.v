(* Correspondence checker for C19: generators, new_track, to_annotation, random samplers. *)
From PV Require Import Check.AnnCommon.

(* random_subsegment in "microticks" (ticks * 2^20); u = k / 1024 *)
Definition subseg (s : seg) (dur : Z) (min_dur : option Z) (k1 k2 : Z) (eps : Z) : option seg :=
  let F := 1048576 in
  let sd := duration eps s in
  match min_dur with
  | None => if dur >? sd then None
            else let t := st s * F + k1 * (sd - dur) * 1024 in Some (t, t + dur * F)
  | Some md =>
      if md >? sd then None else   (* after the repair of F10 *)
      let mx := Z.min sd dur in
      let rnd := md * F + k1 * (mx - md) * 1024 in
      let t := st s * F + k2 * ((sd * F - rnd) / 1024) in
      Some (t, t + rnd)
  end.

Inductive case :=
| KStr (n : nat) (skip : list string) (obs : list string)
| KInt (n : nat) (obs : list Z)
| KPair (l : list Z) (obs : list (Z * Z))
| KNewTrack (eps : Z) (recs : list triple) (s : seg) (cand : option name) (prefix : option string) (obs : name)
| KToAnn (eps : Z) (segs : list seg) (g : gen) (obs : option (list triple))   (* None: the call raised *)
| KSubsegExcess (s : seg) (excess : Z) (refused : bool)   (* duration = segment duration + excess * 2^-30 s *)
| KSubseg (eps : Z) (s : seg) (dur : Z) (min_dur : option Z) (k1 k2 : Z) (obs : option seg)
| KRandSeg (eps : Z) (segs : list seg) (obs : list seg).

Definition zz_eqb := pair_eqb Z.eqb Z.eqb.

Definition check (c : case) : nat :=
  match c with
  | KStr n skip obs => if list_eqb String.eqb obs (strgen_take n skip) then 0%nat else 1%nat
  | KInt n obs => if list_eqb Z.eqb obs (intgen_take n) then 0%nat else 1%nat
  | KPair l obs => if list_eqb zz_eqb obs (pairwise l) then 0%nat else 1%nat
  | KNewTrack eps recs s cand prefix obs =>
      let a := ann_of eps None None recs in
      let m := new_track a s cand prefix in
      (* property: the candidate when free, else a name not in use (prefix + least free integer) *)
      let free := negb (name_in obs (get_tracks a s)) in
      let spec := match cand with
                  | Some cnd => if negb (name_in cnd (get_tracks a s)) then name_eqb obs cnd else free && name_eqb obs m
                  | None => free && name_eqb obs m
                  end in
      verdict spec (name_eqb obs m)
  | KToAnn eps segs g obs =>
      (* a generator that runs out of names before the segments do: the call is refused, never an incomplete annotation *)
      match to_annotation eps (tl_of eps segs) None None g, obs with
      | Some a, Some o => if triples_eqb o (itertracks a) then 0%nat else 1%nat
      | None, None => 0%nat
      | _, _ => 1%nat
      end
  | KSubsegExcess s excess refused =>
      (* a sub-segment of that duration cannot lie inside the segment: the call must be refused *)
      if (0 <? excess) && negb refused && (st s <? en s) then 1%nat else 0%nat
  | KSubseg eps s dur md k1 k2 obs =>
      let F := 1048576 in
      let m := subseg s dur md k1 k2 eps in
      let spec := match obs, m with
                  | None, None => true
                  | Some o, Some _ =>
                      negb (nonempty eps s) ||
                      (st s * F <=? st o) && (en o <=? en s * F)
                      && match md with
                         | None => en o - st o =? dur * F
                         | Some d => (d * F <=? en o - st o) && (en o - st o <=? dur * F)
                         end
                  | _, _ => false
                  end in
      verdict spec (option_eqb seqb obs m)
  | KRandSeg eps segs obs =>
      if forallb (fun o => existsb (seqb o) segs) obs then 0%nat else 1%nat
  end.
