(* Model of the text forms: f"{x:.3f}", RTTM / LAB / UEM lines, str(Segment).
   A time is n ticks of 1/scale seconds, scale a power of two (the value is an
   exact binary float, so Python's formatting rounds the exact quotient). *)
From PV Require Export Model.AnnotationOps Model.Rounding.

Definition pad (w : nat) (s : string) : string :=
  let fix zeros k := match k with O => EmptyString | S k' => String "0" (zeros k') end in
  String.append (zeros (w - String.length s)%nat) s.

(* f"{x:.3f}" for x = n / scale *)
Definition fmt3 (scale n : Z) : string :=
  let m := rhe (Z.abs n * 1000) scale in
  String.append (if n <? 0 then "-"%string else ""%string)
    (String.append (dec (m / 1000)) (String.append "." (pad 3 (dec (m mod 1000))))).

Fixpoint has_space (s : string) : bool :=
  match s with EmptyString => false | String c r => Ascii.eqb c " "%char || has_space r end.
Definition name_has_space (n : name) : bool := match n with NStr s => has_space s | NInt _ => false end.
Definition uri_text (u : uri_t) : string :=
  match u with Some EmptyString => "<NA>" | Some s => s | None => "<NA>" end.
Definition uri_has_space (u : uri_t) : bool := has_space (uri_text u).

Definition sp (a b : string) : string := String.append a (String.append " " b).
Fixpoint join_sp (l : list string) : string :=
  match l with [] => EmptyString | [x] => x | x :: r => sp x (join_sp r) end.

Section Text.
Variables (eps scale : Z).
(* lines without the trailing newline; None = ValueError *)
Definition rttm_lines (a : ann) : option (list string) :=
  if uri_has_space (a_uri a) || existsb (fun x : triple => name_has_space (snd x)) (itertracks a) then None
  else Some (map (fun x : triple =>
                    let s := fst (fst x) in
                    join_sp ["SPEAKER"; uri_text (a_uri a); "1"; fmt3 scale (st s); fmt3 scale (duration eps s);
                             "<NA>"; "<NA>"; str_of (snd x); "<NA>"; "<NA>"]%string) (itertracks a)).
Definition lab_lines (a : ann) : option (list string) :=
  if existsb (fun x : triple => name_has_space (snd x)) (itertracks a) then None
  else Some (map (fun x : triple =>
                    let s := fst (fst x) in
                    join_sp [fmt3 scale (st s); fmt3 scale (st s + duration eps s); str_of (snd x)]) (itertracks a)).
Definition uem_lines (u : uri_t) (t : list seg) : option (list string) :=
  if uri_has_space u then None
  else Some (map (fun s => join_sp [uri_text u; "1"%string; fmt3 scale (st s); fmt3 scale (en s)]) t).

(* Segment._str_helper: round to microseconds, split, truncate to milliseconds *)
Definition str_helper (n : Z) : string :=
  let us := rhe (Z.abs n * 1000000) scale in
  let secs := us / 1000000 in let micro := us mod 1000000 in
  let hours := secs / 3600 in let rem := secs mod 3600 in
  String.append (if n <? 0 then "-"%string else " "%string)
    (String.append (pad 2 (dec hours))
       (String.append ":" (String.append (pad 2 (dec (rem / 60)))
          (String.append ":" (String.append (pad 2 (dec (rem mod 60)))
             (String.append "." (pad 3 (dec (micro / 1000))))))))).
Definition seg_str (s : seg) : string :=
  if nonempty eps s then
    String.append "[" (String.append (str_helper (st s)) (String.append " --> " (String.append (str_helper (en s)) "]")))
  else "[]"%string.
(* the value the printed form denotes, in milliseconds *)
Definition str_helper_ms (n : Z) : Z :=
  let us := rhe (Z.abs n * 1000000) scale in (if n <? 0 then -1 else 1) * (us / 1000).
End Text.
