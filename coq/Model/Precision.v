(* Model of Segment.set_precision / __post_init__ (segment.py:130-175).
   Exact level: rounding of a rational num/den to a multiple of 10^-n.
   Float level: the same computation in binary64 with Coq's primitive floats,
   compared bit-for-bit with the implementation. Executable definitions only. *)
From PV Require Export Base.Prelude.
From Coq Require Import PrimFloat Uint63 FloatOps SpecFloat.

(* ---- exact level: the number of 10^-n units nearest to num/den (den > 0),
        i.e. floor(x * 10^n + 1/2), as the repaired code computes it ---- *)
Definition round_units (n : Z) (num den : Z) : Z := (2 * num * 10 ^ n + den) / (2 * den).
(* the pre-repair formula: int(x * 10^n + 1/2) truncates toward zero *)
Definition round_units_old (n : Z) (num den : Z) : Z :=
  let a := 2 * num * 10 ^ n + den in
  if a <? 0 then - ((- a) / (2 * den)) else a / (2 * den).

(* ---- float level ---- *)
Open Scope float_scope.
(* floor of a finite float, as an integer *)
Definition floorZ (x : float) : Z :=
  match Prim2SF x with
  | S754_finite s m e =>
      let v := if (0 <=? e)%Z then (Z.pos m * 2 ^ e)%Z else (Z.pos m / 2 ^ (- e))%Z in
      if s then (if (0 <=? e)%Z then (- v)%Z else (- ((Z.pos m + 2 ^ (- e) - 1) / 2 ^ (- e)))%Z) else v
  | _ => 0%Z
  end.
(* int -> float (exact below 2^53) *)
Definition of_Zf (z : Z) : float :=
  if (z <? 0)%Z then - (of_uint63 (Uint63.of_Z (- z))) else of_uint63 (Uint63.of_Z z).
(* math.floor(x / P + 0.5) * P *)
Definition roundF (P x : float) : float := of_Zf (floorZ (x / P + 0.5)) * P.

(* bit-for-bit equality (distinguishes -0.0 and +0.0) *)
Definition feqb (a b : float) : bool :=
  match Prim2SF a, Prim2SF b with
  | S754_zero s, S754_zero s' => Bool.eqb s s'
  | S754_infinity s, S754_infinity s' => Bool.eqb s s'
  | S754_nan, S754_nan => true
  | S754_finite s m e, S754_finite s' m' e' => Bool.eqb s s' && Pos.eqb m m' && Z.eqb e e'
  | _, _ => false
  end.
Close Scope float_scope.
