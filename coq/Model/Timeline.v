(* Model of pyannote/core/timeline.py.
   Part 1: the three containers of a Timeline object and its mutators/reads
           (timeline.py:142-378, 656-693, 734-797), as coded.
   Part 2: the derived operations on the chronologically sorted list of
           segments: support, duration, co_iter, crop, overlapping, gaps,
           extrude, covers, get_overlap, segmentation (timeline.py:380-1034).
   Executable definitions only. *)
From PV Require Export Model.Segment.

(* ------------------------------------------------------------------ *)
(* sortedcontainers.SortedList on segments and on boundaries           *)
(* ------------------------------------------------------------------ *)

(* SortedList.add: insert to the right of equal elements (bisect_right) *)
Fixpoint sl_add (x : seg) (l : list seg) : list seg :=
  match l with
  | [] => [x]
  | y :: r => if sltb x y then x :: y :: r else y :: sl_add x r
  end.

(* SortedList.remove: remove the first occurrence (ValueError if absent:
   the callers below only call it on members) *)
Fixpoint sl_remove (x : seg) (l : list seg) : list seg :=
  match l with
  | [] => []
  | y :: r => if seqb x y then r else y :: sl_remove x r
  end.

Fixpoint zl_add (x : Z) (l : list Z) : list Z :=
  match l with
  | [] => [x]
  | y :: r => if x <? y then x :: y :: r else y :: zl_add x r
  end.

Fixpoint zl_remove (x : Z) (l : list Z) : list Z :=
  match l with
  | [] => []
  | y :: r => if x =? y then r else y :: zl_remove x r
  end.

(* SortedList(iterable) *)
Definition sl_of (l : list seg) : list seg := fold_left (fun acc x => sl_add x acc) l [].
Definition zl_of (l : list Z) : list Z := fold_left (fun acc x => zl_add x acc) l [].

(* SortedList.irange(maximum=m): the prefix of elements <= m *)
Fixpoint irange_max (m : seg) (l : list seg) : list seg :=
  match l with
  | [] => []
  | y :: r => if sleb y m then y :: irange_max m r else []
  end.

(* ------------------------------------------------------------------ *)
(* Python set of segments: canonical form = strictly sorted list       *)
(* ------------------------------------------------------------------ *)
Definition set_mem (x : seg) (s : list seg) : bool := existsb (seqb x) s.
Definition set_add (x : seg) (s : list seg) : list seg := if set_mem x s then s else sl_add x s.
Definition set_remove (x : seg) (s : list seg) : list seg := filter (fun y => negb (seqb x y)) s.
Definition set_union (a b : list seg) : list seg := fold_left (fun acc x => set_add x acc) b a.
Definition set_of_list (l : list seg) : list seg := fold_left (fun acc x => set_add x acc) l [].
Definition set_subset (a b : list seg) : bool := forallb (fun x => set_mem x b) a.
Definition set_eqb (a b : list seg) : bool := set_subset a b && set_subset b a.

(* ------------------------------------------------------------------ *)
(* Part 1: the Timeline object                                         *)
(* ------------------------------------------------------------------ *)
Record tl := mkTl { tset : list seg; tlist : list seg; tbounds : list Z }.

Definition boundaries (s : list seg) : list Z := flat_map (fun x => [st x; en x]) s.

(* Timeline.__init__ *)
Definition t_init (eps : Z) (segs : list seg) : tl :=
  let s := set_of_list (filter (nonempty eps) segs) in
  mkTl s (sl_of s) (zl_of (boundaries s)).

(* Timeline.add *)
Definition t_add (eps : Z) (t : tl) (x : seg) : tl :=
  if set_mem x (tset t) || negb (nonempty eps x) then t
  else mkTl (set_add x (tset t)) (sl_add x (tlist t)) (zl_add (en x) (zl_add (st x) (tbounds t))).

(* Timeline.remove / discard *)
Definition t_remove (t : tl) (x : seg) : tl :=
  if negb (set_mem x (tset t)) then t
  else mkTl (set_remove x (tset t)) (sl_remove x (tlist t))
            (zl_remove (en x) (zl_remove (st x) (tbounds t))).

(* Timeline.update / __ior__ *)
Definition t_update (t other : tl) : tl :=
  let s := set_union (tset t) (tset other) in
  mkTl s (sl_of s) (zl_of (boundaries s)).

(* Timeline.union / __or__ *)
Definition t_union (eps : Z) (t other : tl) : tl :=
  t_init eps (set_union (tset t) (tset other)).

(* segment_func family used with Timeline.copy *)
Inductive sfun :=
| FId | FShift (d : Z) | FClip (w : seg) | FCollapse | FConst (c : seg) | FWiden (d : Z).
Definition sfun_app (f : sfun) (s : seg) : seg :=
  match f with
  | FId => s
  | FShift d => (st s + d, en s + d)
  | FClip w => sand s w
  | FCollapse => (st s, st s)
  | FConst c => c
  | FWiden d => (st s - d, en s + d)
  end.

(* Timeline.copy(segment_func) *)
Definition t_copy (eps : Z) (t : tl) (f : option sfun) : tl :=
  match f with
  | None => t_init eps (tlist t)
  | Some f => t_init eps (map (sfun_app f) (tlist t))
  end.

(* reads *)
Definition t_len (t : tl) : Z := Z.of_nat (length (tset t)).
Definition t_bool (t : tl) : bool := 0 <? t_len t.
Definition t_iter (t : tl) : list seg := tlist t.
(* __getitem__ with Python negative indexing; None = IndexError *)
Definition py_index {A} (l : list A) (k : Z) : option A :=
  let n := Z.of_nat (length l) in
  if (0 <=? k) && (k <? n) then nth_error l (Z.to_nat k)
  else if (k <? 0) && (0 <=? n + k) then nth_error l (Z.to_nat (n + k))
  else None.
Definition t_getitem (t : tl) (k : Z) : option seg := py_index (tlist t) k.
(* SortedList.index; None = ValueError *)
Fixpoint sl_index (x : seg) (l : list seg) : option Z :=
  match l with
  | [] => None
  | y :: r => if seqb x y then Some 0
              else match sl_index x r with Some i => Some (i + 1) | None => None end
  end.
Definition t_index (t : tl) (x : seg) : option Z := sl_index x (tlist t).
Definition t_contains (t : tl) (x : seg) : bool := set_mem x (tset t).
Definition t_contains_tl (t other : tl) : bool := set_subset (tset other) (tset t).
Definition t_eq (a b : tl) : bool := set_eqb (tset a) (tset b).
Definition t_ne (a b : tl) : bool := negb (set_eqb (tset a) (tset b)).
Definition t_extent (t : tl) : seg :=
  match tset t with
  | [] => (0, 0)
  | _ => (hd 0 (tbounds t), last (tbounds t) 0)
  end.

(* ------------------------------------------------------------------ *)
(* Part 2: derived operations on the sorted list of segments           *)
(* ------------------------------------------------------------------ *)

(* the iteration order of Timeline(segments=l) *)
Definition tl_of (eps : Z) (l : list seg) : list seg := tlist (t_init eps l).

(* extent, from the sorted list *)
Definition max_end (l : list seg) (d : Z) : Z := fold_left (fun m s => Z.max m (en s)) l d.
Definition extent_l (l : list seg) : seg :=
  match l with
  | [] => (0, 0)
  | s :: r => (st s, max_end r (en s))
  end.

(* Timeline.support_iter *)
Fixpoint support_go (eps collar : Z) (cur : seg) (l : list seg) : list seg :=
  match l with
  | [] => [cur]
  | s :: r =>
      match sxor eps s cur with
      | None => [] (* ValueError: unreachable when every member is non-empty *)
      | Some g =>
          if negb (nonempty eps g) || (duration eps g <? collar)
          then support_go eps collar (sor eps cur s) r
          else cur :: support_go eps collar s r
      end
  end.
Definition support_iter (eps collar : Z) (l : list seg) : list seg :=
  match l with
  | [] => []
  | s0 :: _ => support_go eps collar s0 l
  end.
Definition support (eps collar : Z) (l : list seg) : list seg := tl_of eps (support_iter eps collar l).
Definition sum_durations (eps : Z) (l : list seg) : Z := fold_left (fun a s => a + duration eps s) l 0.
Definition tl_duration (eps : Z) (l : list seg) : Z := sum_durations eps (support_iter eps 0 l).

(* Timeline.co_iter *)
Definition co_iter (eps : Z) (a b : list seg) : list (seg * seg) :=
  flat_map (fun s => map (fun o => (s, o))
                         (filter (intersects eps s) (irange_max (en s, en s) b))) a.

(* Timeline.crop_iter / crop *)
Inductive mode := Loose | Strict | Inter.
Inductive sup := SupSeg (s : seg) | SupTl (l : list seg).

Definition norm_support (eps : Z) (s : sup) : list seg :=
  match s with
  | SupSeg x => support eps 0 (tl_of eps (if nonempty eps x then [x] else []))
  | SupTl l => support eps 0 l
  end.

(* pairs (original, yielded) *)
Definition crop_iter (eps : Z) (t : list seg) (s : sup) (m : mode) : list (seg * seg) :=
  let pairs := co_iter eps t (norm_support eps s) in
  match m with
  | Loose => map (fun p => (fst p, fst p)) pairs
  | Strict => map (fun p => (fst p, fst p)) (filter (fun p => sin (snd p) (fst p)) pairs)
  | Inter => filter (fun p => nonempty eps (snd p))
                    (map (fun p => (fst p, sand (fst p) (snd p))) pairs)
  end.
Definition crop (eps : Z) (t : list seg) (s : sup) (m : mode) : list seg :=
  tl_of eps (map snd (crop_iter eps t s m)).

(* the mapping dict of crop(..., returns_mapping=True): insertion-ordered
   association list  mapped_to -> originals in order *)
Fixpoint dict_append (k : seg) (v : seg) (d : list (seg * list seg)) : list (seg * list seg) :=
  match d with
  | [] => [(k, [v])]
  | (k', vs) :: r => if seqb k k' then (k', vs ++ [v]) :: r else (k', vs) :: dict_append k v r
  end.
Definition crop_mapping (eps : Z) (t : list seg) (s : sup) : list (seg * list seg) :=
  fold_left (fun d p => dict_append (snd p) (fst p) d) (crop_iter eps t s Inter) [].

(* Timeline.overlapping_iter (after the repair of F9): scan in order, stop at
   the first segment starting after t *)
Fixpoint overlapping (t : Z) (l : list seg) : list seg :=
  match l with
  | [] => []
  | s :: r => if st s >? t then []
              else if overlaps s t then s :: overlapping t r else overlapping t r
  end.
(* the pre-repair query: irange(maximum=Segment(t,t)) then filter *)
Definition overlapping_old (t : Z) (l : list seg) : list seg :=
  filter (fun s => overlaps s t) (irange_max (t, t) l).

(* same query for a doubled time point (segment middles) *)
Fixpoint overlapping2 (t2 : Z) (l : list seg) : list seg :=
  match l with
  | [] => []
  | s :: r => if 2 * st s >? t2 then []
              else if (2 * st s <=? t2) && (2 * en s >=? t2) then s :: overlapping2 t2 r
                   else overlapping2 t2 r
  end.

(* Timeline.get_overlap *)
Definition get_overlap (eps : Z) (l : list seg) : list seg :=
  support eps 0
    (tl_of eps (map (fun p => sand (fst p) (snd p))
                    (filter (fun p => negb (seqb (fst p) (snd p))) (co_iter eps l l)))).

(* Timeline.gaps_iter / gaps *)
Fixpoint gaps_go (eps : Z) (e : Z) (stop : Z) (l : list seg) : list seg :=
  match l with
  | [] => if nonempty eps (e, stop) then [(e, stop)] else []
  | s :: r => if nonempty eps (e, st s) then (e, st s) :: gaps_go eps (en s) stop r
              else gaps_go eps (en s) stop r
  end.
Definition gaps_seg (eps : Z) (t : list seg) (x : seg) : list seg :=
  gaps_go eps (st x) (en x) (support eps 0 (crop eps t (SupSeg x) Inter)).
Definition gaps_iter (eps : Z) (t : list seg) (s : option sup) : list seg :=
  match s with
  | None => gaps_seg eps t (extent_l t)
  | Some (SupSeg x) => gaps_seg eps t x
  | Some (SupTl l) => flat_map (gaps_seg eps t) (support eps 0 l)
  end.
Definition gaps (eps : Z) (t : list seg) (s : option sup) : list seg := tl_of eps (gaps_iter eps t s).

(* Timeline.extrude *)
Definition swap_mode (m : mode) : mode :=
  match m with Loose => Strict | Strict => Loose | Inter => Inter end.
Definition extrude (eps : Z) (t : list seg) (removed : sup) (m : mode) : list seg :=
  let removed_l := match removed with SupSeg x => tl_of eps [x] | SupTl l => l end in
  let extent_tl := tl_of eps [extent_l t] in
  let truncating := gaps eps removed_l (Some (SupTl extent_tl)) in
  crop eps t (SupTl truncating) (swap_mode m).

(* Timeline.covers *)
Definition covers (eps : Z) (t other : list seg) : bool :=
  match co_iter eps (gaps eps t (Some (SupSeg (extent_l other)))) other with
  | [] => true
  | _ => false
  end.

(* Timeline.segmentation *)
Fixpoint zdedup (l : list Z) : list Z :=   (* sorted(set(...)) on a sorted list *)
  match l with
  | x :: ((y :: _) as r) => if x =? y then zdedup r else x :: zdedup r
  | _ => l
  end.
Fixpoint seg_pieces (eps : Z) (sup_l : list seg) (start : Z) (ts : list Z) : list seg :=
  match ts with
  | [] => []
  | e :: r =>
      let p := (start, e) in
      if nonempty eps p && negb (match overlapping2 (middle2 p) sup_l with [] => true | _ => false end)
      then p :: seg_pieces eps sup_l e r
      else seg_pieces eps sup_l e r
  end.
Definition segmentation (eps : Z) (l : list seg) : list seg :=
  match zdedup (zl_of (boundaries l)) with
  | [] => []
  | t0 :: ts => tl_of eps (seg_pieces eps (support eps 0 l) t0 ts)
  end.
