(* Model of pyannote/core/feature.py: SlidingWindowFeature.crop on abstract rows.
   A feature has n rows; row k is identified by its index k, so a crop result is
   the list of row indices it is made of (with repetitions for padding). *)
From PV Require Export Model.Window.

(* the clipping loop of feature.py:194-206 *)
Definition fclip (n : Z) (ranges : list (Z * Z)) : list (Z * Z) * Z * Z :=
  fold_left (fun acc r =>
               let '(cl, rf, rl) := acc in
               let '(a, b) := r in
               let rf' := rf + (Z.min b 0 - Z.min a 0) in
               let rl' := rl + (Z.max b n - Z.max a n) in
               if (b <? 0) || (a >=? n) then (cl, rf', rl')
               else (cl ++ [(Z.max a 0, Z.min b n)], rf', rl'))
            ranges ([], 0, 0).

Definition zrepeat (x : Z) (k : Z) : list Z := repeat x (Z.to_nat k).

(* rows returned by crop(..., return_data=True) *)
Definition fcrop_rows (n : Z) (ranges : list (Z * Z)) (fixed : bool) : list Z :=
  let '(cl, rf, rl) := fclip n ranges in
  let body := flat_map (fun r => zrange (fst r) (snd r)) cl in
  if fixed then zrepeat 0 rf ++ body ++ zrepeat (n - 1) rl else body.

(* ranges requested from the window *)
Definition fcrop_ranges (eps : Z) (w : win) (focus : sup) (m : amode) (fixed : option Z) : list (Z * Z) :=
  match focus with
  | SupSeg s => [crop_range w s m fixed]
  | SupTl l => crop_ranges_tl eps w l m
  end.

Definition fcrop (eps : Z) (w : win) (n : Z) (focus : sup) (m : amode) (fixed : option Z) : list Z :=
  fcrop_rows n (fcrop_ranges eps w focus m fixed) (match fixed with Some _ => true | None => false end).

(* crop(segment, return_data=False): rows and start of the new window;
   None = nothing kept (the implementation raises IndexError there: finding F5) *)
Definition fcrop_window (w : win) (n : Z) (focus : seg) (m : amode) : option (list Z * Z) :=
  let '(cl, _, _) := fclip n [crop_range w focus m None] in
  match cl with
  | [] => None
  | (a, _) :: _ => Some (flat_map (fun r => zrange (fst r) (snd r)) cl, w_start w + a * w_step w)
  end.

(* iteration: row i with window position i; extent *)
Definition fiter (w : win) (n : Z) : list (Z * option seg) :=
  map (fun i => (i, win_get w i)) (zrange 0 n).
Definition fextent2 (w : win) (n : Z) : seg := range_to_segment2 w 0 n.
