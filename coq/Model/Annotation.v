(* Model of pyannote/core/annotation.py: the Annotation object with its lazily
   refreshed caches (annotation.py:173-343, 660-1112), as coded.
   Executable definitions only. *)
From PV Require Export Model.Timeline Model.Generators.

(* ---- Python dict keyed by names, insertion ordered ---- *)
Definition tracks_t := list (name * name).          (* {track: label} *)
Fixpoint d_get (k : name) (d : tracks_t) : option name :=
  match d with [] => None | (k', v) :: r => if name_eqb k k' then Some v else d_get k r end.
Fixpoint d_set (k v : name) (d : tracks_t) : tracks_t :=      (* overwrite keeps position, else append *)
  match d with
  | [] => [(k, v)]
  | (k', v') :: r => if name_eqb k k' then (k', v) :: r else (k', v') :: d_set k v r
  end.
Fixpoint d_del (k : name) (d : tracks_t) : tracks_t :=
  match d with [] => [] | (k', v') :: r => if name_eqb k k' then r else (k', v') :: d_del k r end.
Definition d_mem (k : name) (d : tracks_t) : bool := match d_get k d with Some _ => true | None => false end.

(* ---- SortedDict keyed by segments ---- *)
Definition tmap := list (seg * tracks_t).
Fixpoint sd_get (s : seg) (m : tmap) : option tracks_t :=
  match m with [] => None | (s', d) :: r => if seqb s s' then Some d else sd_get s r end.
Fixpoint sd_set (s : seg) (d : tracks_t) (m : tmap) : tmap :=
  match m with
  | [] => [(s, d)]
  | (s', d') :: r => if seqb s s' then (s', d) :: r
                     else if sltb s s' then (s, d) :: (s', d') :: r
                     else (s', d') :: sd_set s d r
  end.
Fixpoint sd_del (s : seg) (m : tmap) : tmap :=
  match m with [] => [] | (s', d') :: r => if seqb s s' then r else (s', d') :: sd_del s r end.

(* ---- label-keyed Python dicts (_labels, _labelNeedsUpdate): insertion ordered; their order
        is only ever observed through sorted(..., key=str) ---- *)
Section NMap.
Context {V : Type}.
Fixpoint nm_get (k : name) (m : list (name * V)) : option V :=
  match m with [] => None | (k', v) :: r => if name_eqb k k' then Some v else nm_get k r end.
Fixpoint nm_set (k : name) (v : V) (m : list (name * V)) : list (name * V) :=
  match m with
  | [] => [(k, v)]
  | (k', v') :: r => if name_eqb k k' then (k', v) :: r else (k', v') :: nm_set k v r
  end.
Fixpoint nm_del (k : name) (m : list (name * V)) : list (name * V) :=
  match m with [] => [] | (k', v') :: r => if name_eqb k k' then r else (k', v') :: nm_del k r end.
End NMap.

(* a cached Timeline: its segments in iteration order, and its uri *)
Definition uri_t := option string.
Record ctl := mkCtl { c_segs : list seg; c_uri : uri_t }.

Record ann := mkAnn {
  a_uri : uri_t; a_modality : uri_t;
  a_tracks : tmap;                              (* _tracks *)
  a_labels : list (name * option ctl);          (* _labels: label -> Timeline | None *)
  a_dirty : list (name * bool);                 (* _labelNeedsUpdate *)
  a_tline : option ctl; a_tdirty : bool }.      (* _timeline, _timelineNeedsUpdate *)

Definition a_empty (u m : uri_t) : ann := mkAnn u m [] [] [] None true.

Definition with_tracks a t := mkAnn (a_uri a) (a_modality a) t (a_labels a) (a_dirty a) (a_tline a) (a_tdirty a).
Definition with_dirty a d := mkAnn (a_uri a) (a_modality a) (a_tracks a) (a_labels a) d (a_tline a) (a_tdirty a).
Definition with_labels a l d := mkAnn (a_uri a) (a_modality a) (a_tracks a) l d (a_tline a) (a_tdirty a).
Definition with_tline a c f := mkAnn (a_uri a) (a_modality a) (a_tracks a) (a_labels a) (a_dirty a) c f.

(* ---- stable sort of the tracks of one segment by (str(track), str(label)) ---- *)
Definition str_leb (a b : string) : bool := negb (String.ltb b a).
Definition key_leb (x y : name * name) : bool :=
  String.ltb (str_of (fst x)) (str_of (fst y))
  || (String.eqb (str_of (fst x)) (str_of (fst y)) && str_leb (str_of (snd x)) (str_of (snd y))).
Fixpoint ins_stable {A} (leb : A -> A -> bool) (x : A) (l : list A) : list A :=
  match l with
  | [] => [x]
  | y :: r => if leb y x then y :: ins_stable leb x r else x :: y :: r
  end.
Definition sort_stable {A} (leb : A -> A -> bool) (l : list A) : list A :=
  fold_left (fun acc x => ins_stable leb x acc) l [].
Definition sorted_tracks (d : tracks_t) : tracks_t := sort_stable key_leb d.

(* itertracks(yield_label=True) *)
Definition triple := (seg * name * name)%type.
Definition itertracks_m (m : tmap) : list triple :=
  flat_map (fun sd => map (fun tl_ => (fst sd, fst tl_, snd tl_)) (sorted_tracks (snd sd))) m.
Definition itertracks (a : ann) : list triple := itertracks_m (a_tracks a).

(* ---- writes ---- *)
Section Ops.
Variable eps : Z.

(* __setitem__ with key (segment, track) *)
Definition setitem (a : ann) (s : seg) (t l : name) : ann :=
  if negb (nonempty eps s) then a
  else
    let '(d, fresh) := match sd_get s (a_tracks a) with Some d => (d, false) | None => ([], true) end in
    let dirty1 := match d_get t d with Some old => nm_set old true (a_dirty a) | None => a_dirty a end in
    mkAnn (a_uri a) (a_modality a) (sd_set s (d_set t l d) (a_tracks a)) (a_labels a)
          (nm_set l true dirty1) (a_tline a) (a_tdirty a || fresh).
Definition default_track : name := NStr "_".

(* __delitem__ with a Segment key; None = KeyError (object unchanged) *)
Definition delitem_seg (a : ann) (s : seg) : option ann :=
  match sd_get s (a_tracks a) with
  | None => None
  | Some d =>
      Some (mkAnn (a_uri a) (a_modality a) (sd_del s (a_tracks a)) (a_labels a)
                  (fold_left (fun dm tl_ => nm_set (snd tl_) true dm) d (a_dirty a))
                  (a_tline a) true)
  end.
(* __delitem__ with a (segment, track) key *)
Definition delitem_track (a : ann) (s : seg) (t : name) : option ann :=
  match sd_get s (a_tracks a) with
  | None => None
  | Some d =>
      match d_get t d with
      | None => None
      | Some l =>
          let d' := d_del t d in
          let dirty := nm_set l true (a_dirty a) in
          match d' with
          | [] => Some (mkAnn (a_uri a) (a_modality a) (sd_del s (a_tracks a)) (a_labels a) dirty (a_tline a) true)
          | _ => Some (mkAnn (a_uri a) (a_modality a) (sd_set s d' (a_tracks a)) (a_labels a) dirty
                             (a_tline a) (a_tdirty a))
          end
      end
  end.

(* ---- cache refresh ---- *)
Definition label_segments (m : tmap) (lab : name) : list seg :=
  map (fun x => fst (fst x)) (filter (fun x : triple => name_eqb (snd x) lab) (itertracks_m m)).

(* _updateLabels *)
Definition update_labels (a : ann) : ann :=
  let upd := map fst (filter (fun kv => snd kv) (a_dirty a)) in
  fold_left (fun a' lab =>
               match label_segments (a_tracks a) lab with
               | [] => with_labels a' (nm_del lab (a_labels a')) (nm_del lab (a_dirty a'))
               | segs => with_labels a' (nm_set lab (Some (mkCtl (tl_of eps segs) (a_uri a))) (a_labels a'))
                                       (nm_set lab false (a_dirty a'))
               end) upd a.

(* labels() *)
(* sorted(self._labels, key=str); ties between names with the same str() keep dict order *)
Definition name_leb (x y : name) : bool := negb (name_ltb y x).
Definition labels (a : ann) : ann * list name :=
  let a' := if existsb (fun kv => snd kv) (a_dirty a) then update_labels a else a in
  (a', sort_stable name_leb (map fst (a_labels a'))).

Definition name_in (n : name) (l : list name) : bool := existsb (name_eqb n) l.

(* label_timeline(label, copy=...) : the cached timeline (or an empty one) *)
Definition label_timeline (a : ann) (lab : name) : ann * ctl :=
  let '(a1, labs) := labels a in
  if negb (name_in lab labs) then (a1, mkCtl [] (a_uri a1))
  else
    let a2 := match nm_get lab (a_dirty a1) with Some true => update_labels a1 | _ => a1 end in
    match nm_get lab (a_labels a2) with
    | Some (Some c) => (a2, c)
    | _ => (a2, mkCtl [] (a_uri a2))   (* unreachable: a listed label is cached *)
    end.

(* get_timeline *)
Definition get_timeline (a : ann) : ann * ctl :=
  if a_tdirty a then
    let c := mkCtl (tl_of eps (map fst (a_tracks a))) (a_uri a) in
    (with_tline a (Some c) false, c)
  else match a_tline a with
       | Some c => (a, c)
       | None => (a, mkCtl [] (a_uri a))        (* unreachable: not dirty implies cached *)
       end.

(* uri setter *)
Definition set_uri (a : ann) (u : uri_t) : ann :=
  let '(a1, _) := labels a in
  let labs' := map (fun kv => (fst kv, match snd kv with Some c => Some (mkCtl (c_segs c) u) | None => None end))
                   (a_labels a1) in
  let '(a2, c) := get_timeline (with_labels a1 labs' (a_dirty a1)) in
  mkAnn u (a_modality a2) (a_tracks a2) (a_labels a2) (a_dirty a2) (Some (mkCtl (c_segs c) u)) (a_tdirty a2).

(* update(other) in place *)
Definition update_with (a : ann) (recs : list triple) : ann :=
  fold_left (fun a' x => setitem a' (fst (fst x)) (snd (fst x)) (snd x)) recs a.

(* rename_labels(mapping, copy=False); mapping is a Python dict *)
Definition map_get (k : name) (m : list (name * name)) : name :=
  match d_get k m with Some v => v | None => k end.
Definition rename_tracks_map (m : tmap) (mapping : list (name * name)) : tmap :=
  map (fun sd => (fst sd, map (fun tl_ => (fst tl_, map_get (snd tl_) mapping)) (snd sd))) m.
Definition rename_labels_inplace (a : ann) (mapping : list (name * name)) : ann :=
  let dirty := fold_left (fun dm kv => nm_set (snd kv) true (nm_set (fst kv) true dm)) mapping (a_dirty a) in
  mkAnn (a_uri a) (a_modality a) (rename_tracks_map (a_tracks a) mapping) (a_labels a) dirty
        (a_tline a) (a_tdirty a).

(* the state installed by copy() / from_records / crop loose,strict / subset *)
Definition fresh_from_tracks (u m : uri_t) (t : tmap) (labs : list name) : ann :=
  mkAnn u m t (fold_left (fun lm l => nm_set l None lm) labs [])
        (fold_left (fun dm l => nm_set l true dm) labs []) None true.
Definition labels_of_tracks (t : tmap) : list name := flat_map (fun sd => map snd (snd sd)) t.

(* copy() *)
Definition copy (a : ann) : ann := fresh_from_tracks (a_uri a) (a_modality a) (a_tracks a) (labels_of_tracks (a_tracks a)).

(* from_records (after the repair of F2: empty segments are skipped) *)
Definition from_records (recs : list triple) (u m : uri_t) : ann :=
  let kept := filter (fun x : triple => nonempty eps (fst (fst x))) recs in
  let t := fold_left (fun tm x =>
                        let s := fst (fst x) in
                        let d := match sd_get s tm with Some d => d | None => [] end in
                        sd_set s (d_set (snd (fst x)) (snd x) d) tm) kept [] in
  fresh_from_tracks u m t (map snd kept).
(* the pre-repair constructor, kept for the refutation of F2 *)
Definition from_records_old (recs : list triple) (u m : uri_t) : ann :=
  let t := fold_left (fun tm x =>
                        let s := fst (fst x) in
                        let d := match sd_get s tm with Some d => d | None => [] end in
                        sd_set s (d_set (snd (fst x)) (snd x) d) tm) recs [] in
  fresh_from_tracks u m t (map snd recs).

(* ---- reads that do not touch caches ---- *)
Definition a_len (a : ann) : Z := Z.of_nat (List.length (a_tracks a)).
Definition a_bool (a : ann) : bool := 0 <? a_len a.
Definition get_tracks (a : ann) (s : seg) : list name :=
  match sd_get s (a_tracks a) with Some d => map fst d | None => [] end.
Definition get_labels_list (a : ann) (s : seg) : list name :=
  match sd_get s (a_tracks a) with Some d => map snd d | None => [] end.
Definition has_track (a : ann) (s : seg) (t : name) : bool :=
  match sd_get s (a_tracks a) with Some d => d_mem t d | None => false end.
Definition getitem (a : ann) (s : seg) (t : name) : option name :=
  match sd_get s (a_tracks a) with Some d => d_get t d | None => None end.

(* ---- reads through caches ---- *)
Definition label_support (a : ann) (lab : name) : ann * list seg :=
  let '(a1, c) := label_timeline a lab in (a1, support eps 0 (c_segs c)).
Definition label_duration (a : ann) (lab : name) : ann * Z :=
  let '(a1, c) := label_timeline a lab in (a1, tl_duration eps (c_segs c)).
Definition contains_seg (a : ann) (s : seg) : ann * bool :=
  let '(a1, c) := get_timeline a in (a1, set_mem s (c_segs c)).
Definition contains_tl (a : ann) (l : list seg) : ann * bool :=
  let '(a1, c) := get_timeline a in (a1, set_subset (tl_of eps l) (c_segs c)).

(* chart(): sorted(..., key=duration, reverse=True) is stable *)
Definition chart (a : ann) : ann * list (name * Z) :=
  let '(a1, labs) := labels a in
  let durs := map (fun l => (l, snd (label_duration a1 l))) labs in
  (a1, sort_stable (fun x y => snd y <=? snd x) durs).

(* chart(percent=True): each duration over the sum of the label durations (kept as a pair numerator / denominator) *)
Definition chart_percent (a : ann) : ann * list (name * (Z * Z)) :=
  let '(a1, ch) := chart a in
  let total := fold_right Z.add 0 (map snd ch) in
  (a1, map (fun p => (fst p, (snd p, total))) ch).

(* ---- construction from a list of records by successive insertions ---- *)
Definition ann_of (u m : uri_t) (recs : list triple) : ann := update_with (a_empty u m) recs.
End Ops.
