(* Model of pyannote/core/utils/generators.py. Executable definitions only. *)
From PV Require Export Base.Prelude.
From Coq Require Export String Ascii DecimalString.

(* track names and labels: Python int or str *)
Inductive name := NInt (z : Z) | NStr (s : string).

(* str(name) *)
Definition str_of (n : name) : string :=
  match n with
  | NInt z => NilZero.string_of_int (Z.to_int z)
  | NStr s => s
  end.

(* Python == on names (ints and strs never compare equal) *)
Definition name_eqb (a b : name) : bool :=
  match a, b with
  | NInt x, NInt y => x =? y
  | NStr x, NStr y => String.eqb x y
  | _, _ => false
  end.

(* a total order on names used for canonical label-keyed maps: (str, tag) *)
Definition name_cmp (a b : name) : comparison :=
  match String.compare (str_of a) (str_of b) with
  | Eq => match a, b with
          | NInt _, NStr _ => Lt
          | NStr _, NInt _ => Gt
          | _, _ => Eq
          end
  | c => c
  end.
Definition name_ltb (a b : name) : bool := match name_cmp a b with Lt => true | _ => false end.

(* ---- string_generator: 'A'..'Z','AA','AB',... (bijective base 26) ---- *)
Definition letter (r : Z) : ascii := ascii_of_nat (Z.to_nat (65 + r)).
Fixpoint bij26 (fuel : nat) (n : Z) (acc : string) : string :=
  match fuel with
  | O => acc
  | S f => if n <=? 0 then acc
           else bij26 f ((n - 1) / 26) (String (letter ((n - 1) mod 26)) acc)
  end.
(* i-th word yielded by string_generator() without skip, i >= 0 *)
Definition word (i : Z) : string := bij26 64 (i + 1) EmptyString.

Fixpoint str_in (s : string) (l : list string) : bool :=
  match l with [] => false | x :: r => String.eqb s x || str_in s r end.

(* first n values of string_generator(skip): scan indices upward; fuel bounds
   the scan (n + |skip| suffices: at most |skip| candidates are skipped) *)
Fixpoint strgen_scan (fuel : nat) (n : nat) (i : Z) (skip : list string) : list string :=
  match fuel, n with
  | _, O => []
  | O, _ => []
  | S f, S n' => if str_in (word i) skip then strgen_scan f n (i + 1) skip
                 else word i :: strgen_scan f n' (i + 1) skip
  end.
Definition strgen_take (n : nat) (skip : list string) : list string :=
  strgen_scan (n + List.length skip) n 0 skip.

(* int_generator *)
Fixpoint intgen_from (n : nat) (i : Z) : list Z :=
  match n with O => [] | S n' => i :: intgen_from n' (i + 1) end.
Definition intgen_take (n : nat) : list Z := intgen_from n 0.

(* pairwise *)
Fixpoint pairwise {A} (l : list A) : list (A * A) :=
  match l with
  | a :: ((b :: _) as r) => (a, b) :: pairwise r
  | _ => []
  end.

(* generator argument of rename_tracks / relabel_tracks / rename_labels / to_annotation *)
Inductive gen := GString | GInt | GList (l : list name).
(* i-th value; None = exhausted iterable *)
Definition gen_nth (g : gen) (i : nat) : option name :=
  match g with
  | GString => Some (NStr (word (Z.of_nat i)))
  | GInt => Some (NInt (Z.of_nat i))
  | GList l => nth_error l i
  end.
