(* Model of pyannote/core/utils/distance.py (index maps, 1-D pair metrics) and
   utils/hierarchy.py:propagate_constraints. Executable definitions only. *)
From PV Require Export Base.Prelude.

(* to_condensed(n, i, j); None = ValueError *)
Definition to_condensed (n i j : Z) : option Z :=
  if i =? j then None
  else let a := Z.min i j in let b := Z.max i j in
       Some (a * n - a * (a + 3) / 2 + b - 1).

(* least c >= 0 with c*c >= d *)
Definition csqrt (d : Z) : Z := let s := Z.sqrt d in if s * s =? d then s else s + 1.

(* to_squared(n, k) in exact arithmetic:
   i = floor((2n - 1 - sqrt(4n^2 - 4n + 1 - 8k)) / 2),  j = k + 1 - i*n + i*(i+3)/2 *)
Definition to_squared (n k : Z) : Z * Z :=
  let i := (2 * n - 1 - csqrt (4 * n * n - 4 * n + 1 - 8 * k)) / 2 in
  (i, k + 1 - i * n + i * (i + 3) / 2).

(* _pdist_func_1D: row-major over pairs i < j *)
Section Pair.
Context {A B : Type} (f : A -> A -> B).
Fixpoint pdist1d (xs : list A) : list B :=
  match xs with
  | [] => []
  | x :: r => map (f x) r ++ pdist1d r
  end.
Definition cdist1d (xs ys : list A) : list (list B) := map (fun x => map (f x) ys) xs.
End Pair.

Inductive metric := MEqual | MMin | MMax | MAvg.
(* values in ticks; 'average' is reported doubled (x + y) to stay integral; 'equal' as 0/1 *)
Definition metric_fn (m : metric) (x y : Z) : Z :=
  match m with
  | MEqual => if x =? y then 1 else 0
  | MMin => Z.min x y
  | MMax => Z.max x y
  | MAvg => x + y
  end.

(* ---- propagate_constraints ---- *)
Definition zpair := (Z * Z)%type.
Definition zp_eqb (a b : zpair) : bool := (fst a =? fst b) && (snd a =? snd b).
Definition zp_ltb (a b : zpair) : bool := (fst a <? fst b) || ((fst a =? fst b) && (snd a <? snd b)).
Definition sorted_pair (p : zpair) : zpair := (Z.min (fst p) (snd p), Z.max (fst p) (snd p)).
Definition ps_mem (p : zpair) (s : list zpair) : bool := existsb (zp_eqb p) s.
Fixpoint ps_add (p : zpair) (s : list zpair) : list zpair :=
  match s with
  | [] => [p]
  | q :: r => if zp_eqb p q then s else if zp_ltb p q then p :: s else q :: ps_add p r
  end.
Definition ps_of (l : list zpair) : list zpair := fold_left (fun s p => ps_add p s) l [].

(* sorted({u,v} ^ {x,y}) as a list *)
Definition zset2 (a b : Z) : list Z := if a =? b then [a] else [Z.min a b; Z.max a b].
Definition zmem (x : Z) (l : list Z) : bool := existsb (Z.eqb x) l.
Fixpoint zins (x : Z) (l : list Z) : list Z :=
  match l with [] => [x] | y :: r => if x =? y then l else if x <? y then x :: l else y :: zins x r end.
Definition symdiff (a b : list Z) : list Z :=
  fold_left (fun acc x => zins x acc)
            (filter (fun x => negb (zmem x b)) a ++ filter (fun x => negb (zmem x a)) b) [].

(* one pass of the while loop: Some new pairs, or None = ValueError *)
Definition prop_pass (cl : list zpair) (ml : list zpair) : option (list zpair) :=
  fold_left (fun acc xy =>
    fold_left (fun acc uv =>
      match acc with
      | None => None
      | Some nw =>
          match symdiff (zset2 (fst uv) (snd uv)) (zset2 (fst xy) (snd xy)) with
          | [] => None
          | [a; b] => if ps_mem (a, b) cl then Some nw else Some (nw ++ [(a, b)])
          | _ => Some nw
          end
      end) cl acc) ml (Some []).

(* outer None = out of fuel (never observed: the set grows strictly inside a finite universe);
   inner None = ValueError *)
Fixpoint prop_loop (fuel : nat) (cl ml : list zpair) : option (option (list zpair)) :=
  match fuel with
  | O => None
  | S f => match prop_pass cl ml with
           | None => Some None
           | Some [] => Some (Some cl)
           | Some nw => prop_loop f (fold_left (fun s p => ps_add p s) nw cl) ml
           end
  end.

Definition vertices (cl ml : list zpair) : list Z :=
  fold_left (fun acc p => zins (fst p) (zins (snd p) acc)) (cl ++ ml) [].
Definition propagate (cl ml : list zpair) : option (option (list zpair)) :=
  let n := length (vertices cl ml) in
  prop_loop (n * n + 2) (ps_of (map sorted_pair cl)) ml.
