(* Model of the deriving operations of pyannote/core/annotation.py:
   crop, extrude, new_track, support, co_iter, __mul__, get_overlap, subset,
   rename_tracks, relabel_tracks, rename_labels, __eq__/__ne__, argmax, and
   Timeline.to_annotation. Executable definitions only. *)
From PV Require Export Model.Annotation.

Section Ops.
Variable eps : Z.

(* "%s%d" % (prefix, count) *)
Definition dec (n : Z) : string := NilZero.string_of_int (Z.to_int n).

(* Annotation.new_track(segment, candidate, prefix) *)
Fixpoint first_free (fuel : nat) (prefix : string) (c : Z) (existing : list name) : name :=
  let cand := NStr (String.append prefix (dec c)) in
  match fuel with
  | O => cand
  | S f => if name_in cand existing then first_free f prefix (c + 1) existing else cand
  end.
Definition new_track (a : ann) (s : seg) (candidate : option name) (prefix : option string) : name :=
  let existing := get_tracks a s in
  match candidate with
  | Some c => if negb (name_in c existing) then c
              else first_free (List.length existing) (match prefix with Some p => p | None => EmptyString end) 0 existing
  | None => first_free (List.length existing) (match prefix with Some p => p | None => EmptyString end) 0 existing
  end.

(* Annotation.crop(support, mode) *)
Definition restrict_tracks (m : tmap) (keep : list seg) : tmap :=
  filter (fun sd => set_mem (fst sd) keep) m.
Definition crop_ann (a : ann) (s : sup) (md : mode) : ann :=
  let regions := norm_support eps s in
  let tline := tl_of eps (map fst (a_tracks a)) in
  let pairs := co_iter eps tline regions in
  match md with
  | Loose =>
      let t := restrict_tracks (a_tracks a) (map fst pairs) in
      fresh_from_tracks (a_uri a) (a_modality a) t (labels_of_tracks t)
  | Strict =>
      let t := restrict_tracks (a_tracks a) (map fst (filter (fun p => sin (snd p) (fst p)) pairs)) in
      fresh_from_tracks (a_uri a) (a_modality a) t (labels_of_tracks t)
  | Inter =>
      fold_left (fun cropped p =>
                   let i := sand (fst p) (snd p) in
                   fold_left (fun c tl_ =>
                                let t' := new_track c i (Some (fst tl_)) None in
                                setitem eps c i t' (snd tl_))
                             (match sd_get (fst p) (a_tracks a) with Some d => d | None => [] end) cropped)
                pairs (a_empty (a_uri a) (a_modality a))
  end.

(* Annotation.extrude(removed, mode) *)
Definition extrude_ann (a : ann) (removed : sup) (md : mode) : ann :=
  let removed_l := match removed with SupSeg x => tl_of eps [x] | SupTl l => l end in
  let tline := tl_of eps (map fst (a_tracks a)) in
  let extent_tl := tl_of eps [extent_l tline] in
  let truncating := gaps eps removed_l (Some (SupTl extent_tl)) in
  crop_ann a (SupTl truncating) (swap_mode md).

(* Annotation.support(collar) *)
Definition support_ann (a : ann) (collar : Z) : ann :=
  let '(a1, labs) := labels eps a in
  let segs_of l := support eps 0 (support eps collar (c_segs (snd (label_timeline eps a1 l)))) in
  let recs := flat_map (fun l => map (fun s => (s, l)) (segs_of l)) labs in
  fst (fold_left (fun st sl =>
                    let '(acc, i) := st in
                    (setitem eps acc (fst sl) (NStr (word (Z.of_nat i))) (snd sl), S i))
                 recs (a_empty (a_uri a) (a_modality a), O)).

(* sorted(get_tracks(s), key=str) *)
Definition tracks_sorted (a : ann) (s : seg) : list name :=
  sort_stable (fun x y => str_leb (str_of x) (str_of y)) (get_tracks a s).

(* Annotation.co_iter(other) *)
Definition co_iter_ann (a b : ann) : list ((seg * name) * (seg * name)) :=
  let ta := tl_of eps (map fst (a_tracks a)) in
  let tb := tl_of eps (map fst (a_tracks b)) in
  flat_map (fun p =>
              flat_map (fun t => map (fun t' => ((fst p, t), (snd p, t'))) (tracks_sorted b (snd p)))
                       (tracks_sorted a (fst p)))
           (co_iter eps ta tb).

(* a * b : rows in a.labels() order, columns in b.labels() order *)
Definition mul_ann (a b : ann) : list (list Z) :=
  let la := snd (labels eps a) in
  let lb := snd (labels eps b) in
  let pairs := co_iter_ann a b in
  map (fun i =>
         map (fun j =>
                fold_left (fun acc p =>
                             let '((s, t), (s', t')) := p in
                             match getitem a s t, getitem b s' t' with
                             | Some li, Some lj =>
                                 if name_eqb li i && name_eqb lj j then acc + duration eps (sand s s') else acc
                             | _, _ => acc
                             end) pairs 0) lb) la.

(* Annotation.subset(labels, invert) *)
Definition subset_ann (a : ann) (labs : list name) (invert : bool) : ann :=
  let '(a1, all) := labels eps a in
  let keep := if invert then filter (fun l => negb (name_in l labs)) all
              else filter (fun l => name_in l labs) all in
  let t := filter (fun sd => match snd sd with [] => false | _ => true end)
                  (map (fun sd => (fst sd, filter (fun tl_ => name_in (snd tl_) keep) (snd sd))) (a_tracks a)) in
  fresh_from_tracks (a_uri a) (a_modality a) t (labels_of_tracks t).

(* Annotation.get_overlap(labels) *)
Definition get_overlap_ann (a : ann) (labs : option (list name)) : list seg :=
  let b := match labs with
           | Some ((_ :: _) as l) => subset_ann a l false
           | _ => a
           end in
  let pairs := co_iter_ann b b in
  let kept := filter (fun p => let '((s, t), (s', t')) := p in
                               match getitem a s t, getitem a s' t' with
                               | Some l1, Some l2 => negb (name_eqb l1 l2)
                               | _, _ => false
                               end) pairs in
  support eps 0 (tl_of eps (map (fun p => sand (fst (fst p)) (fst (snd p))) kept)).

(* rename_tracks / relabel_tracks: None = generator exhausted *)
Definition rename_tracks_ann (a : ann) (g : gen) : option ann :=
  fst (fold_left (fun st x =>
                    let '(acc, i) := st in
                    match acc, gen_nth g i with
                    | Some acc', Some n => (Some (setitem eps acc' (fst (fst x)) n (snd x)), S i)
                    | _, _ => (None, S i)
                    end) (itertracks a) (Some (a_empty (a_uri a) (a_modality a)), O)).
Definition relabel_tracks_ann (a : ann) (g : gen) : option ann :=
  fst (fold_left (fun st x =>
                    let '(acc, i) := st in
                    match acc, gen_nth g i with
                    | Some acc', Some n => (Some (setitem eps acc' (fst (fst x)) (snd (fst x)) n), S i)
                    | _, _ => (None, S i)
                    end) (itertracks a) (Some (a_empty (a_uri a) (a_modality a)), O)).

(* rename_labels(mapping=None, generator): mapping built from labels() *)
Definition generated_mapping (a : ann) (g : gen) : option (list (name * name)) :=
  let labs := snd (labels eps a) in
  fst (fold_left (fun st l =>
                    let '(acc, i) := st in
                    match acc, gen_nth g i with
                    | Some m, Some n => (Some (d_set l n m), S i)
                    | _, _ => (None, S i)
                    end) labs (Some [], O)).
(* rename_labels(mapping, copy=True) *)
Definition rename_labels_copy (a : ann) (mapping : list (name * name)) : ann :=
  rename_labels_inplace (copy a) mapping.

(* __eq__ / __ne__ : zip_longest over itertracks *)
Definition triple_eqb (x y : triple) : bool :=
  seqb (fst (fst x)) (fst (fst y)) && name_eqb (snd (fst x)) (snd (fst y)) && name_eqb (snd x) (snd y).
Definition ann_eq (a b : ann) : bool := list_eqb triple_eqb (itertracks a) (itertracks b).
Definition ann_ne (a b : ann) : bool := negb (list_eqb triple_eqb (itertracks a) (itertracks b)).

(* argmax(support) : first label of maximal duration in labels() order *)
Definition argmax_ann (a : ann) (s : option sup) : option name :=
  let c := match s with Some s' => crop_ann a s' Inter | None => a end in
  if negb (a_bool c) then None
  else
    let '(c1, labs) := labels eps c in
    option_map fst
      (fold_left (fun best l =>
                    let d := snd (label_duration eps c1 l) in
                    match best with
                    | Some (_, db) => if d >? db then Some (l, d) else best
                    | None => Some (l, d)
                    end) labs None).

(* Timeline.to_annotation(generator, modality) *)
Definition to_annotation (t : list seg) (u m : uri_t) (g : gen) : option ann :=
  fst (fold_left (fun st s =>
                    let '(acc, i) := st in
                    match acc, gen_nth g i with
                    | Some acc', Some n => (Some (setitem eps acc' s default_track n), S i)
                    | _, _ => (None, S i)
                    end) t (Some (a_empty u m), O)).
End Ops.
