(* Integer rounding primitives shared by the text and sliding-window models. *)
From PV Require Export Base.Prelude.

(* floor and ceiling of n / d, d > 0 *)
Definition fdiv (n d : Z) : Z := n / d.
Definition cdiv (n d : Z) : Z := - ((- n) / d).

(* round-half-even of n / d, d > 0 (np.rint, Python round(), float formatting) *)
Definition rhe (n d : Z) : Z :=
  let q := n / d in let r := n mod d in
  if 2 * r <? d then q
  else if 2 * r >? d then q + 1
  else if Z.even q then q else q + 1.

(* truncation toward zero: int(x) *)
Definition trunc (n d : Z) : Z := if n <? 0 then - ((- n) / d) else n / d.
