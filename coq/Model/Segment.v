(* Model of pyannote/core/segment.py, class Segment (lines 93-369).
   Times are integer ticks; [eps] is SEGMENT_PRECISION expressed in ticks.
   Executable definitions only; lemmas live in Proofs/SegmentP.v. *)
From PV Require Export Base.Prelude.

Definition seg := (Z * Z)%type.
Definition st (s : seg) : Z := fst s.
Definition en (s : seg) : Z := snd s.

(* Segment.__bool__ : (end - start) > SEGMENT_PRECISION *)
Definition nonempty (eps : Z) (s : seg) : bool := en s - st s >? eps.

(* Segment.duration : end - start if self else 0. *)
Definition duration (eps : Z) (s : seg) : Z :=
  if nonempty eps s then en s - st s else 0.

(* Segment.middle, doubled: .5 * (start + end) *)
Definition middle2 (s : seg) : Z := st s + en s.

(* Segment.__contains__ : [inner in outer] *)
Definition sin (outer inner : seg) : bool :=
  (st outer <=? st inner) && (en outer >=? en inner).

(* Segment.__and__ *)
Definition sand (a b : seg) : seg := (Z.max (st a) (st b), Z.min (en a) (en b)).

(* Segment.intersects *)
Definition intersects (eps : Z) (a b : seg) : bool :=
  ((st a <? st b) && (st b <? en a - eps))
  || ((st a >? st b) && (st a <? en b - eps))
  || (st a =? st b).

(* Segment.overlaps *)
Definition overlaps (s : seg) (t : Z) : bool := (st s <=? t) && (en s >=? t).

(* Segment.__or__ *)
Definition sor (eps : Z) (a b : seg) : seg :=
  if negb (nonempty eps a) then b
  else if negb (nonempty eps b) then a
  else (Z.min (st a) (st b), Z.max (en a) (en b)).

(* Segment.__xor__ : None models ValueError *)
Definition sxor (eps : Z) (a b : seg) : option seg :=
  if negb (nonempty eps a) || negb (nonempty eps b) then None
  else Some (Z.min (en a) (en b), Z.max (st a) (st b)).

(* dataclass(frozen=True, order=True): ==, <, hash on the tuple (start, end) *)
Definition seqb (a b : seg) : bool := (st a =? st b) && (en a =? en b).
Definition sltb (a b : seg) : bool :=
  (st a <? st b) || ((st a =? st b) && (en a <? en b)).
Definition sleb (a b : seg) : bool := sltb a b || seqb a b.

(* three-way comparison used by sorted containers *)
Definition scmp (a b : seg) : comparison :=
  match st a ?= st b with
  | Eq => en a ?= en b
  | c => c
  end.
