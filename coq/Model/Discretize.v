(* Model of Annotation.discretize (annotation.py:1434-1497) and of
   one_hot_encoding / one_hot_decoding (utils/numpy.py), on integer ticks. *)
From PV Require Export Model.AnnotationOps Model.Window.

Section Disc.
Variable eps : Z.

(* numpy basic slice a:b on an axis of length n (a, b may be negative) *)
Definition py_slice_bounds (n a b : Z) : Z * Z :=
  let norm x := if x <? 0 then Z.max 0 (n + x) else Z.min x n in
  (norm a, norm b).
Definition in_slice (n a b f : Z) : bool :=
  let '(lo, hi) := py_slice_bounds n a b in (lo <=? f) && (f <? hi).

(* discretize: columns (one per label), each a list of 0/1 over frames *)
Record disc := mkDisc { d_frames : Z; d_labels : list name; d_cols : list (list Z); d_win : win }.

(* [old] selects the pre-repair slice bound min(stop, num_frames), which numpy wraps
   around when negative (finding F11); the repaired code clips it at 0 *)
Definition discretize_gen (old : bool) (a : ann) (support : option seg) (rdur rstep : Z)
           (labs : option (list name)) (duration : option Z) : option disc :=
  let sup := match support with
             | Some s => s
             | None => extent_l (tl_of eps (map fst (a_tracks a)))
             end in
  let cropped := crop_ann eps a (SupSeg sup) Inter in
  let '(c1, clabs) := labels eps cropped in
  let labels_ := match labs with Some l => l | None => clabs end in
  match win_make rdur rstep (st sup) None with
  | None => None
  | Some w =>
      let start_frame := closest_frame w (st sup) in
      let n := match duration with
               | None => closest_frame w (en sup) - start_frame
               | Some d => rhe d rstep
               end in
      if n <? 0 then None (* np.zeros raises ValueError on a negative dimension *)
      else
        let col l :=
          let segs := c_segs (snd (label_timeline eps c1 l)) in
          let rs := crop_ranges_tl eps w segs ACenter in
          map (fun f => if existsb (fun r => in_slice n (Z.max 0 (fst r))
                                                    (if old then Z.min (snd r) n else Z.max 0 (Z.min (snd r) n)) f) rs
                        then 1 else 0)
              (zrange 0 n) in
        Some (mkDisc n labels_ (map col labels_) w)
  end.

Definition discretize := discretize_gen false.
Definition discretize_old := discretize_gen true.

(* one_hot_encoding with mode = 'center'; None = ValueError (label missing from the list) *)
Definition clampn (n x : Z) : Z := Z.max 0 (Z.min n x).
Definition one_hot_encoding (a : ann) (support : sup) (wdur wstep : Z) (labs : option (list name)) : option disc :=
  let extent := match support with SupSeg s => s | SupTl l => extent_l l end in
  let sup_l := match support with SupSeg s => tl_of eps [s] | SupTl l => l end in
  match win_make wdur wstep (st extent) None with
  | None => None
  | Some w =>
      let n := samples w (duration eps extent) ACenter in
      let '(a1, alabs) := labels eps a in
      let labels_ := match labs with Some l => l | None => alabs end in
      if negb (forallb (fun l => name_in l labels_) alabs) then None
      else
        let known := crop_ranges_tl eps w sup_l ACenter in
        let col l :=
          let rs := if name_in l alabs then crop_ranges_tl eps w (c_segs (snd (label_timeline eps a1 l))) ACenter else [] in
          map (fun f =>
                 let base := if existsb (fun r => (clampn n (fst r) <=? f) && (f <? clampn n (snd r))) known then 0 else -1 in
                 let cnt := Z.of_nat (length (filter (fun r => (clampn n (fst r) <=? f) && (f <? clampn n (snd r))) rs)) in
                 Z.min 1 (base + cnt))
              (zrange 0 n) in
        Some (mkDisc n labels_ (map col labels_) w)
  end.

(* one_hot_decoding (after the repair of F6: y > 0 means active), per label column:
   runs of active frames [t0, t1) give the doubled segment (centre2 t0, centre2 t1) *)
Fixpoint runs (col : list Z) (f : Z) (onset : option Z) : list (Z * Z) :=
  match col with
  | [] => match onset with Some t0 => [(t0, f)] | None => [] end
  | v :: r =>
      if v >? 0 then runs r (f + 1) (match onset with Some t0 => Some t0 | None => Some f end)
      else match onset with
           | Some t0 => (t0, f) :: runs r (f + 1) None
           | None => runs r (f + 1) None
           end
  end.
Definition one_hot_decoding2 (w : win) (cols : list (list Z)) : list (Z * list seg) :=
  map (fun kc => (fst kc, map (fun r => (centre2 w (fst r), centre2 w (snd r))) (runs (snd kc) 0 None)))
      (combine (map Z.of_nat (seq 0 (length cols))) cols).
End Disc.
