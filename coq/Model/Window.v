(* Model of pyannote/core/segment.py, class SlidingWindow (lines 392-910), on
   integer ticks. Quotients are taken exactly (Z.div based floor / ceiling /
   round-half-even); on tick-aligned inputs the float code computes the same
   values (DESIGN 2.4). Executable definitions only. *)
From PV Require Export Model.Timeline Model.Rounding.

Record win := mkWin { w_dur : Z; w_step : Z; w_start : Z; w_end : option Z }.

(* constructor validation: None = ValueError *)
Definition win_make (dur step start : Z) (wend : option Z) : option win :=
  if dur <=? 0 then None
  else if step <=? 0 then None
  else match wend with
       | Some e => if e <=? start then None else Some (mkWin dur step start wend)
       | None => Some (mkWin dur step start None)
       end.

(* __getitem__ : None when the position starts at or after `end` *)
Definition win_get (w : win) (i : Z) : option seg :=
  let s := w_start w + i * w_step w in
  match w_end w with
  | Some e => if s >=? e then None else Some (s, s + w_dur w)
  | None => Some (s, s + w_dur w)
  end.

(* truthiness of `self[i]` as used by __next__ and __len__ *)
Definition win_alive (eps : Z) (w : win) (i : Z) : bool :=
  match win_get w i with Some s => nonempty eps s | None => false end.

(* iteration: positions 0,1,2,... while alive; fuel bounds the loop *)
Fixpoint win_iter_from (eps : Z) (w : win) (fuel : nat) (i : Z) : list seg :=
  match fuel with
  | O => []
  | S f => match win_get w i with
           | Some s => if nonempty eps s then s :: win_iter_from eps w f (i + 1) else []
           | None => []
           end
  end.
(* number of positions that begin before `end` *)
Definition win_count (w : win) : Z :=
  match w_end w with
  | Some e => Z.max 0 (cdiv (e - w_start w) (w_step w))
  | None => 0
  end.
Definition win_iter (eps : Z) (w : win) : list seg :=
  win_iter_from eps w (Z.to_nat (win_count w) + 1) 0.

(* closest_frame(t) = rint((t - start - dur/2) / step) *)
Definition closest_frame (w : win) (t : Z) : Z :=
  rhe (2 * (t - w_start w) - w_dur w) (2 * w_step w).

(* __len__ : start from closest_frame(end) and walk up while alive; None = ValueError (infinite) *)
Fixpoint len_walk (eps : Z) (w : win) (fuel : nat) (i : Z) : Z :=
  match fuel with
  | O => i
  | S f => if win_alive eps w i then len_walk eps w f (i + 1) else i
  end.
Definition win_len (eps : Z) (w : win) : option Z :=
  match w_end w with
  | None => None
  | Some e =>
      let i0 := closest_frame w e in
      Some (len_walk eps w (Z.to_nat (win_count w - i0) + 1) i0)
  end.

(* samples(from_duration, mode) *)
Inductive amode := ALoose | AStrict | ACenter.
Definition samples (w : win) (d : Z) (m : amode) : Z :=
  match m with
  | AStrict => Z.max 0 (fdiv (d - w_dur w) (w_step w) + 1)   (* after the repair of F12: never negative *)
  | ALoose => fdiv (d + w_dur w) (w_step w)
  | ACenter => rhe d (w_step w)
  end.

(* crop with a Segment focus: the half-open range (i, j) *)
Definition crop_range (w : win) (focus : seg) (m : amode) (fixed : option Z) : Z * Z :=
  match m with
  | ALoose =>
      let i := cdiv (st focus - w_dur w - w_start w) (w_step w) in
      match fixed with
      | None => (i, fdiv (en focus - w_start w) (w_step w) + 1)
      | Some f => (i, i + samples w f ALoose)
      end
  | AStrict =>
      let i := cdiv (st focus - w_start w) (w_step w) in
      match fixed with
      | None => (i, fdiv (en focus - w_dur w - w_start w) (w_step w) + 1)
      | Some f => (i, i + samples w f AStrict)
      end
  | ACenter =>
      let i := closest_frame w (st focus) in
      match fixed with
      | None => (i, closest_frame w (en focus) + 1)
      | Some f => (i, i + samples w f ACenter)
      end
  end.

(* np.array(range(i, j)) *)
Definition zrange (i j : Z) : list Z := map (fun k => i + Z.of_nat k) (seq 0 (Z.to_nat (j - i))).

(* crop with a Timeline focus, return_ranges=True: merge rule of segment.py:561-573 *)
Fixpoint merge_ranges (acc : list (Z * Z)) (rs : list (Z * Z)) : list (Z * Z) :=
  match rs with
  | [] => acc
  | r :: rest =>
      match rev acc with
      | [] => merge_ranges [r] rest
      | lastr :: before =>
          if fst r >? snd lastr then merge_ranges (acc ++ [r]) rest
          else merge_ranges (rev before ++ [(fst lastr, snd r)]) rest
      end
  end.
Definition crop_ranges_tl (eps : Z) (w : win) (focus : list seg) (m : amode) : list (Z * Z) :=
  merge_ranges [] (map (fun s => crop_range w s m None) (support eps 0 focus)).

(* crop with a Timeline focus, index array: np.unique(np.hstack(...)) *)
Fixpoint zinsert (x : Z) (l : list Z) : list Z :=
  match l with [] => [x] | y :: r => if x =? y then l else if x <? y then x :: l else y :: zinsert x r end.
Definition crop_indices_tl (eps : Z) (w : win) (focus : list seg) (m : amode) : list Z :=
  fold_left (fun acc x => zinsert x acc)
            (flat_map (fun s => let r := crop_range w s m None in zrange (fst r) (snd r)) (support eps 0 focus)) [].

(* segment_to_range: (closest_frame(start), int(duration / step) + 1) *)
Definition segment_to_range (eps : Z) (w : win) (s : seg) : Z * Z :=
  (closest_frame w (st s), trunc (duration eps s) (w_step w) + 1).

(* range_to_segment(i0, n), in DOUBLED ticks (frame centres fall on half ticks) *)
Definition range_to_segment2 (w : win) (i0 n : Z) : seg :=
  let s2 := 2 * w_start w + (2 * i0 - 1) * w_step w + w_dur w in
  let e2 := s2 + 2 * n * w_step w in
  (if i0 =? 0 then 2 * w_start w else s2, e2).
(* centre of frame i, doubled *)
Definition centre2 (w : win) (i : Z) : Z := 2 * (w_start w + i * w_step w) + w_dur w.

(* __call__(support, align_last): per segment OF THE ARGUMENT (not of its support) *)
Definition call_one (eps : Z) (w : win) (s : seg) (align_last : bool) : list seg :=
  if duration eps s <? w_dur w then []
  else
    let sub := mkWin (w_dur w) (w_step w) (st s) (Some (en s)) in
    let kept := filter (fun p => sin s p) (win_iter eps sub) in
    match rev kept with
    | [] => []
    | lastp :: _ => if align_last && (en lastp <? en s) then kept ++ [(en s - w_dur w, en s)] else kept
    end.
Definition win_call (eps : Z) (w : win) (segments : list seg) (align_last : bool) : list seg :=
  flat_map (fun s => call_one eps w s align_last) segments.
