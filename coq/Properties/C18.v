(* C18  overlapping(t) returns exactly the segments containing time t.
   Statements only. *)
From PV Require Import Model.Timeline Proofs.SortedP Proofs.OverlappingP Proofs.TimelineInvP.

(* for every chronologically sorted timeline and every time point: the result
   is the sub-list (same order) of members s with start <= t <= end *)
Theorem C18_overlapping_is_filter : forall t l,
  ssorted l -> overlapping t l = filter (fun s => overlaps s t) l.
Proof. exact overlapping_spec. Qed.

Theorem C18_overlapping_exact : forall t l s,
  ssorted l -> (In s (overlapping t l) <-> In s l /\ st s <= t <= en s).
Proof. exact overlapping_exact. Qed.

(* in particular for every reachable Timeline object (C01) *)
Theorem C18_on_reachable_timelines : forall eps tl_ A t s,
  R eps tl_ A -> (In s (overlapping t (t_iter tl_)) <-> A s /\ st s <= t <= en s).
Proof.
  intros eps tl_ A t s HR. destruct (iter_spec eps tl_ A HR) as [Hs Hm].
  rewrite (overlapping_exact t _ s Hs), Hm. reflexivity.
Qed.

(* time points between grid points (a float t that is not a multiple of the configured precision):
   the same scan on k-fold refined coordinates answers the rational time q / k exactly, and on
   grid points it is the plain query; this is what the correspondence evaluates for quarter ticks *)
Theorem C18_overlapping_between_grid_points : forall k q l s, 0 < k -> ssorted l ->
  (In s (overlapping_q k q l) <-> In s l /\ k * st s <= q <= k * en s).
Proof. exact overlapping_q_exact. Qed.
Theorem C18_refined_query_is_the_query_on_scaled_timeline : forall k q l,
  overlapping q (map (scale_seg k) l) = map (scale_seg k) (overlapping_q k q l).
Proof. exact overlapping_scaled. Qed.
Theorem C18_refined_query_on_grid : forall k t l, 0 < k -> overlapping_q k (k * t) l = overlapping t l.
Proof. exact overlapping_on_grid. Qed.

Theorem C18_result_chronological : forall t l, ssorted l -> ssorted (overlapping t l).
Proof. intros t l H. rewrite (overlapping_spec t l H). now apply filter_ssorted. Qed.

(* the finding F9, characterised completely: the pre-repair query returned
   exactly the members with start < t <= end, i.e. it lost precisely the
   members that start at t *)
Theorem C18_old_query_characterised : forall eps t l,
  0 <= eps -> ssorted l -> Forall (fun s => nonempty eps s = true) l ->
  overlapping_old t l = filter (fun s => (st s <? t) && (t <=? en s)) l.
Proof. exact overlapping_old_spec. Qed.
Theorem C18_old_query_refuted :
  exists l t s, ssorted l /\ In s l /\ st s <= t <= en s /\ ~ In s (overlapping_old t l).
Proof. exact overlapping_old_refuted. Qed.

Example C18_nonvacuous :
  overlapping 2 [(0,2); (0,5); (2,2); (2,4); (3,4)] = [(0,2); (0,5); (2,2); (2,4)]
  /\ ssorted [(0,2); (0,5); (2,2); (2,4); (3,4)].
Proof. split; [reflexivity | repeat constructor]. Qed.

Print Assumptions C18_overlapping_is_filter.
Print Assumptions C18_overlapping_exact.
Print Assumptions C18_on_reachable_timelines.
Print Assumptions C18_result_chronological.
Print Assumptions C18_old_query_characterised.
Print Assumptions C18_old_query_refuted.
Print Assumptions C18_overlapping_between_grid_points.
Print Assumptions C18_refined_query_is_the_query_on_scaled_timeline.
Print Assumptions C18_refined_query_on_grid.
