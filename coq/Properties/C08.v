(* C08  Derived timelines/annotations are independent of their source; reads are pure.
   Two halves (DESIGN 4/C08):
   * purity -- proved here on the value model: every read query, although it refreshes caches,
     leaves the observable content (track map, uri, modality) unchanged, keeps the invariant, and
     does not influence the answer of any later read;
   * independence -- a statement about aliasing, proved on an abstract heap (cells = the mutable
     containers of the implementation): if, at derivation time, no cell is owned by both the derived
     object and its source (separation), and every mutator writes only cells its receiver owns or
     fresh ones (footprint discipline), then for EVERY later history of mutator calls on either side
     the other side's observable content is what it was. The two premises are facts about the code:
     the correspondence observes them on every case (identities of all reachable dict / list / set /
     SortedDict / SortedList / Timeline / Annotation objects after each derivation and after the
     mutations; full snapshots of the untouched side) for every deriving operation x cache state x
     mutated side, and also runs 1-6 sampled mutations directly. Statements only. *)
From PV Require Import Model.AnnotationOps Proofs.AnnotationInvP Proofs.PurityP Proofs.HeapFrameP Check.C02.

Section C08.
Variable eps : Z.
Theorem C08_read_is_pure : forall a x, AInv eps a ->
  abs (fst (do_read eps a x)) = abs a /\ AInv eps (fst (do_read eps a x)).
Proof. exact (read_pure eps). Qed.
Theorem C08_any_sequence_of_reads_is_pure : forall xs a, AInv eps a ->
  abs (reads eps a xs) = abs a /\ AInv eps (reads eps a xs).
Proof. exact (reads_pure eps). Qed.
Theorem C08_reads_do_not_change_later_answers : forall xs a lab, AInv eps a ->
  c_segs (snd (label_timeline eps (reads eps a xs) lab)) = c_segs (snd (label_timeline eps a lab)) /\
  c_segs (snd (get_timeline eps (reads eps a xs))) = c_segs (snd (get_timeline eps a)) /\
  (forall l, In l (snd (labels eps (reads eps a xs))) <-> In l (snd (labels eps a))).
Proof. exact (reads_do_not_change_answers eps). Qed.
Theorem C08_copy_starts_from_content_not_caches : forall a,
  a_tracks (copy a) = a_tracks a /\ a_uri (copy a) = a_uri a /\ a_modality (copy a) = a_modality a.
Proof. exact copy_content. Qed.
End C08.

(* independence for all histories from separation + footprint discipline *)
Theorem C08_one_mutator_call_leaves_the_other_object_alone : forall (V A : Type) (o1 o2 : obj V A) h h',
  local V A o2 -> owned V A o2 h -> disjoint (fp V A o1 h) (fp V A o2 h) -> mut_ok V A o1 h h' ->
  fp V A o2 h' = fp V A o2 h /\ absf V A o2 h' = absf V A o2 h /\ owned V A o2 h' /\
  disjoint (fp V A o1 h') (fp V A o2 h').
Proof. exact frame_step. Qed.
Theorem C08_independence_for_every_history : forall (V A : Type) (src der : obj V A) h,
  local V A src -> local V A der -> owned V A src h -> owned V A der h ->
  disjoint (fp V A src h) (fp V A der h) ->
  (forall h', HeapFrameP.run V A der h h' -> absf V A src h' = absf V A src h) /\
  (forall h', HeapFrameP.run V A src h h' -> absf V A der h' = absf V A der h).
Proof. exact independence. Qed.
Theorem C08_without_separation_independence_fails :
  mut_ok _ _ (cell_obj 0) h0 (append_to 0 7 h0) /\
  absf _ _ (cell_obj 0) (append_to 0 7 h0) <> absf _ _ (cell_obj 0) h0.
Proof. exact sharing_breaks_independence. Qed.

Example C08_nonvacuous :
  let a := ann_of 0 (Some "u"%string) None [((0, 4), NStr "x", NStr "a"); ((2, 6), NStr "_", NStr "b")] in
  abs (reads 0 a [RLabels []; RGetTimeline [] None; RChart []]) = abs a /\
  a_labels (reads 0 a [RLabels []]) <> a_labels a.
Proof. vm_compute. split; [reflexivity | discriminate]. Qed.

Print Assumptions C08_read_is_pure.
Print Assumptions C08_any_sequence_of_reads_is_pure.
Print Assumptions C08_reads_do_not_change_later_answers.
Print Assumptions C08_copy_starts_from_content_not_caches.
Print Assumptions C08_one_mutator_call_leaves_the_other_object_alone.
Print Assumptions C08_independence_for_every_history.
Print Assumptions C08_without_separation_independence_fails.
