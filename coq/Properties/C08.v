(* placeholder until proofs land *)
From PV Require Import Model.AnnotationOps.
Theorem C08_placeholder : True. Proof. exact I. Qed.
Print Assumptions C08_placeholder.
