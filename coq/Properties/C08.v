(* C08  Derived timelines/annotations are independent of their source; reads are pure.
   Two halves (DESIGN 4/C08):
   * purity -- proved here on the value model: every read query, although it refreshes caches,
     leaves the observable content (track map, uri, modality) unchanged, keeps the invariant, and
     does not influence the answer of any later read;
   * independence (no shared mutable state between a derived object and its source) -- a statement
     about aliasing that a value-semantics model cannot express; NOT proved: it is decided by the
     derive-then-mutate correspondence histories of this check (every deriving operation x cache
     state x mutated side), see level_note. Statements only. *)
From PV Require Import Model.AnnotationOps Proofs.AnnotationInvP Proofs.PurityP Check.C02.

Section C08.
Variable eps : Z.
Theorem C08_read_is_pure : forall a x, AInv eps a ->
  abs (fst (do_read eps a x)) = abs a /\ AInv eps (fst (do_read eps a x)).
Proof. exact (read_pure eps). Qed.
Theorem C08_any_sequence_of_reads_is_pure : forall xs a, AInv eps a ->
  abs (reads eps a xs) = abs a /\ AInv eps (reads eps a xs).
Proof. exact (reads_pure eps). Qed.
Theorem C08_reads_do_not_change_later_answers : forall xs a lab, AInv eps a ->
  c_segs (snd (label_timeline eps (reads eps a xs) lab)) = c_segs (snd (label_timeline eps a lab)) /\
  c_segs (snd (get_timeline eps (reads eps a xs))) = c_segs (snd (get_timeline eps a)) /\
  (forall l, In l (snd (labels eps (reads eps a xs))) <-> In l (snd (labels eps a))).
Proof. exact (reads_do_not_change_answers eps). Qed.
Theorem C08_copy_starts_from_content_not_caches : forall a,
  a_tracks (copy a) = a_tracks a /\ a_uri (copy a) = a_uri a /\ a_modality (copy a) = a_modality a.
Proof. exact copy_content. Qed.
End C08.

Example C08_nonvacuous :
  let a := ann_of 0 (Some "u"%string) None [((0, 4), NStr "x", NStr "a"); ((2, 6), NStr "_", NStr "b")] in
  abs (reads 0 a [RLabels []; RGetTimeline [] None; RChart []]) = abs a /\
  a_labels (reads 0 a [RLabels []]) <> a_labels a.
Proof. vm_compute. split; [reflexivity | discriminate]. Qed.

Print Assumptions C08_read_is_pure.
Print Assumptions C08_any_sequence_of_reads_is_pure.
Print Assumptions C08_reads_do_not_change_later_answers.
Print Assumptions C08_copy_starts_from_content_not_caches.
