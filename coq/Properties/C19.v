(* placeholder until proofs land *)
From PV Require Import Model.AnnotationOps.
Theorem C19_placeholder : True. Proof. exact I. Qed.
Print Assumptions C19_placeholder.
