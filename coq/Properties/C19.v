(* C19  Name generators never collide; random samplers stay inside their source.
   Statements only. The words themselves are the bijective base-26 numerals over A..Z (the i-th
   word has value i + 1), hence pairwise distinct -- for indices below 26^64 - 1, the fuel of the
   model's [word] (the implementation has no such bound; the model's [word] is compared with it on
   the first 800 values). to_annotation labels the segments of the timeline in order with the generated
   values, one '_' track each. Tied but not proved here: random_segment. *)
From PV Require Import Model.AnnotationOps Proofs.SupportP Proofs.DictP Proofs.AnnotationInvP Proofs.GeneratorsP Proofs.WordsP
  Proofs.AnnRenameTracksP Check.C19.

Theorem C19_int_generator : forall n, List.length (intgen_take n) = n /\
  forall k, (k < n)%nat -> nth k (intgen_take n) (-1) = Z.of_nat k.
Proof. exact intgen_spec. Qed.
Theorem C19_pairwise : forall (A : Type) (l : list A), pairwise l = combine l (tl l).
Proof. exact @pairwise_spec. Qed.

(* string_generator(skip): the unfiltered stream word 0, word 1, ... with the skipped labels
   removed -- order kept, nothing in skip ever yielded *)
Theorem C19_string_generator_without_skip : forall n,
  strgen_take n [] = map (fun k => word (Z.of_nat k)) (seq 0 n).
Proof. exact strgen_noskip. Qed.
Theorem C19_words_are_bijective_base_26 : forall i, 0 <= i < word_bound ->
  valL 0 (word i) = i + 1 /\ all_caps (word i).
Proof. exact (fun i H => conj (word_value i H) (word_caps i)). Qed.
Theorem C19_words_never_collide : forall i j, 0 <= i < word_bound -> 0 <= j < word_bound ->
  word i = word j -> i = j.
Proof. exact word_inj. Qed.
Theorem C19_string_generator_never_yields_skipped : forall n skip w,
  In w (strgen_take n skip) -> str_in w skip = false.
Proof. exact strgen_never_yields_skipped. Qed.
Theorem C19_string_generator_is_filtered_stream : forall n skip,
  exists idx, strgen_take n skip = map word idx /\ increasing_from 0 idx /\
              forall j, In j idx -> str_in (word j) skip = false.
Proof. exact strgen_is_filtered_stream. Qed.

(* Annotation.new_track: the candidate when free, else an unused name: prefix + least free integer *)
Theorem C19_new_track : forall a s candidate prefix,
  let existing := get_tracks a s in
  let r := new_track a s candidate prefix in
  (forall c, candidate = Some c -> ~ In c existing -> r = c) /\
  ((candidate = None \/ exists c, candidate = Some c /\ In c existing) -> ~ In r existing).
Proof. exact new_track_spec. Qed.
Theorem C19_generated_name_is_least_free : forall prefix existing,
  exists k, 0 <= k /\ first_free (List.length existing) prefix 0 existing = cand prefix k /\
            forall j, 0 <= j < k -> In (cand prefix j) existing.
Proof. exact first_free_least. Qed.
Theorem C19_generated_name_is_fresh : forall prefix existing,
  ~ In (first_free (List.length existing) prefix 0 existing) existing.
Proof. exact first_free_fresh. Qed.

(* random_subsegment, for every random draw u = k/1024 in [0, 1) *)
Theorem C19_subsegment_fixed_duration : forall eps s dur k1 k2 r, 0 <= eps -> nonempty eps s = true ->
  0 <= k1 < 1024 -> 0 <= dur -> subseg s dur None k1 k2 eps = Some r ->
  st s * 1048576 <= st r /\ en r <= en s * 1048576 /\ en r - st r = dur * 1048576.
Proof. exact subseg_fixed_inside. Qed.
Theorem C19_subsegment_rejects_long_duration : forall eps s dur k1 k2, nonempty eps s = true ->
  (subseg s dur None k1 k2 eps = None <-> dur > en s - st s).
Proof. exact subseg_rejects_long. Qed.
Theorem C19_subsegment_min_duration : forall eps s dur md k1 k2 r, 0 <= eps -> nonempty eps s = true ->
  0 <= k1 < 1024 -> 0 <= k2 < 1024 -> 0 <= md <= dur -> subseg s dur (Some md) k1 k2 eps = Some r ->
  st s * 1048576 <= st r /\ en r <= en s * 1048576 /\ md * 1048576 <= en r - st r <= dur * 1048576.
Proof. exact subseg_min_inside. Qed.

Theorem C19_to_annotation_uses_generated_labels_in_order : forall eps t u m g, wf eps t -> gen_ok g (List.length t) ->
  exists r, to_annotation eps t u m g = Some r /\ AInv eps r /\
    (forall k s, nth_error t k = Some s -> getitem r s default_track = Some (gen_fun g k)) /\
    (forall s tr, getitem r s tr <> None -> In s t /\ tr = default_track) /\
    skeys (a_tracks r) = t /\
    a_uri r = u /\ a_modality r = m.
Proof. exact to_annotation_spec. Qed.

Theorem C19_to_annotation_refused_iff_names_run_out : forall eps t u m l, wf eps t -> NoDup l ->
  (to_annotation eps t u m (GList l) = None <-> (List.length l < List.length t)%nat).
Proof. exact to_annotation_refused_iff. Qed.

Example C19_nonvacuous :
  strgen_take 5 ["A"; "C"]%string = ["B"; "D"; "E"; "F"; "G"]%string /\
  word 26 = "AA"%string /\ word 701 = "ZZ"%string /\ word 702 = "AAA"%string /\
  first_free 3 "T" 0 [NStr "T0"; NStr "x"; NStr "T1"] = NStr "T2" /\
  to_annotation 0 [(0, 1); (2, 3)] None None (GList [NStr "only"]) = None.
Proof. vm_compute. repeat split. Qed.

Print Assumptions C19_int_generator.
Print Assumptions C19_pairwise.
Print Assumptions C19_string_generator_without_skip.
Print Assumptions C19_string_generator_never_yields_skipped.
Print Assumptions C19_string_generator_is_filtered_stream.
Print Assumptions C19_new_track.
Print Assumptions C19_generated_name_is_least_free.
Print Assumptions C19_generated_name_is_fresh.
Print Assumptions C19_subsegment_fixed_duration.
Print Assumptions C19_subsegment_rejects_long_duration.
Print Assumptions C19_subsegment_min_duration.
Print Assumptions C19_words_are_bijective_base_26.
Print Assumptions C19_words_never_collide.
Print Assumptions C19_to_annotation_uses_generated_labels_in_order.
Print Assumptions C19_to_annotation_refused_iff_names_run_out.
