(* placeholder until proofs land *)
From PV Require Import Model.Timeline.
Theorem C06_placeholder : True. Proof. exact I. Qed.
Print Assumptions C06_placeholder.
