(* C06  gaps, extrude and covers implement complement and difference exactly.
   Exact cell-level statements at eps = 0 (DESIGN 2.2/2.3): [covers_cell l k] says the
   unit cell [k, k+1] is covered by a member of l; [canonical] = strictly increasing,
   non-abutting, positive-length segments. Statements only. *)
From PV Require Import Model.Timeline Proofs.SortedP Proofs.SupportP Proofs.CropP Proofs.GapsP.

Section C06.
Variable t : list seg.
Hypothesis Ht : wf 0 t.
Variable S : sup.               (* a Segment or a Timeline *)
Hypothesis HS : sup_wf S.

(* gaps(S) is the canonical decomposition of the part of S the timeline does not cover *)
Theorem C06_gaps_cells : forall k,
  covers_cell (gaps 0 t (Some S)) k <-> (covers_cell (sup_list S) k /\ ~ covers_cell t k).
Proof. exact (gaps_cells t Ht S HS). Qed.
Theorem C06_gaps_canonical : canonical (gaps 0 t (Some S)).
Proof. exact (gaps_canonical t Ht S HS). Qed.
(* the default support is the extent *)
Theorem C06_gaps_default_support : gaps 0 t None = gaps 0 t (Some (SupSeg (extent_l t))).
Proof. reflexivity. Qed.

(* crop(S) and gaps(S) partition S *)
Theorem C06_crop_gaps_partition : forall k,
  (covers_cell (sup_list S) k <->
     covers_cell (crop 0 t S Inter) k \/ covers_cell (gaps 0 t (Some S)) k) /\
  ~ (covers_cell (crop 0 t S Inter) k /\ covers_cell (gaps 0 t (Some S)) k).
Proof. exact (crop_gaps_partition t Ht S HS). Qed.

(* taking gaps twice within S gives back the cropped support *)
Theorem C06_gaps_twice : gaps 0 (gaps 0 t (Some S)) (Some S) = support 0 0 (crop 0 t S Inter).
Proof. exact (gaps_gaps t S Ht HS). Qed.

(* extrude(R): complement of crop *)
Theorem C06_extrude_intersection : forall k,
  covers_cell (extrude 0 t S Inter) k <-> (covers_cell t k /\ ~ covers_cell (sup_list S) k).
Proof. exact (extrude_intersection_cells t Ht S HS). Qed.
Theorem C06_extrude_loose : forall x,
  In x (extrude 0 t S Loose) <->
  (In x t /\ forall k, st x <= k < en x -> ~ covers_cell (sup_list S) k).
Proof. exact (extrude_loose_spec t Ht S HS). Qed.
Theorem C06_extrude_strict : forall x,
  In x (extrude 0 t S Strict) <->
  (In x t /\ exists k, st x <= k < en x /\ ~ covers_cell (sup_list S) k).
Proof. exact (extrude_strict_spec t Ht S HS). Qed.

(* covers(other): no time point of other lies outside the timeline *)
Variable o : list seg.
Hypothesis Ho : wf 0 o.
Theorem C06_covers : covers 0 t o = true <-> forall k, covers_cell o k -> covers_cell t k.
Proof. exact (covers_spec t o Ht Ho). Qed.
End C06.

Example C06_nonvacuous :
  wf 0 [(0,2); (1,2); (3,5)] /\
  gaps 0 [(0,2); (1,2); (3,5)] (Some (SupSeg (-1,7))) = [(-1,0); (2,3); (5,7)] /\
  extrude 0 [(0,2); (1,2); (3,5)] (SupSeg (1,2)) Inter = [(0,1); (3,5)] /\
  extrude 0 [(0,2); (1,2); (3,5)] (SupSeg (1,3)) Loose = [(3,5)] /\
  extrude 0 [(0,2); (1,2); (3,5)] (SupSeg (1,3)) Strict = [(0,2); (3,5)] /\
  covers 0 [(0,2); (1,2); (3,5)] [(1,2); (4,5)] = true /\
  covers 0 [(0,2); (1,2); (3,5)] [(1,4)] = false.
Proof. split; [split; repeat constructor | vm_compute; repeat split]. Qed.

Print Assumptions C06_gaps_cells.
Print Assumptions C06_gaps_canonical.
Print Assumptions C06_gaps_default_support.
Print Assumptions C06_crop_gaps_partition.
Print Assumptions C06_gaps_twice.
Print Assumptions C06_extrude_intersection.
Print Assumptions C06_extrude_loose.
Print Assumptions C06_extrude_strict.
Print Assumptions C06_covers.
