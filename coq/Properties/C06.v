(* C06  gaps, extrude and covers implement complement and difference exactly.
   Exact cell-level statements at eps = 0 (DESIGN 2.2/2.3): [covers_cell l k] says the
   unit cell [k, k+1] is covered by a member of l; [canonical] = strictly increasing,
   non-abutting, positive-length segments. Statements only. *)
From PV Require Import Model.Timeline Proofs.SortedP Proofs.SupportP Proofs.CropP Proofs.GapsP Proofs.GapsEpsP.

Section C06.
Variable t : list seg.
Hypothesis Ht : wf 0 t.
Variable S : sup.               (* a Segment or a Timeline *)
Hypothesis HS : sup_wf S.

(* gaps(S) is the canonical decomposition of the part of S the timeline does not cover *)
Theorem C06_gaps_cells : forall k,
  covers_cell (gaps 0 t (Some S)) k <-> (covers_cell (sup_list S) k /\ ~ covers_cell t k).
Proof. exact (gaps_cells t Ht S HS). Qed.
Theorem C06_gaps_canonical : canonical (gaps 0 t (Some S)).
Proof. exact (gaps_canonical t Ht S HS). Qed.
(* the default support is the extent *)
Theorem C06_gaps_default_support : gaps 0 t None = gaps 0 t (Some (SupSeg (extent_l t))).
Proof. reflexivity. Qed.

(* crop(S) and gaps(S) partition S *)
Theorem C06_crop_gaps_partition : forall k,
  (covers_cell (sup_list S) k <->
     covers_cell (crop 0 t S Inter) k \/ covers_cell (gaps 0 t (Some S)) k) /\
  ~ (covers_cell (crop 0 t S Inter) k /\ covers_cell (gaps 0 t (Some S)) k).
Proof. exact (crop_gaps_partition t Ht S HS). Qed.

(* taking gaps twice within S gives back the cropped support *)
Theorem C06_gaps_twice : gaps 0 (gaps 0 t (Some S)) (Some S) = support 0 0 (crop 0 t S Inter).
Proof. exact (gaps_gaps t S Ht HS). Qed.

(* extrude(R): complement of crop *)
Theorem C06_extrude_intersection : forall k,
  covers_cell (extrude 0 t S Inter) k <-> (covers_cell t k /\ ~ covers_cell (sup_list S) k).
Proof. exact (extrude_intersection_cells t Ht S HS). Qed.
Theorem C06_extrude_loose : forall x,
  In x (extrude 0 t S Loose) <->
  (In x t /\ forall k, st x <= k < en x -> ~ covers_cell (sup_list S) k).
Proof. exact (extrude_loose_spec t Ht S HS). Qed.
Theorem C06_extrude_strict : forall x,
  In x (extrude 0 t S Strict) <->
  (In x t /\ exists k, st x <= k < en x /\ ~ covers_cell (sup_list S) k).
Proof. exact (extrude_strict_spec t Ht S HS). Qed.

(* covers(other): no time point of other lies outside the timeline *)
Variable o : list seg.
Hypothesis Ho : wf 0 o.
Theorem C06_covers : covers 0 t o = true <-> forall k, covers_cell o k -> covers_cell t k.
Proof. exact (covers_spec t o Ht Ho). Qed.
End C06.

(* ---- every time precision eps >= 0 (the library default, one microsecond, is eps = 4 in regime K4) ----
   With a precision a hole no longer than eps is an EMPTY segment and is not reported, so the complement is exact
   only up to such slivers.  [merged_crop eps t x] = support(crop(t, x)): the annotated part of x as the library sees it. *)
Section C06_eps.
Variable eps : Z.
Hypothesis Heps : 0 <= eps.
Variable t : list seg.
Hypothesis Ht : wf eps t.

(* every reported gap is longer than eps, inside the support segment, and disjoint from every merged piece *)
Theorem C06_eps_gaps_sound : forall x g, In g (gaps eps t (Some (SupSeg x))) ->
  en g - st g > eps /\ st x <= st g /\ en g <= en x /\
  (forall s, In s (merged_crop eps t x) -> en g <= st s \/ en s <= st g).
Proof. exact (gaps_segment_sound eps Heps t Ht). Qed.
(* ... in particular from every stretch of a member that survives the crop *)
Theorem C06_eps_gaps_avoid_members : forall x g a k,
  In g (gaps eps t (Some (SupSeg x))) -> In a t -> nonempty eps (sand a x) = true ->
  Z.max (st a) (st x) <= k < Z.min (en a) (en x) -> ~ (st g <= k < en g).
Proof. exact (gaps_segment_avoids_members eps Heps t Ht). Qed.
(* every time point of the support segment is annotated, in a reported gap, or in a sliver no longer than eps
   bounded by merged pieces / the ends of the support *)
Theorem C06_eps_gaps_complete : forall x k, st x <= k < en x ->
  covers_cell (merged_crop eps t x) k \/ covers_cell (gaps eps t (Some (SupSeg x))) k
  \/ sliver eps (st x) (en x) (merged_crop eps t x) k.
Proof. exact (gaps_segment_complete eps Heps t Ht). Qed.
(* Timeline supports: the same, region by region of the merged support *)
Theorem C06_eps_gaps_timeline_sound : forall l g, In g (gaps eps t (Some (SupTl l))) ->
  exists r, In r (support eps 0 l) /\
    en g - st g > eps /\ st r <= st g /\ en g <= en r /\
    (forall s, In s (merged_crop eps t r) -> en g <= st s \/ en s <= st g).
Proof. exact (gaps_timeline_sound eps Heps t Ht). Qed.
Theorem C06_eps_gaps_timeline_complete : forall l r k, In r (support eps 0 l) -> st r <= k < en r ->
  covers_cell (merged_crop eps t r) k \/ covers_cell (gaps eps t (Some (SupTl l))) k
  \/ sliver eps (st r) (en r) (merged_crop eps t r) k.
Proof. exact (gaps_timeline_complete eps Heps t Ht). Qed.
(* covers(other): no reported gap within other's extent intersects a member of other *)
Theorem C06_eps_covers : forall o, wf eps o ->
  (covers eps t o = true <->
   forall g x, In g (gaps eps t (Some (SupSeg (extent_l o)))) -> In x o -> intersects eps g x = false).
Proof. exact (covers_eps_spec eps Heps t). Qed.
End C06_eps.
(* extrude(removed, mode), every precision: crop on the regions [kept_regions] = gaps of `removed` within the extent
   (described by the four theorems above), loose and strict swapped *)
Section C06_eps_extrude.
Variable eps : Z.
Hypothesis Heps : 0 <= eps.
Variable t : list seg.
Hypothesis Ht : wf eps t.
Hypothesis Hne : t <> [].
Variable R : sup.
Hypothesis HR : match R with SupSeg _ => True | SupTl l => wf eps l end.
Theorem C06_eps_extrude_intersection : forall y,
  In y (extrude eps t R Inter) <->
  exists x g, In x t /\ In g (kept_regions eps t R) /\ y = sand x g /\ nonempty eps y = true.
Proof. exact (extrude_inter_eps eps Heps t Ht Hne R HR). Qed.
Theorem C06_eps_extrude_loose : forall x,
  In x (extrude eps t R Loose) <-> In x t /\ exists g, In g (kept_regions eps t R) /\ sin g x = true.
Proof. exact (extrude_loose_eps eps Heps t Ht Hne R HR). Qed.
Theorem C06_eps_extrude_strict : forall x,
  In x (extrude eps t R Strict) <-> In x t /\ exists g, In g (kept_regions eps t R) /\ intersects eps x g = true.
Proof. exact (extrude_strict_eps eps Heps t Ht Hne R HR). Qed.
Theorem C06_eps_kept_regions : forall g, In g (kept_regions eps t R) ->
  en g - st g > eps /\ st (extent_l t) <= st g /\ en g <= en (extent_l t) /\
  (forall s, In s (merged_crop eps (removed_of eps R) (extent_l t)) -> en g <= st s \/ en s <= st g).
Proof. exact (kept_regions_sound eps Heps t R HR). Qed.
End C06_eps_extrude.
Example C06_eps_extrude_nonvacuous :
  wf 4 [(0,20); (23,40); (50,60)] /\
  kept_regions 4 [(0,20); (23,40); (50,60)] (SupSeg (18,52)) = [(0,18); (52,60)] /\
  extrude 4 [(0,20); (23,40); (50,60)] (SupSeg (18,52)) Inter = [(0,18); (52,60)] /\
  extrude 4 [(0,20); (23,40); (50,60)] (SupSeg (18,57)) Inter = [(0,18)] /\        (* (57,60) is not longer than eps *)
  extrude 4 [(0,20); (23,40); (50,60)] (SupSeg (18,52)) Loose = [] /\
  extrude 4 [(0,20); (23,40); (50,60)] (SupSeg (18,52)) Strict = [(0,20); (50,60)].
Proof. split; [split; repeat constructor | vm_compute; repeat split]. Qed.

(* at eps = 0 there is no sliver: the exact partition above *)
Theorem C06_no_sliver_at_zero : forall e stop c k, ~ sliver 0 e stop c k.
Proof. exact no_sliver_at_zero. Qed.

Example C06_eps_nonvacuous :
  wf 4 [(0,20); (23,40); (50,60)] /\
  gaps 4 [(0,20); (23,40); (50,60)] (Some (SupSeg (-10,70))) = [(-10,0); (40,50); (60,70)] /\
  merged_crop 4 [(0,20); (23,40); (50,60)] (-10,70) = [(0,40); (50,60)] /\
  gaps 4 [(0,20); (30,40)] (Some (SupSeg (-3,43))) = [(20,30)] /\         (* slivers (-3,0) and (40,43) not reported *)
  covers 4 [(0,20); (23,40)] [(1,39)] = true /\ covers 4 [(0,20); (25,40)] [(1,39)] = false.
Proof. split; [split; repeat constructor | vm_compute; repeat split]. Qed.

Example C06_nonvacuous :
  wf 0 [(0,2); (1,2); (3,5)] /\
  gaps 0 [(0,2); (1,2); (3,5)] (Some (SupSeg (-1,7))) = [(-1,0); (2,3); (5,7)] /\
  extrude 0 [(0,2); (1,2); (3,5)] (SupSeg (1,2)) Inter = [(0,1); (3,5)] /\
  extrude 0 [(0,2); (1,2); (3,5)] (SupSeg (1,3)) Loose = [(3,5)] /\
  extrude 0 [(0,2); (1,2); (3,5)] (SupSeg (1,3)) Strict = [(0,2); (3,5)] /\
  covers 0 [(0,2); (1,2); (3,5)] [(1,2); (4,5)] = true /\
  covers 0 [(0,2); (1,2); (3,5)] [(1,4)] = false.
Proof. split; [split; repeat constructor | vm_compute; repeat split]. Qed.

Print Assumptions C06_gaps_cells.
Print Assumptions C06_gaps_canonical.
Print Assumptions C06_gaps_default_support.
Print Assumptions C06_crop_gaps_partition.
Print Assumptions C06_gaps_twice.
Print Assumptions C06_extrude_intersection.
Print Assumptions C06_extrude_loose.
Print Assumptions C06_extrude_strict.
Print Assumptions C06_covers.
Print Assumptions C06_eps_gaps_sound.
Print Assumptions C06_eps_gaps_avoid_members.
Print Assumptions C06_eps_gaps_complete.
Print Assumptions C06_eps_gaps_timeline_sound.
Print Assumptions C06_eps_gaps_timeline_complete.
Print Assumptions C06_eps_covers.
Print Assumptions C06_no_sliver_at_zero.
Print Assumptions C06_eps_extrude_intersection.
Print Assumptions C06_eps_extrude_loose.
Print Assumptions C06_eps_extrude_strict.
Print Assumptions C06_eps_kept_regions.
