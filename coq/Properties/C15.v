(* placeholder until proofs land *)
From PV Require Import Model.Window.
Theorem C15_placeholder : True. Proof. exact I. Qed.
Print Assumptions C15_placeholder.
