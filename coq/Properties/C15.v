(* C15  SlidingWindow.crop returns exactly the frames its loose/strict/center mode picks.
   Exact tier (integer ticks, exact quotients); the float side is tied by the correspondence.
   Statements only. *)
From PV Require Import Model.Window Proofs.SupportP Proofs.WindowP Proofs.RangesP.
From Coq Require Reals.
From PV Require Proofs.RoundFloatP.

Section C15.
Variable w : win.
Hypothesis Hstep : 0 < w_step w.
Hypothesis Hdur : 0 < w_dur w.
Variable f : seg.

(* 'loose': exactly the frames whose window touches the focus (closed intervals) *)
Theorem C15_loose : forall i,
  (fst (crop_range w f ALoose None) <= i < snd (crop_range w f ALoose None)) <->
  (st (pos_seg w i) <= en f /\ st f <= en (pos_seg w i)).
Proof. exact (crop_loose_spec w Hstep f). Qed.
(* 'strict': exactly the frames whose window lies inside the focus *)
Theorem C15_strict : forall i,
  (fst (crop_range w f AStrict None) <= i < snd (crop_range w f AStrict None)) <->
  (st f <= st (pos_seg w i) /\ en (pos_seg w i) <= en f).
Proof. exact (crop_strict_spec w Hstep f). Qed.
Theorem C15_strict_subset_of_loose : forall i,
  (fst (crop_range w f AStrict None) <= i < snd (crop_range w f AStrict None)) ->
  (fst (crop_range w f ALoose None) <= i < snd (crop_range w f ALoose None)).
Proof. exact (crop_strict_sub_loose 0 (Z.le_refl 0) w Hdur Hstep f). Qed.
(* 'center': from the frame nearest the focus start to the frame nearest its end *)
Theorem C15_center : crop_range w f ACenter None = (closest_frame w (st f), closest_frame w (en f) + 1).
Proof. exact (crop_center_spec w f). Qed.
(* with `fixed`: exactly samples(fixed, mode) frames wherever the focus lies *)
Theorem C15_fixed_count : forall m d,
  snd (crop_range w f m (Some d)) - fst (crop_range w f m (Some d)) = samples w d m.
Proof. exact (crop_fixed_count w f). Qed.
(* the index array enumerates the half-open range, increasing and duplicate free *)
Theorem C15_index_array : forall i j k, In k (zrange i j) <-> i <= k < j.
Proof. exact zrange_In. Qed.
End C15.

(* Timeline focus: the sorted, duplicate-free union over the focus's support segments; empty for an empty focus *)
Theorem C15_timeline_focus : forall eps w focus m,
  zincreasing (crop_indices_tl eps w focus m) /\
  forall k, In k (crop_indices_tl eps w focus m) <->
            exists s, In s (support eps 0 focus) /\
                      fst (crop_range w s m None) <= k < snd (crop_range w s m None).
Proof. exact crop_indices_tl_spec. Qed.
Theorem C15_empty_focus : forall eps w m, crop_indices_tl eps w [] m = [] /\ crop_ranges_tl eps w [] m = [].
Proof. exact crop_empty_focus. Qed.

(* return_ranges=True: [cov rs k] = some half-open run (i, j) of rs has i <= k < j; [sep] = each run
   starts after the previous one ends. The runs describe exactly the index set of the index array. *)
Theorem C15_ranges_describe_the_same_index_set : forall eps w focus m, 0 <= eps -> 0 < w_step w -> wf eps focus ->
  forall k, cov (crop_ranges_tl eps w focus m) k <-> In k (crop_indices_tl eps w focus m).
Proof. exact ranges_same_set. Qed.
Theorem C15_ranges_are_separated_runs : forall eps w focus m, 0 <= eps -> 0 < w_step w -> wf eps focus ->
  (forall k, cov (crop_ranges_tl eps w focus m) k <->
             exists s, In s (support eps 0 focus) /\ in_r (crop_range w s m None) k) /\
  sep (crop_ranges_tl eps w focus m).
Proof. exact crop_ranges_tl_spec. Qed.

(* samples(d, mode) is a count: never negative, 0 in strict mode when d is shorter than the window
   (after the repair of finding F12; the pre-repair strict formula is refuted) *)
Theorem C15_crop_ignores_the_windows_own_end : forall d s st0 e1 e2,
  let w1 := mkWin d s st0 e1 in
  let w2 := mkWin d s st0 e2 in
  (forall f m fx, crop_range w1 f m fx = crop_range w2 f m fx) /\
  (forall eps foc m, crop_ranges_tl eps w1 foc m = crop_ranges_tl eps w2 foc m) /\
  (forall eps foc m, crop_indices_tl eps w1 foc m = crop_indices_tl eps w2 foc m) /\
  (forall dd m, samples w1 dd m = samples w2 dd m).
Proof. exact crop_ignores_own_end. Qed.
Theorem C15_samples_is_never_negative : forall w d m, 0 < w_step w -> 0 < w_dur w -> 0 <= d -> 0 <= samples w d m.
Proof. exact samples_nonneg. Qed.
Theorem C15_no_frame_fits_in_less_than_a_window : forall w d, 0 < w_step w -> d < w_dur w -> samples w d AStrict = 0.
Proof. exact samples_strict_zero_when_too_short. Qed.
Theorem C15_old_strict_count_refuted :
  exists w d, 0 < w_step w /\ 0 < w_dur w /\ 0 <= d /\ fdiv (d - w_dur w) (w_step w) + 1 < 0.
Proof. exact old_strict_count_refuted. Qed.

(* ---- binary64 level (tolerance tier of the correspondence, Check/C15.v: KSegF) ----
   A frame index of crop() before its final ceil / floor / rint is ((x1 - x2) - x3) / step  (loose start: focus.start,
   duration, start; strict end: focus.end, duration, start; with x3 = 0: loose end and strict start; centre: t, start,
   duration / 2).  Computed with every operation rounded to nearest-even binary64 it is within 8 * 2^-53 * (sum of
   operand magnitudes) / step of the exact quotient: the band the checker accepts (2^-40 relative) is 2^10 times wider, so
   a correct implementation is never flagged, while an index one frame off is.  Uses the real-number axioms. *)
Module Binary64.
Import Reals. Local Open Scope R_scope.
Theorem C15_binary64_frame_quotient_error : forall x1 x2 x3 step : R, 0 < step ->
  Rabs (RoundFloatP.rnd64 (RoundFloatP.rnd64 (RoundFloatP.rnd64 (x1 - x2) - x3) / step) - (x1 - x2 - x3) / step)
  <= 8 * RoundFloatP.u64 * (Rabs x1 + Rabs x2 + Rabs x3) / step + 8 * RoundFloatP.eta64 * (/ step + 1).
Proof. exact RoundFloatP.binary64_quotient_error. Qed.
End Binary64.

Example C15_nonvacuous :
  crop_range (mkWin 2 1 0 None) (3, 7) ALoose None = (1, 8) /\
  crop_range (mkWin 2 1 0 None) (3, 7) AStrict None = (3, 6) /\
  crop_range (mkWin 2 1 0 None) (3, 7) ACenter None = (2, 7) /\
  crop_ranges_tl 0 (mkWin 2 1 0 None) [(0, 2); (3, 4); (9, 12)] ALoose = [(-2, 5); (7, 13)].
Proof. vm_compute. repeat split. Qed.

Print Assumptions C15_loose.
Print Assumptions C15_strict.
Print Assumptions C15_strict_subset_of_loose.
Print Assumptions C15_center.
Print Assumptions C15_fixed_count.
Print Assumptions C15_index_array.
Print Assumptions C15_timeline_focus.
Print Assumptions C15_empty_focus.
Print Assumptions C15_ranges_describe_the_same_index_set.
Print Assumptions C15_ranges_are_separated_runs.
Print Assumptions C15_samples_is_never_negative.
Print Assumptions C15_crop_ignores_the_windows_own_end.
Print Assumptions C15_no_frame_fits_in_less_than_a_window.
Print Assumptions C15_old_strict_count_refuted.
Print Assumptions Binary64.C15_binary64_frame_quotient_error.
