(* C17  Discretisation / one-hot coding mark a frame active iff its centre is in the label.
   discretize and one_hot_encoding mark, per label, the union over the label's support segments r
   of the centre-mode frame ranges [closest_frame(r.start), closest_frame(r.end)] (clipped to the
   frame count). Proved here, for every window (step > 0) and every segment r, in doubled tick
   coordinates: a frame whose centre is at least one step inside r belongs to that range, a frame
   whose centre is at least one step outside r does not; decoding the run of a segment restores
   its start within half a step and places its end between 1/2 and 3/2 step too late -- so the
   "within one step per boundary" claim is REFUTED for offsets (known finding F7).
   Tied by the correspondence, not proved: the assembly of the matrices (clipping, saturation,
   -1 outside the support, label-list check, frame counts), checked on every case both exactly
   against the model and against the centre rule as a boolean specification. Statements only. *)
From PV Require Import Model.Discretize Proofs.WindowP Proofs.DiscretizeP.

Theorem C17_centre_one_step_inside_is_active : forall w, 0 < w_step w -> forall r f,
  2 * (st r + w_step w) <= centre2 w f <= 2 * (en r - w_step w) ->
  fst (crop_range w r ACenter None) <= f < snd (crop_range w r ACenter None).
Proof. exact centre_inside_in_range. Qed.
Theorem C17_centre_one_step_outside_is_inactive : forall w, 0 < w_step w -> forall r f,
  (centre2 w f <= 2 * (st r - w_step w) \/ 2 * (en r + w_step w) <= centre2 w f) ->
  ~ (fst (crop_range w r ACenter None) <= f < snd (crop_range w r ACenter None)).
Proof. exact centre_outside_not_in_range. Qed.
Theorem C17_decoded_onset_within_half_step : forall w, 0 < w_step w -> forall r,
  Z.abs (centre2 w (fst (crop_range w r ACenter None)) - 2 * st r) <= w_step w.
Proof. exact decode_onset_error. Qed.
Theorem C17_decoded_offset_half_to_three_halves_step_late : forall w, 0 < w_step w -> forall r,
  w_step w <= centre2 w (snd (crop_range w r ACenter None)) - 2 * en r <= 3 * w_step w.
Proof. exact decode_offset_error. Qed.
Theorem C17_one_step_per_boundary_refuted :
  exists w r, 0 < w_step w /\ centre2 w (snd (crop_range w r ACenter None)) - 2 * en r > 2 * w_step w.
Proof. exact decode_offset_refuted. Qed.

Example C17_nonvacuous :
  let a := ann_of 0 None None [((0, 8), NStr "_", NStr "a"); ((12, 20), NStr "_", NStr "b")] in
  option_map d_cols (discretize 0 a None 4 4 None None) = Some [[1; 1; 1; 0]; [0; 0; 1; 1]] /\
  option_map d_cols (one_hot_encoding 0 a (SupTl [(0, 10); (12, 20)]) 4 4 None)
    = Some [[1; 1; 1; 0; 0]; [0; 0; 1; 1; 1]].
Proof. vm_compute. repeat split. Qed.

Print Assumptions C17_centre_one_step_inside_is_active.
Print Assumptions C17_centre_one_step_outside_is_inactive.
Print Assumptions C17_decoded_onset_within_half_step.
Print Assumptions C17_decoded_offset_half_to_three_halves_step_late.
Print Assumptions C17_one_step_per_boundary_refuted.
