(* C17  Discretisation / one-hot coding mark a frame active iff its centre is in the label.
   discretize and one_hot_encoding mark, per label, the union over the label's support segments r
   of the centre-mode frame ranges [closest_frame(r.start), closest_frame(r.end)] (clipped to the
   frame count). Proved here, for every window (step > 0) and every segment r, in doubled tick
   coordinates: a frame whose centre is at least one step inside r belongs to that range, a frame
   whose centre is at least one step outside r does not; decoding the run of a segment restores
   its start within half a step and places its end between 1/2 and 3/2 step too late -- so the
   "within one step per boundary" claim is REFUTED for offsets (known finding F7).
   The assembly of the matrices is proved as well: discretize's window, frame count, label order
   and columns ([dval] is entry (frame, label) as computed): an entry is 1 exactly when the frame is
   in the centre-mode range of a segment of the label's support (clipping never wraps around), hence
   1 one step inside and 0 one step outside, and nothing but 0 / 1; the frame count without
   `duration` is within one frame of (support duration) / step. one_hot_encoding ([oval]): -1 on
   frames outside the support's ranges (given that the label's segments lie within support
   segments), 1 / 0 by membership in a label range inside, saturating; refusal when an explicit list
   misses a label. Decoding as a whole: the runs of active frames of a column whose active frames are
   those covered by separated non-empty ranges are exactly those ranges, in order; for a column built
   by discretize they are the merged centre-mode ranges of the label's support clipped to the frame
   count (each then decodes with the per-run bounds above). Tied only: `labels` given in a different
   order for discretize (by the exact comparison). Statements only. *)
From PV Require Import Model.Discretize Proofs.SupportP Proofs.WindowP Proofs.AnnotationInvP Proofs.RangesP Proofs.DiscretizeP Proofs.DecodeP.

Theorem C17_centre_one_step_inside_is_active : forall w, 0 < w_step w -> forall r f,
  2 * (st r + w_step w) <= centre2 w f <= 2 * (en r - w_step w) ->
  fst (crop_range w r ACenter None) <= f < snd (crop_range w r ACenter None).
Proof. exact centre_inside_in_range. Qed.
Theorem C17_centre_one_step_outside_is_inactive : forall w, 0 < w_step w -> forall r f,
  (centre2 w f <= 2 * (st r - w_step w) \/ 2 * (en r + w_step w) <= centre2 w f) ->
  ~ (fst (crop_range w r ACenter None) <= f < snd (crop_range w r ACenter None)).
Proof. exact centre_outside_not_in_range. Qed.
Theorem C17_decoded_onset_within_half_step : forall w, 0 < w_step w -> forall r,
  Z.abs (centre2 w (fst (crop_range w r ACenter None)) - 2 * st r) <= w_step w.
Proof. exact decode_onset_error. Qed.
Theorem C17_decoded_offset_half_to_three_halves_step_late : forall w, 0 < w_step w -> forall r,
  w_step w <= centre2 w (snd (crop_range w r ACenter None)) - 2 * en r <= 3 * w_step w.
Proof. exact decode_offset_error. Qed.
Theorem C17_one_step_per_boundary_refuted :
  exists w r, 0 < w_step w /\ centre2 w (snd (crop_range w r ACenter None)) - 2 * en r > 2 * w_step w.
Proof. exact decode_offset_refuted. Qed.

(* ---- Annotation.discretize: the matrix ---- *)
Theorem C17_discretize_shape : forall eps a support rdur rstep labs duration d,
  discretize eps a support rdur rstep labs duration = Some d ->
  let sup := match support with Some s => s | None => extent_l (tl_of eps (map fst (a_tracks a))) end in
  let cropped := crop_ann eps a (SupSeg sup) Inter in
  let c1 := fst (labels eps cropped) in
  win_make rdur rstep (st sup) None = Some (d_win d) /\
  d_frames d = match duration with
               | None => closest_frame (d_win d) (en sup) - closest_frame (d_win d) (st sup)
               | Some x => rhe x rstep
               end /\
  0 <= d_frames d /\
  d_labels d = match labs with Some l => l | None => snd (labels eps cropped) end /\
  d_cols d = map (fun l => map (dval eps c1 (d_win d) (d_frames d) l) (zrange 0 (d_frames d))) (d_labels d).
Proof. exact discretize_shape. Qed.
Theorem C17_discretize_source_satisfies_invariant : forall eps, 0 <= eps -> forall a sup, AInv eps a ->
  AInv eps (fst (labels eps (crop_ann eps a (SupSeg sup) Inter))).
Proof. exact discretize_source_inv. Qed.
Theorem C17_discretize_entry : forall eps, 0 <= eps -> forall c1 w n l f, AInv eps c1 -> 0 < w_step w -> 0 <= f < n ->
  (dval eps c1 w n l f = 1 <->
   exists s, In s (support eps 0 (lab_tl eps (a_tracks c1) l)) /\ in_r (crop_range w s ACenter None) f) /\
  (dval eps c1 w n l f = 0 \/ dval eps c1 w n l f = 1).
Proof. exact dval_spec. Qed.
Theorem C17_discretize_one_when_centre_one_step_inside : forall eps, 0 <= eps -> forall c1 w n l f s,
  AInv eps c1 -> 0 < w_step w -> 0 <= f < n -> In s (support eps 0 (lab_tl eps (a_tracks c1) l)) ->
  2 * (st s + w_step w) <= centre2 w f <= 2 * (en s - w_step w) -> dval eps c1 w n l f = 1.
Proof. exact dval_one_inside. Qed.
Theorem C17_discretize_zero_when_centre_one_step_outside : forall eps, 0 <= eps -> forall c1 w n l f,
  AInv eps c1 -> 0 < w_step w -> 0 <= f < n ->
  (forall s, In s (support eps 0 (lab_tl eps (a_tracks c1) l)) ->
             centre2 w f <= 2 * (st s - w_step w) \/ 2 * (en s + w_step w) <= centre2 w f) ->
  dval eps c1 w n l f = 0.
Proof. exact dval_zero_outside. Qed.
Theorem C17_frame_count_within_one_frame : forall w t0 t1, 0 < w_step w ->
  Z.abs ((closest_frame w t1 - closest_frame w t0) * w_step w - (t1 - t0)) <= w_step w.
Proof. exact frames_within_one. Qed.

(* ---- one_hot_encoding: the matrix ---- *)
Theorem C17_one_hot_shape : forall eps a support wdur wstep labs d,
  one_hot_encoding eps a support wdur wstep labs = Some d ->
  let extent := match support with SupSeg s => s | SupTl l => extent_l l end in
  let sup_l := match support with SupSeg s => tl_of eps [s] | SupTl l => l end in
  win_make wdur wstep (st extent) None = Some (d_win d) /\
  d_frames d = samples (d_win d) (duration eps extent) ACenter /\
  d_labels d = match labs with Some l => l | None => snd (labels eps a) end /\
  (forall l, In l (snd (labels eps a)) -> name_in l (d_labels d) = true) /\
  d_cols d = map (onehot_col eps (fst (labels eps a)) (snd (labels eps a)) (d_win d) (d_frames d) sup_l) (d_labels d).
Proof. exact one_hot_shape. Qed.
Theorem C17_one_hot_refuses_missing_label : forall eps a support wdur wstep L l,
  In l (snd (labels eps a)) -> name_in l L = false -> one_hot_encoding eps a support wdur wstep (Some L) = None.
Proof. exact one_hot_refuses. Qed.
Theorem C17_one_hot_entry : forall known rs n f, 0 <= f < n ->
  (~ cov known f -> (forall k, cov rs k -> cov known k) -> oval known rs n f = -1) /\
  (cov known f -> cov rs f -> oval known rs n f = 1) /\
  (cov known f -> ~ cov rs f -> oval known rs n f = 0).
Proof. exact oval_spec. Qed.
Theorem C17_label_ranges_within_support_ranges : forall eps, 0 <= eps -> forall w sup_l segs,
  0 < w_step w -> wf eps sup_l -> wf eps segs ->
  (forall s, In s (support eps 0 segs) -> exists S, In S (support eps 0 sup_l) /\ st S <= st s /\ en s <= en S) ->
  forall k, cov (crop_ranges_tl eps w segs ACenter) k -> cov (crop_ranges_tl eps w sup_l ACenter) k.
Proof. exact label_ranges_within_support. Qed.

(* ---- one_hot_decoding as a whole ---- *)
Theorem C17_runs_of_a_column_are_its_separated_ranges : forall (c : Z -> Z) n rs f, f <= n -> sep rs -> ok_ranges n f rs ->
  (forall k, f <= k < n -> (c k = 1 <-> cov rs k) /\ (c k = 0 \/ c k = 1)) ->
  runs (map c (zrange f n)) f None = rs.
Proof. exact runs_of_separated_ranges. Qed.
Theorem C17_decoded_runs_of_a_discretize_column : forall eps, 0 <= eps -> forall c1 w n l,
  AInv eps c1 -> 0 < w_step w -> 0 <= n ->
  runs (map (dval eps c1 w n l) (zrange 0 n)) 0 None =
  clipn n (crop_ranges_tl eps w (lab_tl eps (a_tracks c1) l) ACenter).
Proof. exact decode_column. Qed.

Example C17_nonvacuous :
  let a := ann_of 0 None None [((0, 8), NStr "_", NStr "a"); ((12, 20), NStr "_", NStr "b")] in
  option_map d_cols (discretize 0 a None 4 4 None None) = Some [[1; 1; 1; 0]; [0; 0; 1; 1]] /\
  option_map d_cols (one_hot_encoding 0 a (SupTl [(0, 10); (12, 20)]) 4 4 None)
    = Some [[1; 1; 1; 0; 0]; [0; 0; 1; 1; 1]].
Proof. vm_compute. repeat split. Qed.

Print Assumptions C17_centre_one_step_inside_is_active.
Print Assumptions C17_centre_one_step_outside_is_inactive.
Print Assumptions C17_decoded_onset_within_half_step.
Print Assumptions C17_decoded_offset_half_to_three_halves_step_late.
Print Assumptions C17_one_step_per_boundary_refuted.
Print Assumptions C17_discretize_shape.
Print Assumptions C17_discretize_source_satisfies_invariant.
Print Assumptions C17_discretize_entry.
Print Assumptions C17_discretize_one_when_centre_one_step_inside.
Print Assumptions C17_discretize_zero_when_centre_one_step_outside.
Print Assumptions C17_frame_count_within_one_frame.
Print Assumptions C17_one_hot_shape.
Print Assumptions C17_one_hot_refuses_missing_label.
Print Assumptions C17_one_hot_entry.
Print Assumptions C17_label_ranges_within_support_ranges.
Print Assumptions C17_runs_of_a_column_are_its_separated_ranges.
Print Assumptions C17_decoded_runs_of_a_discretize_column.
