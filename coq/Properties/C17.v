(* placeholder until proofs land *)
From PV Require Import Model.Discretize.
Theorem C17_placeholder : True. Proof. exact I. Qed.
Print Assumptions C17_placeholder.
