(* C07  Cropping or extruding an annotation never loses, duplicates or relabels a track.
   Proved: in 'loose' and 'strict' mode the result is the restriction of the track map to the
   selected segments (whole segments; every track keeps name and label; an unselected segment is
   absent); uri and modality are carried over in all three modes; extrude IS crop on the gaps of
   `removed` within the extent with loose and strict swapped; in 'intersection' mode the name used
   for every inserted track is the original name when free on the piece and otherwise a name not in
   use there, so no insertion overwrites an earlier one (pigeonhole proof in C19).
   In 'intersection' mode the result holds, as a multiset of (segment, label), exactly one
   (s & r, label) per original track (s, t, label) and support region r intersecting s (every such
   pair, each once), and satisfies the annotation invariant (so names are distinct per segment);
   and for every label, at eps = 0 and counted on unit cells, the time covered in crop(S) plus the
   time covered in extrude(S) equals the time covered in the original.
   Tied by the correspondence, not proved: which of two colliding tracks gets the generated name
   (iteration-order dependent; checked by exact agreement, verdict 2) and the measure identity for
   eps > 0 (where it holds only up to the precision). Statements only. *)
From PV Require Import Model.AnnotationOps Proofs.SupportP Proofs.AnnotationInvP Proofs.AnnCropP
  Proofs.DictP Proofs.GapsP Proofs.AnnCropInterP Proofs.CommuteP Proofs.DerivedInvP.

Section C07.
Variable eps : Z.
Hypothesis Heps : 0 <= eps.

Theorem C07_crop_loose_keeps_whole_selected_segments : forall a S s, AInv eps a ->
  sd_get s (a_tracks (crop_ann eps a S Loose)) =
    if existsb (fun r => intersects eps s r) (norm_support eps S) then sd_get s (a_tracks a) else None.
Proof. exact (crop_loose_tracks eps Heps). Qed.
Theorem C07_crop_strict_keeps_whole_contained_segments : forall a S s, AInv eps a ->
  sd_get s (a_tracks (crop_ann eps a S Strict)) =
    if existsb (fun r => intersects eps s r && sin r s) (norm_support eps S) then sd_get s (a_tracks a) else None.
Proof. exact (crop_strict_tracks eps Heps). Qed.
Theorem C07_crop_carries_uri_and_modality : forall a S md,
  a_uri (crop_ann eps a S md) = a_uri a /\ a_modality (crop_ann eps a S md) = a_modality a.
Proof. exact (crop_meta eps). Qed.
Theorem C07_extrude_is_crop_on_the_complement : forall a removed md,
  extrude_ann eps a removed md =
  crop_ann eps a (SupTl (gaps eps (match removed with SupSeg x => tl_of eps [x] | SupTl l => l end)
                              (Some (SupTl (tl_of eps [extent_l (tl_of eps (map fst (a_tracks a)))])))))
           (swap_mode md).
Proof. exact (extrude_def eps). Qed.
Theorem C07_extrude_carries_uri_and_modality : forall a removed md,
  a_uri (extrude_ann eps a removed md) = a_uri a /\ a_modality (extrude_ann eps a removed md) = a_modality a.
Proof. exact (extrude_meta eps). Qed.
Theorem C07_intersection_never_overwrites : forall c i t,
  ~ In (new_track c i (Some t) None) (get_tracks c i) \/
  (new_track c i (Some t) None = t /\ ~ In t (get_tracks c i)).
Proof. exact inter_insertions_never_overwrite. Qed.
Theorem C07_intersection_one_track_per_track_and_region : forall a S, AInv eps a ->
  AInv eps (crop_ann eps a S Inter) /\
  Permutation (entries (a_tracks (crop_ann eps a S Inter)))
    (flat_map (fun p => map (fun tl_ : name * name => (sand (fst p) (snd p), snd tl_)) (tracks_at a (fst p)))
              (co_iter eps (skeys (a_tracks a)) (norm_support eps S))).
Proof. exact (crop_inter_entries eps Heps). Qed.
Theorem C07_intersection_pairs_are_all_intersecting_pairs_once : forall a S s r, AInv eps a ->
  (In (s, r) (co_iter eps (skeys (a_tracks a)) (norm_support eps S)) <->
   In s (skeys (a_tracks a)) /\ In r (norm_support eps S) /\ intersects eps s r = true) /\
  NoDup (co_iter eps (skeys (a_tracks a)) (norm_support eps S)).
Proof. exact (crop_inter_pairs eps Heps). Qed.
(* every crop / extrude result is a proper annotation again (views fresh, no empty segment or track-less segment) *)
Theorem C07_crop_and_extrude_keep_the_invariant : forall a S md, AInv eps a ->
  AInv eps (crop_ann eps a S md) /\ AInv eps (extrude_ann eps a S md).
Proof. exact (fun a S md I => conj (AInv_crop eps Heps a S md I) (AInv_extrude eps Heps a S md I)). Qed.
(* consistency with the timeline level (C05 / C06): the segments of the cropped (extruded) annotation are
   the crop (extrusion) of the annotation's timeline, in every mode *)
Theorem C07_timeline_of_crop_is_crop_of_timeline : forall a S md, AInv eps a ->
  skeys (a_tracks (crop_ann eps a S md)) = crop eps (skeys (a_tracks a)) S md.
Proof. exact (crop_commutes eps Heps). Qed.
Theorem C07_timeline_of_extrude_is_extrude_of_timeline : forall a R md, AInv eps a ->
  skeys (a_tracks (extrude_ann eps a R md)) = extrude eps (skeys (a_tracks a)) R md.
Proof. exact (extrude_commutes eps Heps). Qed.
End C07.

Theorem C07_label_cells_of_crop : forall a, AInv 0 a -> forall S l k, sup_wf S ->
  (covers_cell (label_segments (a_tracks (crop_ann 0 a S Inter)) l) k <->
   covers_cell (label_segments (a_tracks a) l) k /\ covers_cell (sup_list S) k).
Proof. exact crop_inter_label_cells. Qed.
Theorem C07_label_cells_of_extrude : forall a, AInv 0 a -> forall Rm l k, sup_wf Rm ->
  (covers_cell (label_segments (a_tracks (extrude_ann 0 a Rm Inter)) l) k <->
   covers_cell (label_segments (a_tracks a) l) k /\ ~ covers_cell (sup_list Rm) k).
Proof. exact extrude_inter_label_cells. Qed.
Theorem C07_crop_time_plus_extrude_time_is_original_time : forall a, AInv 0 a -> forall S l lo n, sup_wf S ->
  (forall s, In s (skeys (a_tracks a)) -> lo <= st s /\ en s <= lo + Z.of_nat n) ->
  snd (label_duration 0 (crop_ann 0 a S Inter) l) + snd (label_duration 0 (extrude_ann 0 a S Inter) l)
  = snd (label_duration 0 a l).
Proof. exact crop_extrude_label_time. Qed.

Example C07_nonvacuous :
  let a := ann_of 0 (Some "u"%string) None [((0, 10), NStr "x", NStr "A"); ((2, 10), NStr "x", NStr "B")] in
  itertracks (crop_ann 0 a (SupSeg (2, 12)) Inter) = [((2, 10), NStr "0", NStr "B"); ((2, 10), NStr "x", NStr "A")] /\
  itertracks (crop_ann 0 a (SupSeg (2, 12)) Strict) = [((2, 10), NStr "x", NStr "B")] /\
  itertracks (extrude_ann 0 a (SupSeg (2, 12)) Inter) = [((0, 2), NStr "x", NStr "A")] /\
  snd (label_duration 0 (crop_ann 0 a (SupSeg (2, 12)) Inter) (NStr "A")) = 8 /\
  snd (label_duration 0 (extrude_ann 0 a (SupSeg (2, 12)) Inter) (NStr "A")) = 2 /\
  snd (label_duration 0 a (NStr "A")) = 10.
Proof. vm_compute. repeat split. Qed.

Print Assumptions C07_crop_loose_keeps_whole_selected_segments.
Print Assumptions C07_crop_strict_keeps_whole_contained_segments.
Print Assumptions C07_crop_carries_uri_and_modality.
Print Assumptions C07_extrude_is_crop_on_the_complement.
Print Assumptions C07_extrude_carries_uri_and_modality.
Print Assumptions C07_intersection_never_overwrites.
Print Assumptions C07_intersection_one_track_per_track_and_region.
Print Assumptions C07_intersection_pairs_are_all_intersecting_pairs_once.
Print Assumptions C07_label_cells_of_crop.
Print Assumptions C07_label_cells_of_extrude.
Print Assumptions C07_crop_time_plus_extrude_time_is_original_time.
Print Assumptions C07_timeline_of_crop_is_crop_of_timeline.
Print Assumptions C07_timeline_of_extrude_is_extrude_of_timeline.
Print Assumptions C07_crop_and_extrude_keep_the_invariant.
