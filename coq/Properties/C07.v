(* C07  Cropping or extruding an annotation never loses, duplicates or relabels a track.
   Proved: in 'loose' and 'strict' mode the result is the restriction of the track map to the
   selected segments (whole segments; every track keeps name and label; an unselected segment is
   absent); uri and modality are carried over in all three modes; extrude IS crop on the gaps of
   `removed` within the extent with loose and strict swapped; in 'intersection' mode the name used
   for every inserted track is the original name when free on the piece and otherwise a name not in
   use there, so no insertion overwrites an earlier one (pigeonhole proof in C19).
   Tied by the correspondence, not proved: that the intersection-mode result holds exactly one
   track per (original track, region) request with the original label (checked on every case by the
   order-independent boolean specification [inter_spec] of Check/C07.v), and the per-label
   crop + extrude = original measure identity. Statements only. *)
From PV Require Import Model.AnnotationOps Proofs.SupportP Proofs.AnnotationInvP Proofs.AnnCropP.

Section C07.
Variable eps : Z.
Hypothesis Heps : 0 <= eps.

Theorem C07_crop_loose_keeps_whole_selected_segments : forall a S s, AInv eps a ->
  sd_get s (a_tracks (crop_ann eps a S Loose)) =
    if existsb (fun r => intersects eps s r) (norm_support eps S) then sd_get s (a_tracks a) else None.
Proof. exact (crop_loose_tracks eps Heps). Qed.
Theorem C07_crop_strict_keeps_whole_contained_segments : forall a S s, AInv eps a ->
  sd_get s (a_tracks (crop_ann eps a S Strict)) =
    if existsb (fun r => intersects eps s r && sin r s) (norm_support eps S) then sd_get s (a_tracks a) else None.
Proof. exact (crop_strict_tracks eps Heps). Qed.
Theorem C07_crop_carries_uri_and_modality : forall a S md,
  a_uri (crop_ann eps a S md) = a_uri a /\ a_modality (crop_ann eps a S md) = a_modality a.
Proof. exact (crop_meta eps). Qed.
Theorem C07_extrude_is_crop_on_the_complement : forall a removed md,
  extrude_ann eps a removed md =
  crop_ann eps a (SupTl (gaps eps (match removed with SupSeg x => tl_of eps [x] | SupTl l => l end)
                              (Some (SupTl (tl_of eps [extent_l (tl_of eps (map fst (a_tracks a)))])))))
           (swap_mode md).
Proof. exact (extrude_def eps). Qed.
Theorem C07_extrude_carries_uri_and_modality : forall a removed md,
  a_uri (extrude_ann eps a removed md) = a_uri a /\ a_modality (extrude_ann eps a removed md) = a_modality a.
Proof. exact (extrude_meta eps). Qed.
Theorem C07_intersection_never_overwrites : forall c i t,
  ~ In (new_track c i (Some t) None) (get_tracks c i) \/
  (new_track c i (Some t) None = t /\ ~ In t (get_tracks c i)).
Proof. exact inter_insertions_never_overwrite. Qed.
End C07.

Example C07_nonvacuous :
  let a := ann_of 0 (Some "u"%string) None [((0, 10), NStr "x", NStr "A"); ((2, 10), NStr "x", NStr "B")] in
  itertracks (crop_ann 0 a (SupSeg (2, 12)) Inter) = [((2, 10), NStr "0", NStr "B"); ((2, 10), NStr "x", NStr "A")] /\
  itertracks (crop_ann 0 a (SupSeg (2, 12)) Strict) = [((2, 10), NStr "x", NStr "B")] /\
  itertracks (extrude_ann 0 a (SupSeg (2, 12)) Inter) = [((0, 2), NStr "x", NStr "A")].
Proof. vm_compute. repeat split. Qed.

Print Assumptions C07_crop_loose_keeps_whole_selected_segments.
Print Assumptions C07_crop_strict_keeps_whole_contained_segments.
Print Assumptions C07_crop_carries_uri_and_modality.
Print Assumptions C07_extrude_is_crop_on_the_complement.
Print Assumptions C07_extrude_carries_uri_and_modality.
Print Assumptions C07_intersection_never_overwrites.
