(* placeholder until proofs land *)
From PV Require Import Model.Feature.
Theorem C16_placeholder : True. Proof. exact I. Qed.
Print Assumptions C16_placeholder.
