(* C16  Feature cropping returns the right rows, pads only on request, stays in bounds.
   Rows are abstract: a feature has n rows and row k is identified by its index k, so a
   crop result is the list of row indices it consists of. [ranges] are the half-open frame
   ranges requested from SlidingWindow.crop (C15). Modelled, not proved (asserted on the real
   objects by the harness): higher-dimensional rows, NumPy ufunc dispatch, align(). Statements only. *)
From PV Require Import Model.Feature Proofs.WindowP Proofs.FeatureP.

(* without `fixed`: in order, exactly the requested rows that exist -- fewer or none when the
   focus lies partly or wholly outside the data; no index outside [0, n) is ever produced *)
Theorem C16_rows_are_selected_and_existing : forall n ranges, 0 <= n ->
  fcrop_rows n ranges false
  = flat_map (fun r => filter (inb n) (zrange (fst r) (snd r))) ranges.
Proof. exact fcrop_rows_spec. Qed.
Theorem C16_rows_stay_in_bounds : forall n ranges k, 0 <= n ->
  In k (fcrop_rows n ranges false) -> 0 <= k < n.
Proof. exact fcrop_rows_in_bounds. Qed.
(* with `fixed`: exactly as many rows as frames requested, out-of-range indices replaced by the
   first / last row *)
Theorem C16_fixed_pads_with_first_and_last : forall n a b, 0 < n -> a <= b ->
  fcrop_rows n [(a, b)] true = map (clamp n) (zrange a b).
Proof. exact fcrop_fixed_spec. Qed.
Theorem C16_fixed_row_count : forall n a b, 0 < n -> a <= b ->
  Z.of_nat (length (fcrop_rows n [(a, b)] true)) = b - a.
Proof. exact fcrop_fixed_length. Qed.
(* return_data=False: same step and duration (by construction), window starts at the first kept frame *)
Theorem C16_cropped_window_starts_at_first_kept_frame : forall w n f m rows s,
  fcrop_window w n f m = Some (rows, s) ->
  let r := crop_range w f m None in
  rows = zrange (Z.max (fst r) 0) (Z.min (snd r) n) /\ s = w_start w + Z.max (fst r) 0 * w_step w.
Proof. exact fcrop_window_spec. Qed.
Theorem C16_iteration_pairs_row_with_position : forall w n,
  fiter w n = map (fun i => (i, win_get w i)) (zrange 0 n).
Proof. exact fiter_spec. Qed.
Theorem C16_extent_spans_all_frames : forall w n, fextent2 w n = range_to_segment2 w 0 n.
Proof. exact fextent_spec. Qed.

Example C16_nonvacuous :
  fcrop_rows 10 [(-3, 2)] false = [0; 1] /\ fcrop_rows 10 [(-3, 2)] true = [0; 0; 0; 0; 1] /\
  fcrop_rows 10 [(8, 12)] true = [8; 9; 9; 9] /\ fcrop_rows 10 [(12, 15)] false = [] /\
  fcrop_rows 10 [(-6, -2)] false = [].
Proof. vm_compute. repeat split. Qed.

Print Assumptions C16_rows_are_selected_and_existing.
Print Assumptions C16_rows_stay_in_bounds.
Print Assumptions C16_fixed_pads_with_first_and_last.
Print Assumptions C16_fixed_row_count.
Print Assumptions C16_cropped_window_starts_at_first_kept_frame.
Print Assumptions C16_iteration_pairs_row_with_position.
Print Assumptions C16_extent_spans_all_frames.
