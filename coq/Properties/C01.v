(* C01  Timeline stays a sorted set of non-empty segments under any edit history.
   The model keeps the three containers of timeline.py separately; [R eps t A]
   says: they are in step (Inv) and hold exactly the mathematical set A.
   Statements only. *)
From PV Require Import Model.Timeline Proofs.SortedP Proofs.TimelineInvP Check.C01.

Section C01.
Variable eps : Z.
Hypothesis Heps : 0 <= eps.

(* every history of Timeline(...), add, remove/discard, update/|=, union/|,
   copy(segment_func) over any number of registers, reads interleaved
   anywhere, keeps every register in step with the mathematical sets obtained
   by replaying the same history *)
Theorem C01_history_refines_set : forall ops regs aregs,
  Forall2 (R eps) regs aregs ->
  Forall2 (R eps) (regs_after eps regs ops) (aregs_after eps aregs ops).
Proof. exact (history_refines eps). Qed.

Theorem C01_reachable_from_scratch : forall ops r,
  R eps (getr (regs_after eps [] ops) r) (agetr (aregs_after eps [] ops) r).
Proof. exact (reachable_inv eps). Qed.

(* one step at a time *)
Theorem C01_init : forall segs, R eps (t_init eps segs) (a_init eps segs).
Proof. exact (R_init eps). Qed.
Theorem C01_add : forall t A x, R eps t A -> R eps (t_add eps t x) (a_add eps A x).
Proof. exact (R_add eps). Qed.
Theorem C01_remove : forall t A x, R eps t A -> R eps (t_remove t x) (a_remove A x).
Proof. exact (R_remove eps). Qed.
Theorem C01_update : forall t A o B, R eps t A -> R eps o B -> R eps (t_update t o) (a_union A B).
Proof. exact (R_update eps). Qed.
Theorem C01_union : forall t A o B, R eps t A -> R eps o B -> R eps (t_union eps t o) (a_union A B).
Proof. exact (R_union eps). Qed.
Theorem C01_copy : forall t A f, R eps t A -> R eps (t_copy eps t f) (a_map eps A (f_of f)).
Proof. exact (R_copy eps). Qed.

(* reads of an object that refines the set A *)
Variables (t : tl) (A : aset).
Hypothesis HR : R eps t A.

Theorem C01_iter_sorted_exact : ssorted (t_iter t) /\ (forall s, In s (t_iter t) <-> A s).
Proof. exact (iter_spec eps t A HR). Qed.
Theorem C01_iter_distinct : NoDup (t_iter t).
Proof. exact (iter_nodup eps t A HR). Qed.
Theorem C01_members_nonempty : forall s, A s -> nonempty eps s = true.
Proof. exact (iter_nonempty eps t A HR). Qed.
Theorem C01_len : t_len t = Z.of_nat (length (t_iter t)).
Proof. exact (len_spec eps t A HR). Qed.
Theorem C01_bool : t_bool t = true <-> exists s, A s.
Proof. exact (bool_spec eps t A HR). Qed.
Theorem C01_contains : forall x, t_contains t x = true <-> A x.
Proof. exact (contains_spec eps t A HR). Qed.
Theorem C01_getitem : forall k,
  let n := Z.of_nat (length (t_iter t)) in
  (0 <= k < n -> t_getitem t k = nth_error (t_iter t) (Z.to_nat k)) /\
  (- n <= k < 0 -> t_getitem t k = nth_error (t_iter t) (Z.to_nat (n + k))) /\
  (k < - n \/ n <= k -> t_getitem t k = None).
Proof. exact (getitem_spec t). Qed.
Theorem C01_index : forall x,
  (forall i, t_index t x = Some i <-> (0 <= i /\ nth_error (t_iter t) (Z.to_nat i) = Some x)) /\
  (t_index t x = None <-> ~ A x).
Proof. exact (index_spec eps t A HR). Qed.
Theorem C01_extent_empty : (forall s, ~ A s) -> t_extent t = (0, 0).
Proof. exact (extent_empty eps t A HR). Qed.
Theorem C01_extent : (exists s, A s) ->
  let e := t_extent t in
  (exists s, A s /\ st s = st e) /\ (forall s, A s -> st e <= st s) /\
  (exists s, A s /\ en s = en e) /\ (forall s, A s -> en s <= en e).
Proof. exact (extent_spec eps Heps t A HR). Qed.

Variables (o : tl) (B : aset).
Hypothesis HR' : R eps o B.
Theorem C01_contains_timeline : t_contains_tl t o = true <-> forall s, B s -> A s.
Proof. exact (contains_tl_spec eps t A o B HR HR'). Qed.
Theorem C01_eq_ne : (t_eq t o = true <-> forall s, A s <-> B s) /\ t_ne t o = negb (t_eq t o).
Proof. exact (eq_spec eps t A o B HR HR'). Qed.
End C01.

(* non-vacuity: a history with nesting, a duplicate, an empty segment, a
   removal of an absent segment, an update and a copy *)
Example C01_nonvacuous :
  let ops := [ONew 0 [(0,10); (2,3); (2,3); (5,5)]; OAdd 0 (2,12); ORemove 0 (7,8); ORemove 0 (0,10);
              ONew 1 [(1,2)]; OUpdate 0 1; OCopy 2 0 (Some (FClip (2,4)))] in
  t_iter (getr (regs_after 0 [] ops) 0) = [(1,2); (2,3); (2,12)] /\
  t_extent (getr (regs_after 0 [] ops) 0) = (1, 12) /\
  t_iter (getr (regs_after 0 [] ops) 2) = [(2,3); (2,4)].
Proof. vm_compute. repeat split. Qed.

Print Assumptions C01_history_refines_set.
Print Assumptions C01_reachable_from_scratch.
Print Assumptions C01_init.
Print Assumptions C01_add.
Print Assumptions C01_remove.
Print Assumptions C01_update.
Print Assumptions C01_union.
Print Assumptions C01_copy.
Print Assumptions C01_iter_sorted_exact.
Print Assumptions C01_iter_distinct.
Print Assumptions C01_members_nonempty.
Print Assumptions C01_len.
Print Assumptions C01_bool.
Print Assumptions C01_contains.
Print Assumptions C01_getitem.
Print Assumptions C01_index.
Print Assumptions C01_extent_empty.
Print Assumptions C01_extent.
Print Assumptions C01_contains_timeline.
Print Assumptions C01_eq_ne.
