(* placeholder until proofs land *)
From PV Require Import Model.Window.
Theorem C14_placeholder : True. Proof. exact I. Qed.
Print Assumptions C14_placeholder.
