(* C14  Sliding-window positions, iteration, length, nearest frame and tiling agree.
   Exact tier: parameters and times in integer ticks (binary-grid-aligned values), quotients
   taken exactly; the float code computes the same values on such inputs (tied by the
   correspondence, DESIGN 2.4). Hypotheses: duration longer than the precision, step > 0.
   Doubled coordinates are used where frame centres fall on half ticks. Statements only. *)
From PV Require Import Model.Window Proofs.WindowP.
From Coq Require Reals.
From PV Require Proofs.RoundFloatP.

Theorem C14_constructor_rejects : forall dur step start wend,
  win_make dur step start wend = None <->
  (dur <= 0 \/ step <= 0 \/ exists e, wend = Some e /\ e <= start).
Proof. exact ctor_rejects. Qed.
Theorem C14_constructor_and_copy_keep_parameters : forall dur step start wend w,
  win_make dur step start wend = Some w ->
  w_dur w = dur /\ w_step w = step /\ w_start w = start /\ w_end w = wend /\ 0 < dur /\ 0 < step /\
  (forall e, wend = Some e -> start < e).
Proof. exact ctor_accepts. Qed.

Section C14.
Variable eps : Z.
Hypothesis Heps : 0 <= eps.
Variable w : win.
Hypothesis Hdur : eps < w_dur w.
Hypothesis Hstep : 0 < w_step w.

(* position i is [start + i*step, start + i*step + duration], defined while it begins before `end` *)
Theorem C14_position : forall i,
  win_get w i = match w_end w with
                | Some e => if w_start w + i * w_step w <? e then Some (pos_seg w i) else None
                | None => Some (pos_seg w i)
                end.
Proof. exact (getitem_spec w). Qed.
(* iteration yields positions 0,1,2,... exactly while they begin before `end` (and restarts from 0) *)
Theorem C14_iteration : forall e, w_end w = Some e ->
  win_iter eps w = map (pos_seg w) (zrange 0 (win_count w)).
Proof. exact (iter_spec eps w Hdur Hstep). Qed.
Theorem C14_count_is_positions_before_end : forall e, w_end w = Some e -> forall i, 0 <= i ->
  (i < win_count w <-> w_start w + i * w_step w < e).
Proof. exact (count_spec w Hstep). Qed.
(* len() equals that count, wherever closest_frame(end) lands *)
Theorem C14_len : forall e, w_end w = Some e -> w_start w < e -> win_len eps w = Some (win_count w).
Proof. exact (len_spec eps Heps w Hdur Hstep). Qed.
Theorem C14_len_equals_iteration_length : forall e, w_end w = Some e ->
  Z.of_nat (length (win_iter eps w)) = win_count w.
Proof. exact (iter_length eps w Hdur Hstep). Qed.
Theorem C14_len_infinite_rejected : w_end w = None -> win_len eps w = None.
Proof. exact (len_infinite eps w). Qed.

(* closest_frame(t): an index whose window centre is nearest to t; it inverts the centres *)
Theorem C14_closest_frame_nearest : forall t i,
  Z.abs (centre2 w (closest_frame w t) - 2 * t) <= Z.abs (centre2 w i - 2 * t).
Proof. exact (closest_frame_nearest w Hstep). Qed.
Theorem C14_closest_frame_inverts_centre : forall i h, w_dur w = 2 * h ->
  closest_frame w (w_start w + i * w_step w + h) = i.
Proof. exact (closest_frame_of_centre w Hstep). Qed.

(* consecutive frame ranges map to abutting segments of length n*step centred on the frame centres;
   a range starting at frame 0 is extended back to the window start *)
Theorem C14_ranges_abut : forall i n m, i + n <> 0 ->
  en (range_to_segment2 w i n) = st (range_to_segment2 w (i + n) m).
Proof. exact (ranges_abut w). Qed.
Theorem C14_range_length : forall i n, i <> 0 ->
  en (range_to_segment2 w i n) - st (range_to_segment2 w i n) = 2 * (n * w_step w).
Proof. exact (range_length w). Qed.
Theorem C14_range_centred : forall i n, i <> 0 ->
  st (range_to_segment2 w i n) = centre2 w i - w_step w /\
  en (range_to_segment2 w i n) = centre2 w (i + n - 1) + w_step w.
Proof. exact (range_centred w). Qed.
Theorem C14_range_from_frame_0_extended : forall n,
  st (range_to_segment2 w 0 n) = 2 * w_start w /\ en (range_to_segment2 w 0 n) = centre2 w (n - 1) + w_step w.
Proof. exact (range_first_extended w). Qed.

(* calling the window on a support segment at least as long as the window: exactly the positions
   segment.start + k*step that fit entirely inside it; align_last adds the flush window iff the
   last regular one stops short *)
Theorem C14_call_positions : forall s, w_dur w <= en s - st s -> forall p,
  In p (filter (fun q => sin s q) (win_iter eps (mkWin (w_dur w) (w_step w) (st s) (Some (en s))))) <->
  exists k, 0 <= k <= fdiv (en s - st s - w_dur w) (w_step w) /\ p = fit_pos w s k.
Proof. exact (fun s Hl => call_positions eps Heps w Hdur Hstep s Hl). Qed.
Theorem C14_call_flush_needed : forall s,
  let K := fdiv (en s - st s - w_dur w) (w_step w) in
  en (fit_pos w s K) < en s <-> K * w_step w + w_dur w < en s - st s.
Proof. exact (fun s => call_flush_needed w s). Qed.
End C14.
Theorem C14_call_ignores_the_windows_own_start_and_end : forall eps w1 w2 segments align_last,
  w_dur w1 = w_dur w2 -> w_step w1 = w_step w2 ->
  win_call eps w1 segments align_last = win_call eps w2 segments align_last.
Proof. exact call_ignores_own_bounds. Qed.
Theorem C14_call_skips_segments_shorter_than_the_window : forall eps w s align_last,
  duration eps s < w_dur w -> call_one eps w s align_last = [].
Proof. exact call_short_segment. Qed.

(* ---- binary64 level (tolerance tier of the correspondence, Check/C14.v: KWinF) ----
   Position i as the code computes it, start + i * step with both operations rounded to nearest-even binary64 (Flocq's
   [round] on the reals), differs from the exact position by at most a few units in the last place of the operands: the
   checker's accepted band (2^-44 relative) is never left by a correct implementation.  Uses the standard library's
   real-number axioms (printed below). *)
Module Binary64.
Import Reals. Local Open Scope R_scope.
Theorem C14_binary64_position_error : forall start step i : R,
  Rabs (RoundFloatP.rnd64 (start + RoundFloatP.rnd64 (i * step)) - (start + i * step))
  <= 4 * RoundFloatP.u64 * (Rabs start + Rabs (i * step)) + 3 * RoundFloatP.eta64.
Proof. exact RoundFloatP.binary64_position_error. Qed.
(* closest_frame before its final rint: ((t - start) - duration / 2) / step *)
Theorem C14_binary64_closest_frame_quotient_error : forall t start half_dur step : R, 0 < step ->
  Rabs (RoundFloatP.rnd64 (RoundFloatP.rnd64 (RoundFloatP.rnd64 (t - start) - half_dur) / step) - (t - start - half_dur) / step)
  <= 8 * RoundFloatP.u64 * (Rabs t + Rabs start + Rabs half_dur) / step + 8 * RoundFloatP.eta64 * (/ step + 1).
Proof. exact RoundFloatP.binary64_quotient_error. Qed.
End Binary64.

Example C14_nonvacuous :
  exists w, win_make 2 1 0 (Some 4) = Some w /\ win_iter 0 w = [(0,2); (1,3); (2,4); (3,5)] /\
            win_len 0 w = Some 4 /\ closest_frame w 3 = 2 /\
            win_call 0 w [(3, 8)] true = [(3,5); (4,6); (5,7); (6,8)] /\
            win_call 0 (mkWin 2 2 0 None) [(3, 8)] true = [(3,5); (5,7); (6,8)].
Proof. eexists. vm_compute. repeat split. Qed.

Print Assumptions C14_constructor_rejects.
Print Assumptions C14_constructor_and_copy_keep_parameters.
Print Assumptions C14_position.
Print Assumptions C14_iteration.
Print Assumptions C14_count_is_positions_before_end.
Print Assumptions C14_len.
Print Assumptions C14_len_equals_iteration_length.
Print Assumptions C14_len_infinite_rejected.
Print Assumptions C14_closest_frame_nearest.
Print Assumptions C14_closest_frame_inverts_centre.
Print Assumptions C14_ranges_abut.
Print Assumptions C14_range_length.
Print Assumptions C14_range_centred.
Print Assumptions C14_range_from_frame_0_extended.
Print Assumptions C14_call_positions.
Print Assumptions C14_call_flush_needed.
Print Assumptions C14_call_ignores_the_windows_own_start_and_end.
Print Assumptions C14_call_skips_segments_shorter_than_the_window.
Print Assumptions Binary64.C14_binary64_position_error.
Print Assumptions Binary64.C14_binary64_closest_frame_quotient_error.
