(* placeholder until proofs land *)
From PV Require Import Model.Precision.
Theorem C13_placeholder : True. Proof. exact I. Qed.
Print Assumptions C13_placeholder.
