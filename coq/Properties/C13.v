(* C13  Precision mode rounds every bound to the nearest grid point, once and for all.
   Exact level: x = num/den (den > 0) is any rational (every double is one);
   [round_units n num den] is the number of 10^-n units of the rounded value, i.e.
   floor(x * 10^n + 1/2) as the repaired __post_init__ computes it. The binary64
   evaluation of the same formula is tied bit-for-bit by the correspondence
   (Model/Precision.v roundF), not proved. Statements only. *)
From PV Require Import Model.Precision Model.Segment Proofs.PrecisionP.
From Coq Require Reals.
From Flocq Require Core.
From PV Require Proofs.RoundFloatP Proofs.RoundFloatLinkP.

Theorem C13_nearest_within_half_unit : forall n num den, 0 < den ->
  2 * Z.abs (round_units n num den * den - num * 10 ^ n) <= den.
Proof. exact round_nearest. Qed.
Theorem C13_on_grid_values_unchanged : forall n k, 0 < 10 ^ n -> round_units n k (10 ^ n) = k.
Proof. exact round_idempotent. Qed.
Theorem C13_rounding_twice_is_rounding_once : forall n num den, 0 < den -> 0 < 10 ^ n ->
  round_units n (round_units n num den) (10 ^ n) = round_units n num den.
Proof. exact round_stable. Qed.
Theorem C13_no_drift_under_rewrapping : forall n k u, 0 < 10 ^ n -> rewrap n k u = u.
Proof. exact no_drift. Qed.
(* operations only select among existing bounds (C03 model), so their re-rounded results are unchanged *)
Theorem C13_operations_keep_grid_bounds : forall n (a b : seg), 0 < 10 ^ n ->
  let r k := round_units n k (10 ^ n) in
  (r (st (sand a b)), r (en (sand a b))) = sand a b /\
  (r (Z.min (st a) (st b)), r (Z.max (en a) (en b))) = (Z.min (st a) (st b), Z.max (en a) (en b)).
Proof.
  intros n a b H r. unfold r. rewrite !round_idempotent by assumption. split; [now destruct (sand a b) | reflexivity].
Qed.
Theorem C13_monotone : forall n n1 d1 n2 d2, 0 < d1 -> 0 < d2 -> 0 <= 10 ^ n ->
  n1 * d2 <= n2 * d1 -> round_units n n1 d1 <= round_units n n2 d2.
Proof. exact round_monotone. Qed.
Theorem C13_equal_roundings_give_equal_hashes : forall n (H : Type) (h : Z -> H) a b c d,
  round_units n a b = round_units n c d -> h (round_units n a b) = h (round_units n c d).
Proof. exact (fun n H h => round_congruent n h). Qed.
(* finding F1 (fixed): the old int()-based formula is neither nearest nor idempotent on negative values *)
Theorem C13_truncation_refuted :
  (exists num den, 0 < den /\ ~ (2 * Z.abs (round_units_old 0 num den * den - num * 1) <= den)) /\
  (exists k, round_units_old 0 k 1 <> k).
Proof. exact truncation_refuted. Qed.

(* ---- binary64 level ----
   [RoundFloatP.rfloat rnd P x] is the code's expression  math.floor(x / P + 0.5) * P  with each operation (division,
   addition of 0.5, conversion of the floored Python int to float, product) rounded by [rnd]; [rnd64] is IEEE-754
   binary64 rounding to nearest-even (Flocq's [round radix2 (FLT_exp (-1074) 53) ZnearestE] on the reals, gradual
   underflow included), u64 = 2^-53, eta64 = 2^-1075.  For every real x (in particular every double) and every grid
   unit P > 0 (in particular the double nearest 10^-n) the stored bound is within half a unit of the requested value,
   up to a few units of rounding noise.  Relies on the standard library's real-number axioms (printed below). *)
Module Binary64.
Import Reals Flocq.Core.Core. Local Open Scope R_scope.
Theorem C13_binary64_within_half_unit : forall P x : R, 0 < P ->
  Rabs (RoundFloatP.rfloat RoundFloatP.rnd64 P x - x)
  <= P / 2 + 8 * RoundFloatP.u64 * (Rabs x + P) + 8 * RoundFloatP.eta64 * (P + 1).
Proof. exact RoundFloatP.binary64_precision_rounding. Qed.
(* the same for any rounding with relative error u <= 1/8 and absolute error eta (the shape of the argument) *)
Theorem C13_rounded_arithmetic_within_half_unit : forall (u eta : R) (rnd : R -> R) (P x : R),
  0 <= u -> 0 <= eta -> u <= / 8 -> 0 < P ->
  (forall y, exists e t, Rabs e <= u /\ Rabs t <= eta /\ rnd y = y * (1 + e) + t) ->
  Rabs (RoundFloatP.rfloat rnd P x - x) <= P / 2 + 8 * u * (Rabs x + P) + 8 * eta * (P + 1).
Proof. intros u eta rnd P x Hu He Hu8 HP Hr. now apply (RoundFloatP.rfloat_within_half_unit_simple u eta). Qed.
(* no drift at the binary64 level: a bound already on the float grid - rnd64 (k * P), |k| <= 2^40 ticks, P >= 2^-1000 - is
   returned unchanged, and therefore rounding twice is rounding once *)
Theorem C13_binary64_on_grid_bounds_unchanged : forall (P : R) (k : Z),
  0 < P -> (Z.abs k <= 2 ^ 40)%Z -> bpow radix2 (-1000) <= P ->
  RoundFloatP.rfloat RoundFloatP.rnd64 P (RoundFloatP.rnd64 (IZR k * P)) = RoundFloatP.rnd64 (IZR k * P).
Proof. exact RoundFloatP.binary64_on_grid_fixed. Qed.
Theorem C13_binary64_rounding_twice_is_rounding_once : forall P x : R,
  0 < P -> bpow radix2 (-1000) <= P -> (Z.abs (RoundFloatP.ticks64 P x) <= 2 ^ 40)%Z ->
  RoundFloatP.rfloat RoundFloatP.rnd64 P (RoundFloatP.rfloat RoundFloatP.rnd64 P x) = RoundFloatP.rfloat RoundFloatP.rnd64 P x.
Proof. exact RoundFloatP.binary64_idempotent. Qed.
(* rounding is monotone at the binary64 level: every step of the computation is *)
Theorem C13_binary64_monotone : forall P x y : R, 0 < P -> x <= y ->
  RoundFloatP.rfloat RoundFloatP.rnd64 P x <= RoundFloatP.rfloat RoundFloatP.rnd64 P y.
Proof. exact RoundFloatP.binary64_monotone. Qed.
(* the link: the primitive-float model [Model.Precision.roundF] - the one the correspondence evaluates and compares bit
   for bit with the code on every run - computes, whenever nothing overflows, exactly the rounded real expression the
   theorems above are about ([FR] = the real value of a primitive float, [fin] = finite) ... *)
Theorem C13_primitive_float_model_is_the_rounded_real_expression : forall P x : PrimFloat.float,
  RoundFloatLinkP.fin x -> RoundFloatLinkP.fin P -> 0 < RoundFloatLinkP.FR P -> RoundFloatLinkP.FR P <= bpow radix2 900 ->
  Rabs (RoundFloatLinkP.FR x / RoundFloatLinkP.FR P) <= bpow radix2 60 ->
  RoundFloatLinkP.FR (roundF P x) = RoundFloatP.rfloat RoundFloatP.rnd64 (RoundFloatLinkP.FR P) (RoundFloatLinkP.FR x)
  /\ RoundFloatLinkP.fin (roundF P x).
Proof. exact RoundFloatLinkP.roundF_is_rfloat. Qed.
(* ... so the bit-exact model itself is within half a unit of the requested value *)
Theorem C13_primitive_float_model_within_half_unit : forall P x : PrimFloat.float,
  RoundFloatLinkP.fin x -> RoundFloatLinkP.fin P -> 0 < RoundFloatLinkP.FR P -> RoundFloatLinkP.FR P <= bpow radix2 900 ->
  Rabs (RoundFloatLinkP.FR x / RoundFloatLinkP.FR P) <= bpow radix2 60 ->
  Rabs (RoundFloatLinkP.FR (roundF P x) - RoundFloatLinkP.FR x)
  <= RoundFloatLinkP.FR P / 2 + 8 * RoundFloatP.u64 * (Rabs (RoundFloatLinkP.FR x) + RoundFloatLinkP.FR P)
     + 8 * RoundFloatP.eta64 * (RoundFloatLinkP.FR P + 1).
Proof. exact RoundFloatLinkP.roundF_within_half_unit. Qed.
End Binary64.

Example C13_nonvacuous :
  round_units 1 (-3) 10 = -3 /\ round_units 0 (-5) 2 = -2 /\ round_units 2 1 3 = 33 /\ 0 < 10 ^ 6.
Proof. vm_compute. repeat split. Qed.

Print Assumptions C13_nearest_within_half_unit.
Print Assumptions C13_on_grid_values_unchanged.
Print Assumptions C13_rounding_twice_is_rounding_once.
Print Assumptions C13_no_drift_under_rewrapping.
Print Assumptions C13_operations_keep_grid_bounds.
Print Assumptions C13_monotone.
Print Assumptions C13_equal_roundings_give_equal_hashes.
Print Assumptions C13_truncation_refuted.
Print Assumptions Binary64.C13_binary64_within_half_unit.
Print Assumptions Binary64.C13_rounded_arithmetic_within_half_unit.
Print Assumptions Binary64.C13_binary64_on_grid_bounds_unchanged.
Print Assumptions Binary64.C13_binary64_rounding_twice_is_rounding_once.
Print Assumptions Binary64.C13_binary64_monotone.
Print Assumptions Binary64.C13_primitive_float_model_is_the_rounded_real_expression.
Print Assumptions Binary64.C13_primitive_float_model_within_half_unit.
