(* C13  Precision mode rounds every bound to the nearest grid point, once and for all.
   Exact level: x = num/den (den > 0) is any rational (every double is one);
   [round_units n num den] is the number of 10^-n units of the rounded value, i.e.
   floor(x * 10^n + 1/2) as the repaired __post_init__ computes it. The binary64
   evaluation of the same formula is tied bit-for-bit by the correspondence
   (Model/Precision.v roundF), not proved. Statements only. *)
From PV Require Import Model.Precision Model.Segment Proofs.PrecisionP.

Theorem C13_nearest_within_half_unit : forall n num den, 0 < den ->
  2 * Z.abs (round_units n num den * den - num * 10 ^ n) <= den.
Proof. exact round_nearest. Qed.
Theorem C13_on_grid_values_unchanged : forall n k, 0 < 10 ^ n -> round_units n k (10 ^ n) = k.
Proof. exact round_idempotent. Qed.
Theorem C13_rounding_twice_is_rounding_once : forall n num den, 0 < den -> 0 < 10 ^ n ->
  round_units n (round_units n num den) (10 ^ n) = round_units n num den.
Proof. exact round_stable. Qed.
Theorem C13_no_drift_under_rewrapping : forall n k u, 0 < 10 ^ n -> rewrap n k u = u.
Proof. exact no_drift. Qed.
(* operations only select among existing bounds (C03 model), so their re-rounded results are unchanged *)
Theorem C13_operations_keep_grid_bounds : forall n (a b : seg), 0 < 10 ^ n ->
  let r k := round_units n k (10 ^ n) in
  (r (st (sand a b)), r (en (sand a b))) = sand a b /\
  (r (Z.min (st a) (st b)), r (Z.max (en a) (en b))) = (Z.min (st a) (st b), Z.max (en a) (en b)).
Proof.
  intros n a b H r. unfold r. rewrite !round_idempotent by assumption. split; [now destruct (sand a b) | reflexivity].
Qed.
Theorem C13_monotone : forall n n1 d1 n2 d2, 0 < d1 -> 0 < d2 -> 0 <= 10 ^ n ->
  n1 * d2 <= n2 * d1 -> round_units n n1 d1 <= round_units n n2 d2.
Proof. exact round_monotone. Qed.
Theorem C13_equal_roundings_give_equal_hashes : forall n (H : Type) (h : Z -> H) a b c d,
  round_units n a b = round_units n c d -> h (round_units n a b) = h (round_units n c d).
Proof. exact (fun n H h => round_congruent n h). Qed.
(* finding F1 (fixed): the old int()-based formula is neither nearest nor idempotent on negative values *)
Theorem C13_truncation_refuted :
  (exists num den, 0 < den /\ ~ (2 * Z.abs (round_units_old 0 num den * den - num * 1) <= den)) /\
  (exists k, round_units_old 0 k 1 <> k).
Proof. exact truncation_refuted. Qed.

Example C13_nonvacuous :
  round_units 1 (-3) 10 = -3 /\ round_units 0 (-5) 2 = -2 /\ round_units 2 1 3 = 33 /\ 0 < 10 ^ 6.
Proof. vm_compute. repeat split. Qed.

Print Assumptions C13_nearest_within_half_unit.
Print Assumptions C13_on_grid_values_unchanged.
Print Assumptions C13_rounding_twice_is_rounding_once.
Print Assumptions C13_no_drift_under_rewrapping.
Print Assumptions C13_operations_keep_grid_bounds.
Print Assumptions C13_monotone.
Print Assumptions C13_equal_roundings_give_equal_hashes.
Print Assumptions C13_truncation_refuted.
