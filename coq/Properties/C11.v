(* C11  Renaming labels or tracks and subsetting preserve structure exactly.
   [getitem a s t] is annotation[s, t] (None = no such track); [map_get l mapping] is
   mapping.get(l, l). Proved here: rename_labels (in place and on a copy), subset, and - for the
   library's two generators ('string' and 'int'; [gen_ok] bounds the number of names drawn from the
   string generator by the fuel of the model's [word], 26^64 - 1) and for a user-supplied iterable
   holding enough values without repetition (one that runs dry makes the call fail) - rename_tracks (every (segment,
   label) kept, one track each, k-th track in iteration order named by the k-th generated value),
   relabel_tracks (every (segment, track) kept, nothing added, k-th track labelled by the k-th
   value) and the mapping built by rename_labels(generator=...) (k-th label of labels() -> k-th
   value). Generated values are pairwise distinct (C19). Statements only. *)
From PV Require Import Model.AnnotationOps Proofs.DictP Proofs.AnnotationInvP Proofs.RenameSubsetP
  Proofs.AnnCropInterP Proofs.AnnRenameTracksP Proofs.DerivedInvP Proofs.AnnOverlapP.

(* every track keeps its segment and name and gets mapping.get(label, label): applied once, simultaneously *)
Theorem C11_rename_applies_mapping_once : forall a mapping s t,
  getitem (rename_labels_inplace a mapping) s t = option_map (fun l => map_get l mapping) (getitem a s t).
Proof. exact rename_getitem. Qed.
Theorem C11_empty_mapping_renames_nothing : forall a s t, getitem (rename_labels_inplace a []) s t = getitem a s t.
Proof. exact rename_empty_mapping. Qed.
Theorem C11_unmapped_labels_are_kept : forall a mapping s t l,
  getitem a s t = Some l -> d_get l mapping = None -> getitem (rename_labels_inplace a mapping) s t = Some l.
Proof. exact rename_unmapped_label_kept. Qed.
Theorem C11_rename_changes_nothing_else : forall a mapping,
  skeys (a_tracks (rename_labels_inplace a mapping)) = skeys (a_tracks a) /\
  (forall s, get_tracks (rename_labels_inplace a mapping) s = get_tracks a s) /\
  a_uri (rename_labels_inplace a mapping) = a_uri a /\ a_modality (rename_labels_inplace a mapping) = a_modality a.
Proof. exact rename_keeps_segments_and_tracks. Qed.
Theorem C11_swap_not_applied_twice : forall x y, x <> y ->
  map_get x [(x, y); (y, x)] = y /\ map_get y [(x, y); (y, x)] = x /\
  forall l, l <> x -> l <> y -> map_get l [(x, y); (y, x)] = l.
Proof. exact rename_swap. Qed.
Theorem C11_chain_not_applied_twice : forall x y z, x <> y ->
  map_get x [(x, y); (y, z)] = y /\ map_get y [(x, y); (y, z)] = z.
Proof. exact rename_chain. Qed.
Theorem C11_rename_on_copy_gives_same_content : forall a mapping s t,
  getitem (rename_labels_copy a mapping) s t = getitem (rename_labels_inplace a mapping) s t /\
  a_uri (rename_labels_copy a mapping) = a_uri a /\ a_modality (rename_labels_copy a mapping) = a_modality a.
Proof. exact rename_copy_same_result. Qed.
(* in place: the caches stay coherent (the C02 invariant is preserved) *)
Theorem C11_rename_in_place_keeps_views_fresh : forall eps a mapping,
  AInv eps a -> AInv eps (rename_labels_inplace a mapping).
Proof. exact AInv_rename. Qed.

(* subset(L): L is read as a set of labels, whatever container it came in (order and repetitions are immaterial) *)
Theorem C11_subset_label_request_is_a_set : forall eps a l1 l2 inv, (forall x, In x l1 <-> In x l2) ->
  subset_ann eps a l1 inv = subset_ann eps a l2 inv.
Proof. exact subset_ann_request_is_a_set. Qed.
(* subset(L) keeps exactly the tracks whose label is in L, subset(L, invert=True) exactly the others *)
Theorem C11_subset_exact : forall eps a labs inv s t, AInv eps a ->
  getitem (subset_ann eps a labs inv) s t =
  match getitem a s t with
  | Some l => if xorb (name_in l labs) inv then Some l else None
  | None => None
  end.
Proof. exact subset_getitem. Qed.
Theorem C11_subset_partition : forall eps a labs s t l, AInv eps a -> getitem a s t = Some l ->
  (getitem (subset_ann eps a labs false) s t = Some l /\ getitem (subset_ann eps a labs true) s t = None) \/
  (getitem (subset_ann eps a labs false) s t = None /\ getitem (subset_ann eps a labs true) s t = Some l).
Proof. exact subset_partition. Qed.
Theorem C11_subset_adds_nothing : forall eps a labs inv s t l, AInv eps a ->
  getitem (subset_ann eps a labs inv) s t = Some l -> getitem a s t = Some l.
Proof. exact subset_adds_nothing. Qed.

Theorem C11_rename_tracks : forall eps a g, AInv eps a -> gen_ok g (List.length (itertracks a)) ->
  exists r, rename_tracks_ann eps a g = Some r /\ AInv eps r /\
    Permutation (entries (a_tracks r)) (entries (a_tracks a)) /\
    (forall k x, nth_error (itertracks a) k = Some x -> getitem r (fst (fst x)) (gen_fun g k) = Some (snd x)) /\
    a_uri r = a_uri a /\ a_modality r = a_modality a.
Proof. exact rename_tracks_spec. Qed.
Theorem C11_relabel_tracks : forall eps a g, AInv eps a -> gen_ok g (List.length (itertracks a)) ->
  exists r, relabel_tracks_ann eps a g = Some r /\ AInv eps r /\
    (forall k x, nth_error (itertracks a) k = Some x -> getitem r (fst (fst x)) (snd (fst x)) = Some (gen_fun g k)) /\
    (forall s t, getitem a s t = None -> getitem r s t = None) /\
    a_uri r = a_uri a /\ a_modality r = a_modality a.
Proof. exact relabel_tracks_spec. Qed.
Theorem C11_generated_mapping_follows_label_order : forall eps a g,
  gen_ok g (List.length (snd (labels eps a))) -> AInv eps a ->
  exists m, generated_mapping eps a g = Some m /\
    (forall k l, nth_error (snd (labels eps a)) k = Some l -> d_get l m = Some (gen_fun g k)) /\
    (forall l, ~ In l (snd (labels eps a)) -> d_get l m = None).
Proof. exact generated_mapping_spec. Qed.
Theorem C11_generated_values_distinct : forall g n i j, gen_ok g n -> (i < n)%nat -> (j < n)%nat ->
  gen_fun g i = gen_fun g j -> i = j.
Proof. exact gen_fun_inj. Qed.
Theorem C11_generator_running_dry_fails : forall eps a l, (List.length l < List.length (itertracks a))%nat ->
  rename_tracks_ann eps a (GList l) = None /\ relabel_tracks_ann eps a (GList l) = None.
Proof. exact (fun eps a l H => conj (rename_tracks_exhausted eps a l H) (relabel_tracks_exhausted eps a l H)). Qed.
(* the result of subset is a proper annotation again, and its labels() is the filtered labels() of the source *)
Theorem C11_subset_keeps_the_invariant : forall eps a labs inv, AInv eps a -> AInv eps (subset_ann eps a labs inv).
Proof. exact AInv_subset. Qed.
Theorem C11_labels_of_subset : forall eps a labs inv, AInv eps a ->
  snd (labels eps (subset_ann eps a labs inv)) = filter (fun l => xorb (name_in l labs) inv) (snd (labels eps a)).
Proof. exact subset_labels. Qed.

Example C11_nonvacuous :
  let a := ann_of 0 None None [((0, 4), NStr "x", NStr "a"); ((0, 4), NStr "y", NStr "b"); ((2, 6), NStr "_", NStr "a")] in
  itertracks (rename_labels_inplace a [(NStr "a", NStr "b"); (NStr "b", NStr "a")])
    = [((0, 4), NStr "x", NStr "b"); ((0, 4), NStr "y", NStr "a"); ((2, 6), NStr "_", NStr "b")] /\
  itertracks (subset_ann 0 a [NStr "a"; NStr "zz"] true) = [((0, 4), NStr "y", NStr "b")] /\
  option_map itertracks (rename_tracks_ann 0 a GString)
    = Some [((0, 4), NStr "A", NStr "a"); ((0, 4), NStr "B", NStr "b"); ((2, 6), NStr "C", NStr "a")] /\
  option_map itertracks (relabel_tracks_ann 0 a GInt)
    = Some [((0, 4), NStr "x", NInt 0); ((0, 4), NStr "y", NInt 1); ((2, 6), NStr "_", NInt 2)] /\
  generated_mapping 0 a GString = Some [(NStr "a", NStr "A"); (NStr "b", NStr "B")].
Proof. vm_compute. repeat split. Qed.

Print Assumptions C11_rename_applies_mapping_once.
Print Assumptions C11_rename_changes_nothing_else.
Print Assumptions C11_swap_not_applied_twice.
Print Assumptions C11_chain_not_applied_twice.
Print Assumptions C11_rename_on_copy_gives_same_content.
Print Assumptions C11_rename_in_place_keeps_views_fresh.
Print Assumptions C11_subset_exact.
Print Assumptions C11_empty_mapping_renames_nothing.
Print Assumptions C11_unmapped_labels_are_kept.
Print Assumptions C11_subset_label_request_is_a_set.
Print Assumptions C11_subset_partition.
Print Assumptions C11_subset_adds_nothing.
Print Assumptions C11_rename_tracks.
Print Assumptions C11_relabel_tracks.
Print Assumptions C11_generated_mapping_follows_label_order.
Print Assumptions C11_generated_values_distinct.
Print Assumptions C11_generator_running_dry_fails.
Print Assumptions C11_subset_keeps_the_invariant.
Print Assumptions C11_labels_of_subset.
