(* C11  Renaming labels or tracks and subsetting preserve structure exactly.
   [getitem a s t] is annotation[s, t] (None = no such track); [map_get l mapping] is
   mapping.get(l, l). Proved here: rename_labels (in place and on a copy) and subset. Tied by the
   correspondence but not proved: rename_tracks, relabel_tracks and the generated mapping of
   rename_labels(generator=...) (results compared exactly with the model for the three generator
   kinds). Statements only. *)
From PV Require Import Model.AnnotationOps Proofs.DictP Proofs.AnnotationInvP Proofs.RenameSubsetP.

(* every track keeps its segment and name and gets mapping.get(label, label): applied once, simultaneously *)
Theorem C11_rename_applies_mapping_once : forall a mapping s t,
  getitem (rename_labels_inplace a mapping) s t = option_map (fun l => map_get l mapping) (getitem a s t).
Proof. exact rename_getitem. Qed.
Theorem C11_rename_changes_nothing_else : forall a mapping,
  skeys (a_tracks (rename_labels_inplace a mapping)) = skeys (a_tracks a) /\
  (forall s, get_tracks (rename_labels_inplace a mapping) s = get_tracks a s) /\
  a_uri (rename_labels_inplace a mapping) = a_uri a /\ a_modality (rename_labels_inplace a mapping) = a_modality a.
Proof. exact rename_keeps_segments_and_tracks. Qed.
Theorem C11_swap_not_applied_twice : forall x y, x <> y ->
  map_get x [(x, y); (y, x)] = y /\ map_get y [(x, y); (y, x)] = x /\
  forall l, l <> x -> l <> y -> map_get l [(x, y); (y, x)] = l.
Proof. exact rename_swap. Qed.
Theorem C11_chain_not_applied_twice : forall x y z, x <> y ->
  map_get x [(x, y); (y, z)] = y /\ map_get y [(x, y); (y, z)] = z.
Proof. exact rename_chain. Qed.
Theorem C11_rename_on_copy_gives_same_content : forall a mapping s t,
  getitem (rename_labels_copy a mapping) s t = getitem (rename_labels_inplace a mapping) s t /\
  a_uri (rename_labels_copy a mapping) = a_uri a /\ a_modality (rename_labels_copy a mapping) = a_modality a.
Proof. exact rename_copy_same_result. Qed.
(* in place: the caches stay coherent (the C02 invariant is preserved) *)
Theorem C11_rename_in_place_keeps_views_fresh : forall eps a mapping,
  AInv eps a -> AInv eps (rename_labels_inplace a mapping).
Proof. exact AInv_rename. Qed.

(* subset(L) keeps exactly the tracks whose label is in L, subset(L, invert=True) exactly the others *)
Theorem C11_subset_exact : forall eps a labs inv s t, AInv eps a ->
  getitem (subset_ann eps a labs inv) s t =
  match getitem a s t with
  | Some l => if xorb (name_in l labs) inv then Some l else None
  | None => None
  end.
Proof. exact subset_getitem. Qed.
Theorem C11_subset_partition : forall eps a labs s t l, AInv eps a -> getitem a s t = Some l ->
  (getitem (subset_ann eps a labs false) s t = Some l /\ getitem (subset_ann eps a labs true) s t = None) \/
  (getitem (subset_ann eps a labs false) s t = None /\ getitem (subset_ann eps a labs true) s t = Some l).
Proof. exact subset_partition. Qed.
Theorem C11_subset_adds_nothing : forall eps a labs inv s t l, AInv eps a ->
  getitem (subset_ann eps a labs inv) s t = Some l -> getitem a s t = Some l.
Proof. exact subset_adds_nothing. Qed.

Example C11_nonvacuous :
  let a := ann_of 0 None None [((0, 4), NStr "x", NStr "a"); ((0, 4), NStr "y", NStr "b"); ((2, 6), NStr "_", NStr "a")] in
  itertracks (rename_labels_inplace a [(NStr "a", NStr "b"); (NStr "b", NStr "a")])
    = [((0, 4), NStr "x", NStr "b"); ((0, 4), NStr "y", NStr "a"); ((2, 6), NStr "_", NStr "b")] /\
  itertracks (subset_ann 0 a [NStr "a"; NStr "zz"] true) = [((0, 4), NStr "y", NStr "b")].
Proof. vm_compute. repeat split. Qed.

Print Assumptions C11_rename_applies_mapping_once.
Print Assumptions C11_rename_changes_nothing_else.
Print Assumptions C11_swap_not_applied_twice.
Print Assumptions C11_chain_not_applied_twice.
Print Assumptions C11_rename_on_copy_gives_same_content.
Print Assumptions C11_rename_in_place_keeps_views_fresh.
Print Assumptions C11_subset_exact.
Print Assumptions C11_subset_partition.
Print Assumptions C11_subset_adds_nothing.
