(* placeholder until proofs land *)
From PV Require Import Model.Condensed.
Theorem C20_placeholder : True. Proof. exact I. Qed.
Print Assumptions C20_placeholder.
