(* C20  Condensed-matrix indexing, 1-D pair metrics and constraint propagation are exact.
   Index maps in exact integer arithmetic (the float side is tied by the correspondence,
   not proved). [kidx n i j] is the closed form i*n - i(i+3)/2 + j - 1. Statements only. *)
From PV Require Import Model.Condensed Proofs.CondensedP Proofs.PropagateP.
From Coq Require Reals.
From PV Require Proofs.NormP Proofs.RoundFloatP Proofs.SquaredFloatP.

Theorem C20_condensed_symmetric : forall n i j, to_condensed n i j = to_condensed n j i.
Proof. exact condensed_sym. Qed.
Theorem C20_condensed_rejects_diagonal : forall n i j, to_condensed n i j = None <-> i = j.
Proof. exact condensed_rejects_diag. Qed.
Theorem C20_condensed_closed_form : forall n i j, i < j -> to_condensed n i j = Some (kidx n i j).
Proof. exact to_condensed_lt. Qed.

(* row-major numbering 0 .. n(n-1)/2 - 1 of the pairs i < j < n *)
Theorem C20_rowmajor_first : forall n, kidx n 0 1 = 0.
Proof. exact condensed_first. Qed.
Theorem C20_rowmajor_next_in_row : forall n i j, kidx n i (j + 1) = kidx n i j + 1.
Proof. exact condensed_next_in_row. Qed.
Theorem C20_rowmajor_next_row : forall n i, kidx n (i + 1) (i + 2) = kidx n i (n - 1) + 1.
Proof. exact condensed_next_row. Qed.
Theorem C20_rowmajor_last : forall n, 2 * (kidx n (n - 2) (n - 1) + 1) = n * (n - 1).
Proof. exact condensed_last. Qed.
Theorem C20_rowmajor_strictly_increasing : forall n i j i' j',
  0 <= i -> i < j -> j < n -> 0 <= i' -> i' < j' -> j' < n ->
  (i < i' \/ (i = i' /\ j < j')) -> kidx n i j < kidx n i' j'.
Proof. exact condensed_monotone. Qed.
Theorem C20_rowmajor_range : forall n i j, 0 <= i -> i < j -> j < n ->
  0 <= kidx n i j /\ 2 * (kidx n i j + 1) <= n * (n - 1).
Proof. exact condensed_range. Qed.

(* to_squared is the inverse, both ways *)
Theorem C20_squared_of_condensed : forall n i j, 0 <= i -> i < j -> j < n ->
  to_squared n (kidx n i j) = (i, j).
Proof. exact squared_of_condensed. Qed.
Theorem C20_condensed_of_squared : forall n k, 0 <= n -> 0 <= k -> 2 * (k + 1) <= n * (n - 1) ->
  let '(i, j) := to_squared n k in 0 <= i /\ i < j /\ j < n /\ to_condensed n i j = Some k.
Proof. exact condensed_of_squared. Qed.

(* pdist holds f(x_i, x_j) at position to_condensed(n, i, j); cdist entry (i, j) is f(x_i, y_j) *)
Theorem C20_pdist_layout : forall (A B : Type) (f : A -> A -> B) (da : A) (db : B) xs i j,
  0 <= i -> i < j -> j < Z.of_nat (length xs) ->
  nth (Z.to_nat (kidx (Z.of_nat (length xs)) i j)) (pdist1d f xs) db
  = f (nth (Z.to_nat i) xs da) (nth (Z.to_nat j) xs da).
Proof. exact @pdist_layout. Qed.
Theorem C20_cdist_entry : forall (A B : Type) (f : A -> A -> B) (da : A) (db : B) xs ys i j,
  (i < length xs)%nat -> (j < length ys)%nat ->
  nth j (nth i (cdist1d f xs ys) []) db = f (nth i xs da) (nth j ys da).
Proof. exact @cdist_entry. Qed.
Theorem C20_pdist_short_inputs : forall (A B : Type) (f : A -> A -> B) xs,
  (length xs <= 1)%nat -> pdist1d f xs = [].
Proof. exact @pdist_short. Qed.
Theorem C20_metric_definitions : forall x y,
  metric_fn MEqual x y = (if x =? y then 1 else 0) /\ metric_fn MMin x y = Z.min x y /\
  metric_fn MMax x y = Z.max x y /\ metric_fn MAvg x y = x + y.
Proof. exact metric_defs. Qed.

(* propagate_constraints. [meq ml] is the must-link equivalence (reflexive-symmetric-transitive
   closure of the must-link pairs); [implied cl ml a b] says that some given cannot-link pair (u, v)
   has a ~ u and b ~ v (in either order). For inputs without degenerate pairs (u, u) the function
   returns exactly the implied pairs in sorted form, raises exactly when a must-link group contains
   a cannot-link pair, and the model's loop never runs out of its fuel (each pass but the last adds
   a new pair of vertices). Degenerate pairs are tied only (compared exactly with the model). *)
Theorem C20_propagate_closed : forall cl ml r,
  propagate cl ml = Some (Some r) -> pass_closed r ml.
Proof. exact propagate_closed. Qed.
Theorem C20_propagate_extends : forall cl ml r q,
  propagate cl ml = Some (Some r) -> ps_mem q (ps_of (map sorted_pair cl)) = true -> ps_mem q r = true.
Proof. intros cl ml r q. apply prop_loop_extends. Qed.
Theorem C20_propagate_returns_exactly_the_implied_pairs : forall cl ml,
  (forall u v, In (u, v) cl -> u <> v) -> (forall x y, In (x, y) ml -> x <> y) ->
  forall r, propagate cl ml = Some (Some r) ->
  forall a b, In (a, b) r <-> a < b /\ implied cl ml a b.
Proof. exact propagate_exact. Qed.
Theorem C20_propagate_raises_exactly_on_conflict : forall cl ml,
  (forall u v, In (u, v) cl -> u <> v) -> (forall x y, In (x, y) ml -> x <> y) ->
  (propagate cl ml = Some None <-> exists u v, In (u, v) cl /\ meq ml u v).
Proof. exact propagate_error_iff. Qed.
Theorem C20_propagate_terminates_within_fuel : forall cl ml, propagate cl ml <> None.
Proof. exact propagate_terminates. Qed.

Example C20_nonvacuous :
  to_condensed 5 3 1 = Some 5 /\ to_squared 5 5 = (1, 3) /\
  pdist1d Z.min [3; 1; 2] = [1; 2; 1] /\
  propagate [(0, 1)] [(1, 2); (2, 3)] = Some (Some [(0, 1); (0, 2); (0, 3)]) /\
  propagate [(0, 2)] [(0, 1); (1, 2)] = Some None.
Proof. vm_compute. repeat split. Qed.

(* ---- l2_normalize over the reals (one row): unit norm, entries = original / norm, zero rows unchanged.  The float
   computation is compared with this by the driver within 4 ulp.  Uses the standard library's real-number axioms. ---- *)
Module RealRows.
Import Reals List. Local Open Scope R_scope.
Theorem C20_l2_normalize_unit_norm : forall l : list R, NormP.sumsq l <> 0 -> NormP.sumsq (NormP.l2_row l) = 1.
Proof. exact NormP.l2_row_unit. Qed.
Theorem C20_l2_normalize_entries : forall (l : list R) (i : nat), NormP.sumsq l <> 0 ->
  nth i (NormP.l2_row l) 0 = nth i l 0 / sqrt (NormP.sumsq l).
Proof. exact NormP.l2_row_entries. Qed.
Theorem C20_l2_normalize_zero_rows_unchanged : forall l : list R, NormP.sumsq l = 0 -> NormP.l2_row l = l.
Proof. exact NormP.l2_row_zero. Qed.
End RealRows.

(* ---- float side of to_squared: for every n up to 2^20 the binary64 evaluation of numpy's formulas returns exactly the
   (i, j) of the exact model ([row_float] / [col_float]: the expressions with every operation rounded by Flocq's
   binary64 rounding [rnd64]; integer sub-expressions are exact int64 arithmetic).  Real-number axioms. ---- *)
Module Binary64.
Import Reals. Local Open Scope Z_scope.
Theorem C20_binary64_to_squared_row_is_exact : forall n i j, 0 <= i -> i < j -> j < n -> n <= 2 ^ 20 ->
  SquaredFloatP.row_float RoundFloatP.rnd64 n (4 * n * n - 4 * n + 1 - 8 * kidx n i j) = fst (to_squared n (kidx n i j)).
Proof. exact SquaredFloatP.binary64_to_squared_row_exact. Qed.
Theorem C20_binary64_to_squared_column_is_exact : forall n i j, 0 <= i -> i < j -> j < n -> n <= 2 ^ 20 ->
  SquaredFloatP.col_float n (kidx n i j) i = IZR (snd (to_squared n (kidx n i j))).
Proof. exact SquaredFloatP.binary64_to_squared_col_exact. Qed.
End Binary64.

Print Assumptions C20_condensed_symmetric.
Print Assumptions C20_condensed_rejects_diagonal.
Print Assumptions C20_condensed_closed_form.
Print Assumptions C20_rowmajor_first.
Print Assumptions C20_rowmajor_next_in_row.
Print Assumptions C20_rowmajor_next_row.
Print Assumptions C20_rowmajor_last.
Print Assumptions C20_rowmajor_strictly_increasing.
Print Assumptions C20_rowmajor_range.
Print Assumptions C20_squared_of_condensed.
Print Assumptions C20_condensed_of_squared.
Print Assumptions C20_pdist_layout.
Print Assumptions C20_cdist_entry.
Print Assumptions C20_pdist_short_inputs.
Print Assumptions C20_metric_definitions.
Print Assumptions C20_propagate_closed.
Print Assumptions C20_propagate_extends.
Print Assumptions C20_propagate_returns_exactly_the_implied_pairs.
Print Assumptions C20_propagate_raises_exactly_on_conflict.
Print Assumptions C20_propagate_terminates_within_fuel.
Print Assumptions RealRows.C20_l2_normalize_unit_norm.
Print Assumptions RealRows.C20_l2_normalize_entries.
Print Assumptions RealRows.C20_l2_normalize_zero_rows_unchanged.
Print Assumptions Binary64.C20_binary64_to_squared_row_is_exact.
Print Assumptions Binary64.C20_binary64_to_squared_column_is_exact.
