(* C03  Segment intersection, union, gap, inclusion and order form an interval algebra.
   Statements only; every proof is [exact] of a lemma from Proofs/SegmentP.v. *)
From PV Require Import Model.Segment Proofs.SegmentP.

Section C03.
Variable eps : Z.
Hypothesis Heps : 0 <= eps.
Variables a b c : seg.

(* & is set-theoretic intersection of the closed intervals *)
Theorem C03_and_is_intersection : forall t, overlaps (sand a b) t = overlaps a t && overlaps b t.
Proof. exact (sand_pointwise a b). Qed.

(* for non-empty operands it is non-empty exactly when intersects() is true *)
Theorem C03_intersects_iff_and_nonempty :
  nonempty eps a = true -> nonempty eps b = true ->
  intersects eps a b = nonempty eps (sand a b).
Proof. exact (intersects_iff_and eps a b Heps). Qed.

Theorem C03_intersects_symmetric : intersects eps a b = intersects eps b a.
Proof. exact (intersects_sym eps a b). Qed.

Theorem C03_touching_do_not_intersect :
  nonempty eps a = true -> nonempty eps b = true -> en a = st b -> intersects eps a b = false.
Proof. exact (intersects_touching eps a b Heps). Qed.

Theorem C03_overlap_within_precision_does_not_intersect :
  nonempty eps a = true -> nonempty eps b = true ->
  st a <= st b -> en a - st b <= eps -> intersects eps a b = false.
Proof. exact (intersects_small_overlap eps a b Heps). Qed.

(* | : least covering segment, every empty segment neutral *)
Theorem C03_or_covers :
  nonempty eps a = true -> nonempty eps b = true ->
  sin (sor eps a b) a = true /\ sin (sor eps a b) b = true.
Proof. exact (sor_covers eps a b). Qed.
Theorem C03_or_least :
  nonempty eps a = true -> nonempty eps b = true ->
  sin c a = true -> sin c b = true -> sin c (sor eps a b) = true.
Proof. exact (sor_least eps a b c). Qed.
Theorem C03_or_empty_neutral_left : nonempty eps a = false -> sor eps a b = b.
Proof. exact (sor_empty_l eps a b). Qed.
Theorem C03_or_empty_neutral_right :
  nonempty eps b = false -> nonempty eps a = true -> sor eps a b = a.
Proof. exact (sor_empty_r eps b a). Qed.

(* ^ : the gap between two non-empty segments, error iff one is empty *)
Theorem C03_xor_error_iff_empty_operand :
  sxor eps a b = None <-> (nonempty eps a = false \/ nonempty eps b = false).
Proof. exact (sxor_error_iff eps a b). Qed.
Theorem C03_xor_is_gap :
  nonempty eps a = true -> nonempty eps b = true -> en a <= st b ->
  sxor eps a b = Some (en a, st b) /\ sxor eps b a = Some (en a, st b).
Proof. exact (sxor_gap eps a b Heps). Qed.
Theorem C03_xor_of_intersecting_is_empty :
  forall g, sxor eps a b = Some g -> intersects eps a b = true -> nonempty eps g = false.
Proof. exact (fun g => sxor_overlapping eps a b g Heps). Qed.

(* in / overlaps : closed-interval inclusion *)
Theorem C03_overlaps_closed : forall t, overlaps a t = true <-> st a <= t <= en a.
Proof. exact (overlaps_iff a). Qed.
Theorem C03_in_is_inclusion :
  st b <= en b -> (sin a b = true <-> forall t, overlaps b t = true -> overlaps a t = true).
Proof. exact (sin_pointwise a b). Qed.

(* commutative, associative, idempotent on non-empty operands *)
Theorem C03_and_comm : sand a b = sand b a.
Proof. exact (sand_comm a b). Qed.
Theorem C03_and_assoc : sand a (sand b c) = sand (sand a b) c.
Proof. exact (sand_assoc a b c). Qed.
Theorem C03_and_idem : sand a a = a.
Proof. exact (sand_idem a). Qed.
Theorem C03_or_comm :
  nonempty eps a = true -> nonempty eps b = true -> sor eps a b = sor eps b a.
Proof. exact (sor_comm eps a b). Qed.
Theorem C03_or_assoc :
  nonempty eps a = true -> nonempty eps b = true -> nonempty eps c = true ->
  sor eps a (sor eps b c) = sor eps (sor eps a b) c.
Proof. exact (sor_assoc eps a b c Heps). Qed.
Theorem C03_or_idem : sor eps a a = a.
Proof. exact (sor_idem eps a). Qed.

(* a non-empty a&b is included in both operands *)
Theorem C03_and_included :
  nonempty eps (sand a b) = true -> sin a (sand a b) = true /\ sin b (sand a b) = true.
Proof. exact (sand_included eps a b Heps). Qed.

(* falsy exactly when no longer than the precision; its duration is then 0 *)
Theorem C03_falsy_iff_short : nonempty eps a = false <-> en a - st a <= eps.
Proof. exact (bool_false_iff eps a). Qed.
Theorem C03_falsy_duration_zero : nonempty eps a = false -> duration eps a = 0.
Proof. exact (empty_duration eps a). Qed.

(* ==, hash and < : one total lexicographic order on (start, end) *)
Theorem C03_eq_is_equality : seqb a b = true <-> a = b.
Proof. exact (seqb_eq a b). Qed.
Theorem C03_hash_respects_eq : forall (T : Type) (h : Z * Z -> T), seqb a b = true -> h a = h b.
Proof. exact (fun T h => hash_respects_eq h a b). Qed.
Theorem C03_lt_lexicographic : sltb a b = true <-> (st a < st b \/ (st a = st b /\ en a < en b)).
Proof. exact (sltb_lex a b). Qed.
Theorem C03_lt_irreflexive : sltb a a = false.
Proof. exact (sltb_irrefl a). Qed.
Theorem C03_lt_transitive : sltb a b = true -> sltb b c = true -> sltb a c = true.
Proof. exact (sltb_trans a b c). Qed.
Theorem C03_lt_total :
  (sltb a b = true /\ seqb a b = false /\ sltb b a = false) \/
  (sltb a b = false /\ seqb a b = true /\ sltb b a = false) \/
  (sltb a b = false /\ seqb a b = false /\ sltb b a = true).
Proof. exact (sltb_trichotomy a b). Qed.

(* duration identity: exact at eps = 0 is stated outside the section; within eps otherwise *)
Theorem C03_duration_identity_upto_eps :
  nonempty eps a = true -> nonempty eps b = true ->
  Z.abs (duration eps (sor eps a b)
         - (duration eps a + duration eps b - duration eps (sand a b)
            + dur_opt eps (sxor eps a b))) <= eps.
Proof. exact (dur_identity_upto_eps eps a b Heps). Qed.
End C03.

Theorem C03_duration_identity_eps0 : forall a b,
  nonempty 0 a = true -> nonempty 0 b = true ->
  duration 0 (sor 0 a b)
  = duration 0 a + duration 0 b - duration 0 (sand a b) + dur_opt 0 (sxor 0 a b).
Proof. exact dur_identity_eps0. Qed.

(* non-vacuity: the hypotheses are met by concrete, non-trivial segments *)
(* the middle of a segment, in doubled ticks (the check compares 2 * middle exactly) *)
Theorem C03_middle_is_the_midpoint : forall a, middle2 a = st a + en a.
Proof. reflexivity. Qed.

Example C03_nonvacuous :
  nonempty 4 (0, 10) = true /\ nonempty 4 (7, 20) = true /\
  intersects 4 (0, 10) (7, 20) = false /\ intersects 4 (0, 10) (5, 20) = true /\
  sxor 4 (0, 10) (15, 20) = Some (10, 15) /\ nonempty 4 (3, 7) = false.
Proof. vm_compute. repeat split. Qed.

Print Assumptions C03_and_is_intersection.
Print Assumptions C03_intersects_iff_and_nonempty.
Print Assumptions C03_intersects_symmetric.
Print Assumptions C03_touching_do_not_intersect.
Print Assumptions C03_overlap_within_precision_does_not_intersect.
Print Assumptions C03_or_covers.
Print Assumptions C03_or_least.
Print Assumptions C03_or_empty_neutral_left.
Print Assumptions C03_or_empty_neutral_right.
Print Assumptions C03_xor_error_iff_empty_operand.
Print Assumptions C03_xor_is_gap.
Print Assumptions C03_xor_of_intersecting_is_empty.
Print Assumptions C03_overlaps_closed.
Print Assumptions C03_in_is_inclusion.
Print Assumptions C03_and_comm.
Print Assumptions C03_and_assoc.
Print Assumptions C03_and_idem.
Print Assumptions C03_or_comm.
Print Assumptions C03_or_assoc.
Print Assumptions C03_or_idem.
Print Assumptions C03_and_included.
Print Assumptions C03_falsy_iff_short.
Print Assumptions C03_falsy_duration_zero.
Print Assumptions C03_eq_is_equality.
Print Assumptions C03_hash_respects_eq.
Print Assumptions C03_lt_lexicographic.
Print Assumptions C03_lt_irreflexive.
Print Assumptions C03_lt_transitive.
Print Assumptions C03_lt_total.
Print Assumptions C03_duration_identity_upto_eps.
Print Assumptions C03_duration_identity_eps0.
Print Assumptions C03_middle_is_the_midpoint.
