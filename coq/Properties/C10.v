(* C10  segmentation splits the support at every boundary; get_overlap finds shared time.
   Exact cell-level statements at eps = 0. Statements only.
   Annotation.get_overlap(labels=None) is proved below; with a `labels` argument it is the same
   function applied to subset(labels) (C11) and is tied exactly by the correspondence. *)
From PV Require Import Model.AnnotationOps Proofs.SortedP Proofs.SupportP Proofs.GapsP Proofs.SegmentationP Proofs.SegmentationEpsP
  Proofs.AnnotationInvP Proofs.AnnOverlapP.

Section C10.
Variable l : list seg.
Hypothesis Hl : wf 0 l.

(* segmentation(): covers exactly the cells the timeline covers *)
Theorem C10_segmentation_cells : forall k, covers_cell (segmentation 0 l) k <-> covers_cell l k.
Proof. exact (segmentation_cells l Hl). Qed.
(* pieces do not overlap *)
Theorem C10_segmentation_disjoint : forall p q, In p (segmentation 0 l) -> In q (segmentation 0 l) ->
  p = q \/ en p <= st q \/ en q <= st p.
Proof. exact (segmentation_disjoint l). Qed.
(* split at every original start and end (no original bound strictly inside a piece) and
   nowhere else (every piece bound is an original bound) *)
Theorem C10_segmentation_pieces : forall p, In p (segmentation 0 l) ->
  st p < en p /\ is_bound l (st p) /\ is_bound l (en p) /\ clean l (st p) (en p) /\
  (forall k, st p <= k < en p -> covers_cell l k).
Proof. exact (segmentation_pieces l Hl). Qed.
(* each original segment is the exact union of the pieces it contains *)
Theorem C10_original_is_union_of_pieces : forall s k, In s l -> st s <= k < en s ->
  exists p, In p (segmentation 0 l) /\ st p <= k < en p /\ st s <= st p /\ en p <= en s.
Proof. exact (segmentation_refines l Hl). Qed.
Theorem C10_segmentation_sorted : wf 0 (segmentation 0 l).
Proof. unfold segmentation. destruct (zdedup _); [split; constructor | apply wf_tl_of]. Qed.

(* get_overlap(): canonical decomposition of the cells covered by two distinct segments *)
Theorem C10_get_overlap : canonical (get_overlap 0 l) /\
  (forall k, covers_cell (get_overlap 0 l) k <-> covered_twice l k).
Proof. exact (get_overlap_spec l Hl). Qed.
End C10.

(* Annotation.get_overlap(): the canonical decomposition of the cells where two tracks with different
   labels are active together (same-label overlaps do not count) *)
Theorem C10_annotation_get_overlap : forall a, WF 0 (a_tracks a) ->
  canonical (get_overlap_ann 0 a None) /\
  (forall k, covers_cell (get_overlap_ann 0 a None) k <-> two_labels_active a k).
Proof. exact ann_get_overlap_spec. Qed.

(* ---- every time precision eps >= 0 (the library default of one microsecond is eps = 4 in regime K4) ----
   A stretch no longer than eps is an empty segment for the library; pieces and overlaps that short are not reported,
   everything else is as above. *)
Section C10_eps.
Variable eps : Z.
Hypothesis Heps : 0 <= eps.
Variable l : list seg.
Hypothesis Hl : wf eps l.

Theorem C10_eps_segmentation_pieces : forall p, In p (segmentation eps l) ->
  en p - st p > eps /\ is_bound l (st p) /\ is_bound l (en p) /\ clean l (st p) (en p) /\
  (exists r, In r (support eps 0 l) /\ st r <= st p /\ en p <= en r).
Proof. exact (segmentation_pieces_eps eps Heps l Hl). Qed.
Theorem C10_eps_segmentation_disjoint : forall p q, In p (segmentation eps l) -> In q (segmentation eps l) ->
  p = q \/ en p <= st q \/ en q <= st p.
Proof. exact (segmentation_disjoint_eps eps l). Qed.
(* each original segment is the union of the pieces inside it, up to stretches between consecutive boundaries
   that are no longer than eps *)
Theorem C10_eps_original_is_union_of_pieces : forall s k, In s l -> st s <= k < en s ->
  (exists p, In p (segmentation eps l) /\ st p <= k < en p /\ st s <= st p /\ en p <= en s) \/
  (exists a b, consec (bounds_of l) a b /\ a <= k < b /\ b - a <= eps /\ st s <= a /\ b <= en s).
Proof. exact (segmentation_refines_eps eps Heps l Hl). Qed.
Theorem C10_eps_segmentation_sorted : wf eps (segmentation eps l).
Proof. exact (segmentation_wf_eps eps l). Qed.

Theorem C10_eps_get_overlap_shape :
  separated eps 0 (get_overlap eps l) /\ Forall (ne eps) (get_overlap eps l) /\
  (forall o, In o (get_overlap eps l) ->
     (exists a, In a (pair_overlaps eps l) /\ st o = st a) /\ (exists b, In b (pair_overlaps eps l) /\ en o = en b)).
Proof. exact (get_overlap_eps_shape eps Heps l). Qed.
Theorem C10_eps_get_overlap_sound : forall k, covers_cell (get_overlap eps l) k ->
  covered_twice l k \/ in_bridged_gap eps 0 (pair_overlaps eps l) k.
Proof. exact (get_overlap_eps_sound eps Heps l Hl). Qed.
Theorem C10_eps_get_overlap_complete : forall s s', In s l -> In s' l -> s <> s' ->
  nonempty eps (sand s s') = true ->
  exists o, In o (get_overlap eps l) /\ st o <= Z.max (st s) (st s') /\ Z.min (en s) (en s') <= en o.
Proof. exact (get_overlap_eps_complete eps Heps l Hl). Qed.
End C10_eps.

(* Annotation.get_overlap(), every precision *)
Section C10_eps_ann.
Variable eps : Z.
Hypothesis Heps : 0 <= eps.
Variable a : ann.
Hypothesis W : WF eps (a_tracks a).
Theorem C10_eps_annotation_get_overlap_shape :
  separated eps 0 (get_overlap_ann eps a None) /\ Forall (ne eps) (get_overlap_ann eps a None).
Proof. exact (ann_get_overlap_eps_shape eps Heps a). Qed.
(* a reported time point has two tracks with different labels active, or lies in a gap no longer than eps between
   two such intersections *)
Theorem C10_eps_annotation_get_overlap_sound : forall k, covers_cell (get_overlap_ann eps a None) k ->
  two_labels_active a k \/ in_bridged_gap eps 0 (label_overlaps eps a) k.
Proof. exact (ann_get_overlap_eps_sound eps Heps a W). Qed.
(* every intersection, longer than eps, of two tracks with different labels is inside one reported overlap *)
Theorem C10_eps_annotation_get_overlap_complete : forall s t l s' t' l',
  getitem a s t = Some l -> getitem a s' t' = Some l' -> l <> l' -> nonempty eps (sand s s') = true ->
  exists o, In o (get_overlap_ann eps a None) /\ st o <= Z.max (st s) (st s') /\ Z.min (en s) (en s') <= en o.
Proof. exact (ann_get_overlap_eps_complete eps Heps a W). Qed.
End C10_eps_ann.

(* get_overlap(labels): the request is read as a set of labels (order and repetitions are immaterial) *)
Theorem C10_annotation_get_overlap_label_request_is_a_set : forall eps a l1 l2, l1 <> [] -> l2 <> [] ->
  (forall x, In x l1 <-> In x l2) -> get_overlap_ann eps a (Some l1) = get_overlap_ann eps a (Some l2).
Proof. exact get_overlap_request_is_a_set. Qed.

Example C10_eps_nonvacuous :
  wf 4 [(0,40); (10,20); (10,63); (80,90); (90,110)] /\
  segmentation 4 [(0,40); (10,20); (10,63); (80,90); (90,110)] = [(0,10); (10,20); (20,40); (40,63); (80,90); (90,110)] /\
  segmentation 4 [(0,40); (3,40); (38,60)] = [(3,38); (40,60)] /\           (* (0,3) and (38,40) are not reported *)
  get_overlap 4 [(0,40); (10,20); (10,63); (80,90); (88,110)] = [(10,40)].   (* the overlap (88,90) is not *)
Proof. split; [split; repeat constructor | vm_compute; repeat split]. Qed.

Example C10_nonvacuous :
  wf 0 [(0,4); (1,2); (1,6); (8,9); (9,11)] /\
  segmentation 0 [(0,4); (1,2); (1,6); (8,9); (9,11)] = [(0,1); (1,2); (2,4); (4,6); (8,9); (9,11)] /\
  get_overlap 0 [(0,4); (1,2); (1,6); (8,9); (9,11)] = [(1,4)].
Proof. split; [split; repeat constructor | vm_compute; repeat split]. Qed.

Print Assumptions C10_segmentation_cells.
Print Assumptions C10_segmentation_disjoint.
Print Assumptions C10_segmentation_pieces.
Print Assumptions C10_original_is_union_of_pieces.
Print Assumptions C10_segmentation_sorted.
Print Assumptions C10_get_overlap.
Print Assumptions C10_annotation_get_overlap.
Print Assumptions C10_annotation_get_overlap_label_request_is_a_set.
Print Assumptions C10_eps_segmentation_pieces.
Print Assumptions C10_eps_segmentation_disjoint.
Print Assumptions C10_eps_original_is_union_of_pieces.
Print Assumptions C10_eps_segmentation_sorted.
Print Assumptions C10_eps_get_overlap_shape.
Print Assumptions C10_eps_get_overlap_sound.
Print Assumptions C10_eps_get_overlap_complete.
Print Assumptions C10_eps_annotation_get_overlap_shape.
Print Assumptions C10_eps_annotation_get_overlap_sound.
Print Assumptions C10_eps_annotation_get_overlap_complete.
