(* placeholder until proofs land *)
From PV Require Import Model.Annotation.
Theorem C02_placeholder : True. Proof. exact I. Qed.
Print Assumptions C02_placeholder.
