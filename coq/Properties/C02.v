(* C02  Annotation is a (segment, track) -> label map whose derived views never go stale.
   The model mirrors annotation.py: the ground-truth track map (a_tracks), the cached per-label
   timelines with their dirty flags, the cached timeline of segments with its flag.
   [AInv eps a]: the dirty-flag invariant (every label in use is flagged or cached; a cached,
   unflagged timeline equals the one computed from scratch from the track map, carries the
   current uri, and its label is in use; an unflagged segment timeline is the one computed from
   scratch; no stored segment is empty; per-segment dicts are non-empty).
   [occ m lab s]: some track of segment s carries label lab in the track map m.
   [lab_tl eps m lab]: the timeline of the segments carrying lab, computed from scratch.
   Statements only. *)
From PV Require Import Model.Annotation Proofs.DictP Proofs.AnnotationInvP Proofs.AnnotationHistP Proofs.StringOrderP
  Proofs.LabelsOrderP Check.C02.

Section C02.
Variable eps : Z.

(* the invariant holds in every state reachable by ANY interleaving of Annotation(), from_records,
   a[s,t]=l, a[s]=l, del a[s,t], del a[s], update, rename_labels(copy=False), uri assignment and
   reads (reads refresh caches), over any number of objects *)
Theorem C02_invariant_in_every_reachable_state : forall ops regs,
  Forall (AInv eps) regs -> Forall (AInv eps) (regs_after eps regs ops).
Proof. exact (history_inv eps). Qed.
Theorem C02_invariant_from_scratch : forall ops r, AInv eps (getr (regs_after eps [] ops) r).
Proof. exact (reachable_inv eps). Qed.

(* one write at a time *)
Theorem C02_new : forall u md, AInv eps (a_empty u md).
Proof. exact (AInv_empty eps). Qed.
Theorem C02_from_records : forall recs u md, AInv eps (from_records eps recs u md).
Proof. exact (AInv_from_records eps). Qed.
Theorem C02_setitem : forall a s t l, AInv eps a -> AInv eps (setitem eps a s t l).
Proof. exact (AInv_setitem eps). Qed.
Theorem C02_delitem_segment : forall a s a', AInv eps a -> delitem_seg a s = Some a' -> AInv eps a'.
Proof. exact (AInv_delitem_seg eps). Qed.
Theorem C02_delitem_track : forall a s t a', AInv eps a -> delitem_track a s t = Some a' -> AInv eps a'.
Proof. exact (AInv_delitem_track eps). Qed.
Theorem C02_update : forall recs a, AInv eps a -> AInv eps (update_with eps a recs).
Proof. exact (AInv_update_with eps). Qed.
Theorem C02_rename_in_place : forall a mapping, AInv eps a -> AInv eps (rename_labels_inplace a mapping).
Proof. exact (AInv_rename eps). Qed.
Theorem C02_set_uri : forall a u, AInv eps a ->
  AInv eps (set_uri eps a u) /\ a_uri (set_uri eps a u) = u /\ a_tracks (set_uri eps a u) = a_tracks a.
Proof. exact (AInv_set_uri eps). Qed.

(* reads of a state satisfying the invariant equal what is computed from scratch from the track map,
   leave the track map, uri and modality unchanged, and keep the invariant *)
Theorem C02_labels_fresh : forall a, AInv eps a ->
  let '(a', L) := labels eps a in
  AInv eps a' /\ no_dirty a' /\ same_core a' a /\
  (forall lab, In lab L <-> occurs (a_tracks a) lab) /\ NoDup L.
Proof. exact (labels_spec eps). Qed.
Theorem C02_label_timeline_fresh : forall a lab, AInv eps a ->
  let '(a', c) := label_timeline eps a lab in
  AInv eps a' /\ same_core a' a /\ c_segs c = lab_tl eps (a_tracks a) lab /\ c_uri c = a_uri a.
Proof. exact (label_timeline_spec eps). Qed.
Theorem C02_get_timeline_fresh : forall a, AInv eps a ->
  let '(a', c) := get_timeline eps a in
  AInv eps a' /\ a_tracks a' = a_tracks a /\ a_uri a' = a_uri a /\ a_modality a' = a_modality a /\
  a_labels a' = a_labels a /\ a_dirty a' = a_dirty a /\
  c_segs c = tl_of eps (skeys (a_tracks a)) /\ c_uri c = a_uri a.
Proof. exact (get_timeline_spec eps). Qed.
(* the from-scratch label timeline holds exactly the segments on which the label is in use *)
Theorem C02_label_timeline_content : forall m lab s, WF eps m ->
  (In s (label_segments m lab) <-> occ m lab s).
Proof. exact (label_segments_In eps). Qed.
(* empty segments are never stored, whichever entry point supplied them *)
Theorem C02_no_empty_segment_stored : forall a s, AInv eps a -> In s (skeys (a_tracks a)) -> nonempty eps s = true.
Proof. exact (stored_segments_nonempty eps). Qed.
(* labels() is strictly increasing in str() order (ints before strings when two labels print alike),
   hence a function of the set of labels in use, whatever the history and the cache state *)
Theorem C02_labels_sorted : forall a, AInv eps a -> sorted_lt name_ltb (snd (labels eps a)).
Proof. exact (labels_sorted eps). Qed.
Theorem C02_labels_depend_on_the_labels_in_use_only : forall a b, AInv eps a -> AInv eps b ->
  (forall l, occurs (a_tracks a) l <-> occurs (a_tracks b) l) -> snd (labels eps a) = snd (labels eps b).
Proof. exact (labels_canonical eps). Qed.
End C02.

(* finding F2 (fixed): the old bulk constructor did store empty segments *)
Theorem C02_old_from_records_refuted :
  exists recs s, In s (skeys (a_tracks (from_records_old recs None None))) /\ nonempty 0 s = false.
Proof. exact from_records_old_refuted. Qed.

(* non-vacuity: a write-read-write-read history; the invariant's premises are met and the reads are fresh *)
Example C02_nonvacuous :
  let ops := [ASet 0 (0, 4) (Some (NStr "x")) (NStr "a"); ASet 0 (2, 6) None (NStr "b");
              ARead 0 (RLabels [NStr "a"; NStr "b"]); ADelTrack 0 (0, 4) (NStr "x") false;
              ARead 0 (RLabels [NStr "b"]); ASet 0 (2, 6) None (NStr "c");
              ARead 0 (RLabelTimeline (NStr "b") [] None); ARead 0 (RLabelTimeline (NStr "c") [(2, 6)] None)] in
  run 0 [] ops = true.
Proof. vm_compute. reflexivity. Qed.

Print Assumptions C02_invariant_in_every_reachable_state.
Print Assumptions C02_invariant_from_scratch.
Print Assumptions C02_new.
Print Assumptions C02_from_records.
Print Assumptions C02_setitem.
Print Assumptions C02_delitem_segment.
Print Assumptions C02_delitem_track.
Print Assumptions C02_update.
Print Assumptions C02_rename_in_place.
Print Assumptions C02_set_uri.
Print Assumptions C02_labels_fresh.
Print Assumptions C02_label_timeline_fresh.
Print Assumptions C02_get_timeline_fresh.
Print Assumptions C02_label_timeline_content.
Print Assumptions C02_no_empty_segment_stored.
Print Assumptions C02_old_from_records_refuted.
Print Assumptions C02_labels_sorted.
Print Assumptions C02_labels_depend_on_the_labels_in_use_only.
