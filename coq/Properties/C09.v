(* C09  Annotation.support, label durations, chart, argmax and co-occurrence are exact.
   Proved: chart lists every label in use exactly once with its from-scratch duration in
   non-increasing order; label_duration is the measure of the union of the label's segments
   (eps = 0); argmax returns a label of maximal duration, None only when nothing is there; the
   matrix a * b has entry (i, j) = sum over intersecting track pairs labelled (i, j) of the
   intersection duration, and entry (j, i) of b * a equals entry (i, j) of a * b.
   argmax(support) is argmax of the intersection-mode crop (characterised in C07), which satisfies
   the invariant, so it returns a label of maximal duration within the support.
   support(collar): the result satisfies the invariant, carries uri and modality, and holds, as a
   multiset of (segment, label), exactly one track per label in use and segment of that label's
   timeline support(collar) -- nothing else (for fewer than 26^64 - 1 tracks, the fuel of the model's
   word generator).
   chart(percent=True) lists the labels of chart() in the same order, each with its duration over the
   sum of the label durations; the shares add up to one (as rationals; the float division is tied by
   the correspondence).
   Statements only. *)
From PV Require Import Model.AnnotationOps Proofs.SupportP Proofs.MeasureP Proofs.AnnotationInvP
  Proofs.AnalyzeP Proofs.CooccurrenceP Proofs.AnnCropInterP Proofs.WordsP Proofs.AnnSupportP.
From Coq Require Import QArith.
Local Close Scope Q_scope.
Local Open Scope Z_scope.

Theorem C09_chart : forall eps a, AInv eps a ->
  let ch := snd (chart eps a) in
  nonincr ch /\ NoDup (map fst ch) /\
  (forall l, In l (map fst ch) <-> occurs (a_tracks a) l) /\
  (forall l d, In (l, d) ch -> d = tl_duration eps (lab_tl eps (a_tracks a) l)).
Proof. exact chart_spec. Qed.
Theorem C09_label_duration_is_length_of_union : forall a l lo n, AInv 0 a ->
  (forall s, In s (lab_tl 0 (a_tracks a) l) -> lo <= st s /\ en s <= lo + Z.of_nat n) ->
  snd (label_duration 0 a l) = measure lo n (lab_tl 0 (a_tracks a) l).
Proof. exact label_duration_is_measure. Qed.
Theorem C09_argmax : forall eps a, AInv eps a ->
  match argmax_ann eps a None with
  | None => a_bool a = false \/ snd (labels eps a) = []
  | Some l => In l (snd (labels eps a)) /\
              forall l', In l' (snd (labels eps a)) ->
                snd (label_duration eps (fst (labels eps a)) l') <= snd (label_duration eps (fst (labels eps a)) l)
  end.
Proof. exact argmax_spec. Qed.
Theorem C09_support_is_per_label_timeline_support : forall eps a collar, AInv eps a ->
  Z.of_nat (List.length (support_recs eps a collar)) < word_bound ->
  let r := support_ann eps a collar in
  AInv eps r /\ Permutation (entries (a_tracks r)) (support_recs eps a collar) /\
  a_uri r = a_uri a /\ a_modality r = a_modality a.
Proof. exact support_ann_spec. Qed.
Theorem C09_support_labels_and_segments : forall eps, 0 <= eps -> forall a collar l s, AInv eps a ->
  Z.of_nat (List.length (support_recs eps a collar)) < word_bound ->
  (occ (a_tracks (support_ann eps a collar)) l s <->
   occurs (a_tracks a) l /\ In s (support eps collar (lab_tl eps (a_tracks a) l))).
Proof. exact support_ann_label_segments'. Qed.
Theorem C09_label_timeline_of_support_is_support_of_label_timeline : forall eps, 0 <= eps -> forall a collar l, AInv eps a ->
  Z.of_nat (List.length (support_recs eps a collar)) < word_bound ->
  lab_tl eps (a_tracks (support_ann eps a collar)) l = support eps collar (lab_tl eps (a_tracks a) l).
Proof. exact support_ann_label_timeline. Qed.
Theorem C09_support_with_collar_0_keeps_every_label_duration : forall eps, 0 <= eps -> forall a l, AInv eps a ->
  Z.of_nat (List.length (support_recs eps a 0)) < word_bound ->
  tl_duration eps (lab_tl eps (a_tracks (support_ann eps a 0)) l) = tl_duration eps (lab_tl eps (a_tracks a) l).
Proof. exact support_ann_keeps_durations. Qed.
Theorem C09_argmax_within_support : forall eps, 0 <= eps -> forall a S, AInv eps a ->
  let c := crop_ann eps a S Inter in
  match argmax_ann eps a (Some S) with
  | None => a_bool c = false \/ snd (labels eps c) = []
  | Some l => In l (snd (labels eps c)) /\
              forall l', In l' (snd (labels eps c)) ->
                snd (label_duration eps (fst (labels eps c)) l') <= snd (label_duration eps (fst (labels eps c)) l)
  end.
Proof. exact argmax_support_spec. Qed.
Theorem C09_chart_percent_is_duration_over_sum_of_label_durations : forall eps a, AInv eps a ->
  let ch := snd (chart eps a) in
  let pc := snd (chart_percent eps a) in
  let total := fold_right Z.add 0 (map snd ch) in
  map fst pc = map fst ch /\ map (fun p => fst (snd p)) pc = map snd ch /\
  (forall l d T, In (l, (d, T)) pc -> T = total /\ d = tl_duration eps (lab_tl eps (a_tracks a) l)) /\
  (0 < total -> (fold_right Qplus 0%Q (map (fun p => Qmake (fst (snd p)) (Z.to_pos (snd (snd p)))) pc) == 1%Q)%Q).
Proof. exact chart_percent_spec. Qed.
Theorem C09_matrix_entries : forall eps a b,
  mul_ann eps a b = map (fun i => map (fun j => entry eps a b i j) (snd (labels eps b))) (snd (labels eps a)).
Proof. exact mul_entries. Qed.
Theorem C09_track_pairs_of_b_a_are_those_of_a_b_swapped : forall eps, 0 <= eps -> forall a b,
  WF eps (a_tracks a) -> WF eps (a_tracks b) ->
  Permutation (co_iter_ann eps b a) (map swap_tp (co_iter_ann eps a b)).
Proof. exact co_iter_ann_transpose. Qed.
Theorem C09_matrix_transpose : forall eps, 0 <= eps -> forall a b i j,
  WF eps (a_tracks a) -> WF eps (a_tracks b) -> entry eps b a j i = entry eps a b i j.
Proof. exact mul_transpose. Qed.

Example C09_nonvacuous :
  let a := ann_of 0 None None [((0, 10), NStr "x", NStr "A"); ((8, 20), NStr "x", NStr "B"); ((9, 12), NStr "y", NStr "A")] in
  let b := ann_of 0 None None [((5, 15), NStr "_", NStr "U")] in
  snd (chart 0 a) = [(NStr "A", 12); (NStr "B", 12)] /\ argmax_ann 0 a None = Some (NStr "A") /\
  mul_ann 0 a b = [[8]; [7]] /\ mul_ann 0 b a = [[8; 7]] /\
  itertracks (support_ann 0 a 0) = [((0, 12), NStr "A", NStr "A"); ((8, 20), NStr "B", NStr "B")] /\
  argmax_ann 0 a (Some (SupSeg (10, 20))) = Some (NStr "B") /\
  snd (chart_percent 0 a) = [(NStr "A", (12, 24)); (NStr "B", (12, 24))].
Proof. vm_compute. repeat split. Qed.

Print Assumptions C09_chart.
Print Assumptions C09_chart_percent_is_duration_over_sum_of_label_durations.
Print Assumptions C09_label_duration_is_length_of_union.
Print Assumptions C09_argmax.
Print Assumptions C09_support_is_per_label_timeline_support.
Print Assumptions C09_support_labels_and_segments.
Print Assumptions C09_label_timeline_of_support_is_support_of_label_timeline.
Print Assumptions C09_support_with_collar_0_keeps_every_label_duration.
Print Assumptions C09_argmax_within_support.
Print Assumptions C09_matrix_entries.
Print Assumptions C09_track_pairs_of_b_a_are_those_of_a_b_swapped.
Print Assumptions C09_matrix_transpose.
