(* placeholder until proofs land *)
From PV Require Import Model.AnnotationOps.
Theorem C09_placeholder : True. Proof. exact I. Qed.
Print Assumptions C09_placeholder.
