(* C05  co_iter and crop return exactly the pairs / segments the mode calls for.
   [wf eps l]: what a Timeline iterates (C01). regions = support() of the support
   argument (a Segment counts as a one-segment timeline). Statements only. *)
From PV Require Import Model.AnnotationOps Proofs.SegmentP Proofs.SortedP Proofs.SupportP Proofs.CropP
  Proofs.AnnotationInvP Proofs.AnnOverlapP.

Section C05.
Variable eps : Z.
Hypothesis Heps : 0 <= eps.
Variables a b : list seg.
Hypothesis Ha : wf eps a.
Hypothesis Hb : wf eps b.

(* the range query inside co_iter loses nothing: co_iter is the plain nested
   comprehension, in that order *)
Theorem C05_co_iter_is_comprehension :
  co_iter eps a b = flat_map (fun s => map (fun o => (s, o)) (filter (intersects eps s) b)) a.
Proof. exact (co_iter_spec eps Heps a b Ha Hb). Qed.
Theorem C05_co_iter_exact : forall s o,
  In (s, o) (co_iter eps a b) <-> In s a /\ In o b /\ nonempty eps (sand s o) = true.
Proof. exact (fun s o => co_iter_In_and eps Heps a b s o Ha Hb). Qed.
Theorem C05_co_iter_each_pair_once : NoDup (co_iter eps a b).
Proof. exact (co_iter_nodup eps Heps a b Ha Hb). Qed.
Theorem C05_co_iter_chronological : StronglySorted pair_lt (co_iter eps a b).
Proof. exact (co_iter_sorted eps Heps a b Ha Hb). Qed.
(* swapping the operands swaps every pair; in particular a timeline paired with itself yields (s, o) exactly when it
   yields (o, s) - no "each unordered pair once" shortcut *)
Theorem C05_co_iter_swapped_operands : forall s o, In (s, o) (co_iter eps a b) <-> In (o, s) (co_iter eps b a).
Proof. exact (fun s o => co_iter_swap eps Heps a b s o Ha Hb). Qed.

Variable S : sup.
Theorem C05_crop_loose : forall x,
  In x (crop eps a S Loose) <-> In x a /\ exists r, In r (norm_support eps S) /\ intersects eps x r = true.
Proof. exact (crop_loose_spec eps Heps a Ha S). Qed.
Theorem C05_crop_strict : forall x,
  In x (crop eps a S Strict) <-> In x a /\ exists r, In r (norm_support eps S) /\ sin r x = true.
Proof. exact (crop_strict_spec eps Heps a Ha S). Qed.
Theorem C05_crop_intersection : forall y,
  In y (crop eps a S Inter) <->
  exists x r, In x a /\ In r (norm_support eps S) /\ y = sand x r /\ nonempty eps y = true.
Proof. exact (crop_inter_spec eps Heps a Ha S). Qed.
Theorem C05_crop_result_is_timeline : forall m, wf eps (crop eps a S m).
Proof. exact (crop_wf eps a S). Qed.
Theorem C05_crop_mapping : forall m,
  dict_get m (crop_mapping eps a S) =
    match map fst (filter (fun p => seqb m (snd p)) (crop_iter eps a S Inter)) with
    | [] => None
    | vs => Some vs
    end.
Proof. exact (crop_mapping_spec eps a S). Qed.
Theorem C05_crop_mapping_lists_exactly_the_originals : forall m x,
  (exists vs, dict_get m (crop_mapping eps a S) = Some vs /\ In x vs) <->
  In x a /\ nonempty eps m = true /\ exists r, In r (norm_support eps S) /\ m = sand x r.
Proof. exact (crop_mapping_members eps Heps a Ha S). Qed.

Theorem C05_timeline_support_equiv_its_support : forall m,
  crop eps a (SupTl b) m = crop eps a (SupTl (support eps 0 b)) m.
Proof. exact (fun m => crop_support_equiv eps Heps a b m Hb). Qed.
Theorem C05_segment_support_equiv_one_segment_timeline : forall x m,
  crop eps a (SupSeg x) m = crop eps a (SupTl (tl_of eps [x])) m.
Proof. exact (crop_segment_equiv eps a). Qed.
Theorem C05_empty_support_gives_empty : forall m,
  crop eps a (SupTl []) m = [] /\ forall x, nonempty eps x = false -> crop eps a (SupSeg x) m = [].
Proof. exact (fun m => conj (crop_empty_timeline_support eps a m) (fun x => crop_empty_segment_support eps a x m)). Qed.
End C05.

(* Annotation.co_iter pairs the tracks of intersecting segments the same way: exactly the pairs of
   tracks whose segments have a non-empty intersection, each once *)
Theorem C05_annotation_co_iter_exact : forall eps, 0 <= eps -> forall a b s t s' t',
  WF eps (a_tracks a) -> WF eps (a_tracks b) ->
  (In ((s, t), (s', t')) (co_iter_ann eps a b) <->
   In t (get_tracks a s) /\ In t' (get_tracks b s') /\ nonempty eps (sand s s') = true).
Proof. exact ann_co_iter_exact. Qed.
Theorem C05_annotation_co_iter_each_pair_once : forall eps, 0 <= eps -> forall a b,
  WF eps (a_tracks a) -> WF eps (a_tracks b) -> NoDup (co_iter_ann eps a b).
Proof. exact ann_co_iter_once. Qed.

Example C05_nonvacuous :
  wf 0 [(0,2); (1,2); (3,4)] /\
  co_iter 0 [(0,2); (1,2); (3,4)] [(1,3); (3,5)] = [((0,2),(1,3)); ((1,2),(1,3)); ((3,4),(3,5))] /\
  crop 0 [(0,2); (1,2); (3,4)] (SupSeg (1,3)) Loose = [(0,2); (1,2)] /\
  crop 0 [(0,2); (1,2); (3,4)] (SupSeg (1,3)) Strict = [(1,2)] /\
  crop_mapping 0 [(0,2); (1,2); (3,4)] (SupSeg (1,3)) = [((1,2), [(0,2); (1,2)])].
Proof. split; [split; repeat constructor | vm_compute; repeat split]. Qed.

Print Assumptions C05_co_iter_is_comprehension.
Print Assumptions C05_co_iter_exact.
Print Assumptions C05_co_iter_each_pair_once.
Print Assumptions C05_co_iter_chronological.
Print Assumptions C05_co_iter_swapped_operands.
Print Assumptions C05_crop_loose.
Print Assumptions C05_crop_strict.
Print Assumptions C05_crop_intersection.
Print Assumptions C05_crop_result_is_timeline.
Print Assumptions C05_crop_mapping.
Print Assumptions C05_crop_mapping_lists_exactly_the_originals.
Print Assumptions C05_timeline_support_equiv_its_support.
Print Assumptions C05_segment_support_equiv_one_segment_timeline.
Print Assumptions C05_empty_support_gives_empty.
Print Assumptions C05_annotation_co_iter_exact.
Print Assumptions C05_annotation_co_iter_each_pair_once.
