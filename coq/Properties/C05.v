(* placeholder until proofs land *)
From PV Require Import Model.Timeline.
Theorem C05_placeholder : True. Proof. exact I. Qed.
Print Assumptions C05_placeholder.
