(* placeholder until proofs land *)
From PV Require Import Model.AnnotationOps.
Theorem C12_placeholder : True. Proof. exact I. Qed.
Print Assumptions C12_placeholder.
