(* C12  Equality is content equality; record, dataframe and text forms round-trip.
   Proved: == compares the track iterations, which (for track names with pairwise distinct printed
   forms on each segment) depend only on the content of the track map -- not on insertion order,
   uri, modality or caches; != is its negation; any single-element perturbation flips equality;
   .3f formatting is within half a millisecond, str(segment) within one millisecond; the text
   serialisers produce one line per track / segment and refuse exactly when a space is present.
   rebuilding from the records produced by track iteration gives an equal object;
   Timeline.to_annotation gives one '_' track per segment, labelled in timeline order, whose segment
   set is the timeline again (so get_timeline, by C02, gives the timeline back).
   Tied by the correspondence, not proved: the from_df round trip (pandas is run, not modelled) and
   the exact text of the lines (compared string by string with the Text model). Statements only. *)
From PV Require Import Model.Text Proofs.SupportP Proofs.AnnotationInvP Proofs.TextEqP Proofs.CanonicalIterP
  Proofs.RoundTripP Proofs.DictP Proofs.AnnRenameTracksP.

Theorem C12_eq_compares_track_iterations : forall a b, ann_eq a b = true <-> itertracks a = itertracks b.
Proof. exact ann_eq_spec. Qed.
Theorem C12_ne_is_negation : forall a b, ann_ne a b = negb (ann_eq a b).
Proof. exact ann_ne_spec. Qed.
(* same content => same iteration, whatever the insertion order *)
Theorem C12_iteration_depends_on_content_only : forall eps m1 m2, WF eps m1 -> WF eps m2 ->
  all_distinct_str m1 -> all_distinct_str m2 ->
  (forall s t, lookup m1 s t = lookup m2 s t) -> itertracks_m m1 = itertracks_m m2.
Proof. exact itertracks_canonical. Qed.
Theorem C12_eq_ignores_uri_modality_caches : forall a b, a_tracks a = a_tracks b -> ann_eq a b = true.
Proof. exact ann_eq_ignores_metadata. Qed.
Theorem C12_equal_annotations_hold_same_triples : forall a b, ann_eq a b = true ->
  forall x, In x (itertracks a) <-> In x (itertracks b).
Proof. exact ann_eq_same_triples. Qed.
Theorem C12_one_differing_triple_flips_equality : forall a b x,
  In x (itertracks a) -> ~ In x (itertracks b) -> ann_eq a b = false.
Proof. exact perturbation_flips. Qed.
Theorem C12_extra_or_missing_track_flips_equality : forall a b,
  length (itertracks a) <> length (itertracks b) -> ann_eq a b = false.
Proof. exact length_differs_flips. Qed.

(* Annotation.from_records(a.itertracks(yield_label=True)) == a, for every reachable annotation *)
Theorem C12_records_round_trip : forall eps a u md, AInv eps a -> all_distinct_str (a_tracks a) ->
  ann_eq (from_records eps (itertracks a) u md) a = true.
Proof. exact records_roundtrip. Qed.

(* text forms *)
Theorem C12_fmt3_within_half_millisecond : forall scale n, 0 < scale ->
  let m := rhe (Z.abs n * 1000) scale in 2 * Z.abs (m * scale - Z.abs n * 1000) <= scale.
Proof. exact fmt3_value_within_half_ms. Qed.
Theorem C12_printed_segment_bound_within_one_millisecond : forall scale n, 0 < scale ->
  let ms := Z.abs (str_helper_ms scale n) in
  - scale <= 2 * (Z.abs n * 1000000 - ms * 1000 * scale) < 2 * 1000 * scale + scale.
Proof. exact str_helper_within_1ms. Qed.
Theorem C12_rttm_refused_iff_space : forall eps scale a,
  rttm_lines eps scale a = None <->
  (uri_has_space (a_uri a) = true \/ exists x, In x (itertracks a) /\ name_has_space (snd x) = true).
Proof. exact rttm_refused_iff. Qed.
Theorem C12_rttm_one_line_per_track : forall eps scale a ls,
  rttm_lines eps scale a = Some ls -> length ls = length (itertracks a).
Proof. exact rttm_one_line_per_track. Qed.
Theorem C12_lab_refused_iff_space_in_label : forall eps scale a,
  lab_lines eps scale a = None <-> exists x, In x (itertracks a) /\ name_has_space (snd x) = true.
Proof. exact lab_refused_iff. Qed.
Theorem C12_uem_refused_iff_space_in_uri : forall scale u t, uem_lines scale u t = None <-> uri_has_space u = true.
Proof. exact uem_refused_iff. Qed.
Theorem C12_uem_one_line_per_segment : forall scale u t ls, uem_lines scale u t = Some ls -> length ls = length t.
Proof. exact uem_one_line_per_segment. Qed.

Theorem C12_to_annotation_round_trip : forall eps t u m g, wf eps t -> gen_ok g (List.length t) ->
  exists r, to_annotation eps t u m g = Some r /\ AInv eps r /\
    (forall k s, nth_error t k = Some s -> getitem r s default_track = Some (gen_fun g k)) /\
    (forall s tr, getitem r s tr <> None -> In s t /\ tr = default_track) /\
    skeys (a_tracks r) = t /\
    a_uri r = u /\ a_modality r = m.
Proof. exact to_annotation_spec. Qed.

(* track iteration - hence RTTM / LAB output - is chronological: segments never decrease along it *)
Theorem C12_iteration_is_chronological : forall eps m, WF eps m ->
  StronglySorted sle (map (fun x : triple => fst (fst x)) (itertracks_m m)).
Proof. exact itertracks_chronological. Qed.
Theorem C12_rttm_one_line_per_track_in_chronological_order : forall eps scale a ls, WF eps (a_tracks a) ->
  rttm_lines eps scale a = Some ls ->
  List.length ls = List.length (itertracks a) /\
  StronglySorted sle (map (fun x : triple => fst (fst x)) (itertracks a)).
Proof. exact rttm_lines_chronological. Qed.

Example C12_nonvacuous :
  let a := ann_of 0 (Some "u"%string) None [((0, 4), NStr "x", NStr "a"); ((0, 4), NInt 0, NStr "b")] in
  let b := ann_of 0 None (Some "m"%string) [((0, 4), NInt 0, NStr "b"); ((0, 4), NStr "x", NStr "a")] in
  ann_eq a b = true /\ a_tracks a <> a_tracks b /\
  fmt3 1024 (-3) = "-0.003"%string /\ fmt3 1024 1537 = "1.501"%string /\
  seg_str 0 1024 (1369088, 1369518) = "[ 00:22:17.000 -->  00:22:17.419]"%string.
Proof. vm_compute. repeat split; discriminate. Qed.

Print Assumptions C12_eq_compares_track_iterations.
Print Assumptions C12_ne_is_negation.
Print Assumptions C12_iteration_depends_on_content_only.
Print Assumptions C12_eq_ignores_uri_modality_caches.
Print Assumptions C12_equal_annotations_hold_same_triples.
Print Assumptions C12_one_differing_triple_flips_equality.
Print Assumptions C12_extra_or_missing_track_flips_equality.
Print Assumptions C12_records_round_trip.
Print Assumptions C12_fmt3_within_half_millisecond.
Print Assumptions C12_printed_segment_bound_within_one_millisecond.
Print Assumptions C12_rttm_refused_iff_space.
Print Assumptions C12_rttm_one_line_per_track.
Print Assumptions C12_lab_refused_iff_space_in_label.
Print Assumptions C12_uem_refused_iff_space_in_uri.
Print Assumptions C12_uem_one_line_per_segment.
Print Assumptions C12_to_annotation_round_trip.
Print Assumptions C12_iteration_is_chronological.
Print Assumptions C12_rttm_one_line_per_track_in_chronological_order.
