(* C04  support() is the canonical union of intervals and duration() is its measure.
   [wf eps l]: l is what a Timeline iterates (strictly sorted, members non-empty; C01).
   A gap of d ticks is bridged iff d <= th = max eps (collar - 1), i.e. iff it is
   empty at the precision or strictly shorter than the collar. Statements only. *)
From PV Require Import Model.Timeline Proofs.SortedP Proofs.TimelineInvP Proofs.SupportP Proofs.MeasureP Proofs.SupportTwiceP.

Theorem C04_applies_to_reachable_timelines : forall eps t A, R eps t A -> wf eps (t_iter t).
Proof. exact wf_reachable. Qed.

Section C04.
Variables eps collar : Z.
Hypothesis Heps : 0 <= eps.
Variable l : list seg.
Hypothesis Hwf : wf eps l.

(* Timeline.support(collar) is the list produced by the sweep *)
Theorem C04_support_is_sweep : support eps collar l = support_iter eps collar l.
Proof. exact (support_is_support_iter eps collar Heps l Hwf). Qed.

(* consecutive support segments are separated by a gap that is non-empty at the
   precision and not shorter than the collar; all are non-empty; strictly sorted *)
Theorem C04_support_separated :
  separated eps collar (support_iter eps collar l) /\ Forall (ne eps) (support_iter eps collar l).
Proof. exact (support_iter_separated eps collar Heps l Hwf). Qed.
Theorem C04_support_sorted : wf eps (support eps collar l).
Proof. exact (support_wf eps collar l Hwf). Qed.

(* every support segment starts at an original start and ends at an original end *)
Theorem C04_support_bounds : forall o, In o (support_iter eps collar l) ->
  (exists a, In a l /\ st o = st a) /\ (exists b, In b l /\ en o = en b).
Proof. exact (fun o => support_iter_bounds eps collar Heps l o Hwf). Qed.

(* every original segment lies inside exactly one support segment *)
Theorem C04_original_in_some : forall x, In x l ->
  exists o, In o (support_iter eps collar l) /\ sin o x = true.
Proof. exact (fun x => support_iter_includes eps collar Heps l x Hwf). Qed.
Theorem C04_original_in_at_most_one : forall x o1 o2, In x l ->
  In o1 (support_iter eps collar l) -> In o2 (support_iter eps collar l) ->
  sin o1 x = true -> sin o2 x = true -> o1 = o2.
Proof. exact (fun x o1 o2 => support_includes_unique eps collar Heps l x o1 o2 Hwf). Qed.

(* coverage: nothing is lost; anything gained lies in a gap between two
   originals that is empty at the precision or strictly shorter than the collar *)
Theorem C04_covers_originals : forall k, covers_cell l k -> covers_cell (support_iter eps collar l) k.
Proof. exact (fun k => support_iter_cover_complete eps collar Heps l k Hwf). Qed.
Theorem C04_only_short_gaps_bridged : forall k, covers_cell (support_iter eps collar l) k ->
  covers_cell l k \/ in_bridged_gap eps collar l k.
Proof. exact (fun k => support_iter_cover_sound eps collar Heps l k Hwf). Qed.

Theorem C04_idempotent : support eps collar (support eps collar l) = support eps collar l.
Proof. exact (support_idempotent eps collar Heps l Hwf). Qed.
End C04.

(* merging in two passes, the default support() first and any collar afterwards, is merging once with that collar: a
   timeline that came out of support() is not a special object (every precision) *)
Theorem C04_support_with_collar_of_a_support : forall eps c l, 0 <= eps -> 0 <= c -> wf eps l ->
  support eps c (support eps 0 l) = support eps c l.
Proof. exact support_of_default_support. Qed.
Theorem C04_smaller_collar_first_changes_nothing : forall eps c0 c, 0 <= eps -> th eps c0 <= th eps c -> forall l, wf eps l ->
  support eps c (support eps c0 l) = support eps c l.
Proof. exact support_twice. Qed.

(* exact statements at eps = 0, collar = 0 *)
Theorem C04_support_canonical_cells : forall l, wf 0 l ->
  canonical (support 0 0 l) /\ (forall k, covers_cell (support 0 0 l) k <-> covers_cell l k).
Proof. exact support_canonical_cells. Qed.
Theorem C04_canonical_decomposition_unique : forall l1 l2, canonical l1 -> canonical l2 ->
  (forall k, covers_cell l1 k <-> covers_cell l2 k) -> l1 = l2.
Proof. exact canonical_unique. Qed.
Theorem C04_support_is_the_unique_canonical : forall l c, wf 0 l -> canonical c ->
  (forall k, covers_cell c k <-> covers_cell l k) -> c = support 0 0 l.
Proof. exact support_unique. Qed.
Theorem C04_absorbs_covered : forall l x, wf 0 l -> nonempty 0 x = true ->
  (forall k, st x <= k < en x -> covers_cell l k) ->
  support 0 0 (tl_of 0 (x :: l)) = support 0 0 l.
Proof. exact support_absorbs_covered. Qed.
Theorem C04_duration_is_measure : forall l lo n, wf 0 l ->
  (forall s, In s l -> lo <= st s /\ en s <= lo + Z.of_nat n) ->
  tl_duration 0 l = measure lo n l.
Proof. exact duration_is_measure. Qed.
(* for every precision: duration() is never less than the number of covered cells (gaps no longer
   than the precision are bridged; nothing covered is lost) *)
Theorem C04_duration_at_least_measure : forall eps l lo n, 0 <= eps -> wf eps l ->
  (forall s, In s l -> lo <= st s /\ en s <= lo + Z.of_nat n) ->
  measure lo n l <= tl_duration eps l.
Proof. exact duration_at_least_measure. Qed.
(* ... and exceeds it by at most the precision per member: each bridged gap is no longer than eps *)
Theorem C04_duration_at_most_measure_plus_eps : forall eps l lo n, 0 <= eps -> wf eps l ->
  (forall s, In s l -> lo <= st s /\ en s <= lo + Z.of_nat n) ->
  tl_duration eps l <= measure lo n l + eps * Z.of_nat (length l).
Proof. exact (fun eps l lo n Heps => duration_at_most_measure_plus eps Heps lo n l). Qed.
Example C04_duration_bounds_nonvacuous :
  wf 4 [(0,20); (23,40); (50,60)] /\ tl_duration 4 [(0,20); (23,40); (50,60)] = 50 /\ measure 0 60 [(0,20); (23,40); (50,60)] = 47.
Proof. split; [split; repeat constructor | vm_compute; split; reflexivity]. Qed.

Example C04_nonvacuous :
  wf 1 [(0,4); (1,3); (5,9); (12,14); (14,20)] /\
  support 1 0 [(0,4); (1,3); (5,9); (12,14); (14,20)] = [(0,9); (12,20)] /\
  support 1 3 [(0,4); (1,3); (5,9); (12,20)] = [(0,9); (12,20)] /\
  support 1 4 [(0,4); (1,3); (5,9); (12,20)] = [(0,20)] /\
  tl_duration 0 [(0,4); (1,2); (5,9)] = measure 0 10 [(0,4); (1,2); (5,9)].
Proof.
  split; [split; [repeat constructor | repeat constructor] | vm_compute; repeat split].
Qed.

Print Assumptions C04_applies_to_reachable_timelines.
Print Assumptions C04_support_is_sweep.
Print Assumptions C04_support_separated.
Print Assumptions C04_support_sorted.
Print Assumptions C04_support_bounds.
Print Assumptions C04_original_in_some.
Print Assumptions C04_original_in_at_most_one.
Print Assumptions C04_covers_originals.
Print Assumptions C04_only_short_gaps_bridged.
Print Assumptions C04_idempotent.
Print Assumptions C04_support_canonical_cells.
Print Assumptions C04_canonical_decomposition_unique.
Print Assumptions C04_support_is_the_unique_canonical.
Print Assumptions C04_absorbs_covered.
Print Assumptions C04_support_with_collar_of_a_support.
Print Assumptions C04_smaller_collar_first_changes_nothing.
Print Assumptions C04_duration_is_measure.
Print Assumptions C04_duration_at_least_measure.
Print Assumptions C04_duration_at_most_measure_plus_eps.
