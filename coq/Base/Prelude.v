(* Shared header: arithmetic automation and small list utilities.
   No axioms, stdlib only. *)
From Coq Require Export ZArith List Bool Lia ZifyBool ZifyNat Sorted Permutation.
Export ListNotations.
Ltac Zify.zify_post_hook ::= Z.to_euclidean_division_equations.

Open Scope Z_scope.

(* ---- reporting helper used by every generated cases_*.v file ---- *)
Fixpoint report_from {A} (chk : A -> nat) (i : nat) (l : list A) : list (nat * nat) :=
  match l with
  | [] => []
  | c :: r =>
      match chk c with
      | O => report_from chk (S i) r
      | k => (i, k) :: report_from chk (S i) r
      end
  end.
Definition report {A} (chk : A -> nat) (l : list A) := report_from chk 0%nat l.

(* verdict codes: 0 ok; 1 the property's own specification fails on the
   observation; 2 the observation satisfies the property's spec but differs
   from the model (correspondence broken) *)
Definition verdict (spec_ok model_eq : bool) : nat :=
  if negb spec_ok then 1%nat else if negb model_eq then 2%nat else 0%nat.

(* ---- boolean list equality ---- *)
Fixpoint list_eqb {A} (eqb : A -> A -> bool) (l1 l2 : list A) : bool :=
  match l1, l2 with
  | [], [] => true
  | x :: r1, y :: r2 => eqb x y && list_eqb eqb r1 r2
  | _, _ => false
  end.

Lemma list_eqb_spec {A} (eqb : A -> A -> bool) :
  (forall x y, eqb x y = true <-> x = y) ->
  forall l1 l2, list_eqb eqb l1 l2 = true <-> l1 = l2.
Proof.
  intros H l1; induction l1 as [|x r IH]; intros [|y r2]; simpl; split; intro E;
    try reflexivity; try discriminate.
  - apply andb_true_iff in E as [E1 E2]. apply H in E1. apply IH in E2. now subst.
  - inversion E; subst. apply andb_true_iff; split; [now apply H | now apply IH].
Qed.

Definition option_eqb {A} (eqb : A -> A -> bool) (o1 o2 : option A) : bool :=
  match o1, o2 with
  | None, None => true
  | Some x, Some y => eqb x y
  | _, _ => false
  end.

Definition pair_eqb {A B} (ea : A -> A -> bool) (eb : B -> B -> bool)
  (p q : A * B) : bool := ea (fst p) (fst q) && eb (snd p) (snd q).

Fixpoint existsb_in {A} (eqb : A -> A -> bool) (x : A) (l : list A) : bool :=
  match l with [] => false | y :: r => eqb x y || existsb_in eqb x r end.

Fixpoint forall2b {A B} (f : A -> B -> bool) (l1 : list A) (l2 : list B) : bool :=
  match l1, l2 with
  | [], [] => true
  | x :: r1, y :: r2 => f x y && forall2b f r1 r2
  | _, _ => false
  end.
