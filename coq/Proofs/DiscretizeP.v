(* C17: the centre rule of centre-mode frame ranges, and the decoding error bounds. *)
From PV Require Import Model.Discretize Proofs.SegmentP Proofs.WindowP.

Section Centre.
Variable w : win.
Hypothesis Hstep : 0 < w_step w.
Variable r : seg.

Lemma cf_bounds t : let c := closest_frame w t in
  Z.abs (c * (2 * w_step w) - (2 * (t - w_start w) - w_dur w)) * 2 <= 2 * w_step w.
Proof. unfold closest_frame. pose proof (rhe_spec (2 * (t - w_start w) - w_dur w) (2 * w_step w) ltac:(lia)). cbv zeta. lia. Qed.

(* a frame whose centre lies at least one step inside [st r, en r] is in the centre-mode range of r *)
Theorem centre_inside_in_range f :
  2 * (st r + w_step w) <= centre2 w f <= 2 * (en r - w_step w) ->
  fst (crop_range w r ACenter None) <= f < snd (crop_range w r ACenter None).
Proof.
  intros [H1 H2]. cbn [crop_range fst snd]. unfold centre2 in *.
  pose proof (cf_bounds (st r)) as A. pose proof (cf_bounds (en r)) as B. cbv zeta in A, B.
  set (cs := closest_frame w (st r)) in *. set (ce := closest_frame w (en r)) in *. nia.
Qed.
(* a frame whose centre lies at least one step outside [st r, en r] is not *)
Theorem centre_outside_not_in_range f :
  (centre2 w f <= 2 * (st r - w_step w) \/ 2 * (en r + w_step w) <= centre2 w f) ->
  ~ (fst (crop_range w r ACenter None) <= f < snd (crop_range w r ACenter None)).
Proof.
  intros H. cbn [crop_range fst snd]. unfold centre2 in *.
  pose proof (cf_bounds (st r)) as A. pose proof (cf_bounds (en r)) as B. cbv zeta in A, B.
  set (cs := closest_frame w (st r)) in *. set (ce := closest_frame w (en r)) in *. nia.
Qed.

(* decoding a run [i, j) of active frames gives (centre of frame i, centre of frame j): for the run
   produced by a label segment r this is within half a step of its start, and between half a
   step and one and a half steps AFTER its end (doubled coordinates) *)
Theorem decode_onset_error :
  Z.abs (centre2 w (fst (crop_range w r ACenter None)) - 2 * st r) <= w_step w.
Proof.
  cbn [crop_range fst]. unfold centre2. pose proof (cf_bounds (st r)) as A. cbv zeta in A. lia.
Qed.
Theorem decode_offset_error :
  w_step w <= centre2 w (snd (crop_range w r ACenter None)) - 2 * en r <= 3 * w_step w.
Proof.
  cbn [crop_range snd]. unfold centre2. pose proof (cf_bounds (en r)) as B. cbv zeta in B. lia.
Qed.
End Centre.

(* "within one step per boundary" fails for offsets: finding F7 as a theorem *)
Theorem decode_offset_refuted :
  exists w r, 0 < w_step w /\ centre2 w (snd (crop_range w r ACenter None)) - 2 * en r > 2 * w_step w.
Proof. exists (mkWin 4 4 4 None), (66, 68). vm_compute. split; reflexivity. Qed.


(* ---- the matrix Annotation.discretize assembles ---- *)
From PV Require Import Proofs.SupportP Proofs.DictP Proofs.AnnotationInvP Proofs.AnnCropInterP Proofs.RangesP.

Section Matrix.
Variable eps : Z.
Hypothesis Heps : 0 <= eps.

(* entry (frame f, label l) as the code computes it *)
Definition dval (c1 : ann) (w : win) (n : Z) (l : name) (f : Z) : Z :=
  if existsb (fun r => in_slice n (Z.max 0 (fst r)) (Z.max 0 (Z.min (snd r) n)) f)
             (crop_ranges_tl eps w (c_segs (snd (label_timeline eps c1 l))) ACenter)
  then 1 else 0.

(* shape of the result: window at the support start, columns per label (labels() of the cropped
   annotation unless given), frame count from `duration` or from the support *)
Theorem discretize_shape a support rdur rstep labs duration d :
  discretize eps a support rdur rstep labs duration = Some d ->
  let sup := match support with Some s => s | None => extent_l (tl_of eps (map fst (a_tracks a))) end in
  let cropped := crop_ann eps a (SupSeg sup) Inter in
  let c1 := fst (labels eps cropped) in
  win_make rdur rstep (st sup) None = Some (d_win d) /\
  d_frames d = match duration with
               | None => closest_frame (d_win d) (en sup) - closest_frame (d_win d) (st sup)
               | Some x => rhe x rstep
               end /\
  0 <= d_frames d /\
  d_labels d = match labs with Some l => l | None => snd (labels eps cropped) end /\
  d_cols d = map (fun l => map (dval c1 (d_win d) (d_frames d) l) (zrange 0 (d_frames d))) (d_labels d).
Proof.
  unfold discretize, discretize_gen. cbv zeta.
  destruct (labels eps (crop_ann eps a (SupSeg match support with Some s => s | None => extent_l (tl_of eps (map fst (a_tracks a))) end) Inter)) as [c1 clabs] eqn:EL.
  destruct (win_make rdur rstep _ None) as [w|] eqn:EW; [|discriminate].
  destruct (_ <? 0) eqn:En; [discriminate|]. intro H. inversion H; subst d. cbn [d_win d_frames d_labels d_cols fst snd].
  split; [reflexivity|]. split; [reflexivity|]. split; [lia|]. split; reflexivity.
Qed.

Lemma in_slice_clipped n a b f : 0 <= f < n ->
  in_slice n (Z.max 0 a) (Z.max 0 (Z.min b n)) f = true <-> a <= f < b.
Proof.
  intro H. unfold in_slice, py_slice_bounds.
  replace (Z.max 0 a <? 0) with false by lia. replace (Z.max 0 (Z.min b n) <? 0) with false by lia. lia.
Qed.

(* an entry is 1 exactly when the frame lies in the centre-mode range of a segment of the label's
   support *)
Theorem dval_spec c1 w n l f : AInv eps c1 -> 0 < w_step w -> 0 <= f < n ->
  (dval c1 w n l f = 1 <->
   exists s, In s (support eps 0 (lab_tl eps (a_tracks c1) l)) /\ in_r (crop_range w s ACenter None) f) /\
  (dval c1 w n l f = 0 \/ dval c1 w n l f = 1).
Proof.
  intros I Hs Hf. unfold dval.
  pose proof (label_timeline_spec eps c1 l I) as HT. destruct (label_timeline eps c1 l) as [a2 c]. destruct HT as [_ [_ [G _]]].
  cbn [snd]. rewrite G.
  destruct (crop_ranges_tl_spec eps w (lab_tl eps (a_tracks c1) l) ACenter Heps Hs (wf_tl_of _ _)) as [A _].
  rewrite <- (A f). unfold cov.
  destruct (existsb _ _) eqn:E.
  - split; [|now right]. split; [intros _ | reflexivity]. apply existsb_exists in E as [r [Hr Hk]]. exists r. split; [exact Hr|].
    now apply (in_slice_clipped n (fst r) (snd r) f Hf).
  - split; [|now left]. split; [discriminate|]. intros [r [Hr Hk]]. exfalso.
    assert (existsb (fun r => in_slice n (Z.max 0 (fst r)) (Z.max 0 (Z.min (snd r) n)) f)
              (crop_ranges_tl eps w (lab_tl eps (a_tracks c1) l) ACenter) = true); [|congruence].
    apply existsb_exists. exists r. split; [exact Hr|]. now apply (in_slice_clipped n (fst r) (snd r) f Hf).
Qed.

(* the centre rule on the matrix itself *)
Theorem dval_one_inside c1 w n l f s : AInv eps c1 -> 0 < w_step w -> 0 <= f < n ->
  In s (support eps 0 (lab_tl eps (a_tracks c1) l)) ->
  2 * (st s + w_step w) <= centre2 w f <= 2 * (en s - w_step w) -> dval c1 w n l f = 1.
Proof.
  intros I Hs Hf Hin Hc. apply (dval_spec c1 w n l f I Hs Hf). exists s. split; [exact Hin|].
  apply (centre_inside_in_range w Hs s f Hc).
Qed.
Theorem dval_zero_outside c1 w n l f : AInv eps c1 -> 0 < w_step w -> 0 <= f < n ->
  (forall s, In s (support eps 0 (lab_tl eps (a_tracks c1) l)) ->
             centre2 w f <= 2 * (st s - w_step w) \/ 2 * (en s + w_step w) <= centre2 w f) ->
  dval c1 w n l f = 0.
Proof.
  intros I Hs Hf Hall. destruct (dval_spec c1 w n l f I Hs Hf) as [A [B|B]]; [exact B|]. exfalso.
  apply A in B as [s [Hin Hk]]. apply (centre_outside_not_in_range w Hs s f (Hall s Hin)). exact Hk.
Qed.

(* the annotation the entries are computed from satisfies the invariant *)
Lemma discretize_source_inv a sup : AInv eps a -> AInv eps (fst (labels eps (crop_ann eps a (SupSeg sup) Inter))).
Proof.
  intro I. destruct (crop_inter_entries eps Heps a (SupSeg sup) I) as [J _].
  pose proof (labels_spec eps _ J) as HL. destruct (labels eps (crop_ann eps a (SupSeg sup) Inter)) as [c1 L]. cbn [fst]. tauto.
Qed.

(* frame count without `duration`: within one frame of (support duration) / step *)
Theorem frames_within_one w t0 t1 : 0 < w_step w ->
  Z.abs ((closest_frame w t1 - closest_frame w t0) * w_step w - (t1 - t0)) <= w_step w.
Proof.
  intro Hs. pose proof (cf_bounds w Hs t0) as A. pose proof (cf_bounds w Hs t1) as B. cbv zeta in A, B. lia.
Qed.
End Matrix.

(* ---- the matrix one_hot_encoding assembles ---- *)
Section OneHot.
Variable eps : Z.
Hypothesis Heps : 0 <= eps.

Definition hit (n f : Z) (r : Z * Z) : bool := (clampn n (fst r) <=? f) && (f <? clampn n (snd r)).
Definition oval (known rs : list (Z * Z)) (n f : Z) : Z :=
  let base := if existsb (hit n f) known then 0 else -1 in
  Z.min 1 (base + Z.of_nat (List.length (filter (hit n f) rs))).

Lemma hit_iff n f r : 0 <= f < n -> (hit n f r = true <-> in_r r f).
Proof. intro H. unfold hit, clampn, in_r. lia. Qed.
Lemma existsb_hit n f rs : 0 <= f < n -> (existsb (hit n f) rs = true <-> cov rs f).
Proof.
  intro H. rewrite existsb_exists. unfold cov. split; intros [r [Hr Hk]]; exists r; (split; [exact Hr|]); now apply (hit_iff n f r H).
Qed.
Lemma count_hit n f rs : 0 <= f < n ->
  (Z.of_nat (List.length (filter (hit n f) rs)) = 0 <-> ~ cov rs f) /\ 0 <= Z.of_nat (List.length (filter (hit n f) rs)).
Proof.
  intro H. split; [|lia]. split.
  - intros E [r [Hr Hk]]. assert (In r (filter (hit n f) rs)) as Hin by (apply filter_In; split; [exact Hr | now apply hit_iff]).
    destruct (filter (hit n f) rs); [destruct Hin | cbn [List.length] in E; lia].
  - intro Hn. destruct (filter (hit n f) rs) as [|r q] eqn:E; [reflexivity|]. exfalso. apply Hn.
    assert (In r (filter (hit n f) rs)) as Hin by (rewrite E; now left). apply filter_In in Hin as [Hr Hk].
    exists r. split; [exact Hr | now apply (hit_iff n f r H)].
Qed.

(* -1 outside the support (when the label ranges lie within the support's), otherwise 1 / 0 by
   membership in a label range; several same-label ranges saturate at 1 *)
Theorem oval_spec known rs n f : 0 <= f < n ->
  (~ cov known f -> (forall k, cov rs k -> cov known k) -> oval known rs n f = -1) /\
  (cov known f -> cov rs f -> oval known rs n f = 1) /\
  (cov known f -> ~ cov rs f -> oval known rs n f = 0).
Proof.
  intro H. unfold oval. destruct (count_hit n f rs H) as [C0 Cp]. pose proof (existsb_hit n f known H) as K.
  destruct (existsb (hit n f) known) eqn:E.
  - assert (Kc : cov known f) by now apply K. split; [tauto|]. split.
    + intros _ Hr. assert (Z.of_nat (List.length (filter (hit n f) rs)) <> 0) by tauto. lia.
    + intros _ Hr. rewrite (proj2 C0 Hr). reflexivity.
  - assert (Kc : ~ cov known f) by (intro X; apply K in X; congruence). split; [|tauto].
    intros _ Hsub. assert (~ cov rs f) by (intro X; apply Kc, Hsub, X). rewrite (proj2 C0 H0). reflexivity.
Qed.

Definition onehot_col (a1 : ann) (alabs : list name) (w : win) (n : Z) (sup_l : list seg) (l : name) : list Z :=
  let known := crop_ranges_tl eps w sup_l ACenter in
  let rs := if name_in l alabs then crop_ranges_tl eps w (c_segs (snd (label_timeline eps a1 l))) ACenter else [] in
  map (oval known rs n) (zrange 0 n).

Theorem one_hot_shape a support wdur wstep labs d :
  one_hot_encoding eps a support wdur wstep labs = Some d ->
  let extent := match support with SupSeg s => s | SupTl l => extent_l l end in
  let sup_l := match support with SupSeg s => tl_of eps [s] | SupTl l => l end in
  win_make wdur wstep (st extent) None = Some (d_win d) /\
  d_frames d = samples (d_win d) (duration eps extent) ACenter /\
  d_labels d = match labs with Some l => l | None => snd (labels eps a) end /\
  (forall l, In l (snd (labels eps a)) -> name_in l (d_labels d) = true) /\
  d_cols d = map (onehot_col (fst (labels eps a)) (snd (labels eps a)) (d_win d) (d_frames d) sup_l) (d_labels d).
Proof.
  unfold one_hot_encoding. cbv zeta.
  destruct (win_make wdur wstep _ None) as [w|] eqn:EW; [|discriminate].
  destruct (labels eps a) as [a1 alabs] eqn:EL. cbn [fst snd].
  destruct (negb (forallb _ alabs)) eqn:EF; [discriminate|]. intro H. inversion H; subst d.
  cbn [d_win d_frames d_labels d_cols]. split; [reflexivity|]. split; [reflexivity|]. split; [reflexivity|]. split; [|reflexivity].
  apply negb_false_iff in EF. rewrite forallb_forall in EF. exact EF.
Qed.
(* refusal: an explicit label list that misses a label of the annotation *)
Theorem one_hot_refuses a support wdur wstep L l :
  In l (snd (labels eps a)) -> name_in l L = false -> one_hot_encoding eps a support wdur wstep (Some L) = None.
Proof.
  intros Hin Hn. unfold one_hot_encoding. cbv zeta. destruct (win_make wdur wstep _ None); [|reflexivity].
  destruct (labels eps a) as [a1 alabs]. cbn [snd] in Hin.
  replace (forallb (fun l0 => name_in l0 L) alabs) with false; [reflexivity|].
  symmetry. apply not_true_is_false. intro F. rewrite forallb_forall in F. specialize (F l Hin). congruence.
Qed.

(* label ranges lie within the support's ranges when the label's segments lie within support segments *)
Theorem label_ranges_within_support w sup_l segs : 0 < w_step w -> wf eps sup_l -> wf eps segs ->
  (forall s, In s (support eps 0 segs) -> exists S, In S (support eps 0 sup_l) /\ st S <= st s /\ en s <= en S) ->
  forall k, cov (crop_ranges_tl eps w segs ACenter) k -> cov (crop_ranges_tl eps w sup_l ACenter) k.
Proof.
  intros Hs W1 W2 Hin k Hk.
  destruct (crop_ranges_tl_spec eps w segs ACenter Heps Hs W2) as [A _].
  destruct (crop_ranges_tl_spec eps w sup_l ACenter Heps Hs W1) as [B _].
  apply A in Hk as [s [Is Hk]]. apply B. destruct (Hin s Is) as [S [IS [L1 L2]]]. exists S. split; [exact IS|].
  assert (M1 : closest_frame w (st S) <= closest_frame w (st s)) by (unfold closest_frame; apply rhe_mono; lia).
  assert (M2 : closest_frame w (en s) <= closest_frame w (en S)) by (unfold closest_frame; apply rhe_mono; lia).
  unfold in_r in *. cbn [crop_range fst snd] in *. lia.
Qed.
End OneHot.
