(* C17: the centre rule of centre-mode frame ranges, and the decoding error bounds. *)
From PV Require Import Model.Discretize Proofs.SegmentP Proofs.WindowP.

Section Centre.
Variable w : win.
Hypothesis Hstep : 0 < w_step w.
Variable r : seg.

Lemma cf_bounds t : let c := closest_frame w t in
  Z.abs (c * (2 * w_step w) - (2 * (t - w_start w) - w_dur w)) * 2 <= 2 * w_step w.
Proof. unfold closest_frame. pose proof (rhe_spec (2 * (t - w_start w) - w_dur w) (2 * w_step w) ltac:(lia)). cbv zeta. lia. Qed.

(* a frame whose centre lies at least one step inside [st r, en r] is in the centre-mode range of r *)
Theorem centre_inside_in_range f :
  2 * (st r + w_step w) <= centre2 w f <= 2 * (en r - w_step w) ->
  fst (crop_range w r ACenter None) <= f < snd (crop_range w r ACenter None).
Proof.
  intros [H1 H2]. cbn [crop_range fst snd]. unfold centre2 in *.
  pose proof (cf_bounds (st r)) as A. pose proof (cf_bounds (en r)) as B. cbv zeta in A, B.
  set (cs := closest_frame w (st r)) in *. set (ce := closest_frame w (en r)) in *. nia.
Qed.
(* a frame whose centre lies at least one step outside [st r, en r] is not *)
Theorem centre_outside_not_in_range f :
  (centre2 w f <= 2 * (st r - w_step w) \/ 2 * (en r + w_step w) <= centre2 w f) ->
  ~ (fst (crop_range w r ACenter None) <= f < snd (crop_range w r ACenter None)).
Proof.
  intros H. cbn [crop_range fst snd]. unfold centre2 in *.
  pose proof (cf_bounds (st r)) as A. pose proof (cf_bounds (en r)) as B. cbv zeta in A, B.
  set (cs := closest_frame w (st r)) in *. set (ce := closest_frame w (en r)) in *. nia.
Qed.

(* decoding a run [i, j) of active frames gives (centre of frame i, centre of frame j): for the run
   produced by a label segment r this is within half a step of its start, and between half a
   step and one and a half steps AFTER its end (doubled coordinates) *)
Theorem decode_onset_error :
  Z.abs (centre2 w (fst (crop_range w r ACenter None)) - 2 * st r) <= w_step w.
Proof.
  cbn [crop_range fst]. unfold centre2. pose proof (cf_bounds (st r)) as A. cbv zeta in A. lia.
Qed.
Theorem decode_offset_error :
  w_step w <= centre2 w (snd (crop_range w r ACenter None)) - 2 * en r <= 3 * w_step w.
Proof.
  cbn [crop_range snd]. unfold centre2. pose proof (cf_bounds (en r)) as B. cbv zeta in B. lia.
Qed.
End Centre.

(* "within one step per boundary" fails for offsets: finding F7 as a theorem *)
Theorem decode_offset_refuted :
  exists w r, 0 < w_step w /\ centre2 w (snd (crop_range w r ACenter None)) - 2 * en r > 2 * w_step w.
Proof. exists (mkWin 4 4 4 None), (66, 68). vm_compute. split; reflexivity. Qed.

