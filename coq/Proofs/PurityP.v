(* C08 (value-model half): reads are pure on the abstraction although they refresh caches. *)
From PV Require Import Model.AnnotationOps Proofs.SortedP Proofs.SupportP Proofs.DictP Proofs.AnnotationInvP
  Proofs.AnnotationHistP Check.C02.

(* the observable content of an annotation: its track map, uri and modality *)
Definition abs (a : ann) : tmap * uri_t * uri_t := (a_tracks a, a_uri a, a_modality a).

Section Purity.
Variable eps : Z.

Lemma same_core_abs a' a : same_core a' a -> abs a' = abs a.
Proof. intros [c1 [c2 [c3 _]]]. unfold abs. now rewrite c1, c2, c3. Qed.

(* every read query of C02's list leaves the abstraction unchanged (and the invariant intact) *)
Theorem read_pure a x : AInv eps a -> abs (fst (do_read eps a x)) = abs a /\ AInv eps (fst (do_read eps a x)).
Proof.
  intro I. split; [|now apply read_Inv].
  destruct x; cbn [do_read]; try reflexivity.
  - pose proof (labels_spec eps a I) as H. destruct (labels eps a) as [a1 L]. apply same_core_abs, H.
  - pose proof (label_timeline_spec eps a lab I) as H. destruct (label_timeline eps a lab) as [a1 c]. apply same_core_abs, H.
  - unfold label_support. pose proof (label_timeline_spec eps a lab I) as H. destruct (label_timeline eps a lab) as [a1 c]. apply same_core_abs, H.
  - unfold label_duration. pose proof (label_timeline_spec eps a lab I) as H. destruct (label_timeline eps a lab) as [a1 c]. apply same_core_abs, H.
  - pose proof (get_timeline_spec eps a I) as H. destruct (get_timeline eps a) as [a1 c].
    destruct H as [_ [h1 [h2 [h3 _]]]]. unfold abs. cbn [fst]. now rewrite h1, h2, h3.
  - unfold chart. pose proof (labels_spec eps a I) as H. destruct (labels eps a) as [a1 L]. apply same_core_abs, H.
  - unfold contains_seg. pose proof (get_timeline_spec eps a I) as H. destruct (get_timeline eps a) as [a1 c].
    destruct H as [_ [h1 [h2 [h3 _]]]]. unfold abs. cbn [fst]. now rewrite h1, h2, h3.
  - unfold contains_tl. pose proof (get_timeline_spec eps a I) as H. destruct (get_timeline eps a) as [a1 c].
    destruct H as [_ [h1 [h2 [h3 _]]]]. unfold abs. cbn [fst]. now rewrite h1, h2, h3.
Qed.

(* any sequence of reads leaves the abstraction unchanged *)
Fixpoint reads (a : ann) (xs : list rd) : ann :=
  match xs with [] => a | x :: r => reads (fst (do_read eps a x)) r end.
Theorem reads_pure xs : forall a, AInv eps a -> abs (reads a xs) = abs a /\ AInv eps (reads a xs).
Proof.
  induction xs as [|x xs IH]; intros a I; simpl; [split; [reflexivity | exact I]|].
  destruct (read_pure a x I) as [E I']. destruct (IH _ I') as [E' I'']. split; [congruence | exact I''].
Qed.

(* reads do not influence later reads: after any reads, labels() / label timelines / the segment
   timeline are still the ones computed from scratch from the same track map *)
Theorem reads_do_not_change_answers xs a lab : AInv eps a ->
  c_segs (snd (label_timeline eps (reads a xs) lab)) = c_segs (snd (label_timeline eps a lab)) /\
  c_segs (snd (get_timeline eps (reads a xs))) = c_segs (snd (get_timeline eps a)) /\
  (forall l, In l (snd (labels eps (reads a xs))) <-> In l (snd (labels eps a))).
Proof.
  intro I. destruct (reads_pure xs a I) as [E I']. unfold abs in E. inversion E as [[E1 E2 E3]].
  pose proof (label_timeline_spec eps _ lab I') as H1. pose proof (label_timeline_spec eps a lab I) as H2.
  destruct (label_timeline eps (reads a xs) lab) as [r1 c1]. destruct (label_timeline eps a lab) as [r2 c2].
  pose proof (get_timeline_spec eps _ I') as G1. pose proof (get_timeline_spec eps a I) as G2.
  destruct (get_timeline eps (reads a xs)) as [g1 d1]. destruct (get_timeline eps a) as [g2 d2].
  pose proof (labels_spec eps _ I') as L1. pose proof (labels_spec eps a I) as L2.
  destruct (labels eps (reads a xs)) as [l1 k1]. destruct (labels eps a) as [l2 k2]. cbn [snd].
  destruct H1 as [_ [_ [h1 _]]]. destruct H2 as [_ [_ [h2 _]]].
  destruct G1 as [_ [_ [_ [_ [_ [_ [g1' _]]]]]]]. destruct G2 as [_ [_ [_ [_ [_ [_ [g2' _]]]]]]].
  destruct L1 as [_ [_ [_ [m1 _]]]]. destruct L2 as [_ [_ [_ [m2 _]]]].
  split; [rewrite h1, h2, E1; reflexivity|]. split; [rewrite g1', g2', E1; reflexivity|].
  intro l. rewrite m1, m2, E1. reflexivity.
Qed.

(* deriving operations are functions of the receiver's value: they cannot change it (the model is
   immutable); what the value model CAN say is that a derived annotation starts from the source's
   track map and not from its caches *)
Theorem copy_content a : a_tracks (copy a) = a_tracks a /\ a_uri (copy a) = a_uri a /\ a_modality (copy a) = a_modality a.
Proof. repeat split. Qed.
End Purity.
