(* C11: rename_labels, subset (and what holds of generated mappings). *)
From PV Require Import Model.AnnotationOps Proofs.SegmentP Proofs.SortedP Proofs.SupportP Proofs.DictP
  Proofs.AnnotationInvP.

(* ---- rename_labels: the mapping is applied once, simultaneously, and nothing else changes ---- *)
Theorem rename_getitem a mapping s t :
  getitem (rename_labels_inplace a mapping) s t = option_map (fun l => map_get l mapping) (getitem a s t).
Proof.
  unfold getitem, rename_labels_inplace. cbn [a_tracks]. rewrite rename_tracks_sd_get.
  destruct (sd_get s (a_tracks a)) as [d|]; [|reflexivity]. cbn [option_map].
  rewrite !d_get_nm. apply (nm_get_map_val (fun l => map_get l mapping)).
Qed.
Theorem rename_keeps_segments_and_tracks a mapping :
  skeys (a_tracks (rename_labels_inplace a mapping)) = skeys (a_tracks a) /\
  (forall s, get_tracks (rename_labels_inplace a mapping) s = get_tracks a s) /\
  a_uri (rename_labels_inplace a mapping) = a_uri a /\ a_modality (rename_labels_inplace a mapping) = a_modality a.
Proof.
  split; [unfold skeys, rename_labels_inplace, rename_tracks_map; cbn [a_tracks]; now rewrite map_map|].
  split; [|split; reflexivity]. intro s. unfold get_tracks, rename_labels_inplace. cbn [a_tracks].
  rewrite rename_tracks_sd_get. destruct (sd_get s (a_tracks a)); [|reflexivity]. cbn [option_map].
  now rewrite map_map.
Qed.
(* swaps and chains are not applied twice; unmapped labels are untouched *)
Corollary rename_swap x y : x <> y ->
  map_get x [(x, y); (y, x)] = y /\ map_get y [(x, y); (y, x)] = x /\
  forall l, l <> x -> l <> y -> map_get l [(x, y); (y, x)] = l.
Proof.
  intro H. unfold map_get. cbn [d_get]. rewrite !name_eqb_refl.
  assert (name_eqb y x = false) by (apply name_eqb_neq; congruence). rewrite H0.
  repeat split. intros l H1 H2. apply name_eqb_neq in H1, H2. now rewrite H1, H2.
Qed.
Corollary rename_chain x y z : x <> y -> map_get x [(x, y); (y, z)] = y /\ map_get y [(x, y); (y, z)] = z.
Proof.
  intro H. unfold map_get. cbn [d_get]. rewrite !name_eqb_refl.
  assert (name_eqb y x = false) by (apply name_eqb_neq; congruence). rewrite H0. split; reflexivity.
Qed.
(* on a copy as requested: the copy holds the renamed content, computed from the receiver's track map *)
Theorem rename_copy_same_result a mapping s t :
  getitem (rename_labels_copy a mapping) s t = getitem (rename_labels_inplace a mapping) s t /\
  a_uri (rename_labels_copy a mapping) = a_uri a /\ a_modality (rename_labels_copy a mapping) = a_modality a.
Proof. repeat split. Qed.

(* ---- subset ---- *)
Lemma sd_get_filter_val (P : tracks_t -> bool) (m : tmap) s : NoDup (skeys m) ->
  sd_get s (filter (fun sd => P (snd sd)) m) =
  match sd_get s m with Some d => if P d then Some d else None | None => None end.
Proof.
  unfold skeys. induction m as [|[s0 d0] m IH]; simpl; intro N; [reflexivity|].
  inversion N as [|? ? Hn Hd]; subst. destruct (seqb s s0) eqn:E.
  - apply seqb_eq in E. subst. destruct (P d0) eqn:Ep; simpl; [now rewrite seqb_refl|].
    rewrite (IH Hd). assert (sd_get s0 m = None) by (apply sd_get_None; exact Hn). now rewrite H.
  - destruct (P d0); simpl; [rewrite E|]; now apply IH.
Qed.
Lemma nm_get_filter_val (P : name -> bool) (d : tracks_t) t : NoDup (keys d) ->
  nm_get t (filter (fun tl_ => P (snd tl_)) d) =
  match nm_get t d with Some l => if P l then Some l else None | None => None end.
Proof.
  unfold keys. induction d as [|[t0 l0] d IH]; simpl; intro N; [reflexivity|].
  inversion N as [|? ? Hn Hd]; subst. destruct (name_eqb t t0) eqn:E.
  - apply name_eqb_eq in E. subst. destruct (P l0) eqn:Ep; simpl; [now rewrite name_eqb_refl|].
    rewrite (IH Hd). assert (nm_get t0 d = None) by (apply nm_get_None; exact Hn). now rewrite H.
  - destruct (P l0); simpl; [rewrite E|]; now apply IH.
Qed.

Section Subset.
Variable eps : Z.
Theorem subset_getitem a labs inv s t : AInv eps a ->
  getitem (subset_ann eps a labs inv) s t =
  match getitem a s t with
  | Some l => if xorb (name_in l labs) inv then Some l else None
  | None => None
  end.
Proof.
  intro I. unfold subset_ann. pose proof (labels_spec eps a I) as HL. destruct (labels eps a) as [a1 all].
  destruct HL as [_ [_ [_ [Hall _]]]]. pose proof (i_wf _ _ I) as W.
  set (keep := if inv then filter (fun l => negb (name_in l labs)) all else filter (fun l => name_in l labs) all).
  unfold getitem, fresh_from_tracks. cbn [a_tracks].
  assert (Hk : forall l, occurs (a_tracks a) l -> name_in l keep = xorb (name_in l labs) inv).
  { intros l Ho. apply Hall in Ho. unfold keep. destruct inv.
    - destruct (name_in l labs) eqn:E; simpl.
      + destruct (name_in l (filter (fun l0 => negb (name_in l0 labs)) all)) eqn:E2; [|reflexivity].
        unfold name_in in E2. apply existsb_exists in E2 as [x [Hx Ex]]. apply name_eqb_eq in Ex. subst x.
        apply filter_In in Hx as [_ Hx]. cbv beta in Hx. unfold name_in in E, Hx. rewrite E in Hx. discriminate.
      + unfold name_in. apply existsb_exists. exists l. split; [|apply name_eqb_refl].
        apply filter_In. split; [assumption|]. fold (name_in l labs). now rewrite E.
    - rewrite xorb_false_r. destruct (name_in l labs) eqn:E.
      + unfold name_in. apply existsb_exists. exists l. split; [|apply name_eqb_refl].
        apply filter_In. split; [assumption | exact E].
      + destruct (name_in l (filter (fun l0 => name_in l0 labs) all)) eqn:E2; [|reflexivity].
        unfold name_in in E2. apply existsb_exists in E2 as [x [Hx Ex]]. apply name_eqb_eq in Ex. subst x.
        apply filter_In in Hx as [_ Hx]. cbv beta in Hx. unfold name_in in E, Hx. congruence. }
  set (m1 := map (fun sd : seg * list (name * name) => (fst sd, filter (fun tl_ : name * name => name_in (snd tl_) keep) (snd sd))) (a_tracks a)).
  assert (N1 : NoDup (skeys m1)).
  { unfold m1, skeys. rewrite map_map. cbn [fst]. apply ssorted_NoDup, W. }
  pose proof (sd_get_filter_val (fun d => match d with [] => false | _ => true end) m1 s N1) as H1.
  unfold tracks_t in H1. cbv beta in H1. rewrite H1. clear H1.
  pose proof (sd_get_map_val (fun d => filter (fun tl_ : name * name => name_in (snd tl_) keep) d) (a_tracks a) s) as H2.
  unfold tracks_t in H2. cbv beta in H2. unfold m1. rewrite H2. clear H2.
  destruct (sd_get s (a_tracks a)) as [d|] eqn:Ed; cbn [option_map]; [|reflexivity].
  assert (Nd : NoDup (keys d)).
  { pose proof (wf_dicts _ _ W) as F. rewrite Forall_forall in F. apply (F (s, d)). now apply sd_get_In_pair. }
  rewrite !d_get_nm.
  destruct (filter (fun tl_ : name * name => name_in (snd tl_) keep) d) as [|p r] eqn:Ef.
  - (* nothing kept on this segment *)
    destruct (nm_get t d) as [l|] eqn:Et; [|reflexivity].
    pose proof (nm_get_filter_val (fun l => name_in l keep) d t Nd) as Hf. cbv beta in Hf. rewrite Ef, Et in Hf. simpl in Hf.
    rewrite <- (Hk l); [|exists s, d, t; tauto]. destruct (name_in l keep); [discriminate | reflexivity].
  - rewrite d_get_nm, <- Ef. pose proof (nm_get_filter_val (fun l => name_in l keep) d t Nd) as Hf. cbv beta in Hf. rewrite Hf. clear Hf.
    destruct (nm_get t d) as [l|] eqn:Et; [|reflexivity].
    rewrite (Hk l); [reflexivity | exists s, d, t; tauto].
Qed.
(* subset(L) and subset(L, invert=True) partition the annotation *)
Corollary subset_partition a labs s t l : AInv eps a -> getitem a s t = Some l ->
  (getitem (subset_ann eps a labs false) s t = Some l /\ getitem (subset_ann eps a labs true) s t = None) \/
  (getitem (subset_ann eps a labs false) s t = None /\ getitem (subset_ann eps a labs true) s t = Some l).
Proof.
  intros I H. rewrite !(subset_getitem a labs _ s t I), H. destruct (name_in l labs); simpl; tauto.
Qed.
Corollary subset_adds_nothing a labs inv s t l : AInv eps a ->
  getitem (subset_ann eps a labs inv) s t = Some l -> getitem a s t = Some l.
Proof.
  intros I H. rewrite (subset_getitem a labs inv s t I) in H. destruct (getitem a s t) as [l'|]; [|discriminate].
  destruct (xorb (name_in l' labs) inv); [assumption | discriminate].
Qed.
End Subset.

(* an empty mapping (given explicitly) renames nothing; labels that are no keys of the mapping are kept *)
Corollary rename_empty_mapping a s t : getitem (rename_labels_inplace a []) s t = getitem a s t.
Proof. rewrite rename_getitem. destruct (getitem a s t) as [l|]; reflexivity. Qed.
Corollary rename_unmapped_label_kept a mapping s t l :
  getitem a s t = Some l -> d_get l mapping = None -> getitem (rename_labels_inplace a mapping) s t = Some l.
Proof. intros H Hn. rewrite rename_getitem, H. cbn [option_map]. unfold map_get. now rewrite Hn. Qed.
