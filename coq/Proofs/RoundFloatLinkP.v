(* C13: link between the two float-level models.  [Model.Precision.roundF] is written with Coq's PRIMITIVE binary64
   floats; the correspondence evaluates it and compares it bit for bit with what the code returns.  [RoundFloatP.rfloat
   rnd64] is the same expression over the reals with Flocq's rounding, about which the binary64 theorems are proved.
   Here: whenever nothing overflows, the real value of the former IS the latter.  Uses Flocq's IEEE754.PrimFloat bridge,
   hence the standard library's specification axioms of the primitive floats and 63-bit integers (FloatAxioms, Uint63)
   besides the real-number axioms. *)
From Coq Require Import Reals Lra Lia ZArith Floats.
From Flocq Require Import Core BinarySingleNaN.
From Flocq Require PrimFloat.
Import Flocq.IEEE754.PrimFloat.
From PV Require Import Model.Precision Proofs.RoundFloatP.
Open Scope R_scope.

Definition FR (x : PrimFloat.float) : R := B2R (Prim2B x).
Definition fin (x : PrimFloat.float) : Prop := is_finite (Prim2B x) = true.

Ltac fold_rnd H := change (round radix2 (fexp prec emax) (round_mode mode_NE)) with rnd64 in H;
                    repeat match type of H with context [B2R (Prim2B ?a)] => change (B2R (Prim2B a)) with (FR a) in H end.

Lemma bpow1000_format : generic_format radix2 (FLT_exp (-1074) 53) (bpow radix2 1000).
Proof. apply generic_format_bpow. unfold FLT_exp. simpl. lia. Qed.

Lemma no_overflow y : Rabs y <= bpow radix2 1000 ->
  Rlt_bool (Rabs (rnd64 y)) (bpow radix2 emax) = true.
Proof.
  intro H. apply Rlt_bool_true.
  apply Rle_lt_trans with (bpow radix2 1000).
  - unfold rnd64. apply abs_round_le_generic; [apply FLT_exp_valid; unfold Prec_gt_0; lia | apply valid_rnd_N | apply bpow1000_format | exact H].
  - apply bpow_lt. unfold emax. lia.
Qed.

Lemma div_link x P : fin x -> fin P -> FR P <> 0 -> Rabs (FR x / FR P) <= bpow radix2 1000 ->
  FR (x / P) = rnd64 (FR x / FR P) /\ fin (x / P).
Proof.
  intros Fx FP NZ B. unfold FR, fin. rewrite div_equiv.
  pose proof (Bdiv_correct prec emax Hprec Hmax mode_NE (Prim2B x) (Prim2B P) NZ) as H.
  fold_rnd H. rewrite (no_overflow _ B) in H. destruct H as [H1 [H2 _]].
  split; [exact H1 | unfold fin in Fx; rewrite H2; exact Fx].
Qed.

Lemma half_FR : FR 0.5%float = / 2 /\ fin 0.5%float.
Proof.
  unfold FR, fin. split.
  - unfold Prim2B. rewrite B2R_SF2B.
    replace (Prim2SF 0.5%float) with (SpecFloat.S754_finite false 4503599627370496 (-53)) by (vm_compute; reflexivity).
    unfold SF2R, F2R, cond_Zopp. cbn [Fnum Fexp].
    change (bpow radix2 (-53)) with (/ IZR (Z.pow_pos 2 53)).
    replace (Z.pow_pos 2 53) with 9007199254740992%Z by (vm_compute; reflexivity).
    field.
  - unfold Prim2B. rewrite is_finite_SF2B. vm_compute. reflexivity.
Qed.

Lemma add_half_link q : fin q -> Rabs (FR q + / 2) <= bpow radix2 1000 ->
  FR (q + 0.5)%float = rnd64 (FR q + / 2) /\ fin (q + 0.5)%float.
Proof.
  intros Fq B. destruct half_FR as [Hh Fh]. unfold FR, fin. rewrite add_equiv.
  pose proof (Bplus_correct prec emax Hprec Hmax mode_NE (Prim2B q) (Prim2B 0.5%float) Fq Fh) as H.
  fold_rnd H. rewrite Hh in H. rewrite (no_overflow _ B) in H. destruct H as [H1 [H2 _]].
  split; assumption.
Qed.

Lemma mul_link a P : fin a -> fin P -> Rabs (FR a * FR P) <= bpow radix2 1000 ->
  FR (a * P)%float = rnd64 (FR a * FR P) /\ fin (a * P)%float.
Proof.
  intros Fa FP B. unfold FR, fin. rewrite mul_equiv.
  pose proof (Bmult_correct prec emax Hprec Hmax mode_NE (Prim2B a) (Prim2B P)) as H.
  fold_rnd H. rewrite (no_overflow _ B) in H. destruct H as [H1 [H2 _]].
  split; [exact H1 | unfold fin in Fa, FP; rewrite H2, Fa, FP; reflexivity].
Qed.

Lemma ceil_div_neg m D : (0 < D)%Z -> ((- m) / D = - ((m + D - 1) / D))%Z.
Proof.
  intro HD.
  pose proof (Z.div_mod (- m) D ltac:(lia)) as E1. pose proof (Z.mod_pos_bound (- m) D HD) as B1.
  pose proof (Z.div_mod (m + D - 1) D ltac:(lia)) as E2. pose proof (Z.mod_pos_bound (m + D - 1) D HD) as B2.
  set (q1 := ((- m) / D)%Z) in *. set (r1 := ((- m) mod D)%Z) in *.
  set (q2 := ((m + D - 1) / D)%Z) in *. set (r2 := ((m + D - 1) mod D)%Z) in *.
  assert (D * (q1 + q2) = D - 1 - r1 - r2)%Z by lia.
  assert (- D < D * (q1 + q2) < D)%Z by lia.
  assert (q1 + q2 = 0)%Z by nia. lia.
Qed.

Lemma floorZ_spec s : fin s -> floorZ s = Zfloor (FR s).
Proof.
  unfold fin, FR, floorZ, Prim2B. rewrite is_finite_SF2B, B2R_SF2B.
  destruct (Prim2SF s) as [sg|sg| |sg m e]; cbn [is_finite_SF SF2R]; intro F; try discriminate F.
  - now rewrite Zfloor_IZR.
  - unfold F2R. cbn [Fnum Fexp]. destruct (Z.leb_spec 0 e) as [He|He].
    + rewrite <- IZR_Zpower by exact He. rewrite <- mult_IZR, Zfloor_IZR.
      change (Z.pow radix2 e) with (2 ^ e)%Z. destruct sg; cbn [cond_Zopp]; lia.
    + replace (bpow radix2 e) with (/ bpow radix2 (- e)) by (rewrite <- bpow_opp; f_equal; lia).
      rewrite <- IZR_Zpower by lia. change (Z.pow radix2 (- e)) with (2 ^ (- e))%Z.
      set (D := (2 ^ (- e))%Z).
      assert (HD : (0 < D)%Z) by (unfold D; apply Z.pow_pos_nonneg; lia).
      change (IZR (cond_Zopp sg (Z.pos m)) * / IZR D) with (IZR (cond_Zopp sg (Z.pos m)) / IZR D).
      rewrite Zfloor_div by lia. destruct sg; cbn [cond_Zopp].
      * change (Z.opp (Z.pos m)) with (- Z.pos m)%Z. apply eq_sym, ceil_div_neg, HD.
      * reflexivity.
Qed.

Lemma of_uint_link n : (0 <= n < 2 ^ 62)%Z ->
  FR (of_uint63 (Uint63.of_Z n)) = rnd64 (IZR n) /\ fin (of_uint63 (Uint63.of_Z n)).
Proof.
  intro Hn. unfold FR, fin. rewrite of_int63_equiv.
  assert (E : Uint63.to_Z (Uint63.of_Z n) = n).
  { rewrite Uint63.of_Z_spec. apply Z.mod_small. change Uint63.wB with (2 ^ 63)%Z. lia. }
  rewrite E.
  pose proof (binary_normalize_correct prec emax Hprec Hmax mode_NE n 0 false) as H.
  cbv zeta in H. fold_rnd H.
  replace (F2R {| Fnum := n; Fexp := 0 |}) with (IZR n) in H by (unfold F2R; simpl; ring).
  assert (B : Rabs (IZR n) <= bpow radix2 1000).
  { rewrite <- abs_IZR. apply Rle_trans with (IZR (2 ^ 62)); [apply IZR_le; lia|].
    change (IZR (2 ^ 62)) with (bpow radix2 62). apply bpow_le. lia. }
  rewrite (no_overflow _ B) in H. destruct H as [H1 [H2 _]]. split; assumption.
Qed.

Lemma of_Zf_link k : (Z.abs k < 2 ^ 62)%Z -> FR (of_Zf k) = rnd64 (IZR k) /\ fin (of_Zf k).
Proof.
  intro Hk. unfold of_Zf. destruct (Z.ltb_spec k 0) as [Neg|Pos].
  - destruct (of_uint_link (- k) ltac:(lia)) as [H1 H2]. unfold FR, fin in *. rewrite opp_equiv.
    rewrite B2R_Bopp, is_finite_Bopp, H1. split; [|exact H2].
    rewrite opp_IZR. unfold rnd64. rewrite round_NE_opp. apply Ropp_involutive.
  - apply of_uint_link. lia.
Qed.

Lemma abs_rnd64_le y e : (-1074 <= e)%Z -> Rabs y <= bpow radix2 e -> Rabs (rnd64 y) <= bpow radix2 e.
Proof.
  intros He H. unfold rnd64. apply abs_round_le_generic; [apply FLT_exp_valid; unfold Prec_gt_0; lia | apply valid_rnd_N | | exact H].
  apply generic_format_bpow. unfold FLT_exp. lia.
Qed.

(* the primitive-float model that the correspondence ties to the code bit for bit computes exactly the real-number
   expression the binary64 theorems are about, whenever nothing overflows *)
Theorem roundF_is_rfloat (P x : PrimFloat.float) :
  fin x -> fin P -> 0 < FR P -> FR P <= bpow radix2 900 -> Rabs (FR x / FR P) <= bpow radix2 60 ->
  FR (roundF P x) = rfloat rnd64 (FR P) (FR x) /\ fin (roundF P x).
Proof.
  intros Fx FP HP HPu Hq. unfold roundF, rfloat.
  assert (L60 : bpow radix2 60 <= bpow radix2 1000) by (apply bpow_le; lia).
  destruct (div_link x P Fx FP ltac:(lra) ltac:(lra)) as [Eq Fq].
  assert (Bq : Rabs (FR (x / P)%float) <= bpow radix2 60) by (rewrite Eq; apply abs_rnd64_le; [lia | exact Hq]).
  assert (Bq2 : Rabs (FR (x / P)%float + / 2) <= bpow radix2 61).
  { apply Rle_trans with (Rabs (FR (x / P)%float) + Rabs (/ 2)); [apply Rabs_triang|].
    rewrite (Rabs_pos_eq (/ 2)) by lra.
    replace (bpow radix2 61) with (bpow radix2 60 + bpow radix2 60) by (replace 61%Z with (60 + 1)%Z by lia; rewrite bpow_plus; simpl; lra).
    assert (1 <= bpow radix2 60) by (change 1 with (bpow radix2 0); apply bpow_le; lia). lra. }
  assert (L61 : bpow radix2 61 <= bpow radix2 1000) by (apply bpow_le; lia).
  destruct (add_half_link _ Fq ltac:(lra)) as [Es Fs].
  assert (Bs : Rabs (FR (x / P + 0.5)%float) <= bpow radix2 61) by (rewrite Es; apply abs_rnd64_le; [lia | exact Bq2]).
  rewrite (floorZ_spec _ Fs).
  set (k := Zfloor (FR (x / P + 0.5)%float)).
  assert (Hk : (Z.abs k < 2 ^ 62)%Z).
  { pose proof (Zfloor_lb (FR (x / P + 0.5)%float)) as Lb. pose proof (Zfloor_ub (FR (x / P + 0.5)%float)) as Ub. fold k in Lb, Ub.
    apply Rabs_le_inv in Bs. change (bpow radix2 61) with (IZR (2 ^ 61)) in Bs.
    assert (IZR (- 2 ^ 61 - 1) < IZR k) by (rewrite minus_IZR, opp_IZR; simpl (IZR 1); lra).
    assert (IZR k <= IZR (2 ^ 61)) by lra.
    apply lt_IZR in H. apply le_IZR in H0. lia. }
  destruct (of_Zf_link k Hk) as [Ek Fk].
  assert (Bk : Rabs (FR (of_Zf k)) <= bpow radix2 62).
  { rewrite Ek. apply abs_rnd64_le; [lia|]. rewrite <- abs_IZR. change (bpow radix2 62) with (IZR (2 ^ 62)). apply IZR_le. lia. }
  assert (Bm : Rabs (FR (of_Zf k) * FR P) <= bpow radix2 1000).
  { rewrite Rabs_mult, (Rabs_pos_eq (FR P)) by lra.
    apply Rle_trans with (bpow radix2 62 * bpow radix2 900).
    - apply Rmult_le_compat; [apply Rabs_pos | lra | exact Bk | exact HPu].
    - rewrite <- bpow_plus. apply bpow_le. lia. }
  destruct (mul_link _ P Fk FP Bm) as [Em Fm].
  split; [|exact Fm]. rewrite Em, Ek. unfold k. rewrite Es, Eq. reflexivity.
Qed.

(* consequently the bit-exact model itself stays within half a unit of the requested value *)
Corollary roundF_within_half_unit (P x : PrimFloat.float) :
  fin x -> fin P -> 0 < FR P -> FR P <= bpow radix2 900 -> Rabs (FR x / FR P) <= bpow radix2 60 ->
  Rabs (FR (roundF P x) - FR x) <= FR P / 2 + 8 * u64 * (Rabs (FR x) + FR P) + 8 * eta64 * (FR P + 1).
Proof.
  intros Fx FP HP HPu Hq. destruct (roundF_is_rfloat P x Fx FP HP HPu Hq) as [E _]. rewrite E.
  now apply binary64_precision_rounding.
Qed.
