(* C12: track iteration depends only on the content of the track map, not on insertion order. *)
From PV Require Import Model.Annotation Proofs.SegmentP Proofs.SortedP Proofs.SupportP Proofs.DictP
  Proofs.AnnotationInvP Proofs.StringOrderP.

Definition lt_pair (x y : name * name) : bool := String.ltb (str_of (fst x)) (str_of (fst y)).
Lemma lt_pair_trans a b c : lt_pair a b = true -> lt_pair b c = true -> lt_pair a c = true.
Proof. unfold lt_pair. apply str_ltb_trans. Qed.
Lemma lt_pair_irrefl a : lt_pair a a = false.
Proof. unfold lt_pair. apply str_ltb_irrefl. Qed.

(* track names of one segment have pairwise distinct printed forms *)
Definition distinct_str (d : tracks_t) : Prop :=
  forall x y, In x d -> In y d -> x <> y -> str_of (fst x) <> str_of (fst y).

Lemma key_leb_lt x y : str_of (fst x) <> str_of (fst y) ->
  key_leb y x = lt_pair y x /\ (lt_pair y x = false -> lt_pair x y = true).
Proof.
  intro H. unfold key_leb, lt_pair. split.
  - assert (String.eqb (str_of (fst y)) (str_of (fst x)) = false) by (apply String.eqb_neq; congruence).
    rewrite H0. now rewrite orb_false_r.
  - intro L. destruct (str_ltb_total (str_of (fst x)) (str_of (fst y)) H) as [T|T]; [assumption | congruence].
Qed.

Lemma sort_fold_sorted (l : tracks_t) : forall acc,
  sorted_lt lt_pair acc -> NoDup (l ++ acc) -> distinct_str (l ++ acc) ->
  sorted_lt lt_pair (fold_left (fun acc x => ins_stable key_leb x acc) l acc).
Proof.
  induction l as [|x l IH]; intros acc Hs Nd Ds; simpl; [exact Hs|].
  apply IH.
  - apply (ins_sorted lt_pair lt_pair_trans key_leb); [|exact Hs].
    intros y Hy. apply key_leb_lt. apply Ds; [now left | right; apply in_or_app; now right|].
    inversion Nd as [|? ? Hn _]; subst. intros ->. apply Hn. apply in_or_app. now right.
  - simpl in Nd. inversion Nd as [|? ? Hn Nd']; subst.
    eapply Permutation_NoDup; [|exact Nd]. cbn [app].
    rewrite (ins_stable_perm key_leb x acc). apply Permutation_middle.
  - intros a b Ha Hb. apply Ds.
    + apply in_app_or in Ha as [Ha|Ha]; [right; apply in_or_app; now left|].
      apply (Permutation_in _ (ins_stable_perm key_leb x acc)) in Ha as [<-|Ha]; [now left | right; apply in_or_app; now right].
    + apply in_app_or in Hb as [Hb|Hb]; [right; apply in_or_app; now left|].
      apply (Permutation_in _ (ins_stable_perm key_leb x acc)) in Hb as [<-|Hb]; [now left | right; apply in_or_app; now right].
Qed.
Lemma sorted_tracks_sorted d : NoDup d -> distinct_str d -> sorted_lt lt_pair (sorted_tracks d).
Proof.
  intros N D. unfold sorted_tracks, sort_stable. apply sort_fold_sorted; [constructor | now rewrite app_nil_r | now rewrite app_nil_r].
Qed.
(* the sorted order of a segment's tracks depends only on the set of (track, label) pairs *)
Theorem sorted_tracks_canonical d1 d2 : NoDup d1 -> NoDup d2 -> distinct_str d1 -> distinct_str d2 ->
  (forall x, In x d1 <-> In x d2) -> sorted_tracks d1 = sorted_tracks d2.
Proof.
  intros N1 N2 D1 D2 E. apply (sorted_lt_ext lt_pair lt_pair_trans lt_pair_irrefl).
  - now apply sorted_tracks_sorted.
  - now apply sorted_tracks_sorted.
  - intro x. unfold sorted_tracks. rewrite !sort_stable_In. apply E.
Qed.

Lemma NoDup_pairs_of_keys (d : tracks_t) : NoDup (keys d) -> NoDup d.
Proof.
  unfold keys. induction d as [|[k v] d IH]; simpl; intro N; [constructor|].
  inversion N as [|? ? Hn Hd]; subst. constructor; [|now apply IH].
  intro I. apply Hn. apply in_map_iff. exists (k, v). tauto.
Qed.

Section Canon.
Variable eps : Z.
Definition lookup (m : tmap) (s : seg) (t : name) : option name :=
  match sd_get s m with Some d => nm_get t d | None => None end.
Definition all_distinct_str (m : tmap) : Prop := Forall (fun sd => distinct_str (snd sd)) m.

Lemma keys_from_lookup m s : WF eps m -> (In s (skeys m) <-> exists t l, lookup m s t = Some l).
Proof.
  intro W. unfold lookup. split.
  - intro I. destruct (sd_get s m) as [d|] eqn:E; [|apply sd_get_None in E; contradiction].
    pose proof (wf_dicts _ _ W) as F. rewrite Forall_forall in F. destruct (F (s, d) (sd_get_In_pair _ _ _ E)) as [Hne Hnd].
    simpl in *. destruct d as [|[t l] r]; [contradiction|]. exists t, l. simpl. now rewrite name_eqb_refl.
  - intros [t [l H]]. destruct (sd_get s m) as [d|] eqn:E; [now apply (sd_get_Some_In s d) | discriminate].
Qed.

Theorem itertracks_canonical m1 : forall m2, WF eps m1 -> WF eps m2 ->
  all_distinct_str m1 -> all_distinct_str m2 ->
  (forall s t, lookup m1 s t = lookup m2 s t) -> itertracks_m m1 = itertracks_m m2.
Proof.
  intros m2 W1 W2 D1 D2 E.
  assert (Ek : skeys m1 = skeys m2).
  { apply ssorted_ext; [apply W1 | apply W2|]. intro s. rewrite (keys_from_lookup m1 s W1), (keys_from_lookup m2 s W2).
    split; intros [t [l H]]; exists t, l; [now rewrite <- E | now rewrite E]. }
  unfold itertracks_m.
  assert (Hd : forall s d1 d2, sd_get s m1 = Some d1 -> sd_get s m2 = Some d2 -> sorted_tracks d1 = sorted_tracks d2).
  { intros s d1 d2 H1 H2.
    pose proof (wf_dicts _ _ W1) as F1. rewrite Forall_forall in F1. destruct (F1 _ (sd_get_In_pair _ _ _ H1)) as [_ N1].
    pose proof (wf_dicts _ _ W2) as F2. rewrite Forall_forall in F2. destruct (F2 _ (sd_get_In_pair _ _ _ H2)) as [_ N2].
    unfold all_distinct_str in D1, D2. rewrite Forall_forall in D1, D2.
    apply sorted_tracks_canonical; try (now apply NoDup_pairs_of_keys).
    - apply (D1 _ (sd_get_In_pair _ _ _ H1)).
    - apply (D2 _ (sd_get_In_pair _ _ _ H2)).
    - intros [t l]. specialize (E s t). unfold lookup in E. rewrite H1, H2 in E. simpl in *. split; intro I.
      + apply nm_get_In_pair. rewrite <- E. now apply nm_In_pair_get.
      + apply nm_get_In_pair. rewrite E. now apply nm_In_pair_get. }
  pose proof (ssorted_NoDup _ (wf_sorted _ _ W1)) as N1. pose proof (ssorted_NoDup _ (wf_sorted _ _ W2)) as N2.
  clear W1 W2 D1 D2 E. revert m2 Ek Hd N2. induction m1 as [|[s d1] m1 IH]; intros [|[s' d2] m2] Ek Hd N2; try discriminate; [reflexivity|].
  unfold skeys in Ek. simpl in Ek. inversion Ek as [[Es Ek']]. subst s'. cbn [flat_map fst snd].
  inversion N1 as [|? ? Hn1 N1']; subst. inversion N2 as [|? ? Hn2 N2']; subst.
  f_equal.
  - f_equal. apply (Hd s); simpl; now rewrite seqb_refl.
  - apply IH; try assumption. intros x e1 e2 H1 H2. apply (Hd x); simpl.
    + destruct (seqb x s) eqn:Ex; [|assumption]. apply seqb_eq in Ex. subst. exfalso. apply Hn1. now apply (sd_get_Some_In s e1).
    + destruct (seqb x s) eqn:Ex; [|assumption]. apply seqb_eq in Ex. subst. exfalso. apply Hn2. now apply (sd_get_Some_In s e2).
Qed.
End Canon.
