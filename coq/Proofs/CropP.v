(* C05: co_iter and crop. *)
From PV Require Import Model.Timeline Proofs.SegmentP Proofs.SortedP Proofs.TimelineInvP
  Proofs.OverlappingP Proofs.SupportP.

Lemma filter_filter {A} (f g : A -> bool) l :
  filter f (filter g l) = filter (fun x => g x && f x) l.
Proof.
  induction l as [|x l IH]; simpl; [reflexivity|].
  destruct (g x); simpl; [destruct (f x); now rewrite IH | exact IH].
Qed.

Section CoIter.
Variable eps : Z.
Hypothesis Heps : 0 <= eps.

(* a segment that intersects s starts before s ends: the range query loses nothing *)
Lemma intersects_in_range s o :
  nonempty eps s = true -> nonempty eps o = true ->
  intersects eps s o = true -> sleb o (en s, en s) = true.
Proof.
  unfold nonempty, intersects, sleb, sltb, seqb, st, en. destruct s, o; simpl. lia.
Qed.

Definition co_spec (a b : list seg) : list (seg * seg) :=
  flat_map (fun s => map (fun o => (s, o)) (filter (intersects eps s) b)) a.

Theorem co_iter_spec a b : wf eps a -> wf eps b -> co_iter eps a b = co_spec a b.
Proof.
  intros [_ Ha] [Hb Hnb]. unfold co_iter, co_spec. rewrite Forall_forall in Ha, Hnb.
  induction a as [|s a IH]; simpl; [reflexivity|].
  rewrite IH by (intros x Hx; apply Ha; now right). f_equal. f_equal.
  rewrite (irange_max_spec _ _ Hb), filter_filter.
  apply filter_ext_in. intros o Ho.
  destruct (intersects eps s o) eqn:E; [|now rewrite andb_false_r].
  rewrite (intersects_in_range s o); auto. apply Ha. now left.
Qed.

(* membership form: every intersecting pair, and nothing else *)
Corollary co_iter_In a b s o : wf eps a -> wf eps b ->
  (In (s, o) (co_iter eps a b) <-> In s a /\ In o b /\ intersects eps s o = true).
Proof.
  intros Ha Hb. rewrite (co_iter_spec a b Ha Hb). unfold co_spec. rewrite in_flat_map. split.
  - intros [x [Hx H]]. apply in_map_iff in H as [y [E H]]. inversion E; subst.
    apply filter_In in H. tauto.
  - intros [H1 [H2 H3]]. exists s. split; [assumption|]. apply in_map_iff. exists o.
    split; [reflexivity|]. apply filter_In. tauto.
Qed.
(* equivalently: the pairs whose intersection is non-empty (C03) *)
Corollary co_iter_In_and a b s o : wf eps a -> wf eps b ->
  (In (s, o) (co_iter eps a b) <-> In s a /\ In o b /\ nonempty eps (sand s o) = true).
Proof.
  intros Ha Hb. rewrite (co_iter_In a b s o Ha Hb).
  destruct Ha as [_ Na], Hb as [_ Nb]. rewrite Forall_forall in Na, Nb.
  split; intros [H1 [H2 H3]]; repeat split; auto.
  - rewrite <- intersects_iff_and; auto.
  - rewrite intersects_iff_and; auto.
Qed.

(* each pair once *)
Lemma NoDup_map_inj {A B} (f : A -> B) l : (forall x y, f x = f y -> x = y) -> NoDup l -> NoDup (map f l).
Proof.
  intros Hf H. induction H; simpl; constructor; auto.
  intro I. apply in_map_iff in I as [y [E Iy]]. apply Hf in E. subst. contradiction.
Qed.
Lemma NoDup_filter {A} (f : A -> bool) l : NoDup l -> NoDup (filter f l).
Proof.
  induction 1; simpl; [constructor|]. destruct (f x); [constructor|]; auto.
  intro I. apply filter_In in I. tauto.
Qed.
Lemma NoDup_app_intro {A} (l1 l2 : list A) :
  NoDup l1 -> NoDup l2 -> (forall x, In x l1 -> In x l2 -> False) -> NoDup (l1 ++ l2).
Proof.
  induction l1 as [|x l1 IH]; simpl; intros H1 H2 D; [assumption|].
  inversion H1; subst. constructor.
  - intro I. apply in_app_or in I as [I|I]; [contradiction | apply (D x); [now left | assumption]].
  - apply IH; auto. intros y Hy. apply D. now right.
Qed.
Theorem co_iter_nodup a b : wf eps a -> wf eps b -> NoDup (co_iter eps a b).
Proof.
  intros Ha Hb. rewrite (co_iter_spec a b Ha Hb). unfold co_spec.
  destruct Ha as [Sa _], Hb as [Sb _]. apply ssorted_NoDup in Sa, Sb.
  induction Sa as [|s a Hn Sa IH]; simpl; [constructor|].
  apply NoDup_app_intro; [| exact IH |].
  - apply NoDup_map_inj; [intros x y E; now inversion E | now apply NoDup_filter].
  - intros p H1 H2. apply in_map_iff in H1 as [o [<- _]].
    apply in_flat_map in H2 as [s' [Is' H2]]. apply in_map_iff in H2 as [o' [E _]].
    inversion E; subst. contradiction.
Qed.

(* chronological order: first component non-decreasing, second strictly increasing within a block *)
Definition pair_lt (p q : seg * seg) : Prop :=
  slt (fst p) (fst q) \/ (fst p = fst q /\ slt (snd p) (snd q)).
Theorem co_iter_sorted a b : wf eps a -> wf eps b -> StronglySorted pair_lt (co_iter eps a b).
Proof.
  intros Ha Hb. rewrite (co_iter_spec a b Ha Hb). unfold co_spec.
  destruct Ha as [Sa _], Hb as [Sb _].
  induction a as [|s a IH]; simpl; [constructor|].
  apply ssorted_inv in Sa as [Sa Fa]. specialize (IH Sa). rewrite Forall_forall in Fa.
  assert (Hb' : ssorted (filter (intersects eps s) b)) by now apply filter_sorted.
  revert Hb'. generalize (filter (intersects eps s) b) as fb.
  induction fb as [|o fb IHf]; intro Hs; simpl; [exact IH|].
  apply ssorted_inv in Hs as [Hs Fo]. constructor; [now apply IHf|].
  rewrite Forall_forall in *. intros p Hp. apply in_app_or in Hp as [Hp|Hp].
  - apply in_map_iff in Hp as [o' [<- Io']]. right. split; [reflexivity | now apply Fo].
  - apply in_flat_map in Hp as [s' [Is' Hp]]. apply in_map_iff in Hp as [o' [<- _]]. left. now apply Fa.
Qed.
(* swapping the operands swaps every pair *)
Corollary co_iter_swap a b s o : wf eps a -> wf eps b ->
  (In (s, o) (co_iter eps a b) <-> In (o, s) (co_iter eps b a)).
Proof.
  intros Ha Hb. rewrite (co_iter_In_and a b s o Ha Hb), (co_iter_In_and b a o s Hb Ha), (sand_comm o s). tauto.
Qed.
End CoIter.

Section Crop.
Variable eps : Z.
Hypothesis Heps : 0 <= eps.

Lemma norm_support_wf s : wf eps (norm_support eps s).
Proof. destruct s; simpl; apply wf_tl_of. Qed.

Lemma included_intersects x r :
  nonempty eps x = true -> sin r x = true -> intersects eps x r = true.
Proof. unfold nonempty, sin, intersects, st, en. destruct x, r; simpl. lia. Qed.

Variable t : list seg.
Hypothesis Ht : wf eps t.
Variable S : sup.
Let regions := norm_support eps S.

Lemma t_nonempty x : In x t -> nonempty eps x = true.
Proof. destruct Ht as [_ H]. rewrite Forall_forall in H. apply H. Qed.
Lemma regions_nonempty r : In r regions -> nonempty eps r = true.
Proof. destruct (norm_support_wf S) as [_ H]. rewrite Forall_forall in H. apply H. Qed.

Lemma pairs_In x r :
  In (x, r) (co_iter eps t regions) <-> In x t /\ In r regions /\ intersects eps x r = true.
Proof. apply co_iter_In; [assumption | assumption | apply norm_support_wf]. Qed.

Theorem crop_loose_spec x :
  In x (crop eps t S Loose) <-> In x t /\ exists r, In r regions /\ intersects eps x r = true.
Proof.
  unfold crop, crop_iter. fold regions. rewrite tl_of_In, map_map. simpl. rewrite in_map_iff. split.
  - intros [[[x' r] [E H]] _]. simpl in E. subst x'. apply pairs_In in H. split; [tauto|]. exists r. tauto.
  - intros [Hx [r [Hr Hi]]]. split; [|now apply t_nonempty]. exists (x, r). split; [reflexivity|].
    apply pairs_In. tauto.
Qed.

Theorem crop_strict_spec x :
  In x (crop eps t S Strict) <-> In x t /\ exists r, In r regions /\ sin r x = true.
Proof.
  unfold crop, crop_iter. fold regions. rewrite tl_of_In, map_map. simpl. rewrite in_map_iff. split.
  - intros [[[x' r] [E H]] _]. simpl in E. subst x'. apply filter_In in H as [H Hs]. simpl in Hs.
    apply pairs_In in H. split; [tauto|]. exists r. tauto.
  - intros [Hx [r [Hr Hi]]]. split; [|now apply t_nonempty]. exists (x, r). split; [reflexivity|].
    apply filter_In. split; [|exact Hi]. apply pairs_In. repeat split; auto.
    apply included_intersects; [now apply t_nonempty | assumption].
Qed.

Theorem crop_inter_spec y :
  In y (crop eps t S Inter) <->
  exists x r, In x t /\ In r regions /\ y = sand x r /\ nonempty eps y = true.
Proof.
  unfold crop, crop_iter. fold regions. rewrite tl_of_In, in_map_iff. split.
  - intros [[[x y'] [E H]] Hy]. simpl in E. subst y'. apply filter_In in H as [H _].
    apply in_map_iff in H as [[x' r] [E H]]. simpl in E. inversion E; subst.
    apply pairs_In in H. exists x, r. tauto.
  - intros [x [r [Hx [Hr [-> Hy]]]]]. split; [|assumption]. exists (x, sand x r). split; [reflexivity|].
    apply filter_In. split; [|exact Hy]. apply in_map_iff. exists (x, r). split; [reflexivity|].
    apply pairs_In. repeat split; auto.
    rewrite intersects_iff_and; auto; [now apply t_nonempty | now apply regions_nonempty].
Qed.

(* strict is a subset of loose; results are timelines *)
Corollary crop_strict_sub_loose x : In x (crop eps t S Strict) -> In x (crop eps t S Loose).
Proof.
  rewrite crop_strict_spec, crop_loose_spec. intros [Hx [r [Hr Hs]]]. split; [assumption|].
  exists r. split; [assumption|]. apply included_intersects; [now apply t_nonempty | assumption].
Qed.
Lemma crop_wf m : wf eps (crop eps t S m).
Proof. apply wf_tl_of. Qed.

(* the mapping of crop(returns_mapping=True) *)
Fixpoint dict_get (k : seg) (d : list (seg * list seg)) : option (list seg) :=
  match d with
  | [] => None
  | (k', vs) :: r => if seqb k k' then Some vs else dict_get k r
  end.
Lemma dict_append_get k k' v d :
  dict_get k (dict_append k' v d) =
    if seqb k k' then Some (match dict_get k d with Some vs => vs ++ [v] | None => [v] end)
    else dict_get k d.
Proof.
  induction d as [|[k0 vs] d IH]; simpl.
  - destruct (seqb k k'); reflexivity.
  - destruct (seqb k' k0) eqn:E0; simpl.
    + apply seqb_eq in E0. subst k0. destruct (seqb k k'); reflexivity.
    + destruct (seqb k k0) eqn:E1.
      * apply seqb_eq in E1. subst k0. rewrite seqb_sym, E0. reflexivity.
      * exact IH.
Qed.
Lemma fold_dict_get k ps : forall d,
  dict_get k (fold_left (fun d p => dict_append (snd p) (fst p) d) ps d) =
    let extra := map fst (filter (fun p => seqb k (snd p)) ps) in
    match dict_get k d, extra with
    | Some vs, _ => Some (vs ++ extra)
    | None, [] => None
    | None, _ => Some extra
    end.
Proof.
  induction ps as [|[x y] ps IH]; intro d; simpl.
  - destruct (dict_get k d); [now rewrite app_nil_r | reflexivity].
  - rewrite IH, dict_append_get. simpl. destruct (seqb k y); simpl.
    + destruct (dict_get k d); [now rewrite <- app_assoc | reflexivity].
    + reflexivity.
Qed.
(* mapping[m] lists, in order, exactly the originals whose intersection with a region is m *)
Theorem crop_mapping_spec m :
  dict_get m (crop_mapping eps t S) =
    match map fst (filter (fun p => seqb m (snd p)) (crop_iter eps t S Inter)) with
    | [] => None
    | vs => Some vs
    end.
Proof.
  unfold crop_mapping. rewrite fold_dict_get. cbv zeta. cbn [dict_get].
  destruct (map fst (filter (fun p => seqb m (snd p)) (crop_iter eps t S Inter))); reflexivity.
Qed.
Corollary crop_mapping_members m x :
  (exists vs, dict_get m (crop_mapping eps t S) = Some vs /\ In x vs) <->
  In x t /\ nonempty eps m = true /\ exists r, In r regions /\ m = sand x r.
Proof.
  rewrite crop_mapping_spec.
  assert (E : In x (map fst (filter (fun p => seqb m (snd p)) (crop_iter eps t S Inter))) <->
              In x t /\ nonempty eps m = true /\ exists r, In r regions /\ m = sand x r).
  { rewrite in_map_iff. unfold crop_iter. fold regions. split.
    - intros [[x' y] [E H]]. simpl in E. subst x'. apply filter_In in H as [H Em]. simpl in Em.
      apply seqb_eq in Em. subst y. apply filter_In in H as [H Hn]. simpl in Hn.
      apply in_map_iff in H as [[x' r] [E H]]. inversion E; subst. apply pairs_In in H.
      split; [tauto|]. split; [assumption|]. exists r. tauto.
    - intros [Hx [Hm [r [Hr ->]]]]. exists (x, sand x r). split; [reflexivity|].
      apply filter_In. split; [|apply seqb_refl]. apply filter_In. split; [|exact Hm].
      apply in_map_iff. exists (x, r). split; [reflexivity|]. apply pairs_In. repeat split; auto.
      rewrite intersects_iff_and; auto; [now apply t_nonempty | now apply regions_nonempty]. }
  destruct (map fst (filter (fun p => seqb m (snd p)) (crop_iter eps t S Inter))) as [|v vs] eqn:Ev.
  - split; [intros [vs [H _]]; discriminate | intro H; apply E in H; contradiction].
  - rewrite <- E. split; [intros [vs' [H I]]; now inversion H; subst | intro I; eexists; split; [reflexivity | exact I]].
Qed.
End Crop.

Section CropEquiv.
Variable eps : Z.
Hypothesis Heps : 0 <= eps.

(* a timeline used as support is equivalent to its own support() *)
Theorem crop_support_equiv t l m : wf eps l ->
  crop eps t (SupTl l) m = crop eps t (SupTl (support eps 0 l)) m.
Proof.
  intro H. unfold crop, crop_iter, norm_support. now rewrite (support_idempotent eps 0 Heps l H).
Qed.
(* a segment used as support is equivalent to the one-segment timeline *)
Lemma tl_of_single x : tl_of eps [x] = tl_of eps (if nonempty eps x then [x] else []).
Proof.
  destruct (nonempty eps x) eqn:E; [reflexivity|].
  apply ssorted_ext; [apply tl_of_sorted | apply tl_of_sorted |].
  intro y. rewrite !tl_of_In. simpl. split; [intros [[<-|[]] H]; congruence | tauto].
Qed.
Theorem crop_segment_equiv t x m : crop eps t (SupSeg x) m = crop eps t (SupTl (tl_of eps [x])) m.
Proof. unfold crop, crop_iter, norm_support. now rewrite tl_of_single. Qed.

Lemma co_iter_nil t : co_iter eps t [] = [].
Proof. unfold co_iter. induction t as [|s t IH]; simpl; [reflexivity | exact IH]. Qed.
Theorem crop_empty_support t s m : norm_support eps s = [] -> crop eps t s m = [].
Proof.
  intro H. unfold crop, crop_iter. rewrite H, co_iter_nil. destruct m; reflexivity.
Qed.
Corollary crop_empty_timeline_support t m : crop eps t (SupTl []) m = [].
Proof. apply crop_empty_support. reflexivity. Qed.
Corollary crop_empty_segment_support t x m : nonempty eps x = false -> crop eps t (SupSeg x) m = [].
Proof. intro H. apply crop_empty_support. simpl. rewrite H. reflexivity. Qed.
End CropEquiv.
