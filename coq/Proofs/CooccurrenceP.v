(* C09: the co-occurrence matrix; b * a is the transpose of a * b. *)
From PV Require Import Model.AnnotationOps Proofs.SegmentP Proofs.SortedP Proofs.TimelineInvP Proofs.SupportP
  Proofs.CropP Proofs.DictP Proofs.AnnotationInvP.

Definition tp := ((seg * name) * (seg * name))%type.
Definition swap_tp (p : tp) : tp := (snd p, fst p).

(* the weight a pair of tracks contributes to entry (i, j) *)
Definition weight (eps : Z) (a b : ann) (i j : name) (p : tp) : Z :=
  let '((s, t), (s', t')) := p in
  match getitem a s t, getitem b s' t' with
  | Some li, Some lj => if name_eqb li i && name_eqb lj j then duration eps (sand s s') else 0
  | _, _ => 0
  end.
Definition entry (eps : Z) (a b : ann) (i j : name) : Z :=
  fold_left (fun acc p => acc + weight eps a b i j p) (co_iter_ann eps a b) 0.

Lemma fold_sum_perm {A} (g : A -> Z) l1 l2 : Permutation l1 l2 ->
  forall z, fold_left (fun acc p => acc + g p) l1 z = fold_left (fun acc p => acc + g p) l2 z.
Proof.
  induction 1; intro z; simpl; try reflexivity.
  - apply IHPermutation.
  - f_equal. lia.
  - now rewrite IHPermutation1.
Qed.
Lemma fold_sum_map {A B} (f : A -> B) (g : B -> Z) l z :
  fold_left (fun acc p => acc + g p) (map f l) z = fold_left (fun acc p => acc + g (f p)) l z.
Proof. revert z. induction l as [|x l IH]; intro z; simpl; [reflexivity | apply IH]. Qed.

Lemma fold_left_ext_in {A B} (f g : A -> B -> A) l : (forall acc p, f acc p = g acc p) ->
  forall z, fold_left f l z = fold_left g l z.
Proof. intro H. induction l as [|x l IH]; intro z; simpl; [reflexivity|]. now rewrite H, IH. Qed.

Section Mul.
Variable eps : Z.
Hypothesis Heps : 0 <= eps.

(* the matrix computed by __mul__ has exactly these entries *)
Theorem mul_entries a b :
  mul_ann eps a b = map (fun i => map (fun j => entry eps a b i j) (snd (labels eps b))) (snd (labels eps a)).
Proof.
  unfold mul_ann, entry. apply map_ext. intro i. apply map_ext. intro j.
  apply fold_left_ext_in. intros acc [[s t] [s' t']]. unfold weight.
  destruct (getitem a s t), (getitem b s' t'); try lia.
  destruct (name_eqb n i && name_eqb n0 j); lia.
Qed.

Lemma tracks_sorted_In a s t : In t (tracks_sorted a s) <-> In t (get_tracks a s).
Proof. unfold tracks_sorted. apply sort_stable_In. Qed.
Lemma tracks_sorted_NoDup a s : WF eps (a_tracks a) -> NoDup (tracks_sorted a s).
Proof.
  intro W. unfold tracks_sorted. eapply Permutation_NoDup; [symmetry; apply sort_stable_perm|].
  unfold get_tracks. destruct (sd_get s (a_tracks a)) as [d|] eqn:E; [|constructor].
  pose proof (wf_dicts _ _ W) as F. rewrite Forall_forall in F. apply (F (s, d)). now apply sd_get_In_pair.
Qed.

Lemma co_iter_ann_In a b s t s' t' :
  In ((s, t), (s', t')) (co_iter_ann eps a b) <->
  In (s, s') (co_iter eps (tl_of eps (skeys (a_tracks a))) (tl_of eps (skeys (a_tracks b)))) /\
  In t (get_tracks a s) /\ In t' (get_tracks b s').
Proof.
  unfold co_iter_ann. rewrite in_flat_map. split.
  - intros [[x y] [Hp H]]. apply in_flat_map in H as [t0 [Ht0 H]]. apply in_map_iff in H as [t1 [E Ht1]].
    cbn [fst snd] in *. inversion E; subst. rewrite tracks_sorted_In in Ht0, Ht1. tauto.
  - intros [Hp [Ht Ht']]. exists (s, s'). split; [exact Hp|]. apply in_flat_map. exists t. cbn [fst snd].
    split; [now apply tracks_sorted_In|]. apply in_map_iff. exists t'. split; [reflexivity | now apply tracks_sorted_In].
Qed.

Lemma NoDup_flat_map {A B} (f : A -> list B) l :
  NoDup l -> (forall x, In x l -> NoDup (f x)) ->
  (forall x y z, In x l -> In y l -> In z (f x) -> In z (f y) -> x = y) -> NoDup (flat_map f l).
Proof.
  induction l as [|x l IH]; intros N Hf Hd; simpl; [constructor|].
  inversion N as [|? ? Hn N']; subst. apply NoDup_app_intro.
  - apply Hf. now left.
  - apply IH; [assumption | intros y Hy; apply Hf; now right | intros a b z Ha Hb; apply Hd; now right].
  - intros z Hz1 Hz2. apply in_flat_map in Hz2 as [y [Hy Hz2]].
    assert (x = y) by (apply (Hd x y z); [now left | now right | assumption | assumption]). subst. contradiction.
Qed.

Lemma co_iter_ann_NoDup a b : WF eps (a_tracks a) -> WF eps (a_tracks b) -> NoDup (co_iter_ann eps a b).
Proof.
  intros Wa Wb. unfold co_iter_ann. apply NoDup_flat_map.
  - apply co_iter_nodup; [assumption | apply wf_tl_of | apply wf_tl_of].
  - intros [s s'] _. cbn [fst snd]. apply NoDup_flat_map.
    + now apply tracks_sorted_NoDup.
    + intros t _. apply NoDup_map_inj; [intros x y E; now inversion E | now apply tracks_sorted_NoDup].
    + intros t1 t2 z _ _ H1 H2. apply in_map_iff in H1 as [x [<- _]]. apply in_map_iff in H2 as [y [E _]]. now inversion E.
  - intros [s1 s1'] [s2 s2'] z _ _ H1 H2. cbn [fst snd] in *.
    apply in_flat_map in H1 as [t1 [_ H1]]. apply in_map_iff in H1 as [x [<- _]].
    apply in_flat_map in H2 as [t2 [_ H2]]. apply in_map_iff in H2 as [y [E _]]. now inversion E.
Qed.

Lemma co_iter_swap ta tb s s' : wf eps ta -> wf eps tb ->
  (In (s, s') (co_iter eps ta tb) <-> In (s', s) (co_iter eps tb ta)).
Proof.
  intros Ha Hb. rewrite (co_iter_In eps Heps ta tb s s' Ha Hb), (co_iter_In eps Heps tb ta s' s Hb Ha).
  rewrite (intersects_sym eps s s'). tauto.
Qed.

Theorem co_iter_ann_transpose a b : WF eps (a_tracks a) -> WF eps (a_tracks b) ->
  Permutation (co_iter_ann eps b a) (map swap_tp (co_iter_ann eps a b)).
Proof.
  intros Wa Wb. apply NoDup_Permutation.
  - now apply co_iter_ann_NoDup.
  - apply NoDup_map_inj; [|now apply co_iter_ann_NoDup].
    intros [x1 x2] [y1 y2] E. unfold swap_tp in E. cbn [fst snd] in E. now inversion E.
  - intros [[s' t'] [s t]]. rewrite in_map_iff. rewrite (co_iter_ann_In b a s' t' s t). split.
    + intros [Hp [H1 H2]]. exists ((s, t), (s', t')). split; [reflexivity|]. apply co_iter_ann_In.
      split; [|tauto]. apply (co_iter_swap _ _ s s' (wf_tl_of _ _) (wf_tl_of _ _)). exact Hp.
    + intros [[[x1 y1] [x2 y2]] [E H]]. unfold swap_tp in E. cbn [fst snd] in E. inversion E; subst.
      apply co_iter_ann_In in H as [Hp [H1 H2]]. split; [|tauto].
      apply (co_iter_swap _ _ s s' (wf_tl_of _ _) (wf_tl_of _ _)). exact Hp.
Qed.

Lemma weight_swap a b i j p : weight eps b a j i (swap_tp p) = weight eps a b i j p.
Proof.
  destruct p as [[s t] [s' t']]. unfold swap_tp, weight. cbn [fst snd].
  destruct (getitem a s t), (getitem b s' t'); try reflexivity.
  rewrite andb_comm, sand_comm. reflexivity.
Qed.

(* entry (j, i) of b * a equals entry (i, j) of a * b *)
Theorem mul_transpose a b i j : WF eps (a_tracks a) -> WF eps (a_tracks b) ->
  entry eps b a j i = entry eps a b i j.
Proof.
  intros Wa Wb. unfold entry.
  rewrite (fold_sum_perm (weight eps b a j i) _ _ (co_iter_ann_transpose a b Wa Wb)).
  rewrite fold_sum_map. generalize 0. induction (co_iter_ann eps a b) as [|p l IH]; intro z; cbn [fold_left]; [reflexivity|].
  rewrite weight_swap. apply IH.
Qed.
End Mul.
