(* C20: condensed-matrix index arithmetic and pdist layout. *)
From PV Require Import Model.Condensed.

Definition T (i : Z) : Z := i * (i + 3) / 2.
Lemma T_succ i : T (i + 1) = T i + i + 2.
Proof.
  unfold T. replace ((i + 1) * (i + 1 + 3)) with (i * (i + 3) + (i + 2) * 2) by ring.
  rewrite Z.div_add by lia. lia.
Qed.
Lemma T_0 : T 0 = 0. Proof. reflexivity. Qed.
Lemma T_double i : 2 * T i = i * (i + 3).
Proof.
  unfold T. assert (E : (i * (i + 3)) mod 2 = 0).
  { destruct (Z.even i) eqn:Ev.
    - apply Z.even_spec in Ev as [m ->]. replace (2 * m * (2 * m + 3)) with ((m * (2 * m + 3)) * 2) by ring.
      apply Z.mod_mul. lia.
    - assert (Z.odd i = true) by (rewrite <- Z.negb_even, Ev; reflexivity).
      apply Z.odd_spec in H as [m ->]. replace ((2 * m + 1) * (2 * m + 1 + 3)) with (((2 * m + 1) * (m + 2)) * 2) by ring.
      apply Z.mod_mul. lia. }
  pose proof (Z.div_mod (i * (i + 3)) 2 ltac:(lia)). lia.
Qed.

(* closed form for i < j *)
Definition kidx (n i j : Z) : Z := i * n - T i + j - 1.
Lemma to_condensed_lt n i j : i < j -> to_condensed n i j = Some (kidx n i j).
Proof.
  intro H. unfold to_condensed, kidx, T. replace (i =? j) with false by lia.
  rewrite Z.min_l, Z.max_r by lia. reflexivity.
Qed.

Theorem condensed_sym n i j : to_condensed n i j = to_condensed n j i.
Proof.
  unfold to_condensed. rewrite (Z.min_comm j i), (Z.max_comm j i).
  destruct (Z.eqb_spec i j), (Z.eqb_spec j i); try reflexivity; lia.
Qed.
Theorem condensed_rejects_diag n i j : to_condensed n i j = None <-> i = j.
Proof.
  unfold to_condensed. destruct (Z.eqb_spec i j); split; intro H; try reflexivity; try discriminate; try assumption.
  contradiction.
Qed.

(* row-major numbering: first pair is 0, the successor of (i,j) is (i,j+1) or (i+1,i+2), last is n(n-1)/2 - 1 *)
Theorem condensed_first n : kidx n 0 1 = 0.
Proof. unfold kidx. rewrite T_0. lia. Qed.
Theorem condensed_next_in_row n i j : kidx n i (j + 1) = kidx n i j + 1.
Proof. unfold kidx. lia. Qed.
Theorem condensed_next_row n i : kidx n (i + 1) (i + 2) = kidx n i (n - 1) + 1.
Proof. unfold kidx. rewrite T_succ. lia. Qed.
Theorem condensed_last n : 2 * (kidx n (n - 2) (n - 1) + 1) = n * (n - 1).
Proof.
  unfold kidx. pose proof (T_double (n - 2)). nia.
Qed.
(* strictly increasing along row-major order, hence injective on pairs i < j < n *)
Theorem condensed_monotone n i j i' j' :
  0 <= i -> i < j -> j < n -> 0 <= i' -> i' < j' -> j' < n ->
  (i < i' \/ (i = i' /\ j < j')) -> kidx n i j < kidx n i' j'.
Proof.
  intros Hi Hij Hjn Hi' Hij' Hjn' [H|[-> H]]; [|unfold kidx; lia].
  unfold kidx. pose proof (T_double i). pose proof (T_double i'). nia.
Qed.
Theorem condensed_range n i j : 0 <= i -> i < j -> j < n ->
  0 <= kidx n i j /\ 2 * (kidx n i j + 1) <= n * (n - 1).
Proof.
  intros Hi Hij Hjn. unfold kidx. pose proof (T_double i). nia.
Qed.

(* to_squared inverts to_condensed *)
Lemma csqrt_spec d : 0 < d -> let c := csqrt d in 0 < c /\ (c - 1) * (c - 1) < d <= c * c.
Proof.
  intro H. unfold csqrt. pose proof (Z.sqrt_spec d ltac:(lia)) as [A B]. cbv zeta.
  pose proof (Z.sqrt_nonneg d).
  destruct (Z.sqrt d * Z.sqrt d =? d) eqn:E.
  - assert (Z.sqrt d * Z.sqrt d = d) by lia. assert (0 < Z.sqrt d) by nia. nia.
  - nia.
Qed.
Lemma csqrt_between d a : 0 <= a -> a * a < d -> d <= (a + 2) * (a + 2) ->
  csqrt d = a + 1 \/ csqrt d = a + 2.
Proof.
  intros Ha L U. destruct (csqrt_spec d ltac:(nia)) as [P [Q R]].
  assert (a < csqrt d) by nia. assert (csqrt d - 1 < a + 2) by nia. lia.
Qed.

Theorem squared_of_condensed n i j : 0 <= i -> i < j -> j < n ->
  to_squared n (kidx n i j) = (i, j).
Proof.
  intros Hi Hij Hjn. unfold to_squared.
  set (k := kidx n i j).
  assert (Hk : 2 * k = 2 * i * n - i * (i + 3) + 2 * j - 2) by (unfold k, kidx; pose proof (T_double i); lia).
  set (d := 4 * n * n - 4 * n + 1 - 8 * k).
  set (a := 2 * n - 2 * i - 3).
  assert (Hd1 : a * a < d) by (unfold d, a; nia).
  assert (Hd2 : d <= (a + 2) * (a + 2)) by (unfold d, a; nia).
  assert (Ha : 0 <= a) by (unfold a; lia).
  assert (Ei : (2 * n - 1 - csqrt d) / 2 = i).
  { destruct (csqrt_between d a Ha Hd1 Hd2) as [->| ->]; unfold a.
    - replace (2 * n - 1 - (2 * n - 2 * i - 3 + 1)) with (1 + i * 2) by lia.
      rewrite Z.div_add by lia. reflexivity.
    - replace (2 * n - 1 - (2 * n - 2 * i - 3 + 2)) with (i * 2) by lia. now rewrite Z.div_mul by lia. }
  rewrite Ei. f_equal. fold (T i). unfold k, kidx. lia.
Qed.

Theorem condensed_of_squared n k : 0 <= n -> 0 <= k -> 2 * (k + 1) <= n * (n - 1) ->
  let '(i, j) := to_squared n k in 0 <= i /\ i < j /\ j < n /\ to_condensed n i j = Some k.
Proof.
  intros Hn0 Hk Hmax. unfold to_squared.
  set (d := 4 * n * n - 4 * n + 1 - 8 * k).
  assert (Hn : 2 <= n) by nia.
  assert (Hd : 0 < d) by (unfold d; nia).
  destruct (csqrt_spec d Hd) as [Cp [Cl Cu]]. set (c := csqrt d) in *.
  set (i := (2 * n - 1 - c) / 2).
  assert (Hc_le : c <= 2 * n - 1) by (unfold d in *; nia).
  assert (Hi : 2 * i <= 2 * n - 1 - c < 2 * i + 2).
  { unfold i. pose proof (Z.div_mod (2 * n - 1 - c) 2 ltac:(lia)).
    pose proof (Z.mod_pos_bound (2 * n - 1 - c) 2 ltac:(lia)). lia. }
  fold (T i). pose proof (T_double i) as HT.
  assert (Hi0 : 0 <= i) by lia.
  (* (2n-2i-3)^2 < d <= (2n-2i-1)^2 *)
  assert (Hd9 : 9 <= d) by (unfold d; nia).
  assert (Hc3 : 3 <= c) by nia.
  assert (Hin : i <= n - 2) by lia.
  assert (L : (2 * n - 2 * i - 3) * (2 * n - 2 * i - 3) < d).
  { assert (0 <= 2 * n - 2 * i - 3 <= c - 1) by lia.
    assert ((2 * n - 2 * i - 3) * (2 * n - 2 * i - 3) <= (c - 1) * (c - 1)) by nia. lia. }
  assert (U : d <= (2 * n - 2 * i - 1) * (2 * n - 2 * i - 1)).
  { assert (0 <= c <= 2 * n - 2 * i - 1) by lia.
    assert (c * c <= (2 * n - 2 * i - 1) * (2 * n - 2 * i - 1)) by nia. lia. }
  set (j := k + 1 - i * n + T i).
  assert (Hj1 : i < j) by (unfold j, d in *; nia).
  assert (Hj2 : j < n) by (unfold j, d in *; nia).
  repeat split; try assumption.
  rewrite (to_condensed_lt n i j Hj1). f_equal. unfold kidx, j. lia.
Qed.

(* pdist is laid out at the to_condensed positions *)
Section Layout.
Context {A B : Type} (f : A -> A -> B) (da : A) (db : B).
Lemma pdist1d_length xs : 2 * Z.of_nat (length (pdist1d f xs)) = Z.of_nat (length xs) * (Z.of_nat (length xs) - 1).
Proof.
  induction xs as [|x r IH]; [reflexivity|]. cbn [pdist1d length].
  rewrite app_length, map_length. lia.
Qed.
Theorem pdist_layout xs : forall i j, 0 <= i -> i < j -> j < Z.of_nat (length xs) ->
  nth (Z.to_nat (kidx (Z.of_nat (length xs)) i j)) (pdist1d f xs) db
  = f (nth (Z.to_nat i) xs da) (nth (Z.to_nat j) xs da).
Proof.
  induction xs as [|x r IH]; intros i j Hi Hij Hj; [simpl in Hj; lia|].
  cbn [pdist1d]. set (n := Z.of_nat (length (x :: r))).
  assert (Hn : n = Z.of_nat (length r) + 1) by (unfold n; simpl length; lia).
  destruct (Z.eq_dec i 0) as [->|Hi0].
  - unfold kidx. rewrite T_0. replace (0 * n - 0 + j - 1) with (j - 1) by lia.
    rewrite app_nth1 by (rewrite map_length; lia).
    replace (Z.to_nat j) with (S (Z.to_nat (j - 1))) by lia. cbn [nth].
    change (Z.to_nat 0) with O. cbn [nth].
    rewrite (nth_indep _ db (f x da)) by (rewrite map_length; lia). now rewrite map_nth.
  - assert (E : kidx n i j = Z.of_nat (length r) + kidx (Z.of_nat (length r)) (i - 1) (j - 1)).
    { unfold kidx. replace i with ((i - 1) + 1) at 2 by lia. rewrite T_succ. lia. }
    rewrite E.
    assert (0 <= kidx (Z.of_nat (length r)) (i - 1) (j - 1)).
    { apply condensed_range; lia. }
    rewrite app_nth2 by (rewrite map_length; lia). rewrite map_length.
    replace (Z.to_nat (Z.of_nat (length r) + kidx (Z.of_nat (length r)) (i - 1) (j - 1)) - length r)%nat
      with (Z.to_nat (kidx (Z.of_nat (length r)) (i - 1) (j - 1))) by lia.
    rewrite IH by lia.
    replace (Z.to_nat i) with (S (Z.to_nat (i - 1))) by lia.
    replace (Z.to_nat j) with (S (Z.to_nat (j - 1))) by lia. reflexivity.
Qed.
(* ... which are the entries of the cdist matrix of xs with itself *)
Theorem cdist_entry xs ys i j : (i < length xs)%nat -> (j < length ys)%nat ->
  nth j (nth i (cdist1d f xs ys) []) db = f (nth i xs da) (nth j ys da).
Proof.
  intros Hi Hj. unfold cdist1d.
  rewrite (nth_indep _ [] (map (f da) ys)) by (rewrite map_length; lia).
  rewrite (map_nth (fun x => map (f x) ys) xs da i).
  rewrite (nth_indep _ db (f (nth i xs da) da)) by (rewrite map_length; lia). now rewrite map_nth.
Qed.
Theorem pdist_short xs : (length xs <= 1)%nat -> pdist1d f xs = [].
Proof. destruct xs as [|x [|y r]]; simpl; intro H; try reflexivity; lia. Qed.
End Layout.

Theorem metric_defs x y :
  metric_fn MEqual x y = (if x =? y then 1 else 0) /\ metric_fn MMin x y = Z.min x y /\
  metric_fn MMax x y = Z.max x y /\ metric_fn MAvg x y = x + y.
Proof. repeat split. Qed.

(* ---- propagate_constraints: the result is a fixed point of the propagation rule ---- *)
(* (u != v) & (v == w) ==> u != w, with a conflict when a must-link pair is itself cannot-link *)
Definition rule_ok (r : list zpair) (xy uv : zpair) : Prop :=
  match symdiff (zset2 (fst uv) (snd uv)) (zset2 (fst xy) (snd xy)) with
  | [] => False
  | [a; b] => ps_mem (a, b) r = true
  | _ => True
  end.
Definition pass_closed (r ml : list zpair) : Prop :=
  forall xy uv, In xy ml -> In uv r -> rule_ok r xy uv.

Definition inner (cl : list zpair) (xy : zpair) (acc : option (list zpair)) (l : list zpair) :=
  fold_left (fun acc uv =>
      match acc with
      | None => None
      | Some nw =>
          match symdiff (zset2 (fst uv) (snd uv)) (zset2 (fst xy) (snd xy)) with
          | [] => None
          | [a; b] => if ps_mem (a, b) cl then Some nw else Some (nw ++ [(a, b)])
          | _ => Some nw
          end
      end) l acc.

Lemma inner_none cl xy l : inner cl xy None l = None.
Proof. induction l as [|uv l IH]; simpl; [reflexivity | exact IH]. Qed.
Lemma inner_grows cl xy l : forall nw r, inner cl xy (Some nw) l = Some r -> exists t, r = nw ++ t.
Proof.
  induction l as [|uv l IH]; intros nw r H; simpl in H.
  - inversion H. exists []. now rewrite app_nil_r.
  - unfold inner in IH.
    destruct (symdiff (zset2 (fst uv) (snd uv)) (zset2 (fst xy) (snd xy))) as [|a [|b [|c t]]].
    + change (inner cl xy None l = Some r) in H. rewrite inner_none in H. discriminate.
    + now apply IH.
    + destruct (ps_mem (a, b) cl).
      * now apply IH.
      * apply IH in H as [t' ->]. exists ((a, b) :: t'). now rewrite <- app_assoc.
    + now apply IH.
Qed.
Lemma inner_nil cl xy l : forall nw, inner cl xy (Some nw) l = Some [] ->
  nw = [] /\ forall uv, In uv l -> rule_ok cl xy uv.
Proof.
  induction l as [|uv l IH]; intros nw H; simpl in H.
  - inversion H. split; [reflexivity | intros uv []].
  - unfold inner in IH. unfold rule_ok.
    destruct (symdiff (zset2 (fst uv) (snd uv)) (zset2 (fst xy) (snd xy))) as [|a [|b [|c t]]] eqn:E.
    + change (inner cl xy None l = Some []) in H. rewrite inner_none in H. discriminate.
    + destruct (IH _ H) as [-> Hl]. split; [reflexivity|]. intros uv' [<-|I]; [now rewrite E | now apply Hl].
    + destruct (ps_mem (a, b) cl) eqn:Em.
      * destruct (IH _ H) as [-> Hl]. split; [reflexivity|]. intros uv' [<-|I]; [now rewrite E | now apply Hl].
      * destruct (IH _ H) as [Hn _]. destruct nw; discriminate.
    + destruct (IH _ H) as [-> Hl]. split; [reflexivity|]. intros uv' [<-|I]; [now rewrite E | now apply Hl].
Qed.

Lemma prop_pass_unfold cl ml :
  prop_pass cl ml = fold_left (fun acc xy => inner cl xy acc cl) ml (Some []).
Proof. reflexivity. Qed.
Lemma outer_none cl ml : fold_left (fun acc xy => inner cl xy acc cl) ml None = None.
Proof. induction ml as [|xy ml IH]; simpl; [reflexivity|]. now rewrite inner_none. Qed.
Lemma outer_nil cl ml : forall nw,
  fold_left (fun acc xy => inner cl xy acc cl) ml (Some nw) = Some [] ->
  nw = [] /\ pass_closed cl ml.
Proof.
  induction ml as [|xy ml IH]; intros nw H; simpl in H.
  - inversion H. split; [reflexivity | intros xy uv []].
  - destruct (inner cl xy (Some nw) cl) as [r|] eqn:E; [|rewrite outer_none in H; discriminate].
    destruct (IH _ H) as [-> Hc]. destruct (inner_nil cl xy cl nw E) as [-> Hr].
    split; [reflexivity|]. intros xy' uv [<-|I] Iu; [now apply Hr | now apply Hc].
Qed.

(* when propagate_constraints returns, its result is closed under the rule and conflict free *)
Theorem prop_loop_closed fuel : forall cl ml r,
  prop_loop fuel cl ml = Some (Some r) -> pass_closed r ml.
Proof.
  induction fuel as [|f IH]; intros cl ml r H; simpl in H; [discriminate|].
  destruct (prop_pass cl ml) as [[|p nw]|] eqn:E.
  - inversion H; subst. rewrite prop_pass_unfold in E. now apply outer_nil in E.
  - now apply IH in H.
  - discriminate.
Qed.
Theorem propagate_closed cl ml r : propagate cl ml = Some (Some r) -> pass_closed r ml.
Proof. apply prop_loop_closed. Qed.

(* ps_add keeps what is there: the given cannot-link pairs are in the result *)
Lemma ps_add_mem p q s : ps_mem q s = true -> ps_mem q (ps_add p s) = true.
Proof.
  unfold ps_mem. induction s as [|x s IH]; simpl; intro H; [discriminate|].
  destruct (zp_eqb p x); simpl; [exact H|]. destruct (zp_ltb p x); simpl.
  - rewrite H. apply orb_true_r.
  - apply orb_true_iff in H as [H|H]; [now rewrite H | rewrite (IH H); apply orb_true_r].
Qed.
Lemma zp_eqb_refl p : zp_eqb p p = true.
Proof. unfold zp_eqb. lia. Qed.
Lemma ps_add_self p s : ps_mem p (ps_add p s) = true.
Proof.
  unfold ps_mem. induction s as [|x s IH]; simpl; [now rewrite zp_eqb_refl|].
  destruct (zp_eqb p x) eqn:E; simpl; [now rewrite E|]. destruct (zp_ltb p x); simpl.
  - now rewrite zp_eqb_refl.
  - rewrite E. exact IH.
Qed.
Lemma fold_ps_add_mem nw : forall s q, ps_mem q s = true -> ps_mem q (fold_left (fun s p => ps_add p s) nw s) = true.
Proof. induction nw as [|p nw IH]; simpl; intros s q H; [exact H|]. apply IH. now apply ps_add_mem. Qed.
Theorem prop_loop_extends fuel : forall cl ml r q,
  prop_loop fuel cl ml = Some (Some r) -> ps_mem q cl = true -> ps_mem q r = true.
Proof.
  induction fuel as [|f IH]; intros cl ml r q H Hq; simpl in H; [discriminate|].
  destruct (prop_pass cl ml) as [[|p nw]|] eqn:E.
  - now inversion H; subst.
  - eapply IH; [exact H|]. now apply fold_ps_add_mem.
  - discriminate.
Qed.
