(* C01: the three containers of a Timeline stay in step under every edit
   history, and every read agrees with the mathematical set of segments. *)
From PV Require Import Model.Timeline Proofs.SegmentP Proofs.SortedP Check.C01.

Record Inv (eps : Z) (t : tl) : Prop := {
  inv_list : tlist t = tset t;
  inv_sorted : ssorted (tset t);
  inv_nonempty : Forall (fun s => nonempty eps s = true) (tset t);
  inv_bsorted : zsorted (tbounds t);
  inv_bperm : Permutation (tbounds t) (boundaries (tset t)) }.

Definition aset := seg -> Prop.
Definition R (eps : Z) (t : tl) (A : aset) : Prop := Inv eps t /\ forall s, In s (tset t) <-> A s.

(* abstract (mathematical set) operations *)
Definition a_init (eps : Z) (segs : list seg) : aset := fun s => In s segs /\ nonempty eps s = true.
Definition a_add (eps : Z) (A : aset) (x : seg) : aset := fun s => A s \/ (s = x /\ nonempty eps x = true).
Definition a_remove (A : aset) (x : seg) : aset := fun s => A s /\ s <> x.
Definition a_union (A B : aset) : aset := fun s => A s \/ B s.
Definition a_map (eps : Z) (A : aset) (f : seg -> seg) : aset :=
  fun s => (exists s0, A s0 /\ s = f s0) /\ nonempty eps s = true.

Section Inv.
Variable eps : Z.
Hypothesis Heps : 0 <= eps.

Lemma R_init segs : R eps (t_init eps segs) (a_init eps segs).
Proof.
  unfold t_init. set (s := set_of_list (filter (nonempty eps) segs)).
  assert (Hs : ssorted s) by apply set_of_list_sorted.
  assert (Hm : forall y, In y s <-> In y segs /\ nonempty eps y = true).
  { intro y. unfold s. rewrite set_of_list_In, filter_In. tauto. }
  split; [constructor; simpl|].
  - now apply sl_of_canonical.
  - assumption.
  - rewrite Forall_forall. intros y Hy. now apply Hm in Hy.
  - apply zl_of_sorted.
  - apply zl_of_perm.
  - simpl. exact Hm.
Qed.

Lemma R_add t A x : R eps t A -> R eps (t_add eps t x) (a_add eps A x).
Proof.
  intros [I M]. unfold t_add, a_add.
  destruct (set_mem x (tset t)) eqn:Em; simpl.
  - split; [assumption|]. intro s. rewrite M. apply set_mem_In in Em. apply M in Em.
    split; [tauto | intros [H|[-> _]]; assumption].
  - destruct (nonempty eps x) eqn:En; simpl.
    + assert (Hn : ~ In x (tset t)) by now apply set_mem_false.
      assert (Ea : set_add x (tset t) = sl_add x (tset t)) by (unfold set_add; now rewrite Em).
      destruct I as [Il Is In_ Ibs Ibp].
      split; [constructor; simpl|].
      * now rewrite Ea, Il.
      * rewrite Ea. now apply sl_add_sorted.
      * rewrite Ea. now apply Forall_sl_add.
      * now apply zl_add_sorted, zl_add_sorted.
      * rewrite zl_add_perm, zl_add_perm, Ea.
        rewrite (boundaries_perm _ _ (sl_add_perm x (tset t))). simpl.
        rewrite Ibp. apply perm_swap.
      * simpl. intro s. rewrite set_add_In, M. intuition.
    + split; [assumption|]. intro s. rewrite M. split; [tauto | intros [H|[_ H]]; [assumption|discriminate]].
Qed.

Lemma R_remove t A x : R eps t A -> R eps (t_remove t x) (a_remove A x).
Proof.
  intros [I M]. unfold t_remove, a_remove.
  destruct (set_mem x (tset t)) eqn:Em; simpl.
  - apply set_mem_In in Em. destruct I as [Il Is In_ Ibs Ibp].
    pose proof (ssorted_NoDup _ Is) as Nd.
    pose proof (boundaries_perm _ _ (set_remove_perm x _ Nd Em)) as Pb. simpl in Pb.
    assert (P1 : Permutation (tbounds t) (st x :: en x :: boundaries (set_remove x (tset t))))
      by (etransitivity; eassumption).
    assert (I1 : In (st x) (tbounds t)) by (eapply Permutation_in; [symmetry; exact P1 | now left]).
    pose proof (zl_remove_perm _ _ I1) as P2.
    assert (P3 : Permutation (zl_remove (st x) (tbounds t)) (en x :: boundaries (set_remove x (tset t)))).
    { eapply Permutation_cons_inv. etransitivity; [symmetry; exact P2 | exact P1]. }
    assert (I2 : In (en x) (zl_remove (st x) (tbounds t))) by (eapply Permutation_in; [symmetry; exact P3 | now left]).
    pose proof (zl_remove_perm _ _ I2) as P4.
    split; [constructor; simpl|].
    + rewrite Il. now apply sl_remove_set_remove.
    + now apply set_remove_sorted.
    + now apply Forall_filter.
    + now apply zl_remove_sorted, zl_remove_sorted.
    + eapply Permutation_cons_inv. etransitivity; [symmetry; exact P4 | exact P3].
    + simpl. intro s. rewrite set_remove_In, M. tauto.
  - split; [assumption|]. intro s. rewrite M. apply set_mem_false in Em.
    split; [|tauto]. intro H. split; [assumption|]. intros ->. apply Em. now apply M.
Qed.

Lemma R_of_sorted_set s A :
  ssorted s -> Forall (fun y => nonempty eps y = true) s -> (forall y, In y s <-> A y) ->
  R eps (mkTl s (sl_of s) (zl_of (boundaries s))) A.
Proof.
  intros Hs Hn Hm. split; [constructor; simpl|exact Hm].
  - now apply sl_of_canonical.
  - assumption.
  - assumption.
  - apply zl_of_sorted.
  - apply zl_of_perm.
Qed.

Lemma R_update t A o B : R eps t A -> R eps o B -> R eps (t_update t o) (a_union A B).
Proof.
  intros [I M] [I' M']. unfold t_update. apply R_of_sorted_set.
  - apply set_union_sorted. apply I.
  - rewrite Forall_forall. intros y Hy. apply set_union_In in Hy as [Hy|Hy].
    + pose proof (inv_nonempty _ _ I) as F. rewrite Forall_forall in F. now apply F.
    + pose proof (inv_nonempty _ _ I') as F. rewrite Forall_forall in F. now apply F.
  - intro y. rewrite set_union_In, M, M'. reflexivity.
Qed.

Lemma R_union t A o B : R eps t A -> R eps o B -> R eps (t_union eps t o) (a_union A B).
Proof.
  intros [I M] [I' M']. unfold t_union.
  destruct (R_init (set_union (tset t) (tset o))) as [Ii Mi]. split; [assumption|].
  intro y. rewrite Mi. unfold a_init, a_union. rewrite set_union_In, M, M'.
  split; [tauto|]. intro H. split; [assumption|].
  destruct H as [H|H].
  - apply M in H. pose proof (inv_nonempty _ _ I) as F. rewrite Forall_forall in F. now apply F.
  - apply M' in H. pose proof (inv_nonempty _ _ I') as F. rewrite Forall_forall in F. now apply F.
Qed.

Definition f_of (f : option sfun) : seg -> seg :=
  match f with None => fun s => s | Some f => sfun_app f end.

Lemma R_copy t A f : R eps t A -> R eps (t_copy eps t f) (a_map eps A (f_of f)).
Proof.
  intros [I M]. unfold t_copy.
  assert (E : forall g : seg -> seg, (forall y, In y (map g (tlist t)) <-> exists s0, A s0 /\ y = g s0)).
  { intros g y. rewrite in_map_iff, (inv_list _ _ I). split.
    - intros [s0 [<- H]]. exists s0. split; [now apply M | reflexivity].
    - intros [s0 [H ->]]. exists s0. split; [reflexivity | now apply M]. }
  destruct f as [f|]; simpl.
  - destruct (R_init (map (sfun_app f) (tlist t))) as [Ii Mi]. split; [assumption|].
    intro y. rewrite Mi. unfold a_init, a_map. now rewrite E.
  - destruct (R_init (tlist t)) as [Ii Mi]. split; [assumption|].
    intro y. rewrite Mi. unfold a_init, a_map. rewrite <- (E (fun s => s)). now rewrite map_id.
Qed.

(* ---------------- reads under R ---------------- *)
Section Reads.
Variables (t : tl) (A : aset).
Hypothesis HR : R eps t A.

Lemma iter_spec : ssorted (t_iter t) /\ (forall s, In s (t_iter t) <-> A s).
Proof.
  destruct HR as [I M]. unfold t_iter. rewrite (inv_list _ _ I). split; [apply I | exact M].
Qed.
Lemma iter_nodup : NoDup (t_iter t).
Proof. apply ssorted_NoDup, iter_spec. Qed.
Lemma iter_nonempty : forall s, A s -> nonempty eps s = true.
Proof.
  destruct HR as [I M]. intros s H. apply M in H.
  pose proof (inv_nonempty _ _ I) as F. rewrite Forall_forall in F. now apply F.
Qed.
Lemma len_spec : t_len t = Z.of_nat (length (t_iter t)).
Proof. destruct HR as [I _]. unfold t_len, t_iter. now rewrite (inv_list _ _ I). Qed.
Lemma bool_spec : t_bool t = true <-> exists s, A s.
Proof.
  destruct HR as [I M]. unfold t_bool, t_len. destruct (tset t) as [|x r] eqn:E; simpl.
  - split; [lia|]. intros [s H]. apply M in H. contradiction.
  - split; [|lia]. intros _. exists x. apply M. now left.
Qed.
Lemma contains_spec x : t_contains t x = true <-> A x.
Proof. destruct HR as [I M]. unfold t_contains. now rewrite set_mem_In, M. Qed.
Lemma getitem_spec k :
  let n := Z.of_nat (length (t_iter t)) in
  (0 <= k < n -> t_getitem t k = nth_error (t_iter t) (Z.to_nat k)) /\
  (- n <= k < 0 -> t_getitem t k = nth_error (t_iter t) (Z.to_nat (n + k))) /\
  (k < - n \/ n <= k -> t_getitem t k = None).
Proof.
  unfold t_getitem, py_index, t_iter. cbv zeta.
  set (n := Z.of_nat (length (tlist t))).
  repeat split; intro H.
  - replace ((0 <=? k) && (k <? n)) with true by lia. reflexivity.
  - replace ((0 <=? k) && (k <? n)) with false by lia.
    replace ((k <? 0) && (0 <=? n + k)) with true by lia. reflexivity.
  - replace ((0 <=? k) && (k <? n)) with false by lia.
    replace ((k <? 0) && (0 <=? n + k)) with false by lia. reflexivity.
Qed.
Lemma sl_index_spec x l : NoDup l ->
  (forall i, sl_index x l = Some i <-> (0 <= i /\ nth_error l (Z.to_nat i) = Some x)) /\
  (sl_index x l = None <-> ~ In x l).
Proof.
  induction l as [|y l IH]; intro N; simpl.
  - split; [intro i; split; [discriminate | intros [_ H]; destruct (Z.to_nat i); discriminate]|].
    split; [tauto | reflexivity].
  - inversion N as [|? ? Ny Nl]; subst. destruct (IH Nl) as [IH1 IH2].
    destruct (seqb x y) eqn:E.
    + apply seqb_eq in E. subst y. split.
      * intro i. split.
        -- intro H. inversion H; subst. split; [lia | reflexivity].
        -- intros [Hi H]. destruct (Z.to_nat i) eqn:Ei.
           ++ f_equal. lia.
           ++ simpl in H. apply nth_error_In in H. contradiction.
      * split; [discriminate | intro H; exfalso; apply H; now left].
    + apply seqb_false_neq in E. split.
      * intro i. destruct (sl_index x l) as [j|].
        -- destruct (proj1 (IH1 j) eq_refl) as [Hj Hn]. split.
           ++ intro H. inversion H; subst. split; [lia|].
              replace (Z.to_nat (j + 1)) with (S (Z.to_nat j)) by lia. exact Hn.
           ++ intros [Hi H]. destruct (Z.to_nat i) eqn:Ei; simpl in H.
              ** inversion H. congruence.
              ** f_equal. assert (Hj' : Some j = Some (Z.of_nat n)).
                 { apply IH1. split; [lia|]. now rewrite Nat2Z.id. }
                 inversion Hj'. lia.
        -- split; [discriminate|]. intros [Hi H]. destruct (Z.to_nat i) eqn:Ei; simpl in H.
           ++ inversion H. congruence.
           ++ apply nth_error_In in H. exfalso. exact (proj1 IH2 eq_refl H).
      * destruct (sl_index x l) as [z|].
        -- split; [discriminate|]. intro H. exfalso. apply H. right.
           destruct (proj1 (IH1 z) eq_refl) as [_ Hn]. now apply nth_error_In in Hn.
        -- split; [|reflexivity]. intros _ [H|H]; [congruence | exact (proj1 IH2 eq_refl H)].
Qed.
Lemma index_spec x :
  (forall i, t_index t x = Some i <-> (0 <= i /\ nth_error (t_iter t) (Z.to_nat i) = Some x)) /\
  (t_index t x = None <-> ~ A x).
Proof.
  unfold t_index. destruct (sl_index_spec x (tlist t) iter_nodup) as [H1 H2].
  split; [exact H1|]. rewrite H2. destruct iter_spec as [_ M]. unfold t_iter in M. now rewrite M.
Qed.

Lemma extent_empty : (forall s, ~ A s) -> t_extent t = (0, 0).
Proof.
  destruct HR as [I M]. intro H. unfold t_extent. destruct (tset t) as [|x r] eqn:E; [reflexivity|].
  exfalso. apply (H x). apply M. now left.
Qed.

Lemma zsorted_hd_min l d : zsorted l -> forall z, In z l -> hd d l <= z.
Proof.
  intros H z Hz. destruct l as [|y l]; [contradiction|]. simpl.
  inversion H as [|? ? _ F]; subst. destruct Hz as [->|Hz]; [lia|].
  rewrite Forall_forall in F. now apply F.
Qed.
Lemma zsorted_last_max l d : zsorted l -> forall z, In z l -> z <= last l d.
Proof.
  induction l as [|y l IH]; intros H z Hz; [contradiction|].
  inversion H as [|? ? Hs F]; subst. rewrite Forall_forall in F.
  destruct l as [|y' l'].
  - destruct Hz as [->|[]]. simpl. lia.
  - change (last (y :: y' :: l') d) with (last (y' :: l') d).
    destruct Hz as [->|Hz].
    + etransitivity; [apply (F y'); now left | apply IH; [assumption | now left]].
    + now apply IH.
Qed.
Lemma hd_In (l : list Z) d : l <> [] -> In (hd d l) l.
Proof. destruct l; [congruence | intros _; now left]. Qed.
Lemma last_In (l : list Z) d : l <> [] -> In (last l d) l.
Proof.
  induction l as [|y l IH]; [congruence|]. intros _. destruct l as [|y' l'].
  - now left.
  - right. change (last (y :: y' :: l') d) with (last (y' :: l') d). apply IH. discriminate.
Qed.
Lemma boundaries_In z s : In z (boundaries s) <-> exists y, In y s /\ (z = st y \/ z = en y).
Proof.
  unfold boundaries. rewrite in_flat_map. split.
  - intros [y [Hy Hz]]. exists y. split; [assumption|]. simpl in Hz. intuition.
  - intros [y [Hy Hz]]. exists y. split; [assumption|]. simpl. intuition.
Qed.

(* the extent is [earliest start, latest end] *)
Lemma extent_spec : (exists s, A s) ->
  let e := t_extent t in
  (exists s, A s /\ st s = st e) /\ (forall s, A s -> st e <= st s) /\
  (exists s, A s /\ en s = en e) /\ (forall s, A s -> en s <= en e).
Proof.
  destruct HR as [I M]. intros [s0 H0]. apply M in H0.
  unfold t_extent. destruct (tset t) as [|x r] eqn:E; [contradiction|]. rewrite <- E in *. clear x r E.
  pose proof (inv_bperm _ _ I) as P. pose proof (inv_bsorted _ _ I) as S.
  pose proof (inv_nonempty _ _ I) as F. rewrite Forall_forall in F.
  assert (NE : tbounds t <> []).
  { intro Eb. rewrite Eb in P. apply Permutation_nil in P.
    assert (In (st s0) (boundaries (tset t))) by (apply boundaries_In; exists s0; tauto).
    rewrite P in H. contradiction. }
  assert (Hin : forall z, In z (tbounds t) <-> exists y, In y (tset t) /\ (z = st y \/ z = en y)).
  { intro z. rewrite <- boundaries_In. split; apply Permutation_in; [assumption | now symmetry]. }
  assert (Hlt : forall y, In y (tset t) -> st y < en y).
  { intros y Hy. apply F in Hy. unfold nonempty in Hy. lia. }
  cbv zeta. unfold st at 2 4, en at 2 4. simpl fst. simpl snd.
  repeat split.
  - destruct (proj1 (Hin _) (hd_In _ 0 NE)) as [y [Hy [Hz|Hz]]].
    + exists y. split; [now apply M | now symmetry].
    + exfalso. pose proof (zsorted_hd_min _ 0 S (st y)) as Q.
      assert (In (st y) (tbounds t)) by (apply Hin; exists y; tauto).
      specialize (Q H). specialize (Hlt y Hy). lia.
  - intros s Hs. apply M in Hs. apply zsorted_hd_min; [assumption|]. apply Hin. exists s. tauto.
  - destruct (proj1 (Hin _) (last_In _ 0 NE)) as [y [Hy [Hz|Hz]]].
    + exfalso. pose proof (zsorted_last_max _ 0 S (en y)) as Q.
      assert (In (en y) (tbounds t)) by (apply Hin; exists y; tauto).
      specialize (Q H). specialize (Hlt y Hy). lia.
    + exists y. split; [now apply M | now symmetry].
  - intros s Hs. apply M in Hs. apply zsorted_last_max; [assumption|]. apply Hin. exists s. tauto.
Qed.
End Reads.

Lemma subset_spec a b : set_subset a b = true <-> forall s, In s a -> In s b.
Proof.
  unfold set_subset. rewrite forallb_forall. split; intros H s Hs; [apply set_mem_In | apply set_mem_In]; auto.
Qed.
Lemma contains_tl_spec t A o B : R eps t A -> R eps o B ->
  (t_contains_tl t o = true <-> forall s, B s -> A s).
Proof.
  intros [_ M] [_ M']. unfold t_contains_tl. rewrite subset_spec.
  split; intros H s Hs; [apply M, H, M', Hs | apply M, H, M', Hs].
Qed.
Lemma eq_spec t A o B : R eps t A -> R eps o B ->
  (t_eq t o = true <-> forall s, A s <-> B s) /\ t_ne t o = negb (t_eq t o).
Proof.
  intros [_ M] [_ M']. split; [|reflexivity].
  unfold t_eq, set_eqb. rewrite andb_true_iff, !subset_spec. split.
  - intros [H1 H2] s. rewrite <- M, <- M'. split; auto.
  - intro H. split; intros s Hs; [apply M', H, M, Hs | apply M, H, M', Hs].
Qed.

(* ---------------- histories over a register bank ---------------- *)
Definition a_empty : aset := fun _ => False.
Lemma R_empty : R eps empty_tl a_empty.
Proof.
  split; [constructor; simpl; try constructor|]. intro s. simpl. unfold a_empty. tauto.
Qed.
Definition agetr (regs : list aset) (r : nat) : aset := nth r regs a_empty.
Fixpoint asetr (regs : list aset) (r : nat) (t : aset) : list aset :=
  match r, regs with
  | O, _ :: rest => t :: rest
  | O, [] => [t]
  | S r', x :: rest => x :: asetr rest r' t
  | S r', [] => a_empty :: asetr [] r' t
  end.
Definition astep (aregs : list aset) (o : op) : list aset :=
  match o with
  | ONew r segs => asetr aregs r (a_init eps segs)
  | OAdd r x => asetr aregs r (a_add eps (agetr aregs r) x)
  | ORemove r x => asetr aregs r (a_remove (agetr aregs r) x)
  | OUpdate r r2 => asetr aregs r (a_union (agetr aregs r) (agetr aregs r2))
  | OUnion r r1 r2 => asetr aregs r (a_union (agetr aregs r1) (agetr aregs r2))
  | OCopy r r1 f => asetr aregs r (a_map eps (agetr aregs r1) (f_of f))
  | ORead _ _ | OCmp _ _ _ _ _ => aregs
  end.

Lemma getr_R regs aregs r : Forall2 (R eps) regs aregs -> R eps (getr regs r) (agetr aregs r).
Proof.
  intro H. revert r. induction H; intro r; destruct r; simpl; try apply R_empty; auto.
  apply IHForall2.
Qed.
Lemma setr_R regs aregs r t A :
  Forall2 (R eps) regs aregs -> R eps t A -> Forall2 (R eps) (setr regs r t) (asetr aregs r A).
Proof.
  intros H Ht. revert regs aregs H. induction r as [|r IH]; intros regs aregs H.
  - destruct H; simpl; constructor; auto.
  - destruct H; simpl; constructor; auto using R_empty.
Qed.

Lemma step_R regs aregs o :
  Forall2 (R eps) regs aregs -> Forall2 (R eps) (fst (step eps regs o)) (astep aregs o).
Proof.
  intro H. destruct o; simpl; try assumption; apply setr_R; try assumption.
  - apply R_init.
  - apply R_add, getr_R, H.
  - apply R_remove, getr_R, H.
  - apply R_update; apply getr_R, H.
  - apply R_union; apply getr_R, H.
  - apply R_copy, getr_R, H.
Qed.

Fixpoint regs_after (regs : list tl) (ops : list op) : list tl :=
  match ops with [] => regs | o :: rest => regs_after (fst (step eps regs o)) rest end.
Fixpoint aregs_after (aregs : list aset) (ops : list op) : list aset :=
  match ops with [] => aregs | o :: rest => aregs_after (astep aregs o) rest end.

Theorem history_refines ops : forall regs aregs,
  Forall2 (R eps) regs aregs -> Forall2 (R eps) (regs_after regs ops) (aregs_after aregs ops).
Proof.
  induction ops as [|o ops IH]; intros regs aregs H; simpl; [assumption|].
  apply IH, step_R, H.
Qed.

Corollary reachable_inv ops r :
  R eps (getr (regs_after [] ops) r) (agetr (aregs_after [] ops) r).
Proof. apply getr_R, history_refines. constructor. Qed.
End Inv.
