(* C07 / C09: Annotation.crop in 'intersection' mode: exactly one track per
   (original track, support region) pair, each with its original label; argmax(support). *)
From PV Require Import Model.AnnotationOps Proofs.SegmentP Proofs.SortedP Proofs.TimelineInvP Proofs.SupportP
  Proofs.CropP Proofs.DictP Proofs.AnnotationInvP Proofs.GeneratorsP Proofs.AnnCropP Proofs.AnalyzeP.

(* the (segment, label) content of a track map, one entry per track *)
Definition entries (m : tmap) : list (seg * name) :=
  flat_map (fun sd => map (fun tl_ : name * name => (fst sd, snd tl_)) (snd sd)) m.

Lemma d_set_fresh t l d : d_get t d = None -> d_set t l d = d ++ [(t, l)].
Proof.
  induction d as [|[k v] d IH]; simpl; intro H; [reflexivity|].
  destruct (name_eqb t k); [discriminate|]. now rewrite IH.
Qed.
Lemma d_get_None_tracks t (d : tracks_t) : ~ In t (map fst d) -> d_get t d = None.
Proof. intro H. rewrite d_get_nm. now apply nm_get_None. Qed.

Lemma entries_set_new s d m : sd_get s m = None ->
  Permutation (entries (sd_set s d m)) (map (fun tl_ : name * name => (s, snd tl_)) d ++ entries m).
Proof.
  induction m as [|[s' d'] m IH]; simpl; intro H.
  - unfold entries. simpl. now rewrite app_nil_r.
  - destruct (seqb s s') eqn:E; [discriminate|]. destruct (sltb s s').
    + unfold entries. simpl. reflexivity.
    + unfold entries in *. simpl. rewrite (IH H).
      rewrite !app_assoc. apply Permutation_app_tail. apply Permutation_app_comm.
Qed.
Lemma entries_set_append s d0 t l m : ssorted (skeys m) -> sd_get s m = Some d0 ->
  Permutation (entries (sd_set s (d0 ++ [(t, l)]) m)) ((s, l) :: entries m).
Proof.
  induction m as [|[s' d'] m IH]; simpl; intros Hs H; [discriminate|].
  destruct (seqb s s') eqn:E.
  - apply seqb_eq in E. subst s'. inversion H; subst d'. unfold entries. simpl.
    rewrite map_app. simpl. rewrite <- app_assoc. simpl.
    symmetry. apply Permutation_middle.
  - apply ssorted_inv in Hs as [Hs F]. destruct (sltb s s') eqn:L.
    + exfalso. apply sd_get_Some_In in H. rewrite Forall_forall in F. specialize (F s H).
      apply (slt_irrefl s). eapply slt_trans; [exact L | exact F].
    + unfold entries in *. simpl. rewrite (IH Hs H). symmetry. apply Permutation_middle.
Qed.

Section Inter.
Variable eps : Z.
Hypothesis Heps : 0 <= eps.

(* one insertion under a name not yet in use on the segment adds exactly one entry *)
Lemma setitem_fresh_entries a s t l : WF eps (a_tracks a) -> nonempty eps s = true -> ~ In t (get_tracks a s) ->
  Permutation (entries (a_tracks (setitem eps a s t l))) ((s, l) :: entries (a_tracks a)).
Proof.
  intros W Hs Hf. unfold setitem. rewrite Hs. cbn [negb]. unfold get_tracks in Hf.
  destruct (sd_get s (a_tracks a)) as [d|] eqn:Ed; cbn [a_tracks].
  - rewrite (d_set_fresh t l d) by now apply d_get_None_tracks.
    apply entries_set_append; [apply W | exact Ed].
  - cbn [d_set]. rewrite (entries_set_new s [(t, l)] _ Ed). reflexivity.
Qed.

Definition inner (i : seg) (d : tracks_t) (c : ann) : ann :=
  fold_left (fun c tl_ => setitem eps c i (new_track c i (Some (fst tl_)) None) (snd tl_)) d c.

Lemma inner_spec i d : nonempty eps i = true -> forall c, AInv eps c ->
  AInv eps (inner i d c) /\
  Permutation (entries (a_tracks (inner i d c))) (map (fun tl_ : name * name => (i, snd tl_)) d ++ entries (a_tracks c)).
Proof.
  intro Hi. induction d as [|x d IH]; intros c I; cbn [inner fold_left map app]; [split; [exact I | reflexivity]|].
  set (t' := new_track c i (Some (fst x)) None).
  assert (Hf : ~ In t' (get_tracks c i)).
  { destruct (inter_insertions_never_overwrite c i (fst x)) as [H|[E H]]; [exact H|]. unfold t'. now rewrite E. }
  pose proof (AInv_setitem eps c i t' (snd x) I) as I'.
  destruct (IH _ I') as [J P]. split; [exact J|].
  unfold inner in P. rewrite P.
  rewrite (setitem_fresh_entries c i t' (snd x) (i_wf _ _ I) Hi Hf).
  symmetry. apply Permutation_middle.
Qed.

Definition tracks_at (a : ann) (s : seg) : tracks_t :=
  match sd_get s (a_tracks a) with Some d => d | None => [] end.

Lemma outer_spec a pairs : (forall p, In p pairs -> nonempty eps (sand (fst p) (snd p)) = true) ->
  forall c, AInv eps c ->
  AInv eps (fold_left (inter_step eps a) pairs c) /\
  Permutation (entries (a_tracks (fold_left (inter_step eps a) pairs c)))
    (flat_map (fun p => map (fun tl_ : name * name => (sand (fst p) (snd p), snd tl_)) (tracks_at a (fst p))) pairs
     ++ entries (a_tracks c)).
Proof.
  induction pairs as [|p pairs IH]; intros Hp c I; cbn [fold_left flat_map app]; [split; [exact I | reflexivity]|].
  destruct (inner_spec (sand (fst p) (snd p)) (tracks_at a (fst p)) (Hp p (or_introl eq_refl)) c I) as [I' P'].
  destruct (IH (fun q Hq => Hp q (or_intror Hq)) _ I') as [J P].
  change (inter_step eps a c p) with (inner (sand (fst p) (snd p)) (tracks_at a (fst p)) c).
  split; [exact J|]. rewrite P, P'. rewrite <- !app_assoc.
  rewrite app_assoc. rewrite (Permutation_app_comm (flat_map _ pairs)). rewrite <- app_assoc. reflexivity.
Qed.

(* 'intersection' mode: the tracks of the result are, as a multiset of (segment, label), exactly
   one (s & r, label) per original track (s, t, label) and support region r intersecting s *)
Theorem crop_inter_entries a S : AInv eps a ->
  AInv eps (crop_ann eps a S Inter) /\
  Permutation (entries (a_tracks (crop_ann eps a S Inter)))
    (flat_map (fun p => map (fun tl_ : name * name => (sand (fst p) (snd p), snd tl_)) (tracks_at a (fst p)))
              (co_iter eps (skeys (a_tracks a)) (norm_support eps S))).
Proof.
  intro I. pose proof (i_wf _ _ I) as W. unfold crop_ann.
  fold (skeys (a_tracks a)). rewrite (tline_is_keys eps _ W).
  assert (Wk : wf eps (skeys (a_tracks a))) by (split; apply W).
  destruct (outer_spec a (co_iter eps (skeys (a_tracks a)) (norm_support eps S))) with (c := Annotation.a_empty (a_uri a) (a_modality a)) as [J P].
  - intros [s r] Hp. cbn [fst snd]. now apply (co_iter_In_and eps Heps _ _ s r Wk (norm_support_wf eps S)) in Hp as [_ [_ H]].
  - apply AInv_empty.
  - split; [exact J|]. unfold inter_step in P. rewrite P. cbn [Annotation.a_empty a_tracks entries flat_map]. now rewrite app_nil_r.
Qed.

(* the pairs: every (segment, region) with a non-empty intersection, each once *)
Theorem crop_inter_pairs a S s r : AInv eps a ->
  (In (s, r) (co_iter eps (skeys (a_tracks a)) (norm_support eps S)) <->
   In s (skeys (a_tracks a)) /\ In r (norm_support eps S) /\ intersects eps s r = true) /\
  NoDup (co_iter eps (skeys (a_tracks a)) (norm_support eps S)).
Proof.
  intro I. pose proof (i_wf _ _ I) as W.
  assert (Wk : wf eps (skeys (a_tracks a))) by (split; apply W).
  split; [apply (co_iter_In eps Heps _ _ s r Wk (norm_support_wf eps S)) | apply (co_iter_nodup eps Heps _ _ Wk (norm_support_wf eps S))].
Qed.

(* the number of tracks of the result = number of (original track, region) pairs *)
Corollary crop_inter_count a S : AInv eps a ->
  List.length (entries (a_tracks (crop_ann eps a S Inter))) =
  List.length (flat_map (fun p => map (fun tl_ : name * name => (sand (fst p) (snd p), snd tl_)) (tracks_at a (fst p)))
                        (co_iter eps (skeys (a_tracks a)) (norm_support eps S))).
Proof. intro I. apply Permutation_length. now apply crop_inter_entries. Qed.

(* argmax(support) = argmax of the cropped annotation, which satisfies the invariant: a label of
   maximal duration within the support, None iff nothing is there *)
Theorem argmax_support_spec a S : AInv eps a ->
  let c := crop_ann eps a S Inter in
  match argmax_ann eps a (Some S) with
  | None => a_bool c = false \/ snd (labels eps c) = []
  | Some l => In l (snd (labels eps c)) /\
              forall l', In l' (snd (labels eps c)) ->
                snd (label_duration eps (fst (labels eps c)) l') <= snd (label_duration eps (fst (labels eps c)) l)
  end.
Proof.
  intro I. cbv zeta. destruct (crop_inter_entries a S I) as [J _].
  change (argmax_ann eps a (Some S)) with (argmax_ann eps (crop_ann eps a S Inter) None).
  apply (argmax_spec eps _ J).
Qed.
End Inter.

(* ---- per-label time: crop(S) + extrude(S) = original (exact, on unit cells, eps = 0) ---- *)
From PV Require Import Proofs.MeasureP Proofs.GapsP.

Lemma occ_entries eps m l s : WF eps m -> (occ m l s <-> In (s, l) (entries m)).
Proof.
  intro W. unfold occ, entries. rewrite in_flat_map. split.
  - intros [d [t [Hd Ht]]]. exists (s, d). split; [now apply sd_get_In_pair|].
    apply in_map_iff. exists (t, l). split; [reflexivity | now apply nm_get_In_pair].
  - intros [[s' d] [Hm H]]. apply in_map_iff in H as [[t l'] [E Hd]]. cbn [fst snd] in E. inversion E; subst.
    exists d, t. split.
    + apply sd_In_pair_get; [apply ssorted_NoDup, W | assumption].
    + apply nm_In_pair_get; [|assumption]. pose proof (wf_dicts _ _ W) as F. rewrite Forall_forall in F. apply (F (s, d) Hm).
Qed.

Section InterCells.
Variable a : ann.
Hypothesis I : AInv 0 a.
Let W := i_wf _ _ I.
Let Wk : wf 0 (skeys (a_tracks a)) := conj (wf_sorted _ _ W) (wf_nonempty _ _ W).

Theorem crop_inter_label_cells S l k : sup_wf S ->
  (covers_cell (label_segments (a_tracks (crop_ann 0 a S Inter)) l) k <->
   covers_cell (label_segments (a_tracks a) l) k /\ covers_cell (sup_list S) k).
Proof.
  intro HS. destruct (crop_inter_entries 0 Z0le a S I) as [J P]. pose proof (i_wf _ _ J) as Wc.
  rewrite <- (norm_support_cells S k HS). split.
  - intros [s' [Is Hk]]. apply (label_segments_In 0 _ l s' Wc) in Is.
    apply (occ_entries 0 _ l s' Wc) in Is. apply (Permutation_in _ P) in Is.
    apply in_flat_map in Is as [[s r] [Hp Hin]]. cbn [fst snd] in Hin.
    apply in_map_iff in Hin as [[t l'] [E Hd]]. cbn [snd] in E. inversion E; subst. clear E.
    apply (co_iter_In 0 Z0le _ _ s r Wk (norm_support_wf 0 S)) in Hp as [Hs [Hr Hi]].
    unfold sand in Hk. pairs. split.
    + exists s. split; [|lia]. apply (label_segments_In 0 _ l s W). apply (occ_entries 0 _ l s W).
      unfold entries. apply in_flat_map. unfold tracks_at in Hd.
      destruct (sd_get s (a_tracks a)) as [d|] eqn:Ed; [|destruct Hd].
      exists (s, d). split; [now apply sd_get_In_pair|]. apply in_map_iff. exists (t, l). split; [reflexivity | assumption].
    + exists r. split; [assumption | lia].
  - intros [[s [Is Hks]] [r [Ir Hkr]]]. apply (label_segments_In 0 _ l s W) in Is.
    destruct Is as [d [t [Hd Ht]]]. exists (sand s r). split; [|unfold sand; pairs; lia].
    apply (label_segments_In 0 _ l _ Wc). apply (occ_entries 0 _ l _ Wc).
    apply (Permutation_in _ (Permutation_sym P)). apply in_flat_map. exists (s, r). split.
    + apply (co_iter_In 0 Z0le _ _ s r Wk (norm_support_wf 0 S)). split; [now apply (sd_get_Some_In s d)|]. split; [assumption|].
      unfold intersects. lia.
    + cbn [fst snd]. apply in_map_iff. exists (t, l). split; [reflexivity|]. unfold tracks_at. rewrite Hd. now apply nm_get_In_pair.
Qed.

Theorem extrude_inter_label_cells Rm l k : sup_wf Rm ->
  (covers_cell (label_segments (a_tracks (extrude_ann 0 a Rm Inter)) l) k <->
   covers_cell (label_segments (a_tracks a) l) k /\ ~ covers_cell (sup_list Rm) k).
Proof.
  intro HR. rewrite extrude_def. cbn [swap_mode]. fold (skeys (a_tracks a)). rewrite (tline_is_keys 0 _ W).
  rewrite crop_inter_label_cells by (cbn [sup_wf]; apply wf_tl_of). cbn [sup_list].
  rewrite (truncating_cells (skeys (a_tracks a)) Rm HR k).
  split; [tauto|]. intros [[s [Is Hk]] Hn]. split; [exists s; tauto|]. split; [|assumption].
  apply (member_in_extent _ Wk s k); [|assumption].
  apply (label_segments_In 0 _ l s W) in Is as [d [t [Hd _]]]. now apply (sd_get_Some_In s d).
Qed.

(* stored segments of an intersection-mode crop lie inside stored segments of the original *)
Lemma crop_inter_bounds S lo hi : (forall s, In s (skeys (a_tracks a)) -> lo <= st s /\ en s <= hi) ->
  forall s', In s' (skeys (a_tracks (crop_ann 0 a S Inter))) -> lo <= st s' /\ en s' <= hi.
Proof.
  intros Hb s' Hs'. destruct (crop_inter_entries 0 Z0le a S I) as [J P]. pose proof (i_wf _ _ J) as Wc.
  assert (exists l, In (s', l) (entries (a_tracks (crop_ann 0 a S Inter)))) as [l Hl].
  { unfold skeys in Hs'. apply in_map_iff in Hs' as [[s0 d] [E Hm]]. cbn [fst] in E. subst s0.
    pose proof (wf_dicts _ _ Wc) as F. rewrite Forall_forall in F. destruct (F _ Hm) as [Hne _]. cbn [snd] in Hne.
    destruct d as [|[t l] d]; [congruence|]. exists l. unfold entries. apply in_flat_map. exists (s', (t, l) :: d).
    split; [assumption | now left]. }
  apply (Permutation_in _ P) in Hl. apply in_flat_map in Hl as [[s r] [Hp Hin]]. cbn [fst snd] in Hin.
  apply in_map_iff in Hin as [tl_ [E _]]. inversion E; subst.
  apply (co_iter_In 0 Z0le _ _ s r Wk (norm_support_wf 0 S)) in Hp as [Hs [Hr Hi]].
  destruct (Hb s Hs). unfold intersects in Hi. unfold sand. pairs. lia.
Qed.

Lemma label_measure (b : ann) l lo n : AInv 0 b ->
  (forall s, In s (skeys (a_tracks b)) -> lo <= st s /\ en s <= lo + Z.of_nat n) ->
  snd (label_duration 0 b l) = count lo n (fun k => cellsb (label_segments (a_tracks b) l) k).
Proof.
  intros J Hb. rewrite (label_duration_is_measure b l lo n J).
  - unfold measure. apply count_ext. intros k _. unfold lab_tl.
    destruct (cellsb (tl_of 0 (label_segments (a_tracks b) l)) k) eqn:E1;
    destruct (cellsb (label_segments (a_tracks b) l) k) eqn:E2; try reflexivity.
    + apply (proj1 (cellsb_iff _ _)) in E1. apply (proj1 (tl_of_cells _ _)) in E1. apply (proj2 (cellsb_iff _ _)) in E1. congruence.
    + apply (proj1 (cellsb_iff _ _)) in E2. apply (proj2 (tl_of_cells _ _)) in E2. apply (proj2 (cellsb_iff _ _)) in E2. congruence.
  - intros s Hs. unfold lab_tl in Hs. apply tl_of_In in Hs as [Hs _].
    apply (label_segments_In 0 _ l s (i_wf _ _ J)) in Hs as [d [t [Hd _]]]. apply Hb. now apply (sd_get_Some_In s d).
Qed.

(* for every label: time in crop(S) + time in extrude(S) = time in the original *)
Theorem crop_extrude_label_time S l lo n : sup_wf S ->
  (forall s, In s (skeys (a_tracks a)) -> lo <= st s /\ en s <= lo + Z.of_nat n) ->
  snd (label_duration 0 (crop_ann 0 a S Inter) l) + snd (label_duration 0 (extrude_ann 0 a S Inter) l)
  = snd (label_duration 0 a l).
Proof.
  intros HS Hb.
  destruct (crop_inter_entries 0 Z0le a S I) as [Jc _].
  assert (Je : AInv 0 (extrude_ann 0 a S Inter)) by (rewrite extrude_def; apply (crop_inter_entries 0 Z0le a _ I)).
  rewrite (label_measure _ l lo n Jc) by (apply crop_inter_bounds; exact Hb).
  rewrite (label_measure _ l lo n Je) by (rewrite extrude_def; apply crop_inter_bounds; exact Hb).
  rewrite (label_measure a l lo n I Hb).
  rewrite <- count_disjoint_or.
  - apply count_ext. intros k _.
    pose proof (cellsb_iff (label_segments (a_tracks (crop_ann 0 a S Inter)) l) k) as Hc.
    pose proof (cellsb_iff (label_segments (a_tracks (extrude_ann 0 a S Inter)) l) k) as He.
    pose proof (cellsb_iff (label_segments (a_tracks a) l) k) as Ho.
    rewrite (crop_inter_label_cells S l k HS) in Hc. rewrite (extrude_inter_label_cells S l k HS) in He.
    destruct (covers_dec (sup_list S) k) as [D|D];
    destruct (cellsb (label_segments (a_tracks (crop_ann 0 a S Inter)) l) k);
    destruct (cellsb (label_segments (a_tracks (extrude_ann 0 a S Inter)) l) k);
    destruct (cellsb (label_segments (a_tracks a) l) k); cbn [orb]; try reflexivity; exfalso;
      destruct Hc as [Hc1 Hc2], He as [He1 He2], Ho as [Ho1 Ho2];
      try (specialize (Hc1 eq_refl)); try (specialize (He1 eq_refl)); try (specialize (Ho1 eq_refl));
      try (assert (false = true) as X by tauto; discriminate X); tauto.
  - intros k _.
    pose proof (cellsb_iff (label_segments (a_tracks (crop_ann 0 a S Inter)) l) k) as Hc.
    pose proof (cellsb_iff (label_segments (a_tracks (extrude_ann 0 a S Inter)) l) k) as He.
    rewrite (crop_inter_label_cells S l k HS) in Hc. rewrite (extrude_inter_label_cells S l k HS) in He.
    destruct (cellsb (label_segments (a_tracks (crop_ann 0 a S Inter)) l) k); [|reflexivity].
    destruct (cellsb (label_segments (a_tracks (extrude_ann 0 a S Inter)) l) k); [|reflexivity].
    exfalso. intuition.
Qed.
End InterCells.
