(* Sorted containers: lemmas about sl_add / sl_remove / set_* / zl_* . *)
From PV Require Import Model.Timeline Proofs.SegmentP.

Definition slt (a b : seg) : Prop := sltb a b = true.
Definition ssorted (l : list seg) : Prop := StronglySorted slt l.

Lemma slt_trans a b c : slt a b -> slt b c -> slt a c.
Proof. unfold slt. apply sltb_trans. Qed.
Lemma slt_irrefl a : ~ slt a a.
Proof. unfold slt. rewrite sltb_irrefl. discriminate. Qed.
Lemma slt_st a b : slt a b -> st a <= st b.
Proof. unfold slt. rewrite sltb_lex. lia. Qed.
Lemma sltb_false_cases a b : sltb a b = false -> a = b \/ slt b a.
Proof.
  intro H. destruct (sltb_trichotomy a b) as [[A _]|[[_ [A _]]|[_ [_ A]]]].
  - congruence.
  - left. now apply seqb_eq.
  - now right.
Qed.
Lemma seqb_refl a : seqb a a = true.
Proof. now apply seqb_eq. Qed.
Lemma seqb_false_neq a b : seqb a b = false <-> a <> b.
Proof.
  split.
  - intros H E. apply seqb_eq in E. congruence.
  - intros H. destruct (seqb a b) eqn:E; [apply seqb_eq in E; contradiction | reflexivity].
Qed.
Lemma seqb_sym a b : seqb a b = seqb b a.
Proof. destruct a, b; unfold seqb, st, en; simpl. lia. Qed.
Lemma slt_neq a b : slt a b -> a <> b.
Proof. intros H E. subst. now apply slt_irrefl in H. Qed.

Lemma ssorted_inv x l : ssorted (x :: l) -> ssorted l /\ Forall (slt x) l.
Proof. intro H. inversion H; subst. split; assumption. Qed.
Lemma ssorted_cons x l : ssorted l -> Forall (slt x) l -> ssorted (x :: l).
Proof. intros. now constructor. Qed.
Lemma ssorted_nil : ssorted [].
Proof. constructor. Qed.

Lemma ssorted_NoDup l : ssorted l -> NoDup l.
Proof.
  induction l as [|x l IH]; intro H; constructor.
  - apply ssorted_inv in H as [_ F]. intro I.
    rewrite Forall_forall in F. apply F in I. now apply slt_irrefl in I.
  - apply IH. now apply ssorted_inv in H.
Qed.

(* -- set_mem -- *)
Lemma set_mem_In x s : set_mem x s = true <-> In x s.
Proof.
  unfold set_mem. rewrite existsb_exists. split.
  - intros [y [I E]]. apply seqb_eq in E. now subst.
  - intro I. exists x. split; [assumption | apply seqb_refl].
Qed.
Lemma set_mem_false x s : set_mem x s = false <-> ~ In x s.
Proof.
  rewrite <- set_mem_In. destruct (set_mem x s); split; intro H;
    try congruence; try (intro; congruence); try (exfalso; now apply H).
Qed.

(* -- sl_add -- *)
Lemma sl_add_In x y l : In y (sl_add x l) <-> y = x \/ In y l.
Proof.
  induction l as [|z l IH]; simpl.
  - intuition.
  - destruct (sltb x z); simpl; [intuition|]. rewrite IH. intuition.
Qed.
Lemma Forall_sl_add (P : seg -> Prop) x l : P x -> Forall P l -> Forall P (sl_add x l).
Proof.
  intros Hx Hl. rewrite Forall_forall in *. intros y Hy.
  apply sl_add_In in Hy as [->|Hy]; auto.
Qed.
Lemma sl_add_sorted x l : ssorted l -> ~ In x l -> ssorted (sl_add x l).
Proof.
  induction l as [|z l IH]; simpl; intros Hs Hn.
  - apply ssorted_cons; [apply ssorted_nil | constructor].
  - destruct (sltb x z) eqn:E.
    + apply ssorted_cons; [assumption|].
      apply ssorted_inv in Hs as [_ F]. constructor; [exact E|].
      eapply Forall_impl; [|exact F]. intros a Ha. eapply slt_trans; [exact E | exact Ha].
    + apply ssorted_inv in Hs as [Hs F].
      apply ssorted_cons.
      * apply IH; [assumption | intro I; apply Hn; now right].
      * apply Forall_sl_add; [|assumption].
        apply sltb_false_cases in E as [->|E]; [exfalso; apply Hn; now left | exact E].
Qed.
Lemma sl_add_length x l : length (sl_add x l) = S (length l).
Proof. induction l as [|z l IH]; simpl; [reflexivity|]. destruct (sltb x z); simpl; lia. Qed.

(* -- sl_remove vs set_remove on duplicate-free sorted lists -- *)
Lemma set_remove_notin x l : ~ In x l -> set_remove x l = l.
Proof.
  induction l as [|z l IH]; simpl; intro H; [reflexivity|].
  destruct (seqb x z) eqn:E.
  - apply seqb_eq in E. subst. exfalso. apply H. now left.
  - simpl. f_equal. apply IH. intro I. apply H. now right.
Qed.
Lemma sl_remove_set_remove x l : NoDup l -> sl_remove x l = set_remove x l.
Proof.
  induction l as [|z l IH]; simpl; intro H; [reflexivity|].
  inversion H as [|? ? Hn Hd]; subst.
  destruct (seqb x z) eqn:E; simpl.
  - apply seqb_eq in E. subst. symmetry. now apply set_remove_notin.
  - f_equal. now apply IH.
Qed.
Lemma set_remove_In x y l : In y (set_remove x l) <-> In y l /\ y <> x.
Proof.
  unfold set_remove. rewrite filter_In. rewrite negb_true_iff, seqb_false_neq.
  intuition.
Qed.
Lemma Forall_filter {A} (P : A -> Prop) f l : Forall P l -> Forall P (filter f l).
Proof.
  intro H. rewrite Forall_forall in *. intros y Hy. apply filter_In in Hy as [Hy _]. auto.
Qed.
Lemma filter_sorted f l : ssorted l -> ssorted (filter f l).
Proof.
  induction l as [|z l IH]; simpl; intro H; [constructor|].
  apply ssorted_inv in H as [Hs F]. destruct (f z).
  - apply ssorted_cons; [now apply IH | now apply Forall_filter].
  - now apply IH.
Qed.
Lemma set_remove_sorted x l : ssorted l -> ssorted (set_remove x l).
Proof. apply filter_sorted. Qed.

(* -- set_add / set_union / set_of_list -- *)
Lemma set_add_In x y s : In y (set_add x s) <-> y = x \/ In y s.
Proof.
  unfold set_add. destruct (set_mem x s) eqn:E.
  - apply set_mem_In in E. split; [now right | intros [->|H]; assumption].
  - apply sl_add_In.
Qed.
Lemma set_add_sorted x s : ssorted s -> ssorted (set_add x s).
Proof.
  unfold set_add. destruct (set_mem x s) eqn:E; intro H; [assumption|].
  apply sl_add_sorted; [assumption | now apply set_mem_false].
Qed.
Lemma fold_set_add_In l : forall acc y,
  In y (fold_left (fun acc x => set_add x acc) l acc) <-> In y acc \/ In y l.
Proof.
  induction l as [|x l IH]; simpl; intros acc y; [intuition|].
  rewrite IH, set_add_In. intuition.
Qed.
Lemma fold_set_add_sorted l : forall acc,
  ssorted acc -> ssorted (fold_left (fun acc x => set_add x acc) l acc).
Proof.
  induction l as [|x l IH]; simpl; intros acc H; [assumption|].
  apply IH. now apply set_add_sorted.
Qed.
Lemma set_union_In a b y : In y (set_union a b) <-> In y a \/ In y b.
Proof. apply fold_set_add_In. Qed.
Lemma set_union_sorted a b : ssorted a -> ssorted (set_union a b).
Proof. apply fold_set_add_sorted. Qed.
Lemma set_of_list_In l y : In y (set_of_list l) <-> In y l.
Proof. unfold set_of_list. rewrite fold_set_add_In. simpl. intuition. Qed.
Lemma set_of_list_sorted l : ssorted (set_of_list l).
Proof. apply fold_set_add_sorted. constructor. Qed.

(* two strictly sorted lists with the same members are equal *)
Lemma ssorted_ext l1 : forall l2, ssorted l1 -> ssorted l2 ->
  (forall y, In y l1 <-> In y l2) -> l1 = l2.
Proof.
  induction l1 as [|x l1 IH]; intros [|y l2] H1 H2 E.
  - reflexivity.
  - exfalso. apply (proj2 (E y)). now left.
  - exfalso. apply (proj1 (E x)). now left.
  - apply ssorted_inv in H1 as [S1 F1]. apply ssorted_inv in H2 as [S2 F2].
    rewrite Forall_forall in F1, F2.
    assert (x = y) as ->.
    { destruct (proj1 (E x) (or_introl eq_refl)) as [->|Ix]; [reflexivity|].
      destruct (proj2 (E y) (or_introl eq_refl)) as [->|Iy]; [reflexivity|].
      exfalso. apply (slt_irrefl x). eapply slt_trans; [apply F1, Iy | apply F2, Ix]. }
    f_equal. apply IH; try assumption.
    intro z. split; intro I.
    + destruct (proj1 (E z) (or_intror I)) as [->|]; [|assumption].
      exfalso. apply (slt_irrefl z). now apply F1.
    + destruct (proj2 (E z) (or_intror I)) as [->|]; [|assumption].
      exfalso. apply (slt_irrefl z). now apply F2.
Qed.

(* SortedList(set) of a canonical set is the set itself *)
Lemma fold_sl_add_In l : forall acc y,
  In y (fold_left (fun acc x => sl_add x acc) l acc) <-> In y acc \/ In y l.
Proof.
  induction l as [|x l IH]; simpl; intros acc y; [intuition|].
  rewrite IH, sl_add_In. intuition.
Qed.
Lemma fold_sl_add_sorted l : forall acc,
  ssorted acc -> NoDup l -> (forall y, In y l -> ~ In y acc) ->
  ssorted (fold_left (fun acc x => sl_add x acc) l acc).
Proof.
  induction l as [|x l IH]; simpl; intros acc H N D; [assumption|].
  inversion N as [|? ? Nx Nl]; subst.
  apply IH; [| assumption |].
  - apply sl_add_sorted; [assumption|]. apply D. now left.
  - intros y Iy Ia. apply sl_add_In in Ia as [->|Ia]; [contradiction|].
    apply (D y); [now right | assumption].
Qed.
Lemma sl_of_canonical s : ssorted s -> sl_of s = s.
Proof.
  intro H. apply ssorted_ext; [| assumption |].
  - apply fold_sl_add_sorted; [constructor | now apply ssorted_NoDup | intros y _ []].
  - intro y. unfold sl_of. rewrite fold_sl_add_In. simpl. intuition.
Qed.

(* -- boundaries: zl_add / zl_remove / zl_of -- *)
Definition zsorted (l : list Z) : Prop := StronglySorted Z.le l.

Lemma zl_add_perm x l : Permutation (zl_add x l) (x :: l).
Proof.
  induction l as [|y l IH]; simpl; [reflexivity|].
  destruct (x <? y); [reflexivity|].
  rewrite IH. apply perm_swap.
Qed.
Lemma zl_add_sorted x l : zsorted l -> zsorted (zl_add x l).
Proof.
  induction l as [|y l IH]; simpl; intro H.
  - constructor; constructor.
  - inversion H as [|? ? Hs F]; subst. destruct (x <? y) eqn:E.
    + constructor; [assumption|]. constructor; [lia|].
      eapply Forall_impl; [|exact F]. intros; lia.
    + constructor; [now apply IH|].
      rewrite Forall_forall in *. intros z Hz.
      apply (Permutation_in _ (zl_add_perm x l)) in Hz as [<-|Hz]; [lia | now apply F].
Qed.
Lemma zl_remove_perm x l : In x l -> Permutation l (x :: zl_remove x l).
Proof.
  induction l as [|y l IH]; simpl; intro H; [contradiction|].
  destruct (x =? y) eqn:E.
  - assert (x = y) by lia. subst. reflexivity.
  - destruct H as [->|H]; [lia|]. rewrite (IH H) at 1. apply perm_swap.
Qed.
Lemma zl_remove_subset x l z : In z (zl_remove x l) -> In z l.
Proof.
  induction l as [|y l IH]; simpl; [tauto|].
  destruct (x =? y); simpl; intuition.
Qed.
Lemma zl_remove_sorted x l : zsorted l -> zsorted (zl_remove x l).
Proof.
  induction l as [|y l IH]; simpl; intro H; [constructor|].
  inversion H as [|? ? Hs F]; subst. destruct (x =? y); [assumption|].
  constructor; [now apply IH|].
  rewrite Forall_forall in *. intros z Hz. apply F. eapply zl_remove_subset; eassumption.
Qed.
Lemma zl_of_perm_gen l : forall acc,
  Permutation (fold_left (fun acc x => zl_add x acc) l acc) (l ++ acc).
Proof.
  induction l as [|x l IH]; simpl; intro acc; [reflexivity|].
  rewrite IH, zl_add_perm. symmetry. apply Permutation_middle.
Qed.
Lemma zl_of_perm l : Permutation (zl_of l) l.
Proof. unfold zl_of. rewrite zl_of_perm_gen. now rewrite app_nil_r. Qed.
Lemma zl_of_sorted_gen l : forall acc, zsorted acc ->
  zsorted (fold_left (fun acc x => zl_add x acc) l acc).
Proof.
  induction l as [|x l IH]; simpl; intros acc H; [assumption|].
  apply IH. now apply zl_add_sorted.
Qed.
Lemma zl_of_sorted l : zsorted (zl_of l).
Proof. apply zl_of_sorted_gen. constructor. Qed.

(* a sorted list is determined by its multiset *)
Lemma zsorted_perm_eq l1 : forall l2, zsorted l1 -> zsorted l2 -> Permutation l1 l2 -> l1 = l2.
Proof.
  induction l1 as [|x l1 IH]; intros l2 H1 H2 P.
  - apply Permutation_nil in P. now subst.
  - destruct l2 as [|y l2]; [symmetry in P; apply Permutation_nil in P; discriminate|].
    inversion H1 as [|? ? S1 F1]; subst. inversion H2 as [|? ? S2 F2]; subst.
    rewrite Forall_forall in F1, F2.
    assert (x = y).
    { assert (Ix : In x (y :: l2)) by (eapply Permutation_in; [exact P | now left]).
      assert (Iy : In y (x :: l1)) by (eapply Permutation_in; [symmetry; exact P | now left]).
      destruct Ix as [->|Ix]; [reflexivity|]. destruct Iy as [->|Iy]; [reflexivity|].
      apply F1 in Iy. apply F2 in Ix. lia. }
    subst. f_equal. apply IH; try assumption. eapply Permutation_cons_inv; exact P.
Qed.

Lemma boundaries_perm s1 s2 : Permutation s1 s2 -> Permutation (boundaries s1) (boundaries s2).
Proof.
  unfold boundaries. induction 1; simpl.
  - reflexivity.
  - now rewrite IHPermutation.
  - repeat rewrite Permutation_middle.
    change (Permutation ([st y; en y] ++ [st x; en x] ++ flat_map (fun x0 => [st x0; en x0]) l)
                        ([st x; en x] ++ [st y; en y] ++ flat_map (fun x0 => [st x0; en x0]) l)).
    rewrite !app_assoc. apply Permutation_app_tail. apply Permutation_app_comm.
  - etransitivity; eassumption.
Qed.
Lemma sl_add_perm x l : Permutation (sl_add x l) (x :: l).
Proof.
  induction l as [|y l IH]; simpl; [reflexivity|].
  destruct (sltb x y); [reflexivity|]. rewrite IH. apply perm_swap.
Qed.
Lemma set_remove_perm x l : NoDup l -> In x l -> Permutation l (x :: set_remove x l).
Proof.
  induction l as [|y l IH]; simpl; intros N I; [contradiction|].
  inversion N as [|? ? Ny Nl]; subst.
  destruct (seqb x y) eqn:E; simpl.
  - apply seqb_eq in E. subst. now rewrite set_remove_notin.
  - destruct I as [->|I]; [rewrite seqb_refl in E; discriminate|].
    rewrite (IH Nl I) at 1. apply perm_swap.
Qed.
