(* C02: the dirty-flag invariant of Annotation and freshness of every read. *)
From PV Require Import Model.Annotation Proofs.SegmentP Proofs.SortedP Proofs.TimelineInvP
  Proofs.SupportP Proofs.DictP.

(* ---- stable sort is a permutation ---- *)
Lemma ins_stable_perm {A} (leb : A -> A -> bool) x l : Permutation (ins_stable leb x l) (x :: l).
Proof.
  induction l as [|y l IH]; simpl; [reflexivity|]. destruct (leb y x); [|reflexivity].
  rewrite IH. apply perm_swap.
Qed.
Lemma sort_stable_perm {A} (leb : A -> A -> bool) l : Permutation (sort_stable leb l) l.
Proof.
  unfold sort_stable. enough (H : forall acc, Permutation (fold_left (fun acc x => ins_stable leb x acc) l acc) (l ++ acc))
    by (rewrite H; now rewrite app_nil_r).
  induction l as [|x l IH]; intro acc; simpl; [reflexivity|].
  rewrite IH, ins_stable_perm. symmetry. apply Permutation_middle.
Qed.
Lemma sort_stable_In {A} (leb : A -> A -> bool) l x : In x (sort_stable leb l) <-> In x l.
Proof. split; apply Permutation_in; [apply sort_stable_perm | symmetry; apply sort_stable_perm]. Qed.

Lemma seg_eq_dec (a b : seg) : {a = b} + {a <> b}.
Proof. destruct (seqb a b) eqn:E; [left; now apply seqb_eq | right; now apply seqb_false_neq]. Qed.

Lemma option_eq_dec (a b : option name) : {a = b} + {a <> b}.
Proof. destruct a as [x|], b as [y|]; try (right; discriminate); [|now left]. destruct (name_dec x y) as [->|H]; [now left | right; congruence]. Qed.

(* ---- well-formed track map ---- *)
Section Inv.
Variable eps : Z.
Hypothesis Heps : 0 <= eps.

Record WF (m : tmap) : Prop := {
  wf_sorted : ssorted (skeys m);
  wf_nonempty : Forall (fun s => nonempty eps s = true) (skeys m);
  wf_dicts : Forall (fun sd => snd sd <> [] /\ NoDup (keys (snd sd))) m }.

(* label `lab` occurs on segment s *)
Definition occ (m : tmap) (lab : name) (s : seg) : Prop :=
  exists d t, sd_get s m = Some d /\ nm_get t d = Some lab.

Lemma itertracks_In m s t l : WF m ->
  (In (s, t, l) (itertracks_m m) <-> exists d, sd_get s m = Some d /\ nm_get t d = Some l).
Proof.
  intro W. unfold itertracks_m. rewrite in_flat_map. split.
  - intros [[s' d] [I H]]. simpl in H. apply in_map_iff in H as [[t' l'] [E H]]. simpl in E. inversion E; subst.
    unfold sorted_tracks in H. apply sort_stable_In in H. exists d. split.
    + apply sd_In_pair_get; [apply ssorted_NoDup, W | assumption].
    + apply nm_In_pair_get; [|assumption]. pose proof (wf_dicts _ W) as F. rewrite Forall_forall in F. now apply (F (s, d)).
  - intros [d [Hs Ht]]. exists (s, d). split; [now apply sd_get_In_pair|]. simpl.
    apply in_map_iff. exists (t, l). split; [reflexivity|]. apply sort_stable_In. now apply nm_get_In_pair.
Qed.
Lemma label_segments_In m lab s : WF m -> (In s (label_segments m lab) <-> occ m lab s).
Proof.
  intro W. unfold label_segments, occ. rewrite in_map_iff. split.
  - intros [[[s' t] l] [E H]]. simpl in E. subst s'. apply filter_In in H as [H Hl]. simpl in Hl.
    apply name_eqb_eq in Hl. subst l. apply (itertracks_In m s t lab W) in H as [d [H1 H2]]. exists d, t. tauto.
  - intros [d [t [H1 H2]]]. exists (s, t, lab). split; [reflexivity|]. apply filter_In. split.
    + apply (itertracks_In m s t lab W). exists d. tauto.
    + simpl. apply name_eqb_refl.
Qed.
Definition lab_tl (m : tmap) (lab : name) : list seg := tl_of eps (label_segments m lab).
Lemma lab_tl_ext m m' lab : WF m -> WF m' -> (forall s, occ m lab s <-> occ m' lab s) ->
  lab_tl m lab = lab_tl m' lab.
Proof.
  intros W W' H. unfold lab_tl. apply ssorted_ext; [apply tl_of_sorted | apply tl_of_sorted|].
  intro s. rewrite !tl_of_In, (label_segments_In m lab s W), (label_segments_In m' lab s W'), H. reflexivity.
Qed.
Lemma label_segments_nil m lab : WF m -> (label_segments m lab = [] <-> forall s, ~ occ m lab s).
Proof.
  intro W. split.
  - intros E s Ho. apply (label_segments_In m lab s W) in Ho. rewrite E in Ho. contradiction.
  - intro H. destruct (label_segments m lab) as [|s r] eqn:E; [reflexivity|]. exfalso.
    apply (H s). apply (label_segments_In m lab s W). rewrite E. now left.
Qed.
Definition occurs (m : tmap) (lab : name) : Prop := exists s, occ m lab s.
Lemma occurs_dec m lab : WF m -> occurs m lab \/ ~ occurs m lab.
Proof.
  intro W. destruct (label_segments m lab) as [|s r] eqn:E.
  - right. intros [s Ho]. now apply (label_segments_nil m lab W) in Ho.
  - left. exists s. apply (label_segments_In m lab s W). rewrite E. now left.
Qed.

(* ---- the invariant ---- *)
Definition is_dirty (a : ann) (lab : name) : Prop := nm_get lab (a_dirty a) = Some true.
Definition good_ctl (a : ann) (lab : name) (c : ctl) : Prop :=
  c_segs c = lab_tl (a_tracks a) lab /\ c_uri c = a_uri a.

Record AInv (a : ann) : Prop := {
  i_wf : WF (a_tracks a);
  i_lkeys : NoDup (keys (a_labels a));
  i_dkeys : NoDup (keys (a_dirty a));
  (* a cached, non-dirty label timeline is right, carries the current uri, and its label occurs *)
  i_clean : forall lab c, nm_get lab (a_labels a) = Some (Some c) -> ~ is_dirty a lab ->
            good_ctl a lab c /\ occurs (a_tracks a) lab;
  (* an uncached entry is always flagged *)
  i_none : forall lab, nm_get lab (a_labels a) = Some None -> is_dirty a lab;
  (* every label in use is flagged or cached *)
  i_occ : forall lab, occurs (a_tracks a) lab ->
          is_dirty a lab \/ exists c, nm_get lab (a_labels a) = Some (Some c);
  (* the cached timeline of segments *)
  i_tline : a_tdirty a = false ->
            exists c, a_tline a = Some c /\ c_segs c = tl_of eps (skeys (a_tracks a)) /\ c_uri c = a_uri a }.

Lemma AInv_empty u md : AInv (Annotation.a_empty u md).
Proof.
  constructor.
  - constructor; simpl; constructor.
  - constructor.
  - constructor.
  - intros lab c H. discriminate.
  - intros lab H. discriminate.
  - intros lab [s [d [t [H _]]]]. discriminate.
  - intro H. discriminate.
Qed.

(* ---- _updateLabels ---- *)
Definition ul_step (a : ann) (a' : ann) (lab : name) : ann :=
  match label_segments (a_tracks a) lab with
  | [] => with_labels a' (nm_del lab (a_labels a')) (nm_del lab (a_dirty a'))
  | segs => with_labels a' (nm_set lab (Some (mkCtl (tl_of eps segs) (a_uri a))) (a_labels a'))
                        (nm_set lab false (a_dirty a'))
  end.
Lemma update_labels_fold a :
  update_labels eps a = fold_left (ul_step a) (map fst (filter (fun kv => snd kv) (a_dirty a))) a.
Proof. reflexivity. Qed.

Definition same_core (r a' : ann) : Prop :=
  a_tracks r = a_tracks a' /\ a_uri r = a_uri a' /\ a_modality r = a_modality a' /\
  a_tline r = a_tline a' /\ a_tdirty r = a_tdirty a'.

Lemma ul_fold a upd : forall a', NoDup upd -> NoDup (keys (a_labels a')) -> NoDup (keys (a_dirty a')) ->
  let r := fold_left (ul_step a) upd a' in
  same_core r a' /\ NoDup (keys (a_labels r)) /\ NoDup (keys (a_dirty r)) /\
  (forall lab, ~ In lab upd -> nm_get lab (a_labels r) = nm_get lab (a_labels a') /\
                               nm_get lab (a_dirty r) = nm_get lab (a_dirty a')) /\
  (forall lab, In lab upd ->
     (label_segments (a_tracks a) lab <> [] ->
        nm_get lab (a_labels r) = Some (Some (mkCtl (lab_tl (a_tracks a) lab) (a_uri a))) /\
        nm_get lab (a_dirty r) = Some false) /\
     (label_segments (a_tracks a) lab = [] ->
        nm_get lab (a_labels r) = None /\ nm_get lab (a_dirty r) = None)).
Proof.
  induction upd as [|x upd IH]; intros a' Nu Nl Nd; cbn [fold_left].
  - split; [repeat split|]. split; [assumption|]. split; [assumption|]. split.
    + intros lab _. split; reflexivity.
    + intros lab [].
  - inversion Nu as [|? ? Hx Nu']; subst.
    set (a1 := ul_step a a' x).
    assert (C1 : same_core a1 a') by (unfold a1, ul_step; destruct (label_segments (a_tracks a) x); repeat split).
    assert (Nl1 : NoDup (keys (a_labels a1))).
    { unfold a1, ul_step. destruct (label_segments (a_tracks a) x); simpl; [now apply nm_del_NoDup | now apply nm_set_NoDup]. }
    assert (Nd1 : NoDup (keys (a_dirty a1))).
    { unfold a1, ul_step. destruct (label_segments (a_tracks a) x); simpl; [now apply nm_del_NoDup | now apply nm_set_NoDup]. }
    destruct (IH a1 Nu' Nl1 Nd1) as [C [Nl' [Nd' [Hout Hin]]]]. cbv zeta in *.
    assert (Hother : forall lab, lab <> x -> nm_get lab (a_labels a1) = nm_get lab (a_labels a') /\
                                            nm_get lab (a_dirty a1) = nm_get lab (a_dirty a')).
    { intros lab Hn. unfold a1, ul_step. destruct (label_segments (a_tracks a) x); simpl.
      - split; now apply nm_get_del_other.
      - split; now apply nm_get_set_other. }
    split; [|split; [exact Nl'|split; [exact Nd'|split]]].
    + destruct C as [c1 [c2 [c3 [c4 c5]]]]. destruct C1 as [d1 [d2 [d3 [d4 d5]]]]. repeat split; congruence.
    + intros lab Hn. destruct (Hout lab) as [o1 o2]; [intro I; apply Hn; now right|].
      destruct (Hother lab) as [p1 p2]; [intros ->; apply Hn; now left|]. split; congruence.
    + intros lab [<-|I]; [|now apply Hin].
      destruct (Hout x Hx) as [o1 o2]. rewrite o1, o2. unfold a1, ul_step, lab_tl.
      destruct (label_segments (a_tracks a) x) as [|s0 rest] eqn:E; simpl.
      * split; [intro H; contradiction | intros _; split; now apply nm_get_del_same].
      * split; [intros _; split; apply nm_get_set_same | intro H; discriminate].
Qed.

Lemma NoDup_filter_keys {V} (f : name * V -> bool) (m : list (name * V)) :
  NoDup (keys m) -> NoDup (map fst (filter f m)).
Proof.
  unfold keys. induction m as [|[k v] m IH]; simpl; intro N; [constructor|].
  inversion N as [|? ? Hn Hd]; subst. destruct (f (k, v)); simpl; [|now apply IH].
  constructor; [|now apply IH]. intro I. apply Hn. apply in_map_iff in I as [[k' v'] [E I]]. simpl in E. subst.
  apply filter_In in I as [I _]. apply in_map_iff. exists (k, v'). tauto.
Qed.
Lemma upd_In (m : list (name * bool)) lab : NoDup (keys m) ->
  (In lab (map fst (filter (fun kv => snd kv) m)) <-> nm_get lab m = Some true).
Proof.
  intro N. rewrite in_map_iff. split.
  - intros [[k v] [E I]]. simpl in E. subst. apply filter_In in I as [I Hv]. simpl in Hv. subst.
    now apply nm_In_pair_get.
  - intro H. exists (lab, true). split; [reflexivity|]. apply filter_In. split; [now apply nm_get_In_pair | reflexivity].
Qed.

Definition no_dirty (a : ann) : Prop := forall lab, ~ is_dirty a lab.

Theorem update_labels_inv a : AInv a ->
  AInv (update_labels eps a) /\ no_dirty (update_labels eps a) /\ same_core (update_labels eps a) a.
Proof.
  intro I. rewrite update_labels_fold.
  set (upd := map fst (filter (fun kv => snd kv) (a_dirty a))).
  assert (Nu : NoDup upd) by (apply NoDup_filter_keys, I).
  destruct (ul_fold a upd a Nu (i_lkeys _ I) (i_dkeys _ I)) as [C [Nl [Nd [Hout Hin]]]]. cbv zeta in *.
  set (r := fold_left (ul_step a) upd a) in *.
  destruct C as [c1 [c2 [c3 [c4 c5]]]].
  assert (Hupd : forall lab, In lab upd <-> is_dirty a lab) by (intro lab; apply upd_In, I).
  pose proof (i_wf _ I) as W.
  assert (ND : no_dirty r).
  { intros lab Hd. unfold is_dirty in Hd. destruct (in_dec name_dec lab upd) as [Iu|Nu'].
    - destruct (Hin lab Iu) as [H1 H2]. destruct (label_segments (a_tracks a) lab) eqn:E.
      + destruct (H2 eq_refl) as [_ H]. congruence.
      + destruct H1 as [_ H]; [discriminate|]. congruence.
    - destruct (Hout lab Nu') as [_ H]. rewrite H in Hd. apply Nu', Hupd, Hd. }
  split; [|split; [exact ND | repeat split; assumption]].
  constructor.
  - now rewrite c1.
  - exact Nl.
  - exact Nd.
  - intros lab c Hc _. rewrite c1. unfold good_ctl. rewrite c1, c2.
    destruct (in_dec name_dec lab upd) as [Iu|Nu'].
    + destruct (Hin lab Iu) as [H1 H2]. destruct (label_segments (a_tracks a) lab) eqn:E.
      * destruct (H2 eq_refl) as [H _]. congruence.
      * destruct H1 as [H _]; [discriminate|]. rewrite H in Hc. inversion Hc; subst. simpl.
        split; [split; reflexivity|]. exists s. apply (label_segments_In (a_tracks a) lab s W). rewrite E. now left.
    + destruct (Hout lab Nu') as [H _]. rewrite H in Hc.
      apply (i_clean _ I lab c Hc). intro Hd. apply Nu', Hupd, Hd.
  - intros lab Hn. exfalso. destruct (in_dec name_dec lab upd) as [Iu|Nu'].
    + destruct (Hin lab Iu) as [H1 H2]. destruct (label_segments (a_tracks a) lab) eqn:E.
      * destruct (H2 eq_refl) as [H _]. congruence.
      * destruct H1 as [H _]; [discriminate|]. congruence.
    + destruct (Hout lab Nu') as [H _]. rewrite H in Hn. apply Nu', Hupd. now apply (i_none _ I).
  - intros lab Ho. rewrite c1 in Ho. right. destruct (in_dec name_dec lab upd) as [Iu|Nu'].
    + destruct (Hin lab Iu) as [H1 _]. destruct H1 as [H _]; [|eexists; exact H].
      destruct Ho as [s Hs]. apply (label_segments_In (a_tracks a) lab s W) in Hs. intro E. rewrite E in Hs. contradiction.
    + destruct (Hout lab Nu') as [H _]. rewrite H.
      destruct (i_occ _ I lab Ho) as [Hd|Hc]; [exfalso; apply Nu', Hupd, Hd | exact Hc].
  - rewrite c5, c4, c1, c2. apply I.
Qed.

(* ---- labels() ---- *)
Lemma existsb_dirty_false a : existsb (fun kv => snd kv) (a_dirty a) = false -> no_dirty a.
Proof.
  intros H lab Hd. unfold is_dirty in Hd. apply nm_get_In_pair in Hd.
  assert (existsb (fun kv : name * bool => snd kv) (a_dirty a) = true) by (apply existsb_exists; exists (lab, true); tauto).
  congruence.
Qed.
Definition refreshed (a : ann) : ann :=
  if existsb (fun kv => snd kv) (a_dirty a) then update_labels eps a else a.
Lemma refreshed_inv a : AInv a -> AInv (refreshed a) /\ no_dirty (refreshed a) /\ same_core (refreshed a) a.
Proof.
  intro I. unfold refreshed. destruct (existsb _ (a_dirty a)) eqn:E.
  - now apply update_labels_inv.
  - split; [assumption|]. split; [now apply existsb_dirty_false | repeat split].
Qed.
Lemma clean_keys a : AInv a -> no_dirty a -> forall lab, In lab (keys (a_labels a)) <-> occurs (a_tracks a) lab.
Proof.
  intros I ND lab. split.
  - intro H. destruct (nm_get lab (a_labels a)) as [[c|]|] eqn:E.
    + now apply (i_clean _ I lab c E (ND lab)).
    + exfalso. apply (ND lab). now apply (i_none _ I).
    + apply nm_get_None in E. contradiction.
  - intro Ho. destruct (i_occ _ I lab Ho) as [Hd|[c Hc]]; [exfalso; now apply (ND lab) | now apply nm_get_Some_In in Hc].
Qed.

Theorem labels_spec a : AInv a ->
  let '(a', L) := labels eps a in
  AInv a' /\ no_dirty a' /\ same_core a' a /\
  (forall lab, In lab L <-> occurs (a_tracks a) lab) /\ NoDup L.
Proof.
  intro I. unfold labels. fold (refreshed a). destruct (refreshed_inv a I) as [I' [ND C]].
  split; [exact I'|]. split; [exact ND|]. split; [exact C|]. destruct C as [c1 _]. split.
  - intro lab. rewrite sort_stable_In. fold (keys (a_labels (refreshed a))). rewrite (clean_keys _ I' ND), c1. reflexivity.
  - eapply Permutation_NoDup; [symmetry; apply sort_stable_perm | apply I'].
Qed.

(* ---- label_timeline / get_timeline ---- *)
Lemma tl_of_nil' : tl_of eps [] = [].
Proof. reflexivity. Qed.

Theorem label_timeline_spec a lab : AInv a ->
  let '(a', c) := label_timeline eps a lab in
  AInv a' /\ same_core a' a /\ c_segs c = lab_tl (a_tracks a) lab /\ c_uri c = a_uri a.
Proof.
  intro I. unfold label_timeline. pose proof (labels_spec a I) as HL.
  destruct (labels eps a) as [a1 L]. destruct HL as [I1 [ND [C [HinL _]]]].
  pose proof C as [c1 [c2 _]]. pose proof (i_wf _ I) as W.
  destruct (name_in lab L) eqn:E; cbn [negb].
  - assert (Hd : nm_get lab (a_dirty a1) <> Some true) by apply ND.
    replace (match nm_get lab (a_dirty a1) with Some true => update_labels eps a1 | _ => a1 end) with a1
      by (destruct (nm_get lab (a_dirty a1)) as [[|]|]; try reflexivity; congruence).
    assert (Ho : occurs (a_tracks a1) lab).
    { rewrite c1. apply HinL. unfold name_in in E. apply existsb_exists in E as [x [Ix Ex]]. apply name_eqb_eq in Ex. now subst. }
    destruct (i_occ _ I1 lab Ho) as [Hdd|[c Hc]]; [exfalso; now apply (ND lab)|]. rewrite Hc.
    destruct (i_clean _ I1 lab c Hc (ND lab)) as [[G1 G2] _].
    split; [exact I1|]. split; [exact C|]. rewrite G1, G2, c1, c2. split; reflexivity.
  - split; [exact I1|]. split; [exact C|]. cbn [c_segs c_uri]. split; [|exact c2].
    unfold lab_tl. assert (En : label_segments (a_tracks a) lab = []).
    { apply (label_segments_nil _ lab W). intros s Ho.
      assert (In lab L) by (apply HinL; now exists s).
      assert (name_in lab L = true) by (unfold name_in; apply existsb_exists; exists lab; split; [assumption | apply name_eqb_refl]).
      congruence. }
    now rewrite En.
Qed.

Lemma with_tline_inv a c : AInv a -> c_segs c = tl_of eps (skeys (a_tracks a)) -> c_uri c = a_uri a ->
  AInv (with_tline a (Some c) false).
Proof.
  intros I H1 H2. constructor; simpl; try apply I.
  intros _. exists c. repeat split; assumption.
Qed.
Theorem get_timeline_spec a : AInv a ->
  let '(a', c) := get_timeline eps a in
  AInv a' /\ a_tracks a' = a_tracks a /\ a_uri a' = a_uri a /\ a_modality a' = a_modality a /\
  a_labels a' = a_labels a /\ a_dirty a' = a_dirty a /\
  c_segs c = tl_of eps (skeys (a_tracks a)) /\ c_uri c = a_uri a.
Proof.
  intro I. unfold get_timeline. destruct (a_tdirty a) eqn:E.
  - split; [apply with_tline_inv; [assumption | reflexivity | reflexivity]|]. repeat split.
  - destruct (i_tline _ I E) as [c [Hc [H1 H2]]]. rewrite Hc. split; [exact I|]. repeat split; assumption.
Qed.

(* ---- __setitem__ ---- *)
Lemma sd_get_Some_In s d m : sd_get s m = Some d -> In s (skeys m).
Proof. intro H. apply sd_get_In_pair in H. unfold skeys. apply in_map_iff. exists (s, d). tauto. Qed.
Lemma sd_set_keys_same s d d' m : ssorted (skeys m) -> sd_get s m = Some d -> skeys (sd_set s d' m) = skeys m.
Proof.
  unfold skeys. induction m as [|[s0 d0] m IH]; simpl; intros Hs H; [discriminate|].
  destruct (seqb s s0) eqn:E; simpl; [reflexivity|].
  apply ssorted_inv in Hs as [Hs F]. destruct (sltb s s0) eqn:L; simpl.
  - exfalso. apply sd_get_Some_In in H. rewrite Forall_forall in F. specialize (F s H).
    apply (slt_irrefl s). eapply slt_trans; [exact L | exact F].
  - f_equal. now apply IH.
Qed.

Definition setitem_tracks (m : tmap) (s : seg) (t l : name) : tmap :=
  sd_set s (d_set t l (match sd_get s m with Some d => d | None => [] end)) m.

Lemma WF_setitem m s t l : WF m -> nonempty eps s = true -> WF (setitem_tracks m s t l).
Proof.
  intros W Hs. unfold setitem_tracks. constructor.
  - apply sd_set_sorted, W.
  - rewrite Forall_forall. intros x Hx. apply sd_set_keys_In in Hx as [->|Hx]; [assumption|].
    pose proof (wf_nonempty _ W) as F. rewrite Forall_forall in F. now apply F.
  - rewrite Forall_forall. intros [x dx] Hx. simpl.
    assert (Hg : sd_get x (sd_set s (d_set t l (match sd_get s m with Some d => d | None => [] end)) m) = Some dx).
    { apply sd_In_pair_get; [|assumption]. apply ssorted_NoDup, sd_set_sorted, W. }
    destruct (seg_eq_dec x s) as [->|Hn].
    + rewrite sd_get_set_same in Hg. inversion Hg; subst. rewrite d_set_nm. split.
      * destruct (match sd_get s m with Some d => d | None => [] end) as [|[k v] r]; simpl; [discriminate|].
        destruct (name_eqb t k); discriminate.
      * apply nm_set_NoDup. destruct (sd_get s m) as [d|] eqn:Ed; [|constructor].
        pose proof (wf_dicts _ W) as F. rewrite Forall_forall in F. apply (F (s, d)). now apply sd_get_In_pair.
    + rewrite sd_get_set_other in Hg by assumption.
      pose proof (wf_dicts _ W) as F. rewrite Forall_forall in F. apply (F (x, dx)). now apply sd_get_In_pair.
Qed.

Definition old_label (m : tmap) (s : seg) (t : name) : option name :=
  match sd_get s m with Some d => nm_get t d | None => None end.

Lemma occ_setitem m s t l lab s' : lab <> l -> old_label m s t <> Some lab ->
  (occ (setitem_tracks m s t l) lab s' <-> occ m lab s').
Proof.
  intros Hl Ho. unfold occ, setitem_tracks, old_label in *.
  destruct (seg_eq_dec s' s) as [->|Hn].
  - rewrite sd_get_set_same. split.
    + intros [d [t' [E H]]]. inversion E; subst. rewrite d_set_nm in H.
      destruct (name_dec t' t) as [->|Ht]; [rewrite nm_get_set_same in H; congruence|].
      rewrite nm_get_set_other in H by assumption.
      destruct (sd_get s m) as [d0|]; [exists d0, t'; tauto | discriminate].
    + intros [d [t' [E H]]]. rewrite E in Ho. eexists. exists t'. split; [reflexivity|].
      rewrite d_set_nm. destruct (name_dec t' t) as [->|Ht]; [congruence|]. rewrite E. now rewrite nm_get_set_other.
  - rewrite sd_get_set_other by assumption. reflexivity.
Qed.
Lemma occ_setitem_new m s t l : occ (setitem_tracks m s t l) l s.
Proof.
  unfold occ, setitem_tracks. rewrite sd_get_set_same. eexists. exists t. split; [reflexivity|].
  rewrite d_set_nm. apply nm_get_set_same.
Qed.

Lemma setitem_unfold a s t l : nonempty eps s = true ->
  setitem eps a s t l =
  mkAnn (a_uri a) (a_modality a) (setitem_tracks (a_tracks a) s t l) (a_labels a)
        (nm_set l true (match old_label (a_tracks a) s t with Some old => nm_set old true (a_dirty a) | None => a_dirty a end))
        (a_tline a) (a_tdirty a || match sd_get s (a_tracks a) with Some _ => false | None => true end).
Proof.
  intro H. unfold setitem, setitem_tracks, old_label. rewrite H. cbn [negb].
  destruct (sd_get s (a_tracks a)) as [d|]; cbn; rewrite ?d_get_nm; reflexivity.
Qed.

Theorem AInv_setitem a s t l : AInv a -> AInv (setitem eps a s t l).
Proof.
  intro I. destruct (nonempty eps s) eqn:Hs; [|unfold setitem; rewrite Hs; exact I].
  rewrite (setitem_unfold a s t l Hs). pose proof (i_wf _ I) as W.
  set (m' := setitem_tracks (a_tracks a) s t l).
  set (dirty0 := match old_label (a_tracks a) s t with Some old => nm_set old true (a_dirty a) | None => a_dirty a end).
  assert (W' : WF m') by now apply WF_setitem.
  assert (Nd0 : NoDup (keys dirty0)) by (unfold dirty0; destruct (old_label _ s t); [apply nm_set_NoDup|]; apply I).
  (* flags: l and the old label are set, every other flag is unchanged *)
  assert (Hflag : forall lab, lab <> l -> old_label (a_tracks a) s t <> Some lab ->
                   nm_get lab (nm_set l true dirty0) = nm_get lab (a_dirty a)).
  { intros lab H1 H2. rewrite nm_get_set_other by assumption. unfold dirty0.
    destruct (old_label (a_tracks a) s t) as [o|]; [|reflexivity]. apply nm_get_set_other. congruence. }
  assert (Hset : forall lab, lab = l \/ old_label (a_tracks a) s t = Some lab ->
                   nm_get lab (nm_set l true dirty0) = Some true).
  { intros lab [->|H]; [apply nm_get_set_same|]. destruct (name_dec lab l) as [->|Hn]; [apply nm_get_set_same|].
    rewrite nm_get_set_other by assumption. unfold dirty0. rewrite H. apply nm_get_set_same. }
  assert (Hkeep : forall lab, is_dirty a lab -> nm_get lab (nm_set l true dirty0) = Some true).
  { intros lab Hd. destruct (name_dec lab l) as [->|H1]; [apply nm_get_set_same|].
    destruct (option_eq_dec (old_label (a_tracks a) s t) (Some lab)) as [H2|H2]; [now apply Hset; right|].
    rewrite Hflag by assumption. exact Hd. }
  constructor; cbn [a_tracks a_labels a_dirty a_uri a_tline a_tdirty]; fold m'.
  - exact W'.
  - apply I.
  - now apply nm_set_NoDup.
  - intros lab c Hc Hnd. unfold is_dirty in Hnd. cbn [a_dirty] in Hnd.
    assert (H1 : lab <> l) by (intros ->; apply Hnd, Hset; now left).
    assert (H2 : old_label (a_tracks a) s t <> Some lab) by (intro H; apply Hnd, Hset; now right).
    rewrite (Hflag lab H1 H2) in Hnd. destruct (i_clean _ I lab c Hc Hnd) as [[G1 G2] [s0 Ho]].
    split.
    + split; [|exact G2]. cbn [a_tracks]. rewrite G1. apply lab_tl_ext; try assumption.
      intro s'. symmetry. now apply occ_setitem.
    + exists s0. cbn [a_tracks]. now apply occ_setitem.
  - intros lab Hn. apply Hkeep. now apply (i_none _ I).
  - intros lab [s0 Ho]. cbn [a_tracks] in Ho. unfold is_dirty. cbn [a_dirty a_labels].
    destruct (name_dec lab l) as [->|H1]; [left; apply nm_get_set_same|].
    destruct (option_eq_dec (old_label (a_tracks a) s t) (Some lab)) as [H2|H2]; [left; apply Hset; now right|].
    apply (occ_setitem _ s t l lab s0 H1 H2) in Ho.
    destruct (i_occ _ I lab (ex_intro _ s0 Ho)) as [Hd|Hc]; [left; now apply Hkeep | right; exact Hc].
  - intro Htd. apply orb_false_iff in Htd as [Htd Hfresh].
    destruct (sd_get s (a_tracks a)) as [d|] eqn:Ed; [|discriminate].
    destruct (i_tline _ I Htd) as [c [Hc [G1 G2]]]. exists c. repeat split; try assumption.
    unfold m', setitem_tracks. rewrite Ed. rewrite (sd_set_keys_same s d _ _ (wf_sorted _ W) Ed). exact G1.
Qed.

(* update(other): a sequence of insertions *)
Theorem AInv_update_with recs : forall a, AInv a -> AInv (update_with eps a recs).
Proof.
  unfold update_with. induction recs as [|x recs IH]; intros a I; simpl; [exact I|].
  apply IH. now apply AInv_setitem.
Qed.

(* flags set over a list of labels *)
Lemma fold_flag_get {A} (f : A -> name) (l : list A) : forall dm lab,
  nm_get lab (fold_left (fun dm x => nm_set (f x) true dm) l dm) =
    if existsb (fun x => name_eqb lab (f x)) l then Some true else nm_get lab dm.
Proof.
  induction l as [|x l IH]; intros dm lab; simpl; [reflexivity|]. rewrite IH.
  destruct (existsb (fun x0 => name_eqb lab (f x0)) l); [now rewrite orb_true_r|]. rewrite orb_false_r.
  destruct (name_eqb lab (f x)) eqn:E.
  - apply name_eqb_eq in E. subst. apply nm_get_set_same.
  - apply name_eqb_neq in E. now apply nm_get_set_other.
Qed.
Lemma fold_flag_NoDup {A} (f : A -> name) (l : list A) : forall dm,
  NoDup (keys dm) -> NoDup (keys (fold_left (fun dm x => nm_set (f x) true dm) l dm)).
Proof. induction l as [|x l IH]; intros dm H; simpl; [exact H|]. apply IH. now apply nm_set_NoDup. Qed.

(* ---- del annotation[segment] ---- *)
Lemma WF_del m s : WF m -> WF (sd_del s m).
Proof.
  intro W. pose proof (ssorted_NoDup _ (wf_sorted _ W)) as N. constructor.
  - apply sd_del_sorted, W.
  - rewrite Forall_forall. intros x Hx. apply (sd_del_keys_In s m x N) in Hx as [_ Hx].
    pose proof (wf_nonempty _ W) as F. rewrite Forall_forall in F. now apply F.
  - rewrite Forall_forall. intros [x dx] Hx.
    assert (Hg : sd_get x (sd_del s m) = Some dx) by (apply sd_In_pair_get; [apply ssorted_NoDup, sd_del_sorted, W | assumption]).
    destruct (seg_eq_dec x s) as [->|Hn]; [rewrite sd_get_del_same in Hg by assumption; discriminate|].
    rewrite sd_get_del_other in Hg by assumption.
    pose proof (wf_dicts _ W) as F. rewrite Forall_forall in F. apply (F (x, dx)). now apply sd_get_In_pair.
Qed.
Lemma occ_del m s lab s' : WF m ->
  (occ (sd_del s m) lab s' <-> occ m lab s' /\ s' <> s).
Proof.
  intro W. pose proof (ssorted_NoDup _ (wf_sorted _ W)) as N. unfold occ.
  destruct (seg_eq_dec s' s) as [->|Hn].
  - rewrite sd_get_del_same by assumption. split; [intros [d [t [H _]]]; discriminate | tauto].
  - rewrite sd_get_del_other by assumption. tauto.
Qed.

Theorem AInv_delitem_seg a s a' : AInv a -> delitem_seg a s = Some a' -> AInv a'.
Proof.
  intros I H. unfold delitem_seg in H. destruct (sd_get s (a_tracks a)) as [d|] eqn:Ed; [|discriminate].
  inversion H; subst; clear H. pose proof (i_wf _ I) as W.
  assert (Hval : forall lab, existsb (fun x : name * name => name_eqb lab (snd x)) d = false ->
                  forall s', occ (sd_del s (a_tracks a)) lab s' <-> occ (a_tracks a) lab s').
  { intros lab Hv s'. rewrite (occ_del _ s lab s' W). split; [tauto|]. intro Ho. split; [assumption|].
    intros ->. destruct Ho as [d' [t [E1 E2]]]. rewrite Ed in E1. inversion E1; subst.
    apply nm_get_In_pair in E2.
    assert (existsb (fun x : name * name => name_eqb lab (snd x)) d' = true)
      by (apply existsb_exists; exists (t, lab); split; [assumption | apply name_eqb_refl]). congruence. }
  constructor; cbn [a_tracks a_labels a_dirty a_uri a_tline a_tdirty].
  - now apply WF_del.
  - apply I.
  - apply fold_flag_NoDup, I.
  - intros lab c Hc Hnd. unfold is_dirty in Hnd. cbn [a_dirty] in Hnd. rewrite fold_flag_get in Hnd.
    destruct (existsb (fun x : name * name => name_eqb lab (snd x)) d) eqn:Ev; [exfalso; now apply Hnd|].
    destruct (i_clean _ I lab c Hc Hnd) as [[G1 G2] [s0 Ho]]. split.
    + split; [|exact G2]. cbn [a_tracks]. rewrite G1. apply lab_tl_ext; try assumption; [now apply WF_del|].
      intro s'. symmetry. now apply Hval.
    + exists s0. cbn [a_tracks]. now apply Hval.
  - intros lab Hn. unfold is_dirty. cbn [a_dirty]. rewrite fold_flag_get.
    destruct (existsb _ d); [reflexivity | now apply (i_none _ I)].
  - intros lab [s0 Ho]. cbn [a_tracks] in Ho. unfold is_dirty. cbn [a_dirty a_labels]. rewrite fold_flag_get.
    destruct (existsb (fun x : name * name => name_eqb lab (snd x)) d) eqn:Ev; [now left|].
    apply (Hval lab Ev) in Ho. exact (i_occ _ I lab (ex_intro _ s0 Ho)).
  - discriminate.
Qed.

(* ---- del annotation[segment, track] ---- *)
Lemma occ_deltrack m s t d l lab s' : WF m -> sd_get s m = Some d -> nm_get t d = Some l -> lab <> l ->
  let m' := match nm_del t d with [] => sd_del s m | d' => sd_set s d' m end in
  (occ m' lab s' <-> occ m lab s').
Proof.
  intros W Ed Et Hl. cbv zeta.
  assert (Nd : NoDup (keys d)).
  { pose proof (wf_dicts _ W) as F. rewrite Forall_forall in F. apply (F (s, d)). now apply sd_get_In_pair. }
  assert (Hget : forall t', nm_get t' (nm_del t d) = Some lab <-> nm_get t' d = Some lab).
  { intro t'. destruct (name_dec t' t) as [->|Hn]; [rewrite nm_get_del_same by assumption; split; [discriminate | congruence]|].
    now rewrite nm_get_del_other. }
  destruct (nm_del t d) as [|p r] eqn:E.
  - rewrite (occ_del m s lab s' W). split; [tauto|]. intro Ho. split; [assumption|]. intros ->.
    destruct Ho as [d' [t' [E1 E2]]]. rewrite Ed in E1. inversion E1; subst. apply (proj2 (Hget t')) in E2. discriminate.
  - unfold occ. destruct (seg_eq_dec s' s) as [->|Hn].
    + rewrite sd_get_set_same. split.
      * intros [d' [t' [E1 E2]]]. inversion E1; subst. exists d, t'. split; [assumption | now apply (proj1 (Hget t'))].
      * intros [d' [t' [E1 E2]]]. rewrite Ed in E1. inversion E1; subst. eexists. exists t'. split; [reflexivity|].
        now apply (proj2 (Hget t')).
    + now rewrite sd_get_set_other.
Qed.
Lemma WF_deltrack m s t d : WF m -> sd_get s m = Some d ->
  WF (match nm_del t d with [] => sd_del s m | d' => sd_set s d' m end).
Proof.
  intros W Ed. destruct (nm_del t d) as [|p r] eqn:E; [now apply WF_del|].
  assert (Nd : NoDup (keys d)).
  { pose proof (wf_dicts _ W) as F. rewrite Forall_forall in F. apply (F (s, d)). now apply sd_get_In_pair. }
  constructor.
  - apply sd_set_sorted, W.
  - rewrite Forall_forall. intros x Hx. apply sd_set_keys_In in Hx as [->|Hx].
    + pose proof (wf_nonempty _ W) as F. rewrite Forall_forall in F. apply F. now apply (sd_get_Some_In s d).
    + pose proof (wf_nonempty _ W) as F. rewrite Forall_forall in F. now apply F.
  - rewrite Forall_forall. intros [x dx] Hx.
    assert (Hg : sd_get x (sd_set s (p :: r) m) = Some dx) by (apply sd_In_pair_get; [apply ssorted_NoDup, sd_set_sorted, W | assumption]).
    destruct (seg_eq_dec x s) as [->|Hn].
    + rewrite sd_get_set_same in Hg. inversion Hg; subst. cbn [snd]. split; [discriminate|]. rewrite <- E. now apply nm_del_NoDup.
    + rewrite sd_get_set_other in Hg by assumption.
      pose proof (wf_dicts _ W) as F. rewrite Forall_forall in F. apply (F (x, dx)). now apply sd_get_In_pair.
Qed.

Theorem AInv_delitem_track a s t a' : AInv a -> delitem_track a s t = Some a' -> AInv a'.
Proof.
  intros I H. unfold delitem_track in H. destruct (sd_get s (a_tracks a)) as [d|] eqn:Ed; [|discriminate].
  rewrite d_get_nm, d_del_nm in H. destruct (nm_get t d) as [l|] eqn:Et; [|discriminate].
  pose proof (i_wf _ I) as W.
  set (m' := match nm_del t d with [] => sd_del s (a_tracks a) | d' => sd_set s d' (a_tracks a) end).
  assert (W' : WF m') by now apply WF_deltrack.
  assert (Hocc : forall lab s', lab <> l -> (occ m' lab s' <-> occ (a_tracks a) lab s'))
    by (intros lab s' Hn; now apply (occ_deltrack _ s t d l)).
  assert (Ea : exists td tl_, a' = mkAnn (a_uri a) (a_modality a) m' (a_labels a) (nm_set l true (a_dirty a)) tl_ td /\
                              (td = false -> a_tdirty a = false /\ tl_ = a_tline a /\ skeys m' = skeys (a_tracks a))).
  { unfold m'. destruct (nm_del t d) as [|p r] eqn:E; inversion H; subst; clear H.
    - exists true, (a_tline a). split; [reflexivity | discriminate].
    - exists (a_tdirty a), (a_tline a). split; [reflexivity|]. intro Htd. repeat split; try assumption.
      apply (sd_set_keys_same s d); [apply W | assumption]. }
  destruct Ea as [td [tl_ [-> Htl]]].
  constructor; cbn [a_tracks a_labels a_dirty a_uri a_tline a_tdirty].
  - exact W'.
  - apply I.
  - apply nm_set_NoDup, I.
  - intros lab c Hc Hnd. unfold is_dirty in Hnd. cbn [a_dirty] in Hnd.
    assert (Hn : lab <> l) by (intros ->; apply Hnd, nm_get_set_same).
    rewrite nm_get_set_other in Hnd by assumption.
    destruct (i_clean _ I lab c Hc Hnd) as [[G1 G2] [s0 Ho]]. split.
    + split; [|exact G2]. cbn [a_tracks]. rewrite G1. apply lab_tl_ext; try assumption. intro s'. symmetry. now apply Hocc.
    + exists s0. cbn [a_tracks]. now apply Hocc.
  - intros lab Hn. unfold is_dirty. cbn [a_dirty]. destruct (name_dec lab l) as [->|Hl]; [apply nm_get_set_same|].
    rewrite nm_get_set_other by assumption. now apply (i_none _ I).
  - intros lab [s0 Ho]. cbn [a_tracks] in Ho. unfold is_dirty. cbn [a_dirty a_labels].
    destruct (name_dec lab l) as [->|Hl]; [left; apply nm_get_set_same|].
    rewrite nm_get_set_other by assumption. apply (Hocc lab s0 Hl) in Ho. exact (i_occ _ I lab (ex_intro _ s0 Ho)).
  - intro Htd. destruct (Htl Htd) as [H1 [-> H3]]. destruct (i_tline _ I H1) as [c [Hc [G1 G2]]].
    exists c. repeat split; try assumption. now rewrite H3.
Qed.

(* ---- rename_labels(mapping, copy=False) ---- *)
Lemma nm_get_map_val {V W} (f : V -> W) (m : list (name * V)) k :
  nm_get k (map (fun kv => (fst kv, f (snd kv))) m) = option_map f (nm_get k m).
Proof. induction m as [|[k0 v0] m IH]; simpl; [reflexivity|]. destruct (name_eqb k k0); [reflexivity | exact IH]. Qed.
Lemma keys_map_val {V W} (f : V -> W) (m : list (name * V)) :
  keys (map (fun kv => (fst kv, f (snd kv))) m) = keys m.
Proof. unfold keys. rewrite map_map. reflexivity. Qed.
Lemma sd_get_map_val (f : tracks_t -> tracks_t) (m : tmap) s :
  sd_get s (map (fun sd => (fst sd, f (snd sd))) m) = option_map f (sd_get s m).
Proof. induction m as [|[s0 d0] m IH]; simpl; [reflexivity|]. destruct (seqb s s0); [reflexivity | exact IH]. Qed.

Definition touched (mapping : list (name * name)) (lab : name) : bool :=
  existsb (fun kv => name_eqb lab (fst kv) || name_eqb lab (snd kv)) mapping.
Lemma rename_flags mapping : forall dm lab,
  nm_get lab (fold_left (fun dm kv => nm_set (snd kv) true (nm_set (fst kv) true dm)) mapping dm) =
    if touched mapping lab then Some true else nm_get lab dm.
Proof.
  unfold touched. induction mapping as [|[o n] mp IH]; intros dm lab; simpl; [reflexivity|]. rewrite IH.
  destruct (existsb _ mp); [now rewrite orb_true_r|]. rewrite orb_false_r.
  destruct (name_eqb lab n) eqn:E2.
  - apply name_eqb_eq in E2. subst. rewrite orb_true_r. apply nm_get_set_same.
  - rewrite orb_false_r. apply name_eqb_neq in E2. rewrite nm_get_set_other by assumption.
    destruct (name_eqb lab o) eqn:E1.
    + apply name_eqb_eq in E1. subst. apply nm_get_set_same.
    + apply name_eqb_neq in E1. now apply nm_get_set_other.
Qed.
Lemma rename_flags_NoDup mapping : forall dm, NoDup (keys dm) ->
  NoDup (keys (fold_left (fun dm kv => nm_set (snd kv) true (nm_set (fst kv) true dm)) mapping dm)).
Proof. induction mapping as [|kv mp IH]; intros dm H; simpl; [exact H|]. apply IH. now apply nm_set_NoDup, nm_set_NoDup. Qed.
Lemma map_get_untouched mapping lab l0 : touched mapping lab = false ->
  (map_get l0 mapping = lab <-> l0 = lab).
Proof.
  unfold map_get, touched. intro H. rewrite d_get_nm. split.
  - destruct (nm_get l0 mapping) as [v|] eqn:E; [|tauto]. intros ->. exfalso. apply nm_get_In_pair in E.
    assert (existsb (fun kv : name * name => name_eqb lab (fst kv) || name_eqb lab (snd kv)) mapping = true).
    { apply existsb_exists. exists (l0, lab). split; [assumption|]. simpl. rewrite name_eqb_refl. apply orb_true_r. }
    congruence.
  - intros ->. destruct (nm_get lab mapping) as [v|] eqn:E; [|reflexivity]. exfalso. apply nm_get_In_pair in E.
    assert (existsb (fun kv : name * name => name_eqb lab (fst kv) || name_eqb lab (snd kv)) mapping = true).
    { apply existsb_exists. exists (lab, v). split; [assumption|]. simpl. now rewrite name_eqb_refl. }
    congruence.
Qed.

Lemma rename_tracks_sd_get m mapping s :
  sd_get s (rename_tracks_map m mapping) =
  option_map (fun d => map (fun tl_ => (fst tl_, map_get (snd tl_) mapping)) d) (sd_get s m).
Proof. unfold rename_tracks_map. apply (sd_get_map_val (fun d => map (fun tl_ => (fst tl_, map_get (snd tl_) mapping)) d)). Qed.
Lemma occ_rename m mapping lab s :
  occ (rename_tracks_map m mapping) lab s <-> exists l0, occ m l0 s /\ map_get l0 mapping = lab.
Proof.
  unfold occ. rewrite rename_tracks_sd_get. split.
  - intros [d [t [E1 E2]]]. destruct (sd_get s m) as [d0|]; [|discriminate]. simpl in E1. inversion E1; subst.
    rewrite (nm_get_map_val (fun l => map_get l mapping)) in E2.
    destruct (nm_get t d0) as [l0|] eqn:E; [|discriminate]. simpl in E2. inversion E2; subst.
    exists l0. split; [exists d0, t; tauto | reflexivity].
  - intros [l0 [[d0 [t [E1 E2]]] E3]]. rewrite E1. eexists. exists t. split; [reflexivity|].
    rewrite (nm_get_map_val (fun l => map_get l mapping)), E2. simpl. now rewrite E3.
Qed.
Lemma WF_rename m mapping : WF m -> WF (rename_tracks_map m mapping).
Proof.
  intro W. assert (Ek : skeys (rename_tracks_map m mapping) = skeys m).
  { unfold skeys, rename_tracks_map. rewrite map_map. reflexivity. }
  constructor.
  - rewrite Ek. apply W.
  - rewrite Ek. apply W.
  - unfold rename_tracks_map. rewrite Forall_forall. intros [s d] H. apply in_map_iff in H as [[s0 d0] [E H]].
    simpl in E. inversion E; subst. pose proof (wf_dicts _ W) as F. rewrite Forall_forall in F. destruct (F _ H) as [F1 F2].
    simpl in *. split.
    + destruct d0; [contradiction | discriminate].
    + now rewrite (keys_map_val (fun l => map_get l mapping)).
Qed.

Theorem AInv_rename a mapping : AInv a -> AInv (rename_labels_inplace a mapping).
Proof.
  intro I. pose proof (i_wf _ I) as W. unfold rename_labels_inplace.
  assert (W' : WF (rename_tracks_map (a_tracks a) mapping)) by now apply WF_rename.
  assert (Hocc : forall lab s, touched mapping lab = false ->
            (occ (rename_tracks_map (a_tracks a) mapping) lab s <-> occ (a_tracks a) lab s)).
  { intros lab s Ht. rewrite occ_rename. split.
    - intros [l0 [Ho E]]. apply (map_get_untouched mapping lab l0 Ht) in E. now subst.
    - intro Ho. exists lab. split; [assumption | now apply (map_get_untouched mapping lab lab Ht)]. }
  constructor; cbn [a_tracks a_labels a_dirty a_uri a_tline a_tdirty].
  - exact W'.
  - apply I.
  - apply rename_flags_NoDup, I.
  - intros lab c Hc Hnd. unfold is_dirty in Hnd. cbn [a_dirty] in Hnd. rewrite rename_flags in Hnd.
    destruct (touched mapping lab) eqn:Ht; [exfalso; now apply Hnd|].
    destruct (i_clean _ I lab c Hc Hnd) as [[G1 G2] [s0 Ho]]. split.
    + split; [|exact G2]. cbn [a_tracks]. rewrite G1. apply lab_tl_ext; try assumption. intro s'. symmetry. now apply Hocc.
    + exists s0. cbn [a_tracks]. now apply Hocc.
  - intros lab Hn. unfold is_dirty. cbn [a_dirty]. rewrite rename_flags.
    destruct (touched mapping lab); [reflexivity | now apply (i_none _ I)].
  - intros lab [s0 Ho]. cbn [a_tracks] in Ho. unfold is_dirty. cbn [a_dirty a_labels]. rewrite rename_flags.
    destruct (touched mapping lab) eqn:Ht; [now left|]. apply (Hocc lab s0 Ht) in Ho.
    exact (i_occ _ I lab (ex_intro _ s0 Ho)).
  - intro Htd. destruct (i_tline _ I Htd) as [c [Hc [G1 G2]]]. exists c. repeat split; try assumption.
    rewrite G1. f_equal. unfold skeys, rename_tracks_map. now rewrite map_map.
Qed.

(* ---- uri setter ---- *)
Theorem AInv_set_uri a u : AInv a -> AInv (set_uri eps a u) /\ a_uri (set_uri eps a u) = u /\
  a_tracks (set_uri eps a u) = a_tracks a.
Proof.
  intro I. unfold set_uri. pose proof (labels_spec a I) as HL. destruct (labels eps a) as [a1 L].
  destruct HL as [I1 [ND [[c1 [c2 [c3 [c4 c5]]]] _]]].
  set (labs' := map (fun kv : name * option ctl => (fst kv, match snd kv with Some c => Some (mkCtl (c_segs c) u) | None => None end)) (a_labels a1)).
  set (x := with_labels a1 labs' (a_dirty a1)).
  assert (Hget : forall lab, nm_get lab labs' =
            option_map (fun o : option ctl => match o with Some c => Some (mkCtl (c_segs c) u) | None => None end) (nm_get lab (a_labels a1))).
  { intro lab. unfold labs'. apply (nm_get_map_val (fun o : option ctl => match o with Some c => Some (mkCtl (c_segs c) u) | None => None end)). }
  assert (Hx : exists c, get_timeline eps x = (with_tline x (a_tline (fst (get_timeline eps x))) false, c) /\
                         c_segs c = tl_of eps (skeys (a_tracks a1))).
  { unfold get_timeline. destruct (a_tdirty x) eqn:E.
    - eexists. split; [reflexivity | reflexivity].
    - unfold x in E. cbn in E. destruct (i_tline _ I1 E) as [c [Hc [G1 G2]]]. unfold x at 1 2 3. cbn [a_tline with_labels].
      rewrite Hc. exists c. split; [|exact G1]. cbn. unfold with_tline, x, with_labels. cbn. rewrite E, Hc. reflexivity. }
  destruct Hx as [c [Eg Hc]]. rewrite Eg. cbn [fst with_tline a_modality a_tracks a_labels a_dirty a_tdirty x with_labels].
  split; [|split; [reflexivity | exact c1]].
  constructor; cbn [a_tracks a_labels a_dirty a_uri a_tline a_tdirty].
  - apply I1.
  - unfold labs'. rewrite (keys_map_val (fun o : option ctl => match o with Some c => Some (mkCtl (c_segs c) u) | None => None end)). apply I1.
  - apply I1.
  - intros lab c' Hc' Hnd. rewrite Hget in Hc'. destruct (nm_get lab (a_labels a1)) as [[c0|]|] eqn:E0; try discriminate.
    simpl in Hc'. inversion Hc'; subst. destruct (i_clean _ I1 lab c0 E0 (ND lab)) as [[G1 G2] Ho].
    split; [|exact Ho]. split; [exact G1 | reflexivity].
  - intros lab Hn. rewrite Hget in Hn. destruct (nm_get lab (a_labels a1)) as [[c0|]|] eqn:E0; try discriminate.
    now apply (i_none _ I1).
  - intros lab Ho. destruct (i_occ _ I1 lab Ho) as [Hd|[c0 Hc0]]; [now left|]. right. rewrite Hget, Hc0. simpl. eauto.
  - intros _. eexists. split; [reflexivity|]. split; [exact Hc | reflexivity].
Qed.

(* ---- from_records ---- *)
Definition build_tracks (recs : list triple) (tm : tmap) : tmap :=
  fold_left (fun tm x => setitem_tracks tm (fst (fst x)) (snd (fst x)) (snd x)) recs tm.
Lemma from_records_tracks recs u md :
  a_tracks (from_records eps recs u md) = build_tracks (filter (fun x : triple => nonempty eps (fst (fst x))) recs) [].
Proof. unfold from_records, build_tracks, setitem_tracks. cbn. reflexivity. Qed.

Lemma build_tracks_WF recs : forall tm, WF tm -> Forall (fun x : triple => nonempty eps (fst (fst x)) = true) recs ->
  WF (build_tracks recs tm).
Proof.
  unfold build_tracks. induction recs as [|x recs IH]; intros tm W F; simpl; [exact W|].
  inversion F; subst. apply IH; [|assumption]. now apply WF_setitem.
Qed.
Lemma build_tracks_occurs recs : forall tm lab,
  occurs (build_tracks recs tm) lab -> occurs tm lab \/ In lab (map snd recs).
Proof.
  unfold build_tracks. induction recs as [|x recs IH]; intros tm lab H; simpl in *; [now left|].
  destruct (IH _ lab H) as [[s' Ho]|Hin]; [|right; now right].
  destruct (name_dec lab (snd x)) as [->|Hn]; [right; now left|].
  destruct (option_eq_dec (old_label tm (fst (fst x)) (snd (fst x))) (Some lab)) as [Eo|No].
  - left. unfold old_label in Eo. destruct (sd_get (fst (fst x)) tm) as [d|] eqn:Ed; [|discriminate].
    exists (fst (fst x)), d, (snd (fst x)). tauto.
  - left. exists s'. now apply (occ_setitem tm _ _ _ lab s' Hn No).
Qed.

Lemma fold_none_get (labs : list name) : forall (lm : list (name * option ctl)) lab c,
  (forall c', nm_get lab lm <> Some (Some c')) ->
  nm_get lab (fold_left (fun lm l => nm_set l None lm) labs lm) <> Some (Some c).
Proof.
  induction labs as [|l labs IH]; intros lm lab c H; simpl; [apply H|].
  apply IH. intro c'. destruct (name_dec lab l) as [->|Hn]; [rewrite nm_get_set_same; discriminate|].
  rewrite nm_get_set_other by assumption. apply H.
Qed.
Lemma fold_none_NoDup (labs : list name) : forall (lm : list (name * option ctl)),
  NoDup (keys lm) -> NoDup (keys (fold_left (fun lm l => nm_set l None lm) labs lm)).
Proof. induction labs as [|l labs IH]; intros lm H; simpl; [exact H|]. apply IH. now apply nm_set_NoDup. Qed.
Lemma fold_none_keys (labs : list name) : forall (lm : list (name * option ctl)) lab,
  In lab (keys (fold_left (fun lm l => nm_set l None lm) labs lm)) -> In lab (keys lm) \/ In lab labs.
Proof.
  induction labs as [|l labs IH]; intros lm lab H; simpl in *; [now left|].
  destruct (IH _ lab H) as [H'|H']; [|right; now right].
  apply nm_set_keys_In in H' as [->|H']; [right; now left | now left].
Qed.

Lemma AInv_fresh u md t labs : WF t -> (forall lab, occurs t lab -> In lab labs) ->
  AInv (fresh_from_tracks u md t labs).
Proof.
  intros W Hocc. unfold fresh_from_tracks.
  assert (Hd : forall lab, In lab labs -> nm_get lab (fold_left (fun dm l => nm_set l true dm) labs []) = Some true).
  { intros lab Hin. rewrite (fold_flag_get (fun l : name => l) labs [] lab).
    replace (existsb (fun x : name => name_eqb lab x) labs) with true; [reflexivity|].
    symmetry. apply existsb_exists. exists lab. split; [assumption | apply name_eqb_refl]. }
  constructor; cbn [a_tracks a_labels a_dirty a_uri a_tline a_tdirty].
  - exact W.
  - apply fold_none_NoDup. constructor.
  - apply (fold_flag_NoDup (fun l : name => l)). constructor.
  - intros lab c Hc. exfalso. apply (fold_none_get labs [] lab c); [intros c' H; discriminate | exact Hc].
  - intros lab Hn. unfold is_dirty. cbn [a_dirty]. apply Hd.
    apply nm_get_Some_In in Hn. apply fold_none_keys in Hn as [[]|Hn]. exact Hn.
  - intros lab Ho. left. unfold is_dirty. cbn [a_dirty]. now apply Hd, Hocc.
  - discriminate.
Qed.

Theorem AInv_from_records recs u md : AInv (from_records eps recs u md).
Proof.
  set (kept := filter (fun x : triple => nonempty eps (fst (fst x))) recs).
  assert (E : from_records eps recs u md = fresh_from_tracks u md (build_tracks kept []) (map snd kept)) by reflexivity.
  rewrite E. apply AInv_fresh.
  - apply build_tracks_WF; [constructor; simpl; constructor|]. rewrite Forall_forall. intros x Hx. unfold kept in Hx.
    now apply filter_In in Hx.
  - intros lab Ho. apply build_tracks_occurs in Ho as [[s [d [t [H _]]]]|H]; [discriminate | exact H].
Qed.
(* empty segments are never stored, whichever entry point supplied them *)
Corollary from_records_no_empty recs u md s :
  In s (skeys (a_tracks (from_records eps recs u md))) -> nonempty eps s = true.
Proof.
  intro H. pose proof (wf_nonempty _ (i_wf _ (AInv_from_records recs u md))) as F. rewrite Forall_forall in F. now apply F.
Qed.
Corollary stored_segments_nonempty a s : AInv a -> In s (skeys (a_tracks a)) -> nonempty eps s = true.
Proof. intros I H. pose proof (wf_nonempty _ (i_wf _ I)) as F. rewrite Forall_forall in F. now apply F. Qed.
End Inv.

(* the pre-repair constructor stored empty segments: finding F2 as a theorem about the old code *)
Theorem from_records_old_refuted :
  exists recs s, In s (skeys (a_tracks (from_records_old recs None None))) /\ nonempty 0 s = false.
Proof. exists [((1, 1), NStr "a", NStr "x")], (1, 1). split; [now left | reflexivity]. Qed.
