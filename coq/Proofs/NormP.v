(* C20, l2_normalize over the reals (the mathematical content; the float computation is checked against it by the
   driver within a tolerance).  Uses the standard library's real numbers, hence its axioms. *)
From Coq Require Import Reals Lra List.
Import ListNotations.
Open Scope R_scope.

(* l2_normalize on one row, over the reals: norm = sqrt(sum x_i^2); a zero norm is replaced by 1 *)
Definition sumsq (l : list R) : R := fold_right (fun x a => x * x + a) 0 l.
Definition l2_row (l : list R) : list R :=
  let s := sqrt (sumsq l) in
  let d := if Req_EM_T s 0 then 1 else s in
  map (fun x => x / d) l.

Lemma sumsq_nonneg l : 0 <= sumsq l.
Proof. induction l as [|x l IH]; simpl; [lra | nra]. Qed.
Lemma sumsq_scale l c : sumsq (map (fun x => x / c) l) = sumsq l / (c * c).
Proof.
  destruct (Req_dec c 0) as [->|Hc].
  - induction l as [|x l IH]; simpl; unfold Rdiv; rewrite ?Rmult_0_l, ?Rinv_0, ?Rmult_0_r; [lra|].
    simpl in IH. unfold Rdiv in IH. rewrite Rmult_0_l, Rinv_0, Rmult_0_r in IH. rewrite IH. lra.
  - induction l as [|x l IH]; simpl; [field; auto | rewrite IH; field; auto].
Qed.
Lemma sumsq_zero_all l : sumsq l = 0 -> Forall (fun x => x = 0) l.
Proof.
  induction l as [|x l IH]; simpl; intro H; [constructor|].
  pose proof (sumsq_nonneg l). assert (x * x = 0 /\ sumsq l = 0) as [Hx Hl] by nra.
  constructor; [nra | now apply IH].
Qed.

(* rows of unit norm ... *)
Theorem l2_row_unit l : sumsq l <> 0 -> sumsq (l2_row l) = 1.
Proof.
  intro H. unfold l2_row. pose proof (sumsq_nonneg l) as P.
  assert (Hs : 0 < sqrt (sumsq l)) by (apply sqrt_lt_R0; lra).
  destruct (Req_EM_T (sqrt (sumsq l)) 0) as [E|_]; [lra|].
  rewrite sumsq_scale, sqrt_sqrt by exact P. field. exact H.
Qed.
(* ... each entry the original divided by the norm (so directions and signs are kept) ... *)
Theorem l2_row_entries l i : sumsq l <> 0 ->
  nth i (l2_row l) 0 = nth i l 0 / sqrt (sumsq l).
Proof.
  intro H. unfold l2_row. pose proof (sumsq_nonneg l) as P.
  assert (Hs : 0 < sqrt (sumsq l)) by (apply sqrt_lt_R0; lra).
  destruct (Req_EM_T (sqrt (sumsq l)) 0) as [E|_]; [lra|].
  replace 0 with ((fun x => x / sqrt (sumsq l)) 0) at 1 by (unfold Rdiv; apply Rmult_0_l).
  exact (map_nth (fun x => x / sqrt (sumsq l)) l 0 i).
Qed.
(* ... and zero rows unchanged *)
Theorem l2_row_zero l : sumsq l = 0 -> l2_row l = l.
Proof.
  intro H. unfold l2_row. rewrite H, sqrt_0.
  destruct (Req_EM_T 0 0) as [_|N]; [|contradiction].
  induction l as [|x l IH]; simpl; [reflexivity|]. f_equal; [unfold Rdiv; rewrite Rinv_1; lra|].
  apply IH. simpl in H. pose proof (sumsq_nonneg l). nra.
Qed.
