(* C13, binary64 level: the value computed by Segment.__post_init__ in precision mode,
       math.floor(x / P + 0.5) * P          (P = SEGMENT_PRECISION, a double)
   with every operation rounded to nearest-even binary64 (IEEE-754 semantics as formalised by Flocq's [round] on the
   reals: division, addition of 0.5, the exact floor of math.floor, conversion of the Python int to float, product),
   is within half a grid unit of the requested value, up to a few units of rounding noise.  This file uses the
   standard library's real numbers, hence its axioms (listed by Print Assumptions in Properties/C13.v). *)
From Coq Require Import Reals Lra Lia ZArith.
From Flocq Require Import Core Relative.
Open Scope R_scope.

Lemma Rabs_mul_le a b A B : Rabs a <= A -> Rabs b <= B -> Rabs (a * b) <= A * B.
Proof.
  intros Ha Hb. rewrite Rabs_mult. apply Rmult_le_compat; auto using Rabs_pos.
Qed.
Lemma Rabs_bounds a A : Rabs a <= A -> - A <= a <= A.
Proof. intro H. apply Rabs_le_inv in H. lra. Qed.

Section Abstract.
Variables u eta : R.
Hypothesis Hu : 0 <= u.
Hypothesis Heta : 0 <= eta.
Variable rnd : R -> R.
Hypothesis rnd_spec : forall x, exists e t, Rabs e <= u /\ Rabs t <= eta /\ rnd x = x * (1 + e) + t.
Variable P : R.
Hypothesis HP : 0 < P.

(* Segment.__post_init__ in precision mode:  math.floor(x / P + 0.5) * P  with every operation rounded *)
Definition rfloat (x : R) : R := rnd (rnd (IZR (Zfloor (rnd (rnd (x / P) + /2)))) * P).
Definition D (x : R) : R := Rabs x * u + eta * P + u * (Rabs x * (1 + u) + eta * P + P / 2) + eta * P.

Definition K (x : R) : R := Rabs x + P / 2 + D x.
Theorem rfloat_within_half_unit x :
  Rabs (rfloat x - x) <= P / 2 + D x + u * K x + eta * P + u * (K x * (1 + u) + eta * P) + eta.
Proof.
  unfold rfloat.
  destruct (rnd_spec (x / P)) as [e1 [t1 [He1 [Ht1 E1]]]].
  set (q := rnd (x / P)) in *.
  destruct (rnd_spec (q + /2)) as [e2 [t2 [He2 [Ht2 E2]]]].
  set (s := rnd (q + /2)) in *.
  set (k := Zfloor s).
  pose proof (Zfloor_lb s) as Klb. pose proof (Zfloor_ub s) as Kub. fold k in Klb, Kub.
  destruct (rnd_spec (IZR k)) as [e4 [t4 [He4 [Ht4 E4]]]].
  set (kf := rnd (IZR k)) in *.
  destruct (rnd_spec (kf * P)) as [e3 [t3 [He3 [Ht3 E3]]]].
  rewrite E3.
  set (X := Rabs x). assert (HX : - X <= x <= X) by (unfold X; split; [pose proof (Rle_abs (-x)); rewrite Rabs_Ropp in H; lra | apply Rle_abs]).
  assert (HX0 : 0 <= X) by apply Rabs_pos.
  (* the products, each with its bound *)
  set (m1 := x * e1). assert (B1 : Rabs m1 <= X * u) by (apply Rabs_mul_le; [apply Rle_refl | exact He1]).
  set (m3 := t1 * P). assert (B3 : Rabs m3 <= eta * P) by (apply Rabs_mul_le; [exact Ht1 | rewrite Rabs_pos_eq; lra]).
  set (m4 := t2 * P). assert (B4 : Rabs m4 <= eta * P) by (apply Rabs_mul_le; [exact Ht2 | rewrite Rabs_pos_eq; lra]).
  assert (QP : q * P = x + m1 + m3).
  { rewrite E1. unfold m1, m3. field. lra. }
  set (Y := x + m1 + m3 + P / 2).
  assert (BY : Rabs Y <= X * (1 + u) + eta * P + P / 2).
  { apply Rabs_bounds in B1, B3. apply Rabs_le. unfold Y. lra. }
  set (m2 := e2 * Y). assert (B2 : Rabs m2 <= u * (X * (1 + u) + eta * P + P / 2)) by (apply Rabs_mul_le; assumption).
  assert (SP : s * P = x + P / 2 + (m1 + m3 + m2 + m4)).
  { rewrite E2. unfold m2, m4, Y. replace ((q + / 2) * (1 + e2) * P) with ((q * P + P / 2) * (1 + e2)) by field.
    rewrite Rmult_plus_distr_r. replace ((q + / 2) * (1 + e2) * P) with ((q * P + P / 2) * (1 + e2)) by field.
    rewrite QP. ring. }
  assert (BD : Rabs (m1 + m3 + m2 + m4) <= D x).
  { apply Rabs_bounds in B1, B2, B3, B4. apply Rabs_le. unfold D. fold X. lra. }
  set (d := m1 + m3 + m2 + m4) in *.
  assert (KP : s * P - P < IZR k * P <= s * P).
  { split.
    - assert (s < IZR k + 1) by lra. apply (Rmult_lt_compat_r P) in H; lra.
    - apply (Rmult_le_compat_r P) in Klb; lra. }
  apply Rabs_bounds in BD as BD'.
  assert (BK : Rabs (IZR k * P) <= X + P / 2 + D x).
  { apply Rabs_le. pose proof (Rabs_pos d). lra. }
  set (m6 := IZR k * P * e4). assert (B6 : Rabs m6 <= (X + P / 2 + D x) * u) by (apply Rabs_mul_le; assumption).
  set (m7 := t4 * P). assert (B7 : Rabs m7 <= eta * P) by (apply Rabs_mul_le; [exact Ht4 | rewrite Rabs_pos_eq; lra]).
  assert (KF : kf * P = IZR k * P + m6 + m7) by (rewrite E4; unfold m6, m7; ring).
  assert (BKF : Rabs (kf * P) <= (X + P / 2 + D x) * (1 + u) + eta * P).
  { rewrite KF. apply Rabs_bounds in BK, B6, B7. apply Rabs_le. lra. }
  set (m5 := kf * P * e3). assert (B5 : Rabs m5 <= ((X + P / 2 + D x) * (1 + u) + eta * P) * u) by (apply Rabs_mul_le; assumption).
  apply Rabs_bounds in B5, B6, B7, Ht3.
  replace (kf * P * (1 + e3) + t3 - x) with (IZR k * P - x + m6 + m7 + m5 + t3) by (unfold m5; rewrite KF; ring).
  apply Rabs_le. unfold K. fold X. lra.
Qed.

(* a readable consequence: half a grid unit plus a few units of rounding noise *)
Corollary rfloat_within_half_unit_simple x : u <= / 8 ->
  Rabs (rfloat x - x) <= P / 2 + 8 * u * (Rabs x + P) + 8 * eta * (P + 1).
Proof.
  intro Hu8. eapply Rle_trans; [apply rfloat_within_half_unit|].
  unfold K, D. set (X := Rabs x). assert (HX0 : 0 <= X) by apply Rabs_pos.
  assert (0 <= u * u <= u / 8) by nra.
  assert (0 <= u * X) by nra. assert (0 <= u * P) by nra. assert (0 <= eta * P) by nra.
  assert (0 <= u * (eta * P)) by nra. assert (u * (eta * P) <= eta * P / 8) by nra.
  assert (u * u * X <= u * X / 8) by nra. assert (u * u * P <= u * P / 8) by nra.
  nra.
Qed.
End Abstract.

(* ---- instance: IEEE-754 binary64, round to nearest even ---- *)
Definition rnd64 : R -> R := round radix2 (FLT_exp (-1074) 53) ZnearestE.
Definition u64 : R := bpow radix2 (-53).
Definition eta64 : R := bpow radix2 (-1075).

Lemma rnd64_spec x : exists e t, Rabs e <= u64 /\ Rabs t <= eta64 /\ rnd64 x = x * (1 + e) + t.
Proof.
  destruct (relative_error_N_FLT'_ex radix2 (-1074) 53 ltac:(lia) (fun z => negb (Z.even z)) x) as [e [t [He [Ht [_ E]]]]].
  exists e, t. split; [|split; [|exact E]].
  - eapply Rle_trans; [exact He|]. unfold u_ro, u64.
    assert (A : / 2 * bpow radix2 (- (53) + 1) = bpow radix2 (-53)).
    { replace (-53)%Z with (- (53) + 1 + -1)%Z by lia. rewrite (bpow_plus radix2 (- (53) + 1) (-1)).
      change (bpow radix2 (-1)) with (/ 2). lra. }
    rewrite A. assert (0 < bpow radix2 (-53)) by apply bpow_gt_0.
    apply Rle_trans with (bpow radix2 (-53) / 1); [|lra].
    unfold Rdiv. apply Rmult_le_compat_l; [lra|]. apply Rinv_le_contravar; lra.
  - eapply Rle_trans; [exact Ht|]. unfold eta64.
    replace (-1075)%Z with (-1074 + -1)%Z by lia. rewrite (bpow_plus radix2 (-1074) (-1)).
    change (bpow radix2 (-1)) with (/ 2). lra.
Qed.

Theorem binary64_precision_rounding P x : 0 < P ->
  Rabs (rfloat rnd64 P x - x) <= P / 2 + 8 * u64 * (Rabs x + P) + 8 * eta64 * (P + 1).
Proof.
  intro HP. apply (rfloat_within_half_unit_simple u64 eta64); auto.
  - unfold u64. apply bpow_ge_0.
  - unfold eta64. apply bpow_ge_0.
  - apply rnd64_spec.
  - unfold u64. apply Rle_trans with (bpow radix2 (-3)); [apply bpow_le; lia | simpl; lra].
Qed.


(* ---- C14 / C15 tolerance tiers: how far the float computation of a window position or of a frame index (before
        its final floor / ceil / rint) can be from the exact value.  The correspondence checkers (Check/C14.v: closeb,
        tol_ok; Check/C15.v: tol_ok) accept a band of 2^-44 resp. 2^-40 relative to the operand magnitudes; the bounds
        below, with u = 2^-53, are 2^7 resp. 2^10 times smaller, so the unchanged IEEE computation always falls inside
        the accepted band (no false alarm from rounding), while an index off by one frame does not. ---- *)
Section Tolerance.
Variables u eta : R.
Hypothesis Hu : 0 <= u.
Hypothesis Hu8 : u <= / 8.
Hypothesis Heta : 0 <= eta.
Variable rnd : R -> R.
Hypothesis rnd_spec : forall x, exists e t, Rabs e <= u /\ Rabs t <= eta /\ rnd x = x * (1 + e) + t.

(* a window position  start + i * step  as the float code computes it *)
Theorem position_error start step i :
  Rabs (rnd (start + rnd (i * step)) - (start + i * step))
  <= 4 * u * (Rabs start + Rabs (i * step)) + 3 * eta.
Proof.
  destruct (rnd_spec (i * step)) as [e1 [t1 [He1 [Ht1 E1]]]]. rewrite E1.
  destruct (rnd_spec (start + (i * step * (1 + e1) + t1))) as [e2 [t2 [He2 [Ht2 E2]]]]. rewrite E2.
  set (A := Rabs start). set (B := Rabs (i * step)).
  assert (HA : - A <= start <= A) by (apply Rabs_bounds, Rle_refl).
  assert (HB : - B <= i * step <= B) by (apply Rabs_bounds, Rle_refl).
  assert (0 <= A) by apply Rabs_pos. assert (0 <= B) by apply Rabs_pos.
  set (m1 := i * step * e1). assert (B1 : Rabs m1 <= B * u) by (apply Rabs_mul_le; [apply Rle_refl | exact He1]).
  set (Y := start + (i * step + m1 + t1)).
  assert (BY : Rabs Y <= A + B + B * u + eta).
  { apply Rabs_bounds in B1, Ht1. apply Rabs_le. unfold Y. lra. }
  set (m2 := Y * e2). assert (B2 : Rabs m2 <= (A + B + B * u + eta) * u) by (apply Rabs_mul_le; assumption).
  replace ((start + (i * step * (1 + e1) + t1)) * (1 + e2) + t2 - (start + i * step)) with (m1 + t1 + m2 + t2)
    by (subst m2 Y m1; ring).
  apply Rabs_bounds in B1, B2, Ht1, Ht2. apply Rabs_le.
  assert (0 <= B * u) by nra. assert (0 <= A * u) by nra. assert (B * u * u <= B * u / 8) by nra.
  assert (eta * u <= eta / 8) by nra. lra.
Qed.

(* a frame index before rounding:  ((x1 - x2) - x3) / step  as the float code computes it
   (loose start: focus.start - duration - start; strict end: focus.end - duration - start;
    centre: t - start - duration / 2; with x3 = 0 the two-operand forms) *)
Theorem quotient_error x1 x2 x3 step : 0 < step ->
  Rabs (rnd (rnd (rnd (x1 - x2) - x3) / step) - (x1 - x2 - x3) / step)
  <= 8 * u * (Rabs x1 + Rabs x2 + Rabs x3) / step + 8 * eta * (/ step + 1).
Proof.
  intro Hs.
  destruct (rnd_spec (x1 - x2)) as [e1 [t1 [He1 [Ht1 E1]]]]. rewrite E1.
  set (d1 := (x1 - x2) * (1 + e1) + t1).
  destruct (rnd_spec (d1 - x3)) as [e2 [t2 [He2 [Ht2 E2]]]]. rewrite E2.
  set (d2 := (d1 - x3) * (1 + e2) + t2).
  destruct (rnd_spec (d2 / step)) as [e3 [t3 [He3 [Ht3 E3]]]]. rewrite E3.
  set (S := Rabs x1 + Rabs x2 + Rabs x3).
  assert (H1 : - Rabs x1 <= x1 <= Rabs x1) by (apply Rabs_bounds, Rle_refl).
  assert (H2 : - Rabs x2 <= x2 <= Rabs x2) by (apply Rabs_bounds, Rle_refl).
  assert (H3 : - Rabs x3 <= x3 <= Rabs x3) by (apply Rabs_bounds, Rle_refl).
  assert (0 <= Rabs x1) by apply Rabs_pos. assert (0 <= Rabs x2) by apply Rabs_pos. assert (0 <= Rabs x3) by apply Rabs_pos.
  assert (HS : 0 <= S) by (unfold S; lra).
  set (m1 := (x1 - x2) * e1).
  assert (B1 : Rabs m1 <= (Rabs x1 + Rabs x2) * u) by (apply Rabs_mul_le; [apply Rabs_le; lra | exact He1]).
  assert (Bd1 : Rabs (d1 - x3) <= S + (Rabs x1 + Rabs x2) * u + eta).
  { apply Rabs_bounds in B1, Ht1. apply Rabs_le. unfold d1, S. fold m1.
    replace ((x1 - x2) * (1 + e1) + t1 - x3) with (x1 - x2 - x3 + m1 + t1) by (subst m1; ring). lra. }
  set (m2 := (d1 - x3) * e2).
  assert (B2 : Rabs m2 <= (S + (Rabs x1 + Rabs x2) * u + eta) * u) by (apply Rabs_mul_le; assumption).
  set (n := x1 - x2 - x3).
  assert (Ed2 : d2 = n + (m1 + t1 + m2 + t2)) by (subst d2 m2 n m1 d1; ring).
  set (dd := m1 + t1 + m2 + t2).
  assert (Bdd : Rabs dd <= 3 * u * S + 3 * eta).
  { apply Rabs_bounds in B1, B2, Ht1, Ht2. apply Rabs_le. unfold dd.
    assert (0 <= S * u) by nra. assert (S * u * u <= S * u / 8) by nra.
    assert ((Rabs x1 + Rabs x2) * u <= S * u) by (unfold S; nra).
    assert (0 <= (Rabs x1 + Rabs x2) * u) by nra.
    assert ((Rabs x1 + Rabs x2) * u * u <= S * u / 8) by nra.
    assert (eta * u <= eta / 8) by nra. unfold S in *. nra. }
  assert (Bd2 : Rabs d2 <= S + 3 * u * S + 3 * eta).
  { apply Rabs_bounds in Bdd. apply Rabs_le. rewrite Ed2. fold dd. unfold n. unfold S in *. lra. }
  assert (Is : 0 < / step) by now apply Rinv_0_lt_compat.
  set (m3 := d2 / step * e3).
  assert (B3 : Rabs m3 <= (S + 3 * u * S + 3 * eta) * / step * u).
  { apply Rabs_mul_le; [|exact He3]. unfold Rdiv. apply Rabs_mul_le; [exact Bd2 | rewrite Rabs_pos_eq; lra]. }
  replace (d2 / step * (1 + e3) + t3 - n / step) with (dd * / step + m3 + t3) by (subst m3; rewrite Ed2; fold dd; field; lra).
  assert (B4 : Rabs (dd * / step) <= (3 * u * S + 3 * eta) * / step) by (apply Rabs_mul_le; [exact Bdd | rewrite Rabs_pos_eq; lra]).
  apply Rabs_bounds in B3, B4, Ht3. apply Rabs_le.
  set (w := / step) in *. unfold Rdiv. fold w.
  assert (0 <= S * w) by nra. assert (0 <= u * (S * w)) by nra. assert (0 <= eta * w) by nra.
  assert (u * (u * (S * w)) <= u * (S * w) / 8) by nra.
  assert (u * (eta * w) <= eta * w / 8) by nra.
  nra.
Qed.
End Tolerance.

Theorem binary64_position_error start step i :
  Rabs (rnd64 (start + rnd64 (i * step)) - (start + i * step)) <= 4 * u64 * (Rabs start + Rabs (i * step)) + 3 * eta64.
Proof.
  apply (position_error u64 eta64).
  - unfold u64. apply bpow_ge_0.
  - unfold u64. apply Rle_trans with (bpow radix2 (-3)); [apply bpow_le; lia | simpl; lra].
  - unfold eta64. apply bpow_ge_0.
  - apply rnd64_spec.
Qed.
Theorem binary64_quotient_error x1 x2 x3 step : 0 < step ->
  Rabs (rnd64 (rnd64 (rnd64 (x1 - x2) - x3) / step) - (x1 - x2 - x3) / step)
  <= 8 * u64 * (Rabs x1 + Rabs x2 + Rabs x3) / step + 8 * eta64 * (/ step + 1).
Proof.
  apply (quotient_error u64 eta64).
  - unfold u64. apply bpow_ge_0.
  - unfold u64. apply Rle_trans with (bpow radix2 (-3)); [apply bpow_le; lia | simpl; lra].
  - unfold eta64. apply bpow_ge_0.
  - apply rnd64_spec.
Qed.

(* ---- C13, no drift at the binary64 level: a bound that is already on the float grid (the float nearest k * P for an
        integer k) is returned unchanged by the rounding computation ---- *)
Section Fixed.
Variables u eta : R.
Hypothesis Hu : 0 <= u.
Hypothesis Hu8 : u <= / 8.
Hypothesis Heta : 0 <= eta.
Variable rnd : R -> R.
Hypothesis rnd_spec : forall x, exists e t, Rabs e <= u /\ Rabs t <= eta /\ rnd x = x * (1 + e) + t.
Variable P : R.
Hypothesis HP : 0 < P.

(* a bound already on the float grid: x = rnd (k * P) for an integer k that the format represents exactly *)
Theorem rfloat_on_grid_fixed (k : Z) :
  rnd (IZR k) = IZR k ->
  8 * u * (Rabs (IZR k) + 1) + 8 * eta * (/ P + 1) < / 2 ->
  rfloat rnd P (rnd (IZR k * P)) = rnd (IZR k * P).
Proof.
  intros Hk Hsmall. unfold rfloat.
  set (x := rnd (IZR k * P)).
  destruct (rnd_spec (IZR k * P)) as [e0 [t0 [He0 [Ht0 E0]]]]. fold x in E0.
  destruct (rnd_spec (x / P)) as [e1 [t1 [He1 [Ht1 E1]]]].
  set (q := rnd (x / P)) in *.
  destruct (rnd_spec (q + / 2)) as [e2 [t2 [He2 [Ht2 E2]]]].
  set (s := rnd (q + / 2)) in *.
  set (K := Rabs (IZR k)) in *. assert (HK : - K <= IZR k <= K) by (apply Rabs_bounds, Rle_refl).
  assert (HK0 : 0 <= K) by apply Rabs_pos.
  assert (Iw : 0 < / P) by now apply Rinv_0_lt_compat.
  set (w := / P) in *.
  (* x / P = k + k e0 + t0 w *)
  set (m0 := IZR k * e0). assert (B0 : Rabs m0 <= K * u) by (apply Rabs_mul_le; [apply Rle_refl | exact He0]).
  set (n0 := t0 * w). assert (C0 : Rabs n0 <= eta * w) by (apply Rabs_mul_le; [exact Ht0 | rewrite Rabs_pos_eq; lra]).
  assert (XP : x / P = IZR k + m0 + n0) by (rewrite E0; unfold m0, n0, w; field; lra).
  assert (BXP : Rabs (x / P) <= K + K * u + eta * w).
  { rewrite XP. apply Rabs_bounds in B0, C0. apply Rabs_le. lra. }
  set (m1 := x / P * e1). assert (B1 : Rabs m1 <= (K + K * u + eta * w) * u) by (apply Rabs_mul_le; assumption).
  assert (Q : q = IZR k + (m0 + n0 + m1 + t1)) by (rewrite E1; unfold m1; rewrite XP; ring).
  set (dq := m0 + n0 + m1 + t1) in *.
  assert (0 <= K * u) by nra. assert (0 <= eta * w) by nra. assert (K * u * u <= K * u / 8) by nra.
  assert (eta * w * u <= eta * w / 8) by nra.
  assert (Bdq : Rabs dq <= 3 * u * K + 2 * eta * w + eta).
  { apply Rabs_bounds in B0, C0, B1, Ht1. apply Rabs_le. unfold dq. lra. }
  assert (BQ : Rabs (q + / 2) <= K + / 2 + (3 * u * K + 2 * eta * w + eta)).
  { rewrite Q. apply Rabs_bounds in Bdq. apply Rabs_le. lra. }
  set (m2 := (q + / 2) * e2).
  assert (B2 : Rabs m2 <= (K + / 2 + (3 * u * K + 2 * eta * w + eta)) * u) by (apply Rabs_mul_le; assumption).
  assert (S : s = IZR k + / 2 + (dq + m2 + t2)) by (rewrite E2; unfold m2; rewrite Q; ring).
  assert (Bs : Rabs (dq + m2 + t2) < / 2).
  { apply Rabs_bounds in Bdq, B2, Ht2.
    assert (eta * u <= eta / 8) by nra. assert (0 <= u * K) by nra.
    assert (u * (u * K) <= u * K / 8) by nra.
    apply Rabs_def1; lra. }
  apply Rabs_def2 in Bs.
  assert (Fl : Zfloor s = k).
  { apply Zfloor_imp. rewrite plus_IZR. simpl. lra. }
  rewrite Fl, Hk. reflexivity.
Qed.
End Fixed.

(* binary64: integers below 2^53 are represented exactly *)
Lemma rnd64_int k : (Z.abs k < 2 ^ 53)%Z -> rnd64 (IZR k) = IZR k.
Proof.
  intro Hk. unfold rnd64. apply round_generic; [apply valid_rnd_N|].
  apply generic_format_FLT. exists (Float radix2 k 0).
  - unfold F2R; simpl. ring.
  - simpl. lia.
  - simpl. lia.
Qed.

Theorem binary64_on_grid_fixed (P : R) (k : Z) : 0 < P -> (Z.abs k <= 2 ^ 40)%Z -> bpow radix2 (-1000) <= P ->
  rfloat rnd64 P (rnd64 (IZR k * P)) = rnd64 (IZR k * P).
Proof.
  intros HP Hk HPl.
  apply (rfloat_on_grid_fixed u64 eta64).
  - unfold u64. apply bpow_ge_0.
  - unfold u64. apply Rle_trans with (bpow radix2 (-3)); [apply bpow_le; lia | simpl; lra].
  - unfold eta64. apply bpow_ge_0.
  - apply rnd64_spec.
  - exact HP.
  - apply rnd64_int. lia.
  - assert (A : Rabs (IZR k) <= bpow radix2 40).
    { rewrite <- abs_IZR. change (bpow radix2 40) with (IZR (2 ^ 40)). now apply IZR_le. }
    assert (B : / P <= bpow radix2 1000).
    { replace (bpow radix2 1000) with (/ bpow radix2 (-1000)) by (rewrite <- bpow_opp; reflexivity).
      apply Rinv_le_contravar; [apply bpow_gt_0 | exact HPl]. }
    assert (U : u64 * (bpow radix2 40 + 1) <= bpow radix2 (-12)).
    { unfold u64. replace (bpow radix2 (-12)) with (bpow radix2 (-53) * bpow radix2 41) by (rewrite <- bpow_plus; reflexivity).
      apply Rmult_le_compat_l; [apply bpow_ge_0|]. change (bpow radix2 41) with (IZR (2 ^ 41)). change (bpow radix2 40) with (IZR (2 ^ 40)).
      rewrite <- plus_IZR. apply IZR_le. lia. }
    assert (E : eta64 * (bpow radix2 1000 + 1) <= bpow radix2 (-74)).
    { unfold eta64. replace (bpow radix2 (-74)) with (bpow radix2 (-1075) * bpow radix2 1001) by (rewrite <- bpow_plus; reflexivity).
      apply Rmult_le_compat_l; [apply bpow_ge_0|].
      replace (bpow radix2 1001) with (bpow radix2 1000 + bpow radix2 1000) by (replace 1001%Z with (1000 + 1)%Z by lia; rewrite bpow_plus; simpl; lra).
      assert (1 <= bpow radix2 1000) by (change 1 with (bpow radix2 0); apply bpow_le; lia). lra. }
    assert (0 <= u64) by (unfold u64; apply bpow_ge_0). assert (0 <= eta64) by (unfold eta64; apply bpow_ge_0).
    assert (0 <= Rabs (IZR k)) by apply Rabs_pos. assert (0 < / P) by now apply Rinv_0_lt_compat.
    assert (u64 * (Rabs (IZR k) + 1) <= bpow radix2 (-12)) by nra.
    assert (eta64 * (/ P + 1) <= bpow radix2 (-74)) by nra.
    assert (bpow radix2 (-12) <= / 64) by (apply Rle_trans with (bpow radix2 (-6)); [apply bpow_le; lia | simpl; lra]).
    assert (bpow radix2 (-74) <= / 32) by (apply Rle_trans with (bpow radix2 (-5)); [apply bpow_le; lia | simpl; lra]).
    lra.
Qed.

(* hence rounding twice is rounding once at the binary64 level too (whenever the tick count stays below 2^40) *)
Definition ticks64 (P x : R) : Z := Zfloor (rnd64 (rnd64 (x / P) + / 2)).
Corollary binary64_idempotent (P x : R) : 0 < P -> bpow radix2 (-1000) <= P -> (Z.abs (ticks64 P x) <= 2 ^ 40)%Z ->
  rfloat rnd64 P (rfloat rnd64 P x) = rfloat rnd64 P x.
Proof.
  intros HP HPl Hk. unfold rfloat at 2 3. fold (ticks64 P x).
  rewrite (rnd64_int (ticks64 P x)) by lia. now apply binary64_on_grid_fixed.
Qed.

(* ---- C13, monotone at the binary64 level ---- *)
Lemma rnd64_le x y : x <= y -> rnd64 x <= rnd64 y.
Proof. intro H. unfold rnd64. apply round_le; [apply FLT_exp_valid; unfold Prec_gt_0; lia | apply valid_rnd_N | exact H]. Qed.

(* rounding is monotone at the binary64 level *)
Theorem binary64_monotone (P x y : R) : 0 < P -> x <= y -> rfloat rnd64 P x <= rfloat rnd64 P y.
Proof.
  intros HP Hxy. unfold rfloat.
  apply rnd64_le. apply Rmult_le_compat_r; [lra|].
  apply rnd64_le. apply IZR_le. apply Zfloor_le.
  apply rnd64_le. apply Rplus_le_compat_r.
  apply rnd64_le. unfold Rdiv. apply Rmult_le_compat_r; [|exact Hxy].
  left. now apply Rinv_0_lt_compat.
Qed.
