(* C20: propagate_constraints computes exactly the closure of the cannot-link pairs under the
   must-link equivalence, raises exactly on a conflict, and terminates within the model's fuel. *)
From PV Require Import Model.Condensed Proofs.CondensedP.
From Coq Require Import Relations.Relation_Operators Relations.Operators_Properties.

(* ---------- sorted integer sets: zins / symdiff ---------- *)
Lemma zins_In x l z : In z (zins x l) <-> z = x \/ In z l.
Proof.
  induction l as [|y l IH]; cbn [zins]; [simpl; intuition|].
  destruct (x =? y) eqn:E1; [simpl; intuition; subst; left; lia|].
  destruct (x <? y) eqn:E2; simpl; [intuition|]. rewrite IH. intuition.
Qed.
Definition zsorted := StronglySorted Z.lt.
Lemma zins_sorted x l : zsorted l -> zsorted (zins x l).
Proof.
  unfold zsorted. induction l as [|y l IH]; cbn [zins]; intro H; [repeat constructor|].
  inversion H as [|? ? Hs F]; subst. destruct (x =? y) eqn:E1; [exact H|].
  destruct (x <? y) eqn:E2.
  - constructor; [exact H|]. constructor; [lia|]. rewrite Forall_forall in *. intros z Hz. specialize (F z Hz). lia.
  - constructor; [now apply IH|]. rewrite Forall_forall in *. intros z Hz. apply zins_In in Hz as [->|Hz]; [lia | now apply F].
Qed.
Lemma fold_zins_In l : forall acc z, In z (fold_left (fun acc x => zins x acc) l acc) <-> In z l \/ In z acc.
Proof.
  induction l as [|x l IH]; intros acc z; cbn [fold_left]; [simpl; tauto|].
  rewrite IH, zins_In. simpl. intuition.
Qed.
Lemma fold_zins_sorted l : forall acc, zsorted acc -> zsorted (fold_left (fun acc x => zins x acc) l acc).
Proof. induction l as [|x l IH]; intros acc H; cbn [fold_left]; [exact H|]. apply IH. now apply zins_sorted. Qed.
Lemma zmem_In x l : zmem x l = true <-> In x l.
Proof.
  unfold zmem. rewrite existsb_exists. split; [intros [y [Hy E]]; apply Z.eqb_eq in E; now subst | intro H; exists x; split; [exact H | lia]].
Qed.
Lemma symdiff_In a b z : In z (symdiff a b) <-> (In z a /\ ~ In z b) \/ (In z b /\ ~ In z a).
Proof.
  unfold symdiff. rewrite fold_zins_In, in_app_iff, !filter_In. simpl.
  assert (Ha : forall l, negb (zmem z l) = true <-> ~ In z l).
  { intro l. rewrite negb_true_iff. rewrite <- zmem_In. destruct (zmem z l); intuition congruence. }
  rewrite !Ha. tauto.
Qed.
Lemma symdiff_sorted a b : zsorted (symdiff a b).
Proof. unfold symdiff. apply fold_zins_sorted. constructor. Qed.
Lemma zset2_In a b z : In z (zset2 a b) <-> z = a \/ z = b.
Proof. unfold zset2. destruct (a =? b) eqn:E; simpl; lia. Qed.

Lemma zsorted_two a b : zsorted [a; b] -> a < b.
Proof. intro H. inversion H as [|? ? _ F]; subst. now inversion F. Qed.
Lemma zsorted_ext l1 : forall l2, zsorted l1 -> zsorted l2 -> (forall z, In z l1 <-> In z l2) -> l1 = l2.
Proof.
  unfold zsorted. induction l1 as [|x l1 IH]; intros l2 H1 H2 E.
  - destruct l2 as [|y l2]; [reflexivity|]. exfalso. apply (proj2 (E y)). now left.
  - destruct l2 as [|y l2]; [exfalso; apply (proj1 (E x)); now left|].
    inversion H1 as [|? ? S1 F1]; subst. inversion H2 as [|? ? S2 F2]; subst. rewrite Forall_forall in F1, F2.
    assert (x = y).
    { destruct (proj1 (E x) (or_introl eq_refl)) as [->|Hx]; [reflexivity|].
      destruct (proj2 (E y) (or_introl eq_refl)) as [->|Hy]; [reflexivity|].
      specialize (F1 y Hy). specialize (F2 x Hx). lia. }
    subst y. f_equal. apply IH; [assumption | assumption|]. intro z. split; intro Hz.
    + destruct (proj1 (E z) (or_intror Hz)) as [->|H]; [specialize (F1 z Hz); lia | exact H].
    + destruct (proj2 (E z) (or_intror Hz)) as [->|H]; [specialize (F2 z Hz); lia | exact H].
Qed.

(* the two shapes that matter: both sets have two elements *)
Lemma symdiff_empty u v x y : u < v -> x < y ->
  symdiff (zset2 u v) (zset2 x y) = [] -> u = x /\ v = y.
Proof.
  intros Huv Hxy E. pose proof (symdiff_In (zset2 u v) (zset2 x y)) as M. rewrite E in M.
  pose proof (M u) as Mu. pose proof (M v) as Mv. pose proof (M x) as Mx. pose proof (M y) as My.
  rewrite !zset2_In in Mu, Mv, Mx, My. simpl in Mu, Mv, Mx, My. lia.
Qed.
Lemma symdiff_pair u v x y a b : u < v -> x < y ->
  symdiff (zset2 u v) (zset2 x y) = [a; b] ->
  a < b /\ ((u = x /\ (a = v \/ a = y) /\ (b = v \/ b = y)) \/ (u = y /\ a = x /\ b = v) \/
            (v = x /\ a = u /\ b = y) \/ (v = y /\ (a = u \/ a = x) /\ (b = u \/ b = x))).
Proof.
  intros Huv Hxy E. pose proof (symdiff_In (zset2 u v) (zset2 x y)) as M.
  pose proof (symdiff_sorted (zset2 u v) (zset2 x y)) as S. rewrite E in M, S. apply zsorted_two in S.
  split; [exact S|]. clear E.
  assert (Mu := M u). assert (Mv := M v). assert (Mx := M x). assert (My := M y).
  assert (Fa := proj1 (M a) (or_introl eq_refl)). assert (Fb := proj1 (M b) (or_intror (or_introl eq_refl))). clear M.
  rewrite !zset2_In in Mu, Mv, Mx, My, Fa, Fb.
  destruct (Z.eq_dec u x) as [E1|N1]; [subst x; left; split; [reflexivity|]; clear Mu Mv Mx My; lia|].
  destruct (Z.eq_dec u y) as [E2|N2]; [subst y; right; left; split; [reflexivity|]; clear Mu Mv Mx My; lia|].
  destruct (Z.eq_dec v x) as [E3|N3]; [subst x; right; right; left; split; [reflexivity|]; clear Mu Mv Mx My; lia|].
  destruct (Z.eq_dec v y) as [E4|N4]; [subst y; right; right; right; split; [reflexivity|]; clear Mu Mv Mx My; lia|].
  exfalso. clear Fa Fb. simpl in Mu, Mv, Mx, My.
  assert (Au : u = a \/ u = b).
  { clear - Mu N1 N2. destruct Mu as [_ Mu]. destruct Mu as [?|[?|[]]]; [|auto|auto]. left. split; [now left|]. intros [?|?]; congruence. }
  assert (Av : v = a \/ v = b).
  { clear - Mv N3 N4. destruct Mv as [_ Mv]. destruct Mv as [?|[?|[]]]; [|auto|auto]. left. split; [now right|]. intros [?|?]; congruence. }
  assert (Ax : x = a \/ x = b).
  { clear - Mx N1 N3. destruct Mx as [_ Mx]. destruct Mx as [?|[?|[]]]; [|auto|auto]. right. split; [now left|]. intros [?|?]; congruence. }
  assert (Ay : y = a \/ y = b).
  { clear - My N2 N4. destruct My as [_ My]. destruct My as [?|[?|[]]]; [|auto|auto]. right. split; [now right|]. intros [?|?]; congruence. }
  clear Mu Mv Mx My. lia.
Qed.
(* forward direction: one shared element *)
Lemma symdiff_shared p q q' : p <> q -> q <> q' -> p <> q' ->
  symdiff (zset2 p q) (zset2 q q') = [Z.min p q'; Z.max p q'].
Proof.
  intros H1 H2 H3. apply zsorted_ext; [apply symdiff_sorted | repeat constructor; lia|].
  intro z. rewrite symdiff_In, !zset2_In. simpl. lia.
Qed.
Lemma symdiff_same p q : symdiff (zset2 p q) (zset2 q p) = [].
Proof.
  apply zsorted_ext; [apply symdiff_sorted | constructor|]. intro z. rewrite symdiff_In, !zset2_In. simpl. lia.
Qed.

(* ---------- pair sets ---------- *)
Lemma zp_eqb_eq p q : zp_eqb p q = true <-> p = q.
Proof. destruct p, q. unfold zp_eqb. cbn [fst snd]. split; [intro H; f_equal; lia | intro H; inversion H; subst; lia]. Qed.
Lemma ps_mem_In p s : ps_mem p s = true <-> In p s.
Proof.
  unfold ps_mem. rewrite existsb_exists. split.
  - intros [q [Hq E]]. apply zp_eqb_eq in E. now subst.
  - intro H. exists p. split; [exact H | now apply zp_eqb_eq].
Qed.
Lemma ps_add_In p s q : In q (ps_add p s) <-> q = p \/ In q s.
Proof.
  induction s as [|x s IH]; cbn [ps_add]; [simpl; intuition|].
  destruct (zp_eqb p x) eqn:E; [apply zp_eqb_eq in E; subst; simpl; intuition|].
  destruct (zp_ltb p x); simpl; [intuition|]. rewrite IH. intuition.
Qed.
Lemma fold_ps_add_In nw : forall s q, In q (fold_left (fun s p => ps_add p s) nw s) <-> In q nw \/ In q s.
Proof.
  induction nw as [|p nw IH]; intros s q; cbn [fold_left]; [simpl; tauto|].
  rewrite IH, ps_add_In. simpl. intuition.
Qed.
Lemma ps_of_In l q : In q (ps_of l) <-> In q l.
Proof. unfold ps_of. rewrite fold_ps_add_In. simpl. tauto. Qed.

(* ---------- what one pass produces ---------- *)
Definition produced (cl ml : list zpair) (p : zpair) : Prop :=
  ps_mem p cl = false /\
  exists xy uv, In xy ml /\ In uv cl /\
    symdiff (zset2 (fst uv) (snd uv)) (zset2 (fst xy) (snd xy)) = [fst p; snd p].
Definition conflict (cl ml : list zpair) : Prop :=
  exists xy uv, In xy ml /\ In uv cl /\ symdiff (zset2 (fst uv) (snd uv)) (zset2 (fst xy) (snd xy)) = [].

Lemma inner_facts cl ml xy l : In xy ml -> incl l cl -> forall nw,
  Forall (produced cl ml) nw ->
  match inner cl xy (Some nw) l with
  | Some r => Forall (produced cl ml) r
  | None => conflict cl ml
  end.
Proof.
  intros Hxy. induction l as [|uv l IH]; intros Hl nw Hn; cbn [inner fold_left]; [exact Hn|].
  assert (Huv : In uv cl) by (apply Hl; now left).
  assert (Hl' : incl l cl) by (intros z Hz; apply Hl; now right).
  fold (inner cl xy).
  destruct (symdiff (zset2 (fst uv) (snd uv)) (zset2 (fst xy) (snd xy))) as [|a [|b [|c t]]] eqn:E.
  - change (fold_left _ l None) with (inner cl xy None l). rewrite inner_none. exists xy, uv. tauto.
  - apply (IH Hl' nw Hn).
  - destruct (ps_mem (a, b) cl) eqn:Em.
    + apply (IH Hl' nw Hn).
    + apply (IH Hl'). apply Forall_app. split; [exact Hn|]. constructor; [|constructor].
      split; [exact Em|]. exists xy, uv. cbn [fst snd]. tauto.
  - apply (IH Hl' nw Hn).
Qed.
Lemma outer_facts cl ml0 ml : incl ml ml0 -> forall acc,
  match acc with Some nw => Forall (produced cl ml0) nw | None => conflict cl ml0 end ->
  match fold_left (fun acc xy => inner cl xy acc cl) ml acc with
  | Some r => Forall (produced cl ml0) r
  | None => conflict cl ml0
  end.
Proof.
  induction ml as [|xy ml IH]; intros Hm acc Ha; cbn [fold_left]; [exact Ha|].
  apply IH; [intros z Hz; apply Hm; now right|].
  destruct acc as [nw|].
  - apply (inner_facts cl ml0 xy cl); [apply Hm; now left | apply incl_refl | exact Ha].
  - rewrite inner_none. exact Ha.
Qed.
Lemma pass_facts cl ml :
  match prop_pass cl ml with
  | Some r => Forall (produced cl ml) r
  | None => conflict cl ml
  end.
Proof. rewrite prop_pass_unfold. apply (outer_facts cl ml ml (incl_refl _) (Some [])). constructor. Qed.

(* ---------- specification: closure under the must-link equivalence ---------- *)
Section Spec.
Variables cl0 ml : list zpair.
Hypothesis cl0_nd : forall u v, In (u, v) cl0 -> u <> v.
Hypothesis ml_nd : forall x y, In (x, y) ml -> x <> y.

Definition edge (x y : Z) : Prop := In (x, y) ml \/ In (y, x) ml.
Definition meq : Z -> Z -> Prop := clos_refl_sym_trans Z edge.
Definition implied (a b : Z) : Prop :=
  exists u v, In (u, v) cl0 /\ ((meq a u /\ meq b v) \/ (meq a v /\ meq b u)).

Lemma meq_refl a : meq a a. Proof. apply rst_refl. Qed.
Lemma meq_sym a b : meq a b -> meq b a. Proof. apply rst_sym. Qed.
Lemma meq_trans a b c : meq a b -> meq b c -> meq a c. Proof. apply rst_trans. Qed.
Lemma meq_edge a b : edge a b -> meq a b. Proof. apply rst_step. Qed.
Lemma implied_sym a b : implied a b -> implied b a.
Proof. intros [u [v [H [[A B]|[A B]]]]]; exists u, v; (split; [exact H|]); [right | left]; tauto. Qed.
Lemma implied_l a a' b : meq a a' -> implied a b -> implied a' b.
Proof.
  intros E [u [v [H [[A B]|[A B]]]]]; exists u, v; (split; [exact H|]); [left | right];
    (split; [eapply meq_trans; [apply meq_sym; exact E | exact A] | exact B]).
Qed.
Lemma implied_r a b b' : meq b b' -> implied a b -> implied a b'.
Proof. intros E H. apply implied_sym. apply (implied_l b b' a E). now apply implied_sym. Qed.

(* the invariant: every stored pair is sorted and implied *)
Definition Sound (cl : list zpair) : Prop := forall a b, In (a, b) cl -> a < b /\ implied a b.

Lemma ml_norm xy : In xy ml ->
  zset2 (fst xy) (snd xy) = zset2 (Z.min (fst xy) (snd xy)) (Z.max (fst xy) (snd xy)) /\
  Z.min (fst xy) (snd xy) < Z.max (fst xy) (snd xy) /\
  edge (Z.min (fst xy) (snd xy)) (Z.max (fst xy) (snd xy)).
Proof.
  destruct xy as [x y]. cbn [fst snd]. intro H. pose proof (ml_nd x y H) as N. split; [|split; [lia|]].
  - unfold zset2. replace (x =? y) with false by lia. replace (Z.min x y =? Z.max x y) with false by lia.
    rewrite Z.min_id || idtac. f_equal; [|f_equal]; lia.
  - unfold edge. destruct (Z.le_gt_cases x y); [rewrite Z.min_l, Z.max_r by lia; now left | rewrite Z.min_r, Z.max_l by lia; now right].
Qed.
Lemma cl_norm u v : u < v -> zset2 u v = zset2 (Z.min u v) (Z.max u v) /\ Z.min u v = u /\ Z.max u v = v.
Proof. intro H. rewrite Z.min_l, Z.max_r by lia. tauto. Qed.

Lemma produced_sound cl p : Sound cl -> produced cl ml p -> fst p < snd p /\ implied (fst p) (snd p).
Proof.
  intros S [_ [xy [[u v] [Hxy [Huv E]]]]]. cbn [fst snd] in E. destruct (S u v Huv) as [Luv Iuv].
  destruct (ml_norm xy Hxy) as [N1 [N2 N3]]. rewrite N1 in E.
  set (x := Z.min (fst xy) (snd xy)) in *. set (y := Z.max (fst xy) (snd xy)) in *.
  destruct (symdiff_pair u v x y (fst p) (snd p) Luv N2 E) as [Lab C]. split; [exact Lab|].
  pose proof (meq_edge x y N3) as Exy.
  destruct C as [[-> [Ha Hb]]|[[-> [Ha Hb]]|[[-> [Ha Hb]]|[-> [Ha Hb]]]]].
  - (* u = x : {a, b} = {v, y} *)
    assert (implied y v) by (apply (implied_l x y v Exy Iuv)).
    destruct Ha as [Ha|Ha], Hb as [Hb|Hb]; rewrite Ha, Hb in *; try lia; [now apply implied_sym | assumption].
  - (* u = y : (x, v) *) rewrite Ha, Hb. apply (implied_l y x v (meq_sym _ _ Exy) Iuv).
  - (* v = x : (u, y) *) rewrite Ha, Hb. apply (implied_r u x y Exy Iuv).
  - (* v = y : {a, b} = {u, x} *)
    assert (implied u x) by (apply (implied_r u y x (meq_sym _ _ Exy) Iuv)).
    destruct Ha as [Ha|Ha], Hb as [Hb|Hb]; rewrite Ha, Hb in *; try lia; [assumption | now apply implied_sym].
Qed.

Lemma Sound_step cl nw : Sound cl -> Forall (produced cl ml) nw ->
  Sound (fold_left (fun s p => ps_add p s) nw cl).
Proof.
  intros S F a b H. apply (proj1 (fold_ps_add_In _ _ _)) in H as [H|H]; [|now apply S].
  rewrite Forall_forall in F. apply (produced_sound cl (a, b) S (F _ H)).
Qed.

Lemma Sound_init : Sound (ps_of (map sorted_pair cl0)).
Proof.
  intros a b H. apply (proj1 (ps_of_In _ _)) in H. apply (proj1 (in_map_iff _ _ _)) in H as [[u v] [E H]].
  unfold sorted_pair in E. cbn [fst snd] in E. inversion E; subst. pose proof (cl0_nd u v H). split; [lia|].
  exists u, v. split; [exact H|].
  destruct (Z.le_gt_cases u v); [rewrite Z.min_l, Z.max_r by lia; left | rewrite Z.min_r, Z.max_l by lia; right];
    split; apply meq_refl.
Qed.

Lemma prop_loop_sound fuel : forall cl r, Sound cl -> prop_loop fuel cl ml = Some (Some r) -> Sound r.
Proof.
  induction fuel as [|f IH]; intros cl r S H; cbn [prop_loop] in H; [discriminate|].
  pose proof (pass_facts cl ml) as PF.
  destruct (prop_pass cl ml) as [[|p nw]|]; [now inversion H; subst | | discriminate].
  apply (IH _ r (Sound_step cl (p :: nw) S PF) H).
Qed.
(* soundness / minimality: nothing but implied pairs is returned *)
Theorem propagate_sound r : propagate cl0 ml = Some (Some r) ->
  forall a b, In (a, b) r -> a < b /\ implied a b.
Proof. intro H. apply (prop_loop_sound _ _ r Sound_init H). Qed.

(* a conflict found by a pass is a genuine one: a must-link group contains a cannot-link pair *)
Lemma conflict_genuine cl : Sound cl -> conflict cl ml -> exists u v, In (u, v) cl0 /\ meq u v.
Proof.
  intros S [xy [[u v] [Hxy [Huv E]]]]. cbn [fst snd] in E. destruct (S u v Huv) as [Luv [u0 [v0 [H0 Hi]]]].
  destruct (ml_norm xy Hxy) as [N1 [N2 N3]]. rewrite N1 in E.
  destruct (symdiff_empty u v _ _ Luv N2 E) as [-> ->]. pose proof (meq_edge _ _ N3) as Exy.
  exists u0, v0. split; [exact H0|].
  destruct Hi as [[A B]|[A B]].
  - eapply meq_trans; [apply meq_sym; exact A|]. eapply meq_trans; [exact Exy | exact B].
  - eapply meq_trans; [apply meq_sym; exact B|]. eapply meq_trans; [apply meq_sym; exact Exy | exact A].
Qed.
Lemma prop_loop_error fuel : forall cl, Sound cl -> prop_loop fuel cl ml = Some None ->
  exists u v, In (u, v) cl0 /\ meq u v.
Proof.
  induction fuel as [|f IH]; intros cl S H; cbn [prop_loop] in H; [discriminate|].
  pose proof (pass_facts cl ml) as PF.
  destruct (prop_pass cl ml) as [[|p nw]|]; [discriminate | | now apply (conflict_genuine cl S)].
  apply (IH _ (Sound_step cl (p :: nw) S PF) H).
Qed.

(* completeness: a returned set contains every implied pair, and no cannot-link pair is
   inside a must-link group *)
Lemma closed_edge r p q q' : pass_closed r ml -> (forall a b, In (a, b) r -> a < b) ->
  In (sorted_pair (p, q)) r -> p <> q -> edge q q' -> p <> q' /\ In (sorted_pair (p, q')) r.
Proof.
  intros C Sr Hin Npq Eq.
  assert (Nqq : q <> q') by (destruct Eq as [H|H]; [apply (ml_nd _ _ H) | intro; subst; now apply (ml_nd _ _ H)]).
  assert (exists xy, In xy ml /\ zset2 (fst xy) (snd xy) = zset2 q q') as [xy [Hxy Exy]].
  { destruct Eq as [H|H]; [exists (q, q') | exists (q', q)]; (split; [exact H|]); cbn [fst snd]; [reflexivity|].
    unfold zset2. replace (q' =? q) with false by lia. replace (q =? q') with false by lia. f_equal; [|f_equal]; lia. }
  pose proof (C xy _ Hxy Hin) as RO. unfold rule_ok in RO. rewrite Exy in RO.
  unfold sorted_pair in RO. cbn [fst snd] in RO.
  replace (zset2 (Z.min p q) (Z.max p q)) with (zset2 p q) in RO
    by (unfold zset2; replace (p =? q) with false by lia; replace (Z.min p q =? Z.max p q) with false by lia;
        f_equal; [|f_equal]; lia).
  destruct (Z.eq_dec p q') as [->|Npq'].
  - rewrite symdiff_same in RO. destruct RO.
  - split; [exact Npq'|]. rewrite (symdiff_shared p q q' Npq Nqq Npq') in RO. apply (proj1 (ps_mem_In _ _)) in RO. exact RO.
Qed.
Lemma sorted_pair_swap a b : sorted_pair (a, b) = sorted_pair (b, a).
Proof. unfold sorted_pair. cbn [fst snd]. f_equal; lia. Qed.

Lemma closed_meq_r r p : pass_closed r ml -> (forall a b, In (a, b) r -> a < b) ->
  forall q q', meq q q' -> (p <> q /\ In (sorted_pair (p, q)) r) -> (p <> q' /\ In (sorted_pair (p, q')) r).
Proof.
  intros C Sr q q' E. apply (proj1 (clos_rst_rst1n_iff _ _ _ _)) in E.
  induction E as [q|q m q' Hstep _ IH]; [tauto|].
  intros [N H]. apply IH. destruct Hstep as [Hs|Hs].
  - apply (closed_edge r p q m C Sr H N Hs).
  - apply (closed_edge r p q m C Sr H N). destruct Hs as [Hs|Hs]; [now right | now left].
Qed.

Theorem closed_complete r : pass_closed r ml -> (forall a b, In (a, b) r -> a < b) ->
  (forall q, In q (map sorted_pair cl0) -> In q r) ->
  forall a b, implied a b -> a <> b /\ In (sorted_pair (a, b)) r.
Proof.
  intros C Sr Ext a b [u [v [H0 Hi]]].
  assert (Huv : u <> v /\ In (sorted_pair (u, v)) r).
  { split; [now apply cl0_nd|]. apply Ext. apply in_map_iff. now exists (u, v). }
  assert (Step : forall p q p' q', p <> q /\ In (sorted_pair (p, q)) r -> meq p p' -> meq q q' ->
                                   p' <> q' /\ In (sorted_pair (p', q')) r).
  { intros p q p' q' Hpq Ep Eq.
    pose proof (closed_meq_r r p C Sr q q' Eq Hpq) as [N1 H1].
    rewrite sorted_pair_swap in H1.
    destruct (closed_meq_r r q' C Sr p p' Ep (conj (not_eq_sym N1) H1)) as [N2 H2].
    rewrite sorted_pair_swap in H2. split; [congruence | exact H2]. }
  destruct Hi as [[A B]|[A B]].
  - apply (Step u v a b Huv (meq_sym _ _ A) (meq_sym _ _ B)).
  - destruct (Step u v b a Huv (meq_sym _ _ B) (meq_sym _ _ A)) as [N H]. rewrite sorted_pair_swap in H. split; [congruence | exact H].
Qed.
End Spec.

(* ---------- termination: the model's fuel is never exhausted ---------- *)
Lemma filter_len_mono {A} (f g : A -> bool) l : (forall q, In q l -> f q = true -> g q = true) ->
  (List.length (filter f l) <= List.length (filter g l))%nat.
Proof.
  induction l as [|x l IH]; intro H; cbn [filter]; [lia|].
  assert (IH' := IH (fun q Hq => H q (or_intror Hq))).
  destruct (f x) eqn:Ef; [rewrite (H x (or_introl eq_refl) Ef); cbn [List.length]; lia|].
  destruct (g x); cbn [List.length]; lia.
Qed.
Lemma filter_len_strict {A} (f g : A -> bool) l p : (forall q, In q l -> f q = true -> g q = true) ->
  In p l -> f p = false -> g p = true -> (List.length (filter f l) < List.length (filter g l))%nat.
Proof.
  induction l as [|x l IH]; intros H Hp Fp Gp; [destruct Hp|]. cbn [filter].
  assert (M := filter_len_mono f g l (fun q Hq => H q (or_intror Hq))).
  destruct Hp as [->|Hp].
  - rewrite Fp, Gp. cbn [List.length]. lia.
  - assert (IH' := IH (fun q Hq => H q (or_intror Hq)) Hp Fp Gp).
    destruct (f x) eqn:Ef; [rewrite (H x (or_introl eq_refl) Ef); cbn [List.length]; lia|].
    destruct (g x); cbn [List.length]; lia.
Qed.
Lemma filter_len_le {A} (f : A -> bool) l : (List.length (filter f l) <= List.length l)%nat.
Proof. induction l as [|x l IH]; cbn [filter]; [lia|]. destruct (f x); cbn [List.length]; lia. Qed.

Lemma vertices_fold l : forall acc z,
  In z (fold_left (fun acc (p : zpair) => zins (fst p) (zins (snd p) acc)) l acc) <->
  (exists p, In p l /\ (z = fst p \/ z = snd p)) \/ In z acc.
Proof.
  induction l as [|q l IH]; intros acc z; cbn [fold_left].
  - split; [now right | intros [[p [[] _]]|H]; exact H].
  - rewrite IH, !zins_In. split.
    + intros [[p [Hp Hz]]|[->|[->|H]]]; [left; exists p; split; [now right | exact Hz] | left; exists q; split; [now left | now left]
        | left; exists q; split; [now left | now right] | now right].
    + intros [[p [[->|Hp] Hz]]|H]; [right; destruct Hz as [->| ->]; tauto | left; exists p; tauto | right; tauto].
Qed.

Section Term.
Variables cl0 ml : list zpair.
Let V := vertices cl0 ml.
Let U := list_prod V V.
Definition cnt (cl : list zpair) : nat := List.length (filter (fun p => ps_mem p cl) U).
Definition inV (cl : list zpair) : Prop := forall a b, In (a, b) cl -> In a V /\ In b V.

Lemma V_In z : In z V <-> exists p, In p (cl0 ++ ml) /\ (z = fst p \/ z = snd p).
Proof. unfold V, vertices. rewrite vertices_fold. simpl. tauto. Qed.
Lemma U_len : List.length U = (List.length V * List.length V)%nat.
Proof. apply prod_length. Qed.
Lemma cnt_le cl : (cnt cl <= List.length V * List.length V)%nat.
Proof. rewrite <- U_len. apply filter_len_le. Qed.

Lemma produced_inV cl p : inV cl -> produced cl ml p -> In (fst p) V /\ In (snd p) V.
Proof.
  intros Hv [_ [xy [[u v] [Hxy [Huv E]]]]]. cbn [fst snd] in E. destruct (Hv u v Huv) as [Vu Vv].
  assert (Hz : forall z, In z [fst p; snd p] -> In z V).
  { intros z Hz. rewrite <- E in Hz. apply (proj1 (symdiff_In _ _ _)) in Hz. rewrite !zset2_In in Hz.
    destruct Hz as [[[->| ->] _]|[[->| ->] _]]; try assumption; apply V_In; exists xy; (split; [apply in_or_app; now right|]); tauto. }
  split; apply Hz; simpl; tauto.
Qed.
Lemma step_grows cl p nw : inV cl -> Forall (produced cl ml) (p :: nw) ->
  inV (fold_left (fun s q => ps_add q s) (p :: nw) cl) /\
  (cnt cl < cnt (fold_left (fun s q => ps_add q s) (p :: nw) cl))%nat.
Proof.
  intros Hv F. split.
  - intros a b H. apply (proj1 (fold_ps_add_In _ _ _)) in H as [H|H]; [|now apply Hv].
    rewrite Forall_forall in F. apply (produced_inV cl (a, b) Hv (F _ H)).
  - inversion F as [|? ? Pp _]; subst. destruct (produced_inV cl p Hv Pp) as [V1 V2]. destruct Pp as [Pm _].
    unfold cnt. apply (filter_len_strict _ _ U p).
    + intros q _ Hq. apply fold_ps_add_mem. exact Hq.
    + unfold U. destruct p as [a b]. apply in_prod; assumption.
    + exact Pm.
    + apply ps_mem_In. apply fold_ps_add_In. left. now left.
Qed.

Lemma prop_loop_fuel fuel : forall cl, inV cl ->
  (List.length V * List.length V < fuel + cnt cl)%nat -> prop_loop fuel cl ml <> None.
Proof.
  induction fuel as [|f IH]; intros cl Hv Hf; [pose proof (cnt_le cl); lia|].
  cbn [prop_loop]. pose proof (pass_facts cl ml) as PF.
  destruct (prop_pass cl ml) as [[|p nw]|]; [discriminate | | discriminate].
  destruct (step_grows cl p nw Hv PF) as [Hv' Hc]. apply IH; [exact Hv' | lia].
Qed.

Theorem propagate_terminates : propagate cl0 ml <> None.
Proof.
  unfold propagate. fold V. apply prop_loop_fuel; [|lia].
  intros a b H. apply (proj1 (ps_of_In _ _)) in H. apply (proj1 (in_map_iff _ _ _)) in H as [[u v] [E H]].
  unfold sorted_pair in E. cbn [fst snd] in E. inversion E; subst.
  assert (Vu : In u V) by (apply V_In; exists (u, v); split; [apply in_or_app; now left | now left]).
  assert (Vv : In v V) by (apply V_In; exists (u, v); split; [apply in_or_app; now left | now right]).
  destruct (Z.le_gt_cases u v); [rewrite Z.min_l, Z.max_r by lia | rewrite Z.min_r, Z.max_l by lia]; tauto.
Qed.
End Term.

(* ---------- the property ---------- *)
Section Final.
Variables cl0 ml : list zpair.
Hypothesis cl0_nd : forall u v, In (u, v) cl0 -> u <> v.
Hypothesis ml_nd : forall x y, In (x, y) ml -> x <> y.

Theorem propagate_complete r : propagate cl0 ml = Some (Some r) ->
  forall a b, implied cl0 ml a b -> a <> b /\ In (sorted_pair (a, b)) r.
Proof.
  intro H. apply (closed_complete cl0 ml cl0_nd ml_nd r).
  - now apply (propagate_closed cl0 ml).
  - intros a b Hin. now apply (propagate_sound cl0 ml cl0_nd ml_nd r H a b).
  - intros q Hq. apply ps_mem_In. apply (prop_loop_extends _ _ _ _ q H). apply ps_mem_In. now apply ps_of_In.
Qed.

(* exactly the implied pairs, each in sorted form *)
Corollary propagate_exact r : propagate cl0 ml = Some (Some r) ->
  forall a b, In (a, b) r <-> a < b /\ implied cl0 ml a b.
Proof.
  intros H a b. split; [apply (propagate_sound cl0 ml cl0_nd ml_nd r H)|].
  intros [L Hi]. destruct (propagate_complete r H a b Hi) as [_ Hin].
  unfold sorted_pair in Hin. cbn [fst snd] in Hin. now rewrite Z.min_l, Z.max_r in Hin by lia.
Qed.

(* ValueError exactly when a must-link group contains a cannot-link pair *)
Theorem propagate_error_iff :
  propagate cl0 ml = Some None <-> exists u v, In (u, v) cl0 /\ meq ml u v.
Proof.
  split.
  - intro H. apply (prop_loop_error cl0 ml cl0_nd ml_nd _ _ (Sound_init cl0 ml cl0_nd ml_nd) H).
  - intros [u [v [H0 E]]]. destruct (propagate cl0 ml) as [[r|]|] eqn:P; [|reflexivity|].
    + exfalso. assert (Hi : implied cl0 ml v v).
      { exists u, v. split; [exact H0|]. left. split; [now apply meq_sym | apply meq_refl]. }
      destruct (propagate_complete r P v v Hi) as [N _]. now apply N.
    + exfalso. now apply (propagate_terminates cl0 ml).
Qed.
End Final.
