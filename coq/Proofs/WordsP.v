(* C19 / C09: string_generator's words are the bijective base-26 numerals: the i-th word has
   value i + 1 and consists of capital letters only; hence distinct indices give distinct words. *)
From PV Require Import Model.Generators.
From Coq Require Import Lia ZifyNat.
Local Open Scope Z_scope.

Definition code (c : ascii) : Z := Z.of_nat (nat_of_ascii c).
(* value of a string read as a bijective base-26 numeral, 'A' = 1 .. 'Z' = 26 *)
Fixpoint valL (acc : Z) (s : string) : Z :=
  match s with EmptyString => acc | String c r => valL (26 * acc + (code c - 64)) r end.
Fixpoint all_caps (s : string) : Prop :=
  match s with EmptyString => True | String c r => 65 <= code c <= 90 /\ all_caps r end.

Lemma code_letter r : 0 <= r < 26 -> code (letter r) = 65 + r.
Proof.
  intro H. unfold code, letter. rewrite nat_ascii_embedding; lia.
Qed.

Lemma pow26_succ f : 26 ^ Z.of_nat (S f) = 26 * 26 ^ Z.of_nat f.
Proof. rewrite Nat2Z.inj_succ, Z.pow_succ_r by lia. reflexivity. Qed.

Lemma bij26_unfold f n acc : 0 < n ->
  bij26 (S f) n acc = bij26 f ((n - 1) / 26) (String (letter ((n - 1) mod 26)) acc).
Proof. intro H. cbn [bij26]. destruct (n <=? 0) eqn:E; [lia | reflexivity]. Qed.
Lemma bij26_zero f acc n : n <= 0 -> bij26 f n acc = acc.
Proof. intro H. destruct f; cbn [bij26]; [reflexivity|]. destruct (n <=? 0) eqn:E; [reflexivity | lia]. Qed.

Lemma bij26_val f : forall n acc, 0 <= n < 26 ^ Z.of_nat f -> valL 0 (bij26 f n acc) = valL n acc.
Proof.
  induction f as [|f IH]; intros n acc H.
  - cbn [bij26]. replace n with 0 by (simpl in H; lia). reflexivity.
  - destruct (Z.eq_dec n 0) as [->|Hn]; [now rewrite bij26_zero by lia|].
    rewrite bij26_unfold by lia. rewrite pow26_succ in H.
    pose proof (Z.div_mod (n - 1) 26 ltac:(lia)) as DM.
    pose proof (Z.mod_pos_bound (n - 1) 26 ltac:(lia)) as MB.
    rewrite IH.
    + cbn [valL]. rewrite code_letter by lia. f_equal. lia.
    + split; [apply Z.div_pos; lia|]. apply Z.div_lt_upper_bound; lia.
Qed.

Lemma bij26_caps f : forall n acc, all_caps acc -> all_caps (bij26 f n acc).
Proof.
  induction f as [|f IH]; intros n acc H; cbn [bij26]; [exact H|].
  destruct (n <=? 0); [exact H|]. apply IH. cbn [all_caps]. split; [|exact H].
  pose proof (Z.mod_pos_bound (n - 1) 26 ltac:(lia)). rewrite code_letter; lia.
Qed.

Definition word_bound : Z := 26 ^ 64 - 1.

(* closed form: the i-th word is the bijective base-26 numeral of i + 1 *)
Theorem word_value i : 0 <= i < word_bound -> valL 0 (word i) = i + 1.
Proof.
  intro H. unfold word. rewrite bij26_val; [reflexivity|].
  unfold word_bound in H. change (Z.of_nat 64) with 64. lia.
Qed.
Theorem word_caps i : all_caps (word i).
Proof. unfold word. apply bij26_caps. exact I. Qed.
Theorem word_inj i j : 0 <= i < word_bound -> 0 <= j < word_bound -> word i = word j -> i = j.
Proof.
  intros Hi Hj E. pose proof (word_value i Hi) as A. pose proof (word_value j Hj) as B.
  rewrite E in A. lia.
Qed.
Example word_examples : word 0 = "A"%string /\ word 25 = "Z"%string /\ word 26 = "AA"%string /\ word 701 = "ZZ"%string /\ word 702 = "AAA"%string.
Proof. vm_compute. repeat split. Qed.
Global Opaque word_bound.
