(* C10 for every time precision eps >= 0: segmentation().  A stretch between two consecutive boundaries that is
   no longer than eps is an EMPTY segment for the library and is dropped, so "covers exactly" holds up to such
   slivers; everything else (bounds, no split elsewhere, inside the merged support, disjointness, refinement)
   is exact.  At eps = 0 this is SegmentationP. *)
From PV Require Import Model.Timeline Proofs.SegmentP Proofs.SortedP Proofs.TimelineInvP
  Proofs.OverlappingP Proofs.SupportP Proofs.CropP Proofs.GapsP Proofs.SegmentationP.

Section SegmentationEps.
Variable eps : Z.
Hypothesis Heps : 0 <= eps.
Variable l : list seg.
Hypothesis Hl : wf eps l.
Let sup_l := support eps 0 l.

Lemma sup_bounds_eps r : In r sup_l -> is_bound l (st r) /\ is_bound l (en r).
Proof.
  unfold sup_l. rewrite (support_is_support_iter eps 0 Heps l Hl). intro Ir.
  destruct (support_iter_bounds eps 0 Heps l r Hl Ir) as [[a [Ia Ea]] [b [Ib Eb]]].
  split; [exists a | exists b]; tauto.
Qed.

Lemma kept_iff_eps a b : a < b -> clean l a b ->
  (overlapping2 (middle2 (a, b)) sup_l <> [] <-> exists r, In r sup_l /\ st r <= a /\ b <= en r).
Proof.
  intros Hab Hc. unfold middle2. pairs.
  assert (Hss : ssorted sup_l) by apply tl_of_sorted.
  rewrite (overlapping2_spec _ sup_l Hss). split.
  - intro H. destruct (filter _ sup_l) as [|r rest] eqn:E; [contradiction|].
    assert (Ir : In r (filter (fun s => (2 * st s <=? a + b) && (2 * en s >=? a + b)) sup_l)) by (rewrite E; now left).
    apply filter_In in Ir as [Ir Hr]. exists r. split; [assumption|].
    destruct (sup_bounds_eps r Ir) as [B1 B2]. destruct (Hc _ B1), (Hc _ B2); lia.
  - intros [r [Ir Hr]] E.
    assert (In r (filter (fun s => (2 * st s <=? a + b) && (2 * en s >=? a + b)) sup_l))
      by (apply filter_In; split; [assumption | lia]).
    rewrite E in H. contradiction.
Qed.

Definition keepb_eps (p : seg) : bool :=
  nonempty eps p && negb (match overlapping2 (middle2 p) sup_l with [] => true | _ => false end).

Lemma seg_pieces_In_eps ts : forall start p,
  In p (seg_pieces eps sup_l start ts) <-> (consec (start :: ts) (st p) (en p) /\ keepb_eps p = true).
Proof.
  induction ts as [|e r IH]; intros start p; [simpl; tauto|].
  change (seg_pieces eps sup_l start (e :: r)) with
    (if keepb_eps (start, e) then (start, e) :: seg_pieces eps sup_l e r else seg_pieces eps sup_l e r).
  assert (Hc : consec (start :: e :: r) (st p) (en p) <-> ((st p = start /\ en p = e) \/ consec (e :: r) (st p) (en p)))
    by reflexivity.
  rewrite Hc. destruct (keepb_eps (start, e)) eqn:E.
  - simpl In. rewrite IH. split.
    + intros [<-|[H1 H2]]; [split; [left; now pairs | exact E] | tauto].
    + intros [[[H1 H2]|H] Hk]; [left; destruct p; unfold st, en in *; simpl in *; now subst | tauto].
  - rewrite IH. split; [tauto|]. intros [[[H1 H2]|H] Hk]; [|tauto].
    destruct p; unfold st, en in *; simpl in *; subst. congruence.
Qed.

Lemma bounds_clean_eps a b : consec (bounds_of l) a b ->
  a < b /\ is_bound l a /\ is_bound l b /\ clean l a b.
Proof.
  intro Hc. destruct (consec_props _ a b (bounds_of_strict l) Hc) as [H1 [H2 [H3 H4]]].
  repeat split; auto; try (now apply bounds_of_In).
  intros z Hz. apply H4. now apply bounds_of_In.
Qed.

Lemma keepb_iff_eps a b : a < b -> clean l a b ->
  (keepb_eps (a, b) = true <-> b - a > eps /\ exists r, In r sup_l /\ st r <= a /\ b <= en r).
Proof.
  intros Hab Hc. rewrite <- (kept_iff_eps a b Hab Hc). unfold keepb_eps, nonempty. pairs.
  destruct (overlapping2 (middle2 (a, b)) sup_l); split.
  - intro H. apply andb_true_iff in H as [_ H]. discriminate.
  - intros [_ H]. contradiction.
  - intro H. apply andb_true_iff in H as [H _]. split; [lia | discriminate].
  - intros [H _]. apply andb_true_iff. split; [lia | reflexivity].
Qed.

Lemma segmentation_In_eps p :
  In p (segmentation eps l) <-> (consec (bounds_of l) (st p) (en p) /\ keepb_eps p = true).
Proof.
  unfold segmentation. fold (bounds_of l). fold sup_l.
  destruct (bounds_of l) as [|t0 ts] eqn:E.
  - simpl. tauto.
  - rewrite tl_of_In, seg_pieces_In_eps. split; [tauto|]. intros [H1 H2]. split; [tauto|].
    unfold keepb_eps in H2. apply andb_true_iff in H2 as [H2 _]. exact H2.
Qed.

(* every piece is longer than eps, is bounded by two consecutive original boundaries (so it is split nowhere
   else), and lies inside one region of the merged support *)
Theorem segmentation_pieces_eps p : In p (segmentation eps l) ->
  en p - st p > eps /\ is_bound l (st p) /\ is_bound l (en p) /\ clean l (st p) (en p) /\
  (exists r, In r (support eps 0 l) /\ st r <= st p /\ en p <= en r).
Proof.
  intro Ip. apply segmentation_In_eps in Ip as [Hc Hk].
  destruct (bounds_clean_eps _ _ Hc) as [H1 [H2 [H3 H4]]].
  replace p with (st p, en p) in Hk by (destruct p; reflexivity).
  apply (keepb_iff_eps _ _ H1 H4) in Hk as [Hlen Hr]. repeat split; auto.
Qed.

(* pieces do not overlap *)
Theorem segmentation_disjoint_eps p q : In p (segmentation eps l) -> In q (segmentation eps l) ->
  p = q \/ en p <= st q \/ en q <= st p.
Proof.
  intros Ip Iq. apply segmentation_In_eps in Ip as [Hp _]. apply segmentation_In_eps in Iq as [Hq _].
  destruct (consec_props _ _ _ (bounds_of_strict l) Hp) as [P1 [P2 [P3 P4]]].
  destruct (consec_props _ _ _ (bounds_of_strict l) Hq) as [Q1 [Q2 [Q3 Q4]]].
  destruct (P4 _ Q2) as [A|A]; [|right; left; lia].
  destruct (Q4 _ P2) as [B|B]; [|right; right; lia].
  destruct (P4 _ Q3) as [C|C]; [lia|]. destruct (Q4 _ P3) as [D|D]; [lia|].
  left. destruct p, q; unfold st, en in *; simpl in *. f_equal; lia.
Qed.

(* every time point of an original segment lies in a piece inside that segment, or in a stretch between two
   consecutive boundaries that is no longer than eps (and therefore not reported) *)
Theorem segmentation_refines_eps s k : In s l -> st s <= k < en s ->
  (exists p, In p (segmentation eps l) /\ st p <= k < en p /\ st s <= st p /\ en p <= en s) \/
  (exists a b, consec (bounds_of l) a b /\ a <= k < b /\ b - a <= eps /\ st s <= a /\ b <= en s).
Proof.
  intros Is Hk.
  assert (Bs : In (st s) (bounds_of l)) by (apply bounds_of_In; exists s; tauto).
  assert (Be : In (en s) (bounds_of l)) by (apply bounds_of_In; exists s; tauto).
  destruct (consec_locate _ (st s) (en s) k (bounds_of_strict l) Bs Be Hk) as [a [b [Hc Hab]]].
  destruct (bounds_clean_eps _ _ Hc) as [H1 [H2 [H3 H4]]].
  assert (Hin : st s <= a /\ b <= en s).
  { destruct (H4 (st s)) as [A|A]; [exists s; tauto | | lia].
    destruct (H4 (en s)) as [B|B]; [exists s; tauto | lia | lia]. }
  destruct (Z_le_gt_dec (b - a) eps) as [Short|Long].
  - right. exists a, b. repeat split; auto; lia.
  - left. exists (a, b). pairs. split; [|lia]. apply segmentation_In_eps. pairs. split; [assumption|].
    apply (keepb_iff_eps _ _ H1 H4). split; [lia|].
    unfold sup_l. rewrite (support_is_support_iter eps 0 Heps l Hl).
    destruct (support_iter_includes eps 0 Heps l s Hl Is) as [r [Ir Hr]]. apply sin_iff in Hr.
    exists r. split; [assumption | lia].
Qed.

Theorem segmentation_wf_eps : wf eps (segmentation eps l).
Proof. unfold segmentation. destruct (zdedup _); [split; constructor | apply wf_tl_of]. Qed.
End SegmentationEps.

(* ---------- Timeline.get_overlap, every precision ---------- *)
Section GetOverlapEps.
Variable eps : Z.
Hypothesis Heps : 0 <= eps.
Variable l : list seg.
Hypothesis Hl : wf eps l.

(* the pairwise intersections the sweep merges: s & s' for distinct intersecting members *)
Definition pair_overlaps : list seg :=
  tl_of eps (map (fun p => sand (fst p) (snd p))
                 (filter (fun p => negb (seqb (fst p) (snd p))) (co_iter eps l l))).

Lemma get_overlap_unfold : get_overlap eps l = support eps 0 pair_overlaps.
Proof. reflexivity. Qed.

Lemma pair_overlaps_In y :
  In y pair_overlaps <->
  exists s s', In s l /\ In s' l /\ s <> s' /\ y = sand s s' /\ nonempty eps y = true.
Proof.
  unfold pair_overlaps. rewrite tl_of_In, in_map_iff. split.
  - intros [[[s s'] [E Ip]] Hy]. simpl in E. apply filter_In in Ip as [Ip Hne]. simpl in Hne.
    apply negb_true_iff, seqb_false_neq in Hne.
    apply (co_iter_In eps Heps l l s s' Hl Hl) in Ip as [Is [Is' _]]. exists s, s'. repeat split; auto.
  - intros [s [s' [Is [Is' [Hne [-> Hy]]]]]]. split; [|exact Hy]. exists (s, s'). split; [reflexivity|].
    apply filter_In. split.
    + apply (co_iter_In eps Heps l l s s' Hl Hl). repeat split; auto.
      destruct Hl as [_ F]. rewrite Forall_forall in F. rewrite intersects_iff_and; auto.
    + simpl. now apply negb_true_iff, seqb_false_neq.
Qed.

(* every reported overlap is longer than eps, more than eps from the next one, starts where some pairwise
   intersection starts and ends where one ends *)
Theorem get_overlap_eps_shape :
  separated eps 0 (get_overlap eps l) /\ Forall (ne eps) (get_overlap eps l) /\
  (forall o, In o (get_overlap eps l) ->
     (exists a, In a pair_overlaps /\ st o = st a) /\ (exists b, In b pair_overlaps /\ en o = en b)).
Proof.
  rewrite get_overlap_unfold.
  assert (W : wf eps pair_overlaps) by apply wf_tl_of.
  rewrite (support_is_support_iter eps 0 Heps _ W).
  destruct (support_iter_separated eps 0 Heps _ W) as [A B]. repeat split; auto.
  - destruct (support_iter_bounds eps 0 Heps _ o W H) as [X _]. exact X.
  - destruct (support_iter_bounds eps 0 Heps _ o W H) as [_ X]. exact X.
Qed.

(* soundness: a reported time point is shared by two distinct members, or lies in a gap no longer than eps
   between two pairwise intersections *)
Theorem get_overlap_eps_sound k : covers_cell (get_overlap eps l) k ->
  covered_twice l k \/ in_bridged_gap eps 0 pair_overlaps k.
Proof.
  rewrite get_overlap_unfold.
  assert (W : wf eps pair_overlaps) by apply wf_tl_of.
  rewrite (support_is_support_iter eps 0 Heps _ W). intro H.
  destruct (support_iter_cover_sound eps 0 Heps _ k W H) as [[y [Iy Hk]]|G]; [left | now right].
  apply pair_overlaps_In in Iy as [s [s' [Is [Is' [Hne [-> _]]]]]].
  exists s, s'. unfold sand in Hk. pairs. repeat split; auto; lia.
Qed.

(* completeness: every intersection of two distinct members that is longer than eps is inside one reported
   overlap *)
Theorem get_overlap_eps_complete s s' : In s l -> In s' l -> s <> s' -> nonempty eps (sand s s') = true ->
  exists o, In o (get_overlap eps l) /\ st o <= Z.max (st s) (st s') /\ Z.min (en s) (en s') <= en o.
Proof.
  intros Is Is' Hne Hy. rewrite get_overlap_unfold.
  assert (W : wf eps pair_overlaps) by apply wf_tl_of.
  rewrite (support_is_support_iter eps 0 Heps _ W).
  assert (Iy : In (sand s s') pair_overlaps) by (apply pair_overlaps_In; exists s, s'; repeat split; auto).
  destruct (support_iter_includes eps 0 Heps _ _ W Iy) as [o [Io So]]. apply sin_iff in So.
  exists o. split; [exact Io|]. unfold sand in So. pairs. lia.
Qed.
End GetOverlapEps.
