(* C02 / C07 / C11: every derived annotation (crop in every mode, extrude, subset, copy) satisfies the
   annotation invariant again, and labels() of a subset is the filtered labels() of the source. *)
From PV Require Import Model.AnnotationOps Proofs.SegmentP Proofs.SortedP Proofs.SupportP Proofs.CropP Proofs.DictP
  Proofs.AnnotationInvP Proofs.RenameSubsetP Proofs.AnnCropP Proofs.AnnCropInterP Proofs.CommuteP
  Proofs.StringOrderP Proofs.LabelsOrderP Proofs.CanonicalIterP.

Section Derived.
Variable eps : Z.
Hypothesis Heps : 0 <= eps.

Lemma occurs_labels_of_tracks t lab : occurs t lab -> In lab (labels_of_tracks t).
Proof.
  intros [s [d [tr [Hd Ht]]]]. unfold labels_of_tracks. apply in_flat_map. exists (s, d).
  split; [now apply sd_get_In_pair|]. cbn [snd]. apply in_map_iff. exists (tr, lab). split; [reflexivity | now apply nm_get_In_pair].
Qed.
Lemma AInv_fresh_tracks u md t : WF eps t -> AInv eps (fresh_from_tracks u md t (labels_of_tracks t)).
Proof. intro W. apply AInv_fresh; [exact W | apply occurs_labels_of_tracks]. Qed.

(* keeping whole entries of a well-formed track map keeps it well formed *)
Lemma WF_filter (f : seg * tracks_t -> bool) m : WF eps m -> WF eps (filter f m).
Proof.
  intro W. constructor.
  - apply filter_keys_sorted, W.
  - pose proof (wf_nonempty _ _ W) as F. rewrite Forall_forall in *. intros s Hs. apply F.
    unfold skeys in *. apply in_map_iff in Hs as [x [E Hx]]. apply filter_In in Hx as [Hx _]. apply in_map_iff. exists x. tauto.
  - pose proof (wf_dicts _ _ W) as F. rewrite Forall_forall in *. intros x Hx. apply filter_In in Hx as [Hx _]. now apply F.
Qed.

Theorem AInv_crop a S md : AInv eps a -> AInv eps (crop_ann eps a S md).
Proof.
  intro I. destruct md.
  - unfold crop_ann. apply AInv_fresh_tracks. unfold restrict_tracks. apply WF_filter, I.
  - unfold crop_ann. apply AInv_fresh_tracks. unfold restrict_tracks. apply WF_filter, I.
  - apply (crop_inter_entries eps Heps a S I).
Qed.
Corollary AInv_extrude a R md : AInv eps a -> AInv eps (extrude_ann eps a R md).
Proof. intro I. rewrite extrude_def. now apply AInv_crop. Qed.
Theorem AInv_copy a : AInv eps a -> AInv eps (copy a).
Proof. intro I. unfold copy. apply AInv_fresh_tracks, I. Qed.

(* subset: filtering the tracks of every segment, dropping the segments left without track *)
Lemma NoDup_keys_filter (P : name * name -> bool) (d : tracks_t) : NoDup (keys d) -> NoDup (keys (filter P d)).
Proof.
  unfold keys. induction d as [|x d IH]; cbn [filter map]; intro N; [constructor|].
  inversion N as [|? ? Hn Hd]; subst. destruct (P x); cbn [map]; [|now apply IH].
  constructor; [|now apply IH]. intro Hin. apply Hn. apply in_map_iff in Hin as [y [E Hy]]. apply filter_In in Hy as [Hy _].
  apply in_map_iff. exists y. tauto.
Qed.
Theorem AInv_subset a labs inv : AInv eps a -> AInv eps (subset_ann eps a labs inv).
Proof.
  intro I. pose proof (i_wf _ _ I) as W. unfold subset_ann. destruct (labels eps a) as [a1 all].
  set (keep := if inv then filter (fun l => negb (name_in l labs)) all else filter (fun l => name_in l labs) all).
  apply AInv_fresh_tracks.
  set (m1 := map (fun sd : seg * tracks_t => (fst sd, filter (fun tl_ : name * name => name_in (snd tl_) keep) (snd sd))) (a_tracks a)).
  assert (W1 : ssorted (skeys m1) /\ Forall (fun s => nonempty eps s = true) (skeys m1) /\
               Forall (fun sd : seg * tracks_t => NoDup (keys (snd sd))) m1).
  { unfold m1, skeys. rewrite map_map. cbn [fst]. split; [apply W|]. split; [apply W|].
    pose proof (wf_dicts _ _ W) as F. rewrite Forall_forall in *. intros x Hx. apply in_map_iff in Hx as [y [<- Hy]].
    cbn [snd]. apply NoDup_keys_filter. now apply (F y Hy). }
  destruct W1 as [A [B C]]. constructor.
  - now apply filter_keys_sorted.
  - rewrite Forall_forall in *. intros s Hs. apply B. unfold skeys in *. apply in_map_iff in Hs as [x [E Hx]].
    apply filter_In in Hx as [Hx _]. apply in_map_iff. exists x. tauto.
  - rewrite Forall_forall in *. intros x Hx. apply filter_In in Hx as [Hx Hne]. split; [|now apply C].
    destruct (snd x); [discriminate | discriminate].
Qed.

Lemma getitem_lookup' a s t : getitem a s t = lookup (a_tracks a) s t.
Proof. unfold getitem, lookup. destruct (sd_get s (a_tracks a)); [apply d_get_nm | reflexivity]. Qed.
(* labels() of a subset = labels() of the source, filtered *)
Lemma occ_getitem m l s : occ m l s <-> exists t, lookup m s t = Some l.
Proof.
  unfold occ, lookup. split.
  - intros [d [t [Hd Ht]]]. exists t. now rewrite Hd.
  - intros [t Ht]. destruct (sd_get s m) as [d|]; [exists d, t; tauto | discriminate].
Qed.
Theorem subset_labels a labs inv : AInv eps a ->
  snd (labels eps (subset_ann eps a labs inv)) = filter (fun l => xorb (name_in l labs) inv) (snd (labels eps a)).
Proof.
  intro I. pose proof (AInv_subset a labs inv I) as J.
  apply (sorted_lt_ext name_ltb name_ltb_trans name_ltb_irrefl).
  - now apply labels_sorted.
  - pose proof (labels_sorted eps a I) as S. revert S. generalize (snd (labels eps a)). intros L S.
    induction S as [|x L S IH F]; cbn [filter]; [constructor|]. destruct (xorb (name_in x labs) inv); [|exact IH].
    constructor; [exact IH|]. rewrite Forall_forall in *. intros y Hy. apply filter_In in Hy as [Hy _]. now apply F.
  - intro l. rewrite filter_In.
    pose proof (labels_spec eps _ J) as HJ. destruct (labels eps (subset_ann eps a labs inv)) as [s1 Ls]. destruct HJ as [_ [_ [_ [HinS _]]]].
    pose proof (labels_spec eps a I) as HA. destruct (labels eps a) as [a1 La]. destruct HA as [_ [_ [_ [HinA _]]]]. cbn [snd].
    rewrite HinS, HinA. unfold occurs. split.
    + intros [s Ho]. apply occ_getitem in Ho as [t Ht]. rewrite <- getitem_lookup' in Ht.
      rewrite (subset_getitem eps a labs inv s t I) in Ht. destruct (getitem a s t) as [l'|] eqn:E; [|discriminate].
      destruct (xorb (name_in l' labs) inv) eqn:X; [|discriminate]. inversion Ht; subst l'. split; [|exact X].
      exists s. apply occ_getitem. exists t. now rewrite <- getitem_lookup'.
    + intros [[s Ho] X]. exists s. apply occ_getitem in Ho as [t Ht]. apply occ_getitem. exists t.
      rewrite <- getitem_lookup' in *. rewrite (subset_getitem eps a labs inv s t I), Ht, X. reflexivity.
Qed.
End Derived.
