(* Measure = number of covered unit cells; duration() equals it at eps = 0. *)
From PV Require Import Model.Timeline Proofs.SegmentP Proofs.SortedP Proofs.SupportP.

Definition cellb (s : seg) (k : Z) : bool := (st s <=? k) && (k <? en s).
Definition cellsb (l : list seg) (k : Z) : bool := existsb (fun s => cellb s k) l.

(* number of k in [lo, lo + n) with f k *)
Fixpoint count (lo : Z) (n : nat) (f : Z -> bool) : Z :=
  match n with
  | O => 0
  | S n' => (if f lo then 1 else 0) + count (lo + 1) n' f
  end.
Definition measure (lo : Z) (n : nat) (l : list seg) : Z := count lo n (cellsb l).

Lemma cellsb_iff l k : cellsb l k = true <-> covers_cell l k.
Proof.
  unfold cellsb, covers_cell, cellb. rewrite existsb_exists. split; intros [s [Is H]]; exists s; split; auto; lia.
Qed.

Lemma count_ext lo n f g : (forall k, lo <= k < lo + Z.of_nat n -> f k = g k) -> count lo n f = count lo n g.
Proof.
  revert lo. induction n as [|n IH]; intros lo H; [reflexivity|]. cbn [count].
  rewrite (H lo) by lia. f_equal. apply IH. intros k Hk. apply H. lia.
Qed.

Lemma count_seg s : forall n lo,
  count lo n (cellb s) = Z.max 0 (Z.min (en s) (lo + Z.of_nat n) - Z.max (st s) lo).
Proof.
  induction n as [|n IH]; intro lo; cbn [count]; [lia|].
  rewrite IH. unfold cellb. destruct ((st s <=? lo) && (lo <? en s)) eqn:E; lia.
Qed.

Lemma count_disjoint_or f g : forall n lo,
  (forall k, lo <= k < lo + Z.of_nat n -> f k && g k = false) ->
  count lo n (fun k => f k || g k) = count lo n f + count lo n g.
Proof.
  induction n as [|n IH]; intros lo H; cbn [count]; [reflexivity|].
  rewrite IH by (intros k Hk; apply H; lia).
  pose proof (H lo ltac:(lia)) as D. destruct (f lo), (g lo); cbn [orb andb] in *; try discriminate; lia.
Qed.

Lemma fold_dur_acc eps l : forall a,
  fold_left (fun a s => a + duration eps s) l a = a + fold_left (fun a s => a + duration eps s) l 0.
Proof.
  induction l as [|x l IH]; intro a; cbn [fold_left]; [lia|].
  rewrite IH, (IH (0 + duration eps x)). lia.
Qed.
Lemma sum_durations_cons eps s l : sum_durations eps (s :: l) = duration eps s + sum_durations eps l.
Proof. unfold sum_durations. cbn [fold_left]. rewrite fold_dur_acc. lia. Qed.

(* a canonical list inside the window [lo, lo+n): sum of lengths = number of covered cells *)
Lemma canonical_measure l : forall lo n,
  canonical l -> (forall s, In s l -> lo <= st s /\ en s <= lo + Z.of_nat n) ->
  sum_durations 0 l = measure lo n l.
Proof.
  induction l as [|a l IH]; intros lo n Hc Hw.
  - unfold measure, sum_durations. cbn [fold_left]. clear. revert lo.
    induction n as [|n IHn]; intro lo; cbn [count cellsb existsb]; [reflexivity|]. rewrite <- IHn. reflexivity.
  - rewrite sum_durations_cons. pose proof (canonical_lb _ _ Hc) as L. destruct Hc as [Ha [_ Hr]].
    unfold measure. rewrite (count_ext lo n (cellsb (a :: l)) (fun k => cellb a k || cellsb l k)) by reflexivity.
    rewrite count_disjoint_or.
    + rewrite count_seg. fold (measure lo n l). rewrite <- (IH lo n Hr) by (intros s Hs; apply Hw; now right).
      destruct (Hw a (or_introl eq_refl)). unfold duration, nonempty. destruct (en a - st a >? 0) eqn:E; lia.
    + intros k _. destruct (cellb a k) eqn:E1; [|reflexivity]. simpl.
      destruct (cellsb l k) eqn:E2; [|reflexivity]. exfalso.
      apply cellsb_iff in E2 as [s [Is Hk]]. specialize (L s Is). unfold cellb in E1. lia.
Qed.

(* duration() = number of unit cells the timeline covers (eps = 0) *)
Theorem duration_is_measure l lo n : wf 0 l ->
  (forall s, In s l -> lo <= st s /\ en s <= lo + Z.of_nat n) ->
  tl_duration 0 l = measure lo n l.
Proof.
  intros H Hw. unfold tl_duration.
  rewrite <- (support_is_support_iter 0 0 (Z.le_refl 0) l H).
  destruct (support_canonical_cells l H) as [Hc E].
  rewrite (canonical_measure _ lo n Hc).
  - unfold measure. apply count_ext. intros k _.
    destruct (cellsb (support 0 0 l) k) eqn:E1; destruct (cellsb l k) eqn:E2; try reflexivity.
    + apply cellsb_iff, E, cellsb_iff in E1. congruence.
    + apply cellsb_iff, E, cellsb_iff in E2. congruence.
  - intros o Ho. rewrite (support_is_support_iter 0 0 (Z.le_refl 0) l H) in Ho.
    destruct (support_iter_bounds 0 0 (Z.le_refl 0) l o H Ho) as [[a [Ia Ea]] [b [Ib Eb]]].
    destruct (Hw a Ia), (Hw b Ib). lia.
Qed.

(* ---- eps > 0: duration() is at least the number of covered cells (gaps no longer than the
        precision are bridged, nothing is lost) ---- *)
Lemma count_mono lo n f g : (forall k, lo <= k < lo + Z.of_nat n -> f k = true -> g k = true) ->
  count lo n f <= count lo n g.
Proof.
  revert lo. induction n as [|n IH]; intros lo H; cbn [count]; [lia|].
  assert (IH' := IH (lo + 1) (fun k Hk => H k ltac:(lia))).
  destruct (f lo) eqn:Ef; [rewrite (H lo ltac:(lia) Ef); lia | destruct (g lo); lia].
Qed.
Lemma canonical_of_separated_eps eps collar l : 0 <= eps ->
  separated eps collar l -> Forall (ne eps) l -> canonical l.
Proof.
  intro Heps. induction l as [|a l IH]; intros Hs Hn; [exact I|].
  inversion Hn as [|? ? Ha Hn']; subst. apply ne_gt in Ha. simpl. repeat split; [lia| |].
  - destruct l as [|b r]; [exact I|]. destruct Hs as [H _]. unfold th in H. lia.
  - apply IH; [|assumption]. destruct l; simpl in *; tauto.
Qed.
Lemma sum_durations_nonempty eps l : 0 <= eps -> Forall (ne eps) l -> sum_durations eps l = sum_durations 0 l.
Proof.
  intro Heps. induction l as [|s l IH]; intro H; [reflexivity|]. inversion H as [|? ? Hs H']; subst.
  rewrite !sum_durations_cons, (IH H'). apply ne_gt in Hs as G. unfold duration, nonempty. unfold ne in Hs. 
  destruct (en s - st s >? eps) eqn:E1; destruct (en s - st s >? 0) eqn:E2; lia.
Qed.

Theorem duration_at_least_measure eps l lo n : 0 <= eps -> wf eps l ->
  (forall s, In s l -> lo <= st s /\ en s <= lo + Z.of_nat n) ->
  measure lo n l <= tl_duration eps l.
Proof.
  intros Heps H Hw. unfold tl_duration.
  destruct (support_iter_separated eps 0 Heps l H) as [Hs Hn].
  rewrite (sum_durations_nonempty eps _ Heps Hn).
  rewrite (canonical_measure _ lo n (canonical_of_separated_eps eps 0 _ Heps Hs Hn)).
  - unfold measure. apply count_mono. intros k _ Hk. apply cellsb_iff. apply cellsb_iff in Hk.
    now apply (support_iter_cover_complete eps 0 Heps l k H).
  - intros o Ho. destruct (support_iter_bounds eps 0 Heps l o H Ho) as [[a [Ia Ea]] [b [Ib Eb]]].
    destruct (Hw a Ia), (Hw b Ib). lia.
Qed.
