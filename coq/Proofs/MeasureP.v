(* Measure = number of covered unit cells; duration() equals it at eps = 0. *)
From PV Require Import Model.Timeline Proofs.SegmentP Proofs.SortedP Proofs.SupportP.

Definition cellb (s : seg) (k : Z) : bool := (st s <=? k) && (k <? en s).
Definition cellsb (l : list seg) (k : Z) : bool := existsb (fun s => cellb s k) l.

(* number of k in [lo, lo + n) with f k *)
Fixpoint count (lo : Z) (n : nat) (f : Z -> bool) : Z :=
  match n with
  | O => 0
  | S n' => (if f lo then 1 else 0) + count (lo + 1) n' f
  end.
Definition measure (lo : Z) (n : nat) (l : list seg) : Z := count lo n (cellsb l).

Lemma cellsb_iff l k : cellsb l k = true <-> covers_cell l k.
Proof.
  unfold cellsb, covers_cell, cellb. rewrite existsb_exists. split; intros [s [Is H]]; exists s; split; auto; lia.
Qed.

Lemma count_ext lo n f g : (forall k, lo <= k < lo + Z.of_nat n -> f k = g k) -> count lo n f = count lo n g.
Proof.
  revert lo. induction n as [|n IH]; intros lo H; [reflexivity|]. cbn [count].
  rewrite (H lo) by lia. f_equal. apply IH. intros k Hk. apply H. lia.
Qed.

Lemma count_seg s : forall n lo,
  count lo n (cellb s) = Z.max 0 (Z.min (en s) (lo + Z.of_nat n) - Z.max (st s) lo).
Proof.
  induction n as [|n IH]; intro lo; cbn [count]; [lia|].
  rewrite IH. unfold cellb. destruct ((st s <=? lo) && (lo <? en s)) eqn:E; lia.
Qed.

Lemma count_disjoint_or f g : forall n lo,
  (forall k, lo <= k < lo + Z.of_nat n -> f k && g k = false) ->
  count lo n (fun k => f k || g k) = count lo n f + count lo n g.
Proof.
  induction n as [|n IH]; intros lo H; cbn [count]; [reflexivity|].
  rewrite IH by (intros k Hk; apply H; lia).
  pose proof (H lo ltac:(lia)) as D. destruct (f lo), (g lo); cbn [orb andb] in *; try discriminate; lia.
Qed.

Lemma fold_dur_acc eps l : forall a,
  fold_left (fun a s => a + duration eps s) l a = a + fold_left (fun a s => a + duration eps s) l 0.
Proof.
  induction l as [|x l IH]; intro a; cbn [fold_left]; [lia|].
  rewrite IH, (IH (0 + duration eps x)). lia.
Qed.
Lemma sum_durations_cons eps s l : sum_durations eps (s :: l) = duration eps s + sum_durations eps l.
Proof. unfold sum_durations. cbn [fold_left]. rewrite fold_dur_acc. lia. Qed.

(* a canonical list inside the window [lo, lo+n): sum of lengths = number of covered cells *)
Lemma canonical_measure l : forall lo n,
  canonical l -> (forall s, In s l -> lo <= st s /\ en s <= lo + Z.of_nat n) ->
  sum_durations 0 l = measure lo n l.
Proof.
  induction l as [|a l IH]; intros lo n Hc Hw.
  - unfold measure, sum_durations. cbn [fold_left]. clear. revert lo.
    induction n as [|n IHn]; intro lo; cbn [count cellsb existsb]; [reflexivity|]. rewrite <- IHn. reflexivity.
  - rewrite sum_durations_cons. pose proof (canonical_lb _ _ Hc) as L. destruct Hc as [Ha [_ Hr]].
    unfold measure. rewrite (count_ext lo n (cellsb (a :: l)) (fun k => cellb a k || cellsb l k)) by reflexivity.
    rewrite count_disjoint_or.
    + rewrite count_seg. fold (measure lo n l). rewrite <- (IH lo n Hr) by (intros s Hs; apply Hw; now right).
      destruct (Hw a (or_introl eq_refl)). unfold duration, nonempty. destruct (en a - st a >? 0) eqn:E; lia.
    + intros k _. destruct (cellb a k) eqn:E1; [|reflexivity]. simpl.
      destruct (cellsb l k) eqn:E2; [|reflexivity]. exfalso.
      apply cellsb_iff in E2 as [s [Is Hk]]. specialize (L s Is). unfold cellb in E1. lia.
Qed.

(* duration() = number of unit cells the timeline covers (eps = 0) *)
Theorem duration_is_measure l lo n : wf 0 l ->
  (forall s, In s l -> lo <= st s /\ en s <= lo + Z.of_nat n) ->
  tl_duration 0 l = measure lo n l.
Proof.
  intros H Hw. unfold tl_duration.
  rewrite <- (support_is_support_iter 0 0 (Z.le_refl 0) l H).
  destruct (support_canonical_cells l H) as [Hc E].
  rewrite (canonical_measure _ lo n Hc).
  - unfold measure. apply count_ext. intros k _.
    destruct (cellsb (support 0 0 l) k) eqn:E1; destruct (cellsb l k) eqn:E2; try reflexivity.
    + apply cellsb_iff, E, cellsb_iff in E1. congruence.
    + apply cellsb_iff, E, cellsb_iff in E2. congruence.
  - intros o Ho. rewrite (support_is_support_iter 0 0 (Z.le_refl 0) l H) in Ho.
    destruct (support_iter_bounds 0 0 (Z.le_refl 0) l o H Ho) as [[a [Ia Ea]] [b [Ib Eb]]].
    destruct (Hw a Ia), (Hw b Ib). lia.
Qed.

(* ---- eps > 0: duration() is at least the number of covered cells (gaps no longer than the
        precision are bridged, nothing is lost) ---- *)
Lemma count_mono lo n f g : (forall k, lo <= k < lo + Z.of_nat n -> f k = true -> g k = true) ->
  count lo n f <= count lo n g.
Proof.
  revert lo. induction n as [|n IH]; intros lo H; cbn [count]; [lia|].
  assert (IH' := IH (lo + 1) (fun k Hk => H k ltac:(lia))).
  destruct (f lo) eqn:Ef; [rewrite (H lo ltac:(lia) Ef); lia | destruct (g lo); lia].
Qed.
Lemma canonical_of_separated_eps eps collar l : 0 <= eps ->
  separated eps collar l -> Forall (ne eps) l -> canonical l.
Proof.
  intro Heps. induction l as [|a l IH]; intros Hs Hn; [exact I|].
  inversion Hn as [|? ? Ha Hn']; subst. apply ne_gt in Ha. simpl. repeat split; [lia| |].
  - destruct l as [|b r]; [exact I|]. destruct Hs as [H _]. unfold th in H. lia.
  - apply IH; [|assumption]. destruct l; simpl in *; tauto.
Qed.
Lemma sum_durations_nonempty eps l : 0 <= eps -> Forall (ne eps) l -> sum_durations eps l = sum_durations 0 l.
Proof.
  intro Heps. induction l as [|s l IH]; intro H; [reflexivity|]. inversion H as [|? ? Hs H']; subst.
  rewrite !sum_durations_cons, (IH H'). apply ne_gt in Hs as G. unfold duration, nonempty. unfold ne in Hs. 
  destruct (en s - st s >? eps) eqn:E1; destruct (en s - st s >? 0) eqn:E2; lia.
Qed.

Theorem duration_at_least_measure eps l lo n : 0 <= eps -> wf eps l ->
  (forall s, In s l -> lo <= st s /\ en s <= lo + Z.of_nat n) ->
  measure lo n l <= tl_duration eps l.
Proof.
  intros Heps H Hw. unfold tl_duration.
  destruct (support_iter_separated eps 0 Heps l H) as [Hs Hn].
  rewrite (sum_durations_nonempty eps _ Heps Hn).
  rewrite (canonical_measure _ lo n (canonical_of_separated_eps eps 0 _ Heps Hs Hn)).
  - unfold measure. apply count_mono. intros k _ Hk. apply cellsb_iff. apply cellsb_iff in Hk.
    now apply (support_iter_cover_complete eps 0 Heps l k H).
  - intros o Ho. destruct (support_iter_bounds eps 0 Heps l o H Ho) as [[a [Ia Ea]] [b [Ib Eb]]].
    destruct (Hw a Ia), (Hw b Ib). lia.
Qed.

(* ---- eps > 0, the other direction: duration() exceeds the number of covered cells by at most eps per
        member (each bridged gap is no longer than the precision) ---- *)
Lemma count_le_add lo n f g h :
  (forall k, lo <= k < lo + Z.of_nat n -> f k = true -> g k = true \/ h k = true) ->
  count lo n f <= count lo n g + count lo n h.
Proof.
  revert lo. induction n as [|n IH]; intros lo H; cbn [count]; [lia|].
  assert (IH' := IH (lo + 1) (fun k Hk => H k ltac:(lia))).
  destruct (f lo) eqn:Ef.
  - destruct (H lo ltac:(lia) Ef) as [E|E]; rewrite E; destruct (g lo), (h lo); lia.
  - destruct (g lo), (h lo); lia.
Qed.
Lemma count_nonneg lo n f : 0 <= count lo n f.
Proof. revert lo. induction n as [|n IH]; intro lo; cbn [count]; [lia|]. specialize (IH (lo + 1)). destruct (f lo); lia. Qed.

Section Upper.
Variable eps : Z.
Hypothesis Heps : 0 <= eps.
Variables (lo : Z) (n : nat).
Definition inwin (s : seg) : Prop := lo <= st s /\ en s <= lo + Z.of_nat n.

Lemma th_zero_collar : SupportP.th eps 0 = eps.
Proof. unfold SupportP.th. lia. Qed.

Lemma sweep_upper : forall l cur,
  ne eps cur -> Forall (ne eps) l -> st_sorted l -> starts_after cur l ->
  (forall s, In s (cur :: l) -> inwin s) ->
  sum_durations 0 (support_go eps 0 cur l) <= count lo n (cellsb (cur :: l)) + eps * Z.of_nat (length l).
Proof.
  apply (sweep_ind eps 0 Heps (fun cur l out =>
           (forall s, In s (cur :: l) -> inwin s) ->
           sum_durations 0 out <= count lo n (cellsb (cur :: l)) + eps * Z.of_nat (length l))).
  - intros cur Hc Hw. destruct (Hw cur (or_introl eq_refl)) as [W1 W2]. apply ne_gt in Hc.
    rewrite sum_durations_cons. change (sum_durations 0 []) with 0.
    rewrite (count_ext lo n (cellsb [cur]) (cellb cur)) by (intros k _; unfold cellsb; simpl; now rewrite orb_false_r).
    rewrite count_seg. unfold duration, nonempty. destruct (en cur - st cur >? 0) eqn:E; simpl; lia.
  - intros cur s r cur' Hc Hns Hlr Hs Ha E Hc' Ha' Sc' Ec' Lc Ls IH Hw.
    rewrite th_zero_collar in E.
    assert (Hw' : forall x, In x (cur' :: r) -> inwin x).
    { intros x [<-|Hx]; [|apply Hw; right; now right].
      destruct (Hw cur (or_introl eq_refl)), (Hw s (or_intror (or_introl eq_refl))). unfold inwin. lia. }
    specialize (IH Hw').
    assert (M : count lo n (cellsb (cur' :: r)) <= count lo n (cellsb (cur :: s :: r)) + count lo n (cellb (en cur, st s))).
    { apply count_le_add. intros k _ Hk. apply cellsb_iff in Hk as [x [[<-|Hx] Hkx]].
      - inversion Ha as [|? ? Hle _]; subst.
        destruct (Z_lt_ge_dec k (en cur)); [left; apply cellsb_iff; exists cur; split; [now left | lia]|].
        destruct (Z_lt_ge_dec k (st s)); [right; unfold cellb; change (st (en cur, st s)) with (en cur); change (en (en cur, st s)) with (st s); lia|].
        left. apply cellsb_iff. exists s. split; [right; now left | lia].
      - left. apply cellsb_iff. exists x. split; [right; now right | assumption]. }
    assert (G : count lo n (cellb (en cur, st s)) <= eps).
    { rewrite count_seg. change (st (en cur, st s)) with (en cur). change (en (en cur, st s)) with (st s). lia. }
    cbn [length]. lia.
  - intros cur s r Hc Hns Hlr Hs Ha E Ha' Lc Ls IH Hw.
    rewrite th_zero_collar in E.
    assert (Hw' : forall x, In x (s :: r) -> inwin x) by (intros x Hx; apply Hw; now right).
    specialize (IH Hw'). rewrite sum_durations_cons.
    destruct (Hw cur (or_introl eq_refl)) as [W1 W2].
    rewrite (count_ext lo n (cellsb (cur :: s :: r)) (fun k => cellb cur k || cellsb (s :: r) k)) by reflexivity.
    rewrite count_disjoint_or.
    + rewrite count_seg. unfold duration, nonempty. destruct (en cur - st cur >? 0) eqn:E0; cbn [length]; lia.
    + intros k _. destruct (cellb cur k) eqn:E1; [|reflexivity]. cbn [andb].
      destruct (cellsb (s :: r) k) eqn:E2; [|reflexivity]. exfalso.
      apply cellsb_iff in E2 as [x [Ix Hk]]. unfold cellb in E1.
      assert (st s <= st x).
      { destruct Ix as [<-|Ix]; [lia|]. unfold starts_after in Ha'. rewrite Forall_forall in Ha'. now apply Ha'. }
      lia.
Qed.

Theorem duration_at_most_measure_plus l : wf eps l -> (forall s, In s l -> inwin s) ->
  tl_duration eps l <= measure lo n l + eps * Z.of_nat (length l).
Proof.
  intros H Hw. unfold tl_duration.
  destruct (support_iter_separated eps 0 Heps l H) as [_ Hn].
  rewrite (sum_durations_nonempty eps _ Heps Hn).
  destruct l as [|s r]; [unfold measure, sum_durations; simpl; pose proof (count_nonneg lo n (cellsb [])); lia|].
  destruct (wf_pre eps 0 s r H) as [A [B [C D]]]. unfold support_iter.
  pose proof (sweep_upper (s :: r) s A B C D) as U.
  assert (Hw' : forall x, In x (s :: s :: r) -> inwin x) by (intros x [<-|Hx]; apply Hw; [now left | assumption]).
  specialize (U Hw'). unfold measure.
  rewrite (count_ext lo n (cellsb (s :: s :: r)) (cellsb (s :: r))) in U; [exact U|].
  intros k _. unfold cellsb. simpl. destruct (cellb s k); reflexivity.
Qed.
End Upper.
