(* C04: the single-sweep support of a timeline. *)
From PV Require Import Model.Timeline Proofs.SegmentP Proofs.SortedP Proofs.TimelineInvP Check.C01.

(* ---------- Timeline(segments=l): iteration order ---------- *)
Section TlOf.
Variable eps : Z.

Lemma tl_of_R l : R eps (t_init eps l) (a_init eps l).
Proof. apply R_init. Qed.
Lemma tl_of_In l y : In y (tl_of eps l) <-> In y l /\ nonempty eps y = true.
Proof.
  unfold tl_of. destruct (tl_of_R l) as [I M]. rewrite (inv_list _ _ I), M. reflexivity.
Qed.
Lemma tl_of_sorted l : ssorted (tl_of eps l).
Proof. unfold tl_of. destruct (tl_of_R l) as [I _]. rewrite (inv_list _ _ I). apply I. Qed.
Lemma tl_of_nonempty l : Forall (fun s => nonempty eps s = true) (tl_of eps l).
Proof. rewrite Forall_forall. intros y Hy. now apply tl_of_In in Hy. Qed.
Lemma tl_of_id l :
  ssorted l -> Forall (fun s => nonempty eps s = true) l -> tl_of eps l = l.
Proof.
  intros Hs Hn. apply ssorted_ext; [apply tl_of_sorted | assumption |].
  intro y. rewrite tl_of_In. rewrite Forall_forall in Hn. split; [tauto | intro H; split; auto].
Qed.
Lemma tl_of_nil : tl_of eps [] = [].
Proof. reflexivity. Qed.
Lemma tl_of_idem l : tl_of eps (tl_of eps l) = tl_of eps l.
Proof. apply tl_of_id; [apply tl_of_sorted | apply tl_of_nonempty]. Qed.
End TlOf.

(* a well-formed timeline: what Timeline objects iterate (C01) *)
Definition wf (eps : Z) (l : list seg) : Prop :=
  ssorted l /\ Forall (fun s => nonempty eps s = true) l.
Lemma wf_tl_of eps l : wf eps (tl_of eps l).
Proof. split; [apply tl_of_sorted | apply tl_of_nonempty]. Qed.
Lemma wf_tail eps s l : wf eps (s :: l) -> wf eps l.
Proof. intros [H1 H2]. split; [now apply ssorted_inv in H1 | now inversion H2]. Qed.
Lemma wf_reachable eps t A : R eps t A -> wf eps (t_iter t).
Proof.
  intros [I M]. unfold t_iter. rewrite (inv_list _ _ I). split; [apply I | apply I].
Qed.

(* ---------- the sweep ---------- *)
Section Sweep.
Variables eps collar : Z.
Hypothesis Heps : 0 <= eps.

(* a gap of d ticks is bridged iff d <= th *)
Definition th : Z := Z.max eps (collar - 1).

(* consecutive elements separated by more than th *)
Fixpoint separated (l : list seg) : Prop :=
  match l with
  | a :: ((b :: _) as r) => st b - en a > th /\ separated r
  | _ => True
  end.

Definition ne (s : seg) : Prop := nonempty eps s = true.
Definition starts_after (c : seg) (l : list seg) : Prop := Forall (fun s => st c <= st s) l.
Fixpoint st_sorted (l : list seg) : Prop :=
  match l with
  | a :: ((b :: _) as r) => st a <= st b /\ st_sorted r
  | _ => True
  end.

Lemma st_sorted_tail a l : st_sorted (a :: l) -> st_sorted l.
Proof. destruct l; simpl; tauto. Qed.
Lemma ssorted_st_sorted l : ssorted l -> st_sorted l.
Proof.
  induction l as [|a l IH]; intro H; [exact I|].
  apply ssorted_inv in H as [Hs F]. destruct l as [|b r]; [exact I|].
  split; [|now apply IH]. inversion F; subst. now apply slt_st.
Qed.
Lemma st_sorted_all a l : st_sorted (a :: l) -> Forall (fun s => st a <= st s) l.
Proof.
  revert a. induction l as [|b r IH]; intros a H; constructor.
  - apply H.
  - destruct H as [H1 H2]. specialize (IH b H2).
    eapply Forall_impl; [|exact IH]. intros; simpl in *; lia.
Qed.

(* one step of the sweep, in closed form *)
Lemma step_merge cur s :
  ne cur -> ne s -> st cur <= st s ->
  exists g, sxor eps s cur = Some g /\
    (negb (nonempty eps g) || (duration eps g <? collar) = (st s - en cur <=? th)) /\
    sor eps cur s = (st cur, Z.max (en cur) (en s)).
Proof.
  unfold ne, th. intros Hc Hs Hle. unfold sxor. rewrite Hs, Hc. simpl.
  eexists. split; [reflexivity|]. split.
  - unfold nonempty, duration, nonempty, st, en in *. destruct cur, s; simpl in *.
    destruct (Z.max z1 z - Z.min z2 z0 >? eps) eqn:E; simpl; lia.
  - unfold sor. rewrite Hc, Hs. simpl. unfold st, en in *. destruct cur, s; simpl in *. f_equal; lia.
Qed.

Lemma support_go_unfold cur s r :
  ne cur -> ne s -> st cur <= st s ->
  support_go eps collar cur (s :: r) =
    if st s - en cur <=? th then support_go eps collar (st cur, Z.max (en cur) (en s)) r
    else cur :: support_go eps collar s r.
Proof.
  intros Hc Hs Hle. destruct (step_merge cur s Hc Hs Hle) as [g [E1 [E2 E3]]].
  simpl. rewrite E1, E2, E3. reflexivity.
Qed.

Lemma ne_gt s : ne s -> en s - st s > eps.
Proof. unfold ne, nonempty. lia. Qed.

Lemma merge_pre cur s r :
  ne cur -> ne s -> starts_after cur (s :: r) ->
  forall cur', cur' = (st cur, Z.max (en cur) (en s)) ->
  ne cur' /\ starts_after cur' r /\ st cur' = st cur /\ en cur' = Z.max (en cur) (en s).
Proof.
  intros Hc Hs Ha cur' ->. apply ne_gt in Hc, Hs. inversion Ha as [|? ? Hle Har]; subst.
  repeat split; try reflexivity.
  - unfold ne, nonempty, st, en in *; simpl. lia.
  - exact Har.
Qed.

(* induction principle following the sweep *)
Lemma sweep_ind (P : seg -> list seg -> list seg -> Prop) :
  (forall cur, ne cur -> P cur [] [cur]) ->
  (forall cur s r cur', ne cur -> ne s -> Forall ne r -> st_sorted (s :: r) -> starts_after cur (s :: r) ->
     st s - en cur <= th -> ne cur' -> starts_after cur' r -> st cur' = st cur ->
     en cur' = Z.max (en cur) (en s) -> en cur - st cur > eps -> en s - st s > eps ->
     P cur' r (support_go eps collar cur' r) -> P cur (s :: r) (support_go eps collar cur' r)) ->
  (forall cur s r, ne cur -> ne s -> Forall ne r -> st_sorted (s :: r) -> starts_after cur (s :: r) ->
     st s - en cur > th -> starts_after s r -> en cur - st cur > eps -> en s - st s > eps ->
     P s r (support_go eps collar s r) -> P cur (s :: r) (cur :: support_go eps collar s r)) ->
  forall l cur, ne cur -> Forall ne l -> st_sorted l -> starts_after cur l ->
    P cur l (support_go eps collar cur l).
Proof.
  intros H0 Hm Hc_. induction l as [|s r IH]; intros cur Hc Hl Hs Ha.
  - simpl. now apply H0.
  - inversion Hl as [|? ? Hns Hlr]; subst. inversion Ha as [|? ? Hle Har]; subst.
    rewrite (support_go_unfold cur s r Hc Hns Hle).
    pose proof (ne_gt _ Hc) as Lc. pose proof (ne_gt _ Hns) as Ls.
    destruct (st s - en cur <=? th) eqn:E.
    + destruct (merge_pre cur s r Hc Hns Ha _ eq_refl) as [Hc' [Ha' [Sc' Ec']]].
      apply Hm; try assumption; try lia.
      apply IH; try assumption. exact (st_sorted_tail _ _ Hs).
    + pose proof (st_sorted_all _ _ Hs) as Ha'.
      apply Hc_; try assumption; try lia.
      apply IH; try assumption. exact (st_sorted_tail _ _ Hs).
Qed.

Lemma sweep_head : forall l cur,
  ne cur -> Forall ne l -> st_sorted l -> starts_after cur l ->
  exists o r, support_go eps collar cur l = o :: r /\ st o = st cur /\ en cur <= en o.
Proof.
  apply (sweep_ind (fun cur l out => exists o r, out = o :: r /\ st o = st cur /\ en cur <= en o)).
  - intros cur Hc. exists cur, []. repeat split; lia.
  - intros cur s r cur' Hc Hns Hlr Hs Ha E Hc' Ha' Sc' Ec' Lc Ls [o [rr [Eo [So Eo']]]].
    exists o, rr. repeat split; [assumption | lia | lia].
  - intros cur s r Hc Hns Hlr Hs Ha E Ha' Lc Ls _. eexists _, _. repeat split; lia.
Qed.

Lemma sweep_separated : forall l cur,
  ne cur -> Forall ne l -> st_sorted l -> starts_after cur l ->
  separated (support_go eps collar cur l) /\ Forall ne (support_go eps collar cur l).
Proof.
  apply (sweep_ind (fun cur l out => separated out /\ Forall ne out)).
  - intros cur Hc. split; [exact I | constructor; [assumption | constructor]].
  - intros cur s r cur' Hc Hns Hlr Hs Ha E Hc' Ha' Sc' Ec' Lc Ls IH. exact IH.
  - intros cur s r Hc Hns Hlr Hs Ha E Ha' Lc Ls [Sep Ne].
    destruct (sweep_head r s Hns Hlr (st_sorted_tail _ _ Hs) Ha') as [o [rr [Eo [So _]]]].
    split; [|constructor; assumption]. rewrite Eo in *. simpl. split; [lia | exact Sep].
Qed.

(* every output starts at an input start and ends at an input end *)
Lemma sweep_bounds : forall l cur,
  ne cur -> Forall ne l -> st_sorted l -> starts_after cur l ->
  forall o, In o (support_go eps collar cur l) ->
  (exists a, In a (cur :: l) /\ st o = st a) /\ (exists b, In b (cur :: l) /\ en o = en b).
Proof.
  apply (sweep_ind (fun cur l out => forall o, In o out ->
    (exists a, In a (cur :: l) /\ st o = st a) /\ (exists b, In b (cur :: l) /\ en o = en b))).
  - intros cur Hc o [<-|[]]. split; exists cur; simpl; tauto.
  - intros cur s r cur' Hc Hns Hlr Hs Ha E Hc' Ha' Sc' Ec' Lc Ls IH o Ho.
    destruct (IH o Ho) as [[a [Ia Ea]] [b [Ib Eb]]]. split.
    + destruct Ia as [<-|Ia]; [exists cur; split; [now left | lia] | exists a; split; [now right; right | exact Ea]].
    + destruct Ib as [<-|Ib]; [|exists b; split; [now right; right | exact Eb]].
      destruct (Z.max_spec (en cur) (en s)) as [[_ M]|[_ M]].
      * exists s. split; [right; now left | lia].
      * exists cur. split; [now left | lia].
  - intros cur s r Hc Hns Hlr Hs Ha E Ha' Lc Ls IH o [<-|Ho]; [split; exists cur; simpl; tauto|].
    destruct (IH o Ho) as [[a [Ia Ea]] [b [Ib Eb]]]. split; [exists a | exists b]; simpl in *; tauto.
Qed.

(* every input lies inside some output *)
Lemma sweep_includes : forall l cur,
  ne cur -> Forall ne l -> st_sorted l -> starts_after cur l ->
  forall x, In x (cur :: l) -> exists o, In o (support_go eps collar cur l) /\ sin o x = true.
Proof.
  apply (sweep_ind (fun cur l out => forall x, In x (cur :: l) -> exists o, In o out /\ sin o x = true)).
  - intros cur Hc x [<-|[]]. exists cur. split; [now left | apply sin_iff; lia].
  - intros cur s r cur' Hc Hns Hlr Hs Ha E Hc' Ha' Sc' Ec' Lc Ls IH x Hx.
    inversion Ha as [|? ? Hle Har]; subst.
    assert (Hx' : In x (cur' :: r) \/ (st cur' <= st x /\ en x <= en cur')).
    { destruct Hx as [<-|[<-|Hx]]; [right; lia | right; lia | left; now right]. }
    destruct Hx' as [Hx'|Hx'].
    + now apply IH.
    + destruct (IH cur' (or_introl eq_refl)) as [o [Io So]]. exists o. split; [assumption|].
      apply sin_iff in So. apply sin_iff. lia.
  - intros cur s r Hc Hns Hlr Hs Ha E Ha' Lc Ls IH x [<-|Hx].
    + exists cur. split; [now left | apply sin_iff; lia].
    + destruct (IH x Hx) as [o [Io So]]. exists o. split; [now right | assumption].
Qed.

(* every covered cell is covered by an input or lies in a bridged gap *)
Definition covers_cell (l : list seg) (k : Z) : Prop := exists s, In s l /\ st s <= k < en s.
Definition in_bridged_gap (l : list seg) (k : Z) : Prop :=
  exists a b, In a l /\ In b l /\ en a <= k < st b /\ st b - en a <= th /\
              (forall s, In s l -> st s <= k -> en s <= en a).

Lemma sweep_cover_sound : forall l cur,
  ne cur -> Forall ne l -> st_sorted l -> starts_after cur l ->
  forall k, covers_cell (support_go eps collar cur l) k ->
            covers_cell (cur :: l) k \/ in_bridged_gap (cur :: l) k.
Proof.
  apply (sweep_ind (fun cur l out => forall k, covers_cell out k ->
            covers_cell (cur :: l) k \/ in_bridged_gap (cur :: l) k)).
  - intros cur Hc k [o [[<-|[]] Hk]]. left. exists cur. split; [now left | assumption].
  - intros cur s r cur' Hc Hns Hlr Hs Ha E Hc' Ha' Sc' Ec' Lc Ls IH k Hk.
    inversion Ha as [|? ? Hle Har]; subst.
    destruct (IH k Hk) as [[x [[<-|Ix] Hx]]|[a [b [Ia [Ib [Hk' [Hd Hmax]]]]]]].
    + (* k inside cur' = cur, the bridged gap, or s *)
      destruct (Z_lt_ge_dec k (en cur)) as [L|G]; [left; exists cur; split; [now left | lia]|].
      destruct (Z_le_gt_dec (st s) k) as [L2|G2]; [left; exists s; split; [right; now left | lia]|].
      right. exists cur, s. repeat split; try (now left); try (right; now left); try lia.
      intros x [<-|[<-|Ix]] Hxk; try lia.
      pose proof (st_sorted_all _ _ Hs) as Q. rewrite Forall_forall in Q. specialize (Q x Ix). lia.
    + left. exists x. split; [now right; right | exact Hx].
    + right. destruct Ia as [<-|Ia]; destruct Ib as [<-|Ib].
      * lia.
      * destruct (Z.max_spec (en cur) (en s)) as [[Lt M]|[Ge M]].
        -- exists s, b. repeat split; try (right; now left); try (now right; right); try lia.
           intros x [<-|[<-|Ix]] Hxk; try lia.
           specialize (Hmax x (or_intror Ix) Hxk). lia.
        -- exists cur, b. repeat split; try (now left); try (now right; right); try lia.
           intros x [<-|[<-|Ix]] Hxk; try lia.
           specialize (Hmax x (or_intror Ix) Hxk). lia.
      * exfalso. unfold starts_after in Ha'; rewrite Forall_forall in Ha'. specialize (Ha' a Ia).
        rewrite Forall_forall in Hlr. specialize (Hlr a Ia). apply ne_gt in Hlr. lia.
      * exists a, b. repeat split; try (now right; right); try lia.
        intros x [<-|[<-|Ix]] Hxk.
        -- specialize (Hmax cur' (or_introl eq_refl)). lia.
        -- specialize (Hmax cur' (or_introl eq_refl)). lia.
        -- apply Hmax; [now right | assumption].
  - intros cur s r Hc Hns Hlr Hs Ha E Ha' Lc Ls IH k [o [[<-|Ho] Hk]].
    + left. exists cur. split; [now left | assumption].
    + destruct (IH k (ex_intro _ o (conj Ho Hk))) as [[x [Ix Hx]]|[a [b [Ia [Ib [Hk' [Hd Hmax]]]]]]].
      * left. exists x. split; [now right | assumption].
      * right. exists a, b. repeat split; try (now right); try lia.
        intros x [<-|Ix] Hxk; [|now apply Hmax].
        assert (st s <= st a).
        { destruct Ia as [<-|Ia]; [lia|]. unfold starts_after in Ha'; rewrite Forall_forall in Ha'. now apply Ha'. }
        assert (st a < en a).
        { destruct Ia as [<-|Ia]; [lia|]. rewrite Forall_forall in Hlr. specialize (Hlr a Ia). apply ne_gt in Hlr. lia. }
        lia.
Qed.
End Sweep.

(* ---------- theorems about support_iter / support / duration ---------- *)
Section Support.
Variables eps collar : Z.
Hypothesis Heps : 0 <= eps.
Let th := th eps collar.

Lemma th_ge_eps : eps <= th.
Proof. unfold th, SupportP.th. lia. Qed.

Lemma wf_pre s r : wf eps (s :: r) ->
  ne eps s /\ Forall (ne eps) (s :: r) /\ st_sorted (s :: r) /\ starts_after s (s :: r).
Proof.
  intros [Hs Hn]. repeat split.
  - now inversion Hn.
  - exact Hn.
  - now apply ssorted_st_sorted.
  - constructor; [lia|]. apply st_sorted_all. now apply ssorted_st_sorted.
Qed.

Theorem support_iter_separated l : wf eps l ->
  separated eps collar (support_iter eps collar l) /\ Forall (ne eps) (support_iter eps collar l).
Proof.
  destruct l as [|s r]; intro H; [split; [exact I | constructor]|].
  destruct (wf_pre s r H) as [A [B [C D]]]. now apply sweep_separated.
Qed.

Theorem support_iter_bounds l o : wf eps l -> In o (support_iter eps collar l) ->
  (exists a, In a l /\ st o = st a) /\ (exists b, In b l /\ en o = en b).
Proof.
  destruct l as [|s r]; intros H Ho; [contradiction|].
  destruct (wf_pre s r H) as [A [B [C D]]].
  destruct (sweep_bounds eps collar Heps (s :: r) s A B C D o Ho) as [[a [Ia Ea]] [b [Ib Eb]]].
  split; [exists a | exists b]; (split; [destruct Ia, Ib; subst; simpl; tauto | assumption]).
Qed.

Theorem support_iter_includes l x : wf eps l -> In x l ->
  exists o, In o (support_iter eps collar l) /\ sin o x = true.
Proof.
  destruct l as [|s r]; intros H Hx; [contradiction|].
  destruct (wf_pre s r H) as [A [B [C D]]].
  apply (sweep_includes eps collar Heps (s :: r) s A B C D). now right.
Qed.

Theorem support_iter_cover_sound l k : wf eps l ->
  covers_cell (support_iter eps collar l) k -> covers_cell l k \/ in_bridged_gap eps collar l k.
Proof.
  destruct l as [|s r]; intros H Hk; [destruct Hk as [o [[] _]]|].
  destruct (wf_pre s r H) as [A [B [C D]]].
  destruct (sweep_cover_sound eps collar Heps (s :: r) s A B C D k Hk) as [[x [Ix Hx]]|[a [b [Ia [Ib Hr]]]]].
  - left. exists x. split; [destruct Ix; subst; simpl; tauto | assumption].
  - right. exists a, b. repeat split; try (destruct Ia; subst; simpl; tauto); try (destruct Ib; subst; simpl; tauto); try tauto.
    intros y Hy. apply Hr. now right.
Qed.

Theorem support_iter_cover_complete l k : wf eps l ->
  covers_cell l k -> covers_cell (support_iter eps collar l) k.
Proof.
  intros H [x [Ix Hx]]. destruct (support_iter_includes l x H Ix) as [o [Io So]].
  exists o. split; [assumption|]. apply sin_iff in So. lia.
Qed.

(* separated lists of non-empty segments are strictly sorted and pairwise apart *)
Lemma separated_pairwise l : separated eps collar l -> Forall (ne eps) l ->
  forall a r, l = a :: r -> Forall (fun b => st b - en a > th) r.
Proof.
  induction l as [|x l IH]; intros Hs Hn a r E; inversion E; subst. clear E.
  destruct r as [|b r']; constructor.
  - apply Hs.
  - destruct Hs as [H1 H2]. inversion Hn as [|? ? _ Hn']; subst.
    specialize (IH H2 Hn' b r' eq_refl). inversion Hn' as [|? ? Hb _]; subst. apply ne_gt in Hb.
    eapply Forall_impl; [|exact IH]. intros c Hc. simpl in Hc. pose proof th_ge_eps. fold th in H1. lia.
Qed.
Lemma separated_tail a l : separated eps collar (a :: l) -> separated eps collar l.
Proof. destruct l; simpl; tauto. Qed.
Lemma separated_ssorted l : separated eps collar l -> Forall (ne eps) l -> ssorted l.
Proof.
  induction l as [|a l IH]; intros Hs Hn; [constructor|].
  inversion Hn as [|? ? Ha Hn']; subst. apply ne_gt in Ha.
  apply ssorted_cons; [apply IH; [now apply separated_tail in Hs | assumption]|].
  pose proof (separated_pairwise _ Hs Hn a l eq_refl) as P.
  eapply Forall_impl; [|exact P]. intros b Hb. simpl in Hb. unfold slt. apply sltb_lex.
  pose proof th_ge_eps. left. lia.
Qed.

Theorem support_is_support_iter l : wf eps l -> support eps collar l = support_iter eps collar l.
Proof.
  intro H. unfold support. destruct (support_iter_separated l H) as [Hs Hn].
  apply tl_of_id; [now apply separated_ssorted | exact Hn].
Qed.
Corollary support_wf l : wf eps l -> wf eps (support eps collar l).
Proof. intro H. apply wf_tl_of. Qed.

(* a separated timeline is a fixed point of the sweep: idempotence *)
Lemma sweep_fixed l : forall cur,
  ne eps cur -> Forall (ne eps) l -> separated eps collar (cur :: l) ->
  support_go eps collar cur l = cur :: l.
Proof.
  induction l as [|s r IH]; intros cur Hc Hl Hs; [reflexivity|].
  inversion Hl as [|? ? Hns Hlr]; subst. destruct Hs as [H1 H2].
  apply ne_gt in Hc as Lc. apply ne_gt in Hns as Ls. pose proof th_ge_eps. fold th in H1.
  rewrite (support_go_unfold eps collar Heps cur s r Hc Hns) by lia.
  replace (st s - en cur <=? SupportP.th eps collar) with false by (fold th; lia).
  f_equal. now apply IH.
Qed.
Theorem support_iter_fixed l : separated eps collar l -> Forall (ne eps) l ->
  support_iter eps collar l = l.
Proof.
  destruct l as [|s r]; intros Hs Hn; [reflexivity|]. unfold support_iter.
  inversion Hn as [|? ? Hns Hnr]; subst. apply ne_gt in Hns as Ls. pose proof th_ge_eps.
  rewrite (support_go_unfold eps collar Heps s s r Hns Hns) by lia.
  replace (st s - en s <=? SupportP.th eps collar) with true by (fold th; lia).
  replace (st s, Z.max (en s) (en s)) with s by (destruct s; unfold st, en; simpl; f_equal; lia).
  now apply sweep_fixed.
Qed.
Theorem support_idempotent l : wf eps l ->
  support eps collar (support eps collar l) = support eps collar l.
Proof.
  intro H. rewrite (support_is_support_iter l H).
  destruct (support_iter_separated l H) as [Hs Hn].
  rewrite support_is_support_iter by (split; [now apply separated_ssorted | exact Hn]).
  now apply support_iter_fixed.
Qed.

(* each original lies in exactly one support segment *)
Theorem support_includes_unique l x o1 o2 : wf eps l -> In x l ->
  In o1 (support_iter eps collar l) -> In o2 (support_iter eps collar l) ->
  sin o1 x = true -> sin o2 x = true -> o1 = o2.
Proof.
  intros H Hx H1 H2 S1 S2. destruct (support_iter_separated l H) as [Hs Hn].
  destruct H as [_ Hne]. rewrite Forall_forall in Hne. specialize (Hne x Hx). apply (ne_gt eps) in Hne.
  apply sin_iff in S1, S2. pose proof th_ge_eps.
  revert Hs Hn H1 H2. generalize (support_iter eps collar l) as out.
  induction out as [|a out IH]; intros Hs Hn H1 H2; [contradiction|].
  pose proof (separated_pairwise _ Hs Hn a out eq_refl) as P. rewrite Forall_forall in P.
  inversion Hn as [|? ? Ha Hn']; subst.
  destruct H1 as [<-|H1]; destruct H2 as [<-|H2]; try reflexivity.
  - specialize (P o2 H2). simpl in P. lia.
  - specialize (P o1 H1). simpl in P. lia.
  - apply IH; try assumption. now apply separated_tail in Hs.
Qed.
End Support.

(* ---------- exact statements at eps = 0, collar = 0 ---------- *)
Section Exact.
(* canonical: strictly increasing, non-abutting, members of positive length *)
Fixpoint canonical (l : list seg) : Prop :=
  match l with
  | [] => True
  | a :: r => st a < en a /\ match r with b :: _ => en a < st b | [] => True end /\ canonical r
  end.

Lemma canonical_of_separated l :
  separated 0 0 l -> Forall (ne 0) l -> canonical l.
Proof.
  induction l as [|a l IH]; intros Hs Hn; [exact I|].
  inversion Hn as [|? ? Ha Hn']; subst. apply ne_gt in Ha. simpl. repeat split; [lia| |].
  - destruct l as [|b r]; [exact I|]. destruct Hs as [H _]. unfold th in H. lia.
  - apply IH; [|assumption]. destruct l; simpl in *; tauto.
Qed.

Lemma canonical_lb a r : canonical (a :: r) -> forall s, In s r -> en a < st s.
Proof.
  revert a. induction r as [|b r IH]; intros a H s Hs; [contradiction|].
  destruct H as [Ha [Hab Hr]]. destruct Hs as [<-|Hs]; [exact Hab|].
  pose proof (IH b Hr s Hs). destruct Hr as [Hb _]. lia.
Qed.

Theorem canonical_unique l1 : forall l2, canonical l1 -> canonical l2 ->
  (forall k, covers_cell l1 k <-> covers_cell l2 k) -> l1 = l2.
Proof.
  induction l1 as [|a l1 IH]; intros [|b l2] H1 H2 E.
  - reflexivity.
  - exfalso. destruct H2 as [Hb _]. destruct (proj2 (E (st b))) as [s [[] _]].
    exists b. split; [now left | lia].
  - exfalso. destruct H1 as [Ha _]. destruct (proj1 (E (st a))) as [s [[] _]].
    exists a. split; [now left | lia].
  - pose proof (canonical_lb _ _ H1) as L1. pose proof (canonical_lb _ _ H2) as L2.
    destruct H1 as [Ha [Hab1 Hr1]]. destruct H2 as [Hb [Hab2 Hr2]].
    assert (Hcov1 : forall k, covers_cell (a :: l1) k -> st a <= k).
    { intros k [s [[<-|Is] Hk]]; [lia | specialize (L1 s Is); lia]. }
    assert (Hcov2 : forall k, covers_cell (b :: l2) k -> st b <= k).
    { intros k [s [[<-|Is] Hk]]; [lia | specialize (L2 s Is); lia]. }
    assert (Sab : st a = st b).
    { assert (st b <= st a) by (apply Hcov2, E; exists a; split; [now left | lia]).
      assert (st a <= st b) by (apply Hcov1, E; exists b; split; [now left | lia]). lia. }
    assert (Nc1 : ~ covers_cell (a :: l1) (en a)).
    { intros [s [[<-|Is] Hk]]; [lia | specialize (L1 s Is); lia]. }
    assert (Nc2 : ~ covers_cell (b :: l2) (en b)).
    { intros [s [[<-|Is] Hk]]; [lia | specialize (L2 s Is); lia]. }
    assert (Eab : en a = en b).
    { destruct (Z.lt_trichotomy (en a) (en b)) as [L|[L|L]]; [|assumption|]; exfalso.
      - apply Nc1, E. exists b. split; [now left | lia].
      - apply Nc2, E. exists a. split; [now left | lia]. }
    assert (a = b) as -> by (destruct a, b; unfold st, en in *; simpl in *; f_equal; lia).
    f_equal. apply IH; try assumption.
    intro k. split; intros [s [Is Hk]].
    + destruct (proj1 (E k) (ex_intro _ s (conj (or_intror Is) Hk))) as [s' [[<-|Is'] Hk']].
      * specialize (L1 s Is). lia.
      * exists s'. tauto.
    + destruct (proj2 (E k) (ex_intro _ s (conj (or_intror Is) Hk))) as [s' [[<-|Is'] Hk']].
      * specialize (L2 s Is). lia.
      * exists s'. tauto.
Qed.

Theorem support_canonical_cells l : wf 0 l ->
  canonical (support 0 0 l) /\ (forall k, covers_cell (support 0 0 l) k <-> covers_cell l k).
Proof.
  intro H. rewrite (support_is_support_iter 0 0 (Z.le_refl 0) l H).
  destruct (support_iter_separated 0 0 (Z.le_refl 0) l H) as [Hs Hn].
  split; [now apply canonical_of_separated|].
  intro k. split.
  - intro Hk. destruct (support_iter_cover_sound 0 0 (Z.le_refl 0) l k H Hk) as [Hc|[a [b [_ [_ [Hk' [Hd _]]]]]]];
      [assumption | unfold th in Hd; lia].
  - now apply support_iter_cover_complete.
Qed.

(* the support is the unique canonical list covering the same cells *)
Corollary support_unique l c : wf 0 l -> canonical c ->
  (forall k, covers_cell c k <-> covers_cell l k) -> c = support 0 0 l.
Proof.
  intros H Hc E. destruct (support_canonical_cells l H) as [Hs Es].
  apply canonical_unique; try assumption. intro k. now rewrite E, Es.
Qed.

(* adding a segment that is already covered changes nothing *)
Corollary support_absorbs_covered l x : wf 0 l -> nonempty 0 x = true ->
  (forall k, st x <= k < en x -> covers_cell l k) ->
  support 0 0 (tl_of 0 (x :: l)) = support 0 0 l.
Proof.
  intros H Hx Hcov. symmetry. apply support_unique;
    [apply wf_tl_of | now apply support_canonical_cells |].
  intro k. destruct (support_canonical_cells l H) as [_ E]. rewrite E.
  destruct H as [_ Hn]. rewrite Forall_forall in Hn.
  split; intros [s [Is Hk]].
  - exists s. split; [|assumption]. apply tl_of_In. split; [now right | now apply Hn].
  - apply tl_of_In in Is as [[<-|Is] _]; [now apply Hcov | exists s; tauto].
Qed.
End Exact.
