(* Lemmas about the Segment model: the interval algebra of property C03. *)
From PV Require Import Model.Segment.

Ltac seg_unfold :=
  unfold sor, sxor, sand, sin, intersects, overlaps, duration, nonempty,
         seqb, sltb, sleb, middle2, st, en in *; simpl fst in *; simpl snd in *.

Ltac seg_crush := intros; seg_unfold;
  repeat match goal with
  | p : seg |- _ => destruct p
  | p : (Z * Z)%type |- _ => destruct p
  end; simpl fst in *; simpl snd in *;
  repeat match goal with
  | |- context [if ?b then _ else _] => let E := fresh "E" in destruct b eqn:E
  | H : context [if ?b then _ else _] |- _ => let E := fresh "E" in destruct b eqn:E
  end; simpl fst in *; simpl snd in *;
  try congruence; try lia; try (f_equal; lia); try (f_equal; f_equal; lia).

(* -- emptiness and duration -- *)
Lemma bool_false_iff eps s : nonempty eps s = false <-> en s - st s <= eps.
Proof. seg_crush. Qed.
Lemma empty_duration eps s : nonempty eps s = false -> duration eps s = 0.
Proof. seg_crush. Qed.
Lemma nonempty_duration eps s : nonempty eps s = true -> duration eps s = en s - st s.
Proof. seg_crush. Qed.
Lemma duration_nonneg eps s : 0 <= eps -> 0 <= duration eps s.
Proof. seg_crush. Qed.

(* -- intersects vs & -- *)
Lemma intersects_iff_and eps a b :
  0 <= eps -> nonempty eps a = true -> nonempty eps b = true ->
  intersects eps a b = nonempty eps (sand a b).
Proof. seg_crush. Qed.
Lemma intersects_sym eps a b : intersects eps a b = intersects eps b a.
Proof. seg_crush. Qed.
Lemma intersects_touching eps a b :
  0 <= eps -> nonempty eps a = true -> nonempty eps b = true ->
  en a = st b -> intersects eps a b = false.
Proof. seg_crush. Qed.
Lemma intersects_small_overlap eps a b :
  0 <= eps -> nonempty eps a = true -> nonempty eps b = true ->
  st a <= st b -> en a - st b <= eps -> intersects eps a b = false.
Proof. seg_crush. Qed.
Lemma intersects_disjoint eps a b :
  0 <= eps -> nonempty eps a = true -> nonempty eps b = true ->
  en a <= st b -> intersects eps a b = false.
Proof. seg_crush. Qed.

(* -- & : commutative, associative, idempotent (all segments) -- *)
Lemma sand_comm a b : sand a b = sand b a.
Proof. seg_crush. Qed.
Lemma sand_assoc a b c : sand a (sand b c) = sand (sand a b) c.
Proof. seg_crush. Qed.
Lemma sand_idem a : sand a a = a.
Proof. seg_crush. Qed.
(* & is the set-theoretic intersection of the closed intervals *)
Lemma sand_pointwise a b t :
  overlaps (sand a b) t = overlaps a t && overlaps b t.
Proof. seg_crush. Qed.
Lemma sand_included eps a b :
  0 <= eps -> nonempty eps (sand a b) = true ->
  sin a (sand a b) = true /\ sin b (sand a b) = true.
Proof. intros; split; seg_crush. Qed.
Lemma sand_greatest a b c :
  sin a c = true -> sin b c = true -> sin (sand a b) c = true.
Proof. seg_crush. Qed.

(* -- | : neutral element, comm/assoc/idem on non-empty operands, least cover -- *)
Lemma sor_empty_l eps e a : nonempty eps e = false -> sor eps e a = a.
Proof. seg_crush. Qed.
Lemma sor_empty_r eps e a :
  nonempty eps e = false -> nonempty eps a = true -> sor eps a e = a.
Proof. seg_crush. Qed.
Lemma sor_nonempty eps a b :
  0 <= eps -> nonempty eps a = true -> nonempty eps b = true ->
  nonempty eps (sor eps a b) = true.
Proof. seg_crush. Qed.
Lemma sor_comm eps a b :
  nonempty eps a = true -> nonempty eps b = true -> sor eps a b = sor eps b a.
Proof. seg_crush. Qed.
Lemma sor_assoc eps a b c :
  0 <= eps -> nonempty eps a = true -> nonempty eps b = true -> nonempty eps c = true ->
  sor eps a (sor eps b c) = sor eps (sor eps a b) c.
Proof.
  intros He Ha Hb Hc.
  pose proof (sor_nonempty eps a b He Ha Hb) as Hab.
  pose proof (sor_nonempty eps b c He Hb Hc) as Hbc.
  unfold sor in *. rewrite Ha, Hb, Hc in *. simpl negb in *. cbv iota in *.
  rewrite Hab, Hbc. simpl negb. cbv iota.
  unfold st, en; simpl. f_equal; lia.
Qed.
Lemma sor_idem eps a : sor eps a a = a.
Proof. seg_crush. Qed.
Lemma sor_covers eps a b :
  nonempty eps a = true -> nonempty eps b = true ->
  sin (sor eps a b) a = true /\ sin (sor eps a b) b = true.
Proof. intros; split; seg_crush. Qed.
Lemma sor_least eps a b c :
  nonempty eps a = true -> nonempty eps b = true ->
  sin c a = true -> sin c b = true -> sin c (sor eps a b) = true.
Proof. seg_crush. Qed.

(* -- ^ : gap -- *)
Lemma sxor_error_iff eps a b :
  sxor eps a b = None <-> (nonempty eps a = false \/ nonempty eps b = false).
Proof.
  unfold sxor. destruct (nonempty eps a), (nonempty eps b); simpl; split; intro H;
    try discriminate; try tauto; destruct H; discriminate.
Qed.
Lemma sxor_gap eps a b :
  0 <= eps -> nonempty eps a = true -> nonempty eps b = true -> en a <= st b ->
  sxor eps a b = Some (en a, st b) /\ sxor eps b a = Some (en a, st b).
Proof. intros; split; seg_crush. Qed.
Lemma sxor_overlapping eps a b g :
  0 <= eps -> sxor eps a b = Some g -> intersects eps a b = true -> nonempty eps g = false.
Proof.
  intros He H Hi. unfold sxor in H.
  destruct (negb (nonempty eps a) || negb (nonempty eps b)) eqn:E; [discriminate|].
  inversion H; subst; clear H. revert E Hi. seg_crush.
Qed.
Lemma sxor_comm eps a b : sxor eps a b = sxor eps b a.
Proof. seg_crush. Qed.

(* -- in / overlaps are closed-interval inclusion -- *)
Lemma overlaps_iff s t : overlaps s t = true <-> st s <= t <= en s.
Proof. seg_crush. Qed.
Lemma sin_iff o i : sin o i = true <-> (st o <= st i /\ en i <= en o).
Proof. seg_crush. Qed.
Lemma sin_pointwise o i :
  st i <= en i ->
  (sin o i = true <-> forall t, overlaps i t = true -> overlaps o t = true).
Proof.
  intros Hi. rewrite sin_iff. split.
  - intros [H1 H2] t Ht. apply overlaps_iff in Ht. apply overlaps_iff. lia.
  - intros H. pose proof (H (st i)) as A. pose proof (H (en i)) as B.
    rewrite !overlaps_iff in A, B. lia.
Qed.

(* -- ==, <, hash : one total lexicographic order on (start, end) -- *)
Lemma seqb_eq a b : seqb a b = true <-> a = b.
Proof.
  destruct a, b; unfold seqb, st, en; simpl. split.
  - intro H. f_equal; lia.
  - intro H; inversion H; subst. lia.
Qed.
Lemma sltb_irrefl a : sltb a a = false.
Proof. seg_crush. Qed.
Lemma sltb_trans a b c : sltb a b = true -> sltb b c = true -> sltb a c = true.
Proof. seg_crush. Qed.
Lemma sltb_trichotomy a b :
  (sltb a b = true /\ seqb a b = false /\ sltb b a = false) \/
  (sltb a b = false /\ seqb a b = true /\ sltb b a = false) \/
  (sltb a b = false /\ seqb a b = false /\ sltb b a = true).
Proof. seg_crush. Qed.
Lemma sltb_lex a b :
  sltb a b = true <-> (st a < st b \/ (st a = st b /\ en a < en b)).
Proof. seg_crush. Qed.
Lemma hash_respects_eq {T} (hashf : Z * Z -> T) a b :
  seqb a b = true -> hashf a = hashf b.
Proof. intro E. apply seqb_eq in E. now subst. Qed.

(* -- duration identity -- *)
Definition dur_opt eps (o : option seg) : Z :=
  match o with Some g => duration eps g | None => 0 end.

Lemma dur_identity_eps0 a b :
  nonempty 0 a = true -> nonempty 0 b = true ->
  duration 0 (sor 0 a b)
  = duration 0 a + duration 0 b - duration 0 (sand a b) + dur_opt 0 (sxor 0 a b).
Proof. unfold dur_opt. seg_crush. Qed.

Lemma dur_identity_upto_eps eps a b :
  0 <= eps -> nonempty eps a = true -> nonempty eps b = true ->
  Z.abs (duration eps (sor eps a b)
         - (duration eps a + duration eps b - duration eps (sand a b)
            + dur_opt eps (sxor eps a b))) <= eps.
Proof. unfold dur_opt. seg_crush. Qed.

(* scmp agrees with sltb / seqb *)
Lemma scmp_lt a b : scmp a b = Lt <-> sltb a b = true.
Proof.
  unfold scmp, sltb, st, en. destruct a as [a1 a2], b as [b1 b2]; simpl.
  destruct (Z.compare_spec a1 b1); destruct (Z.compare_spec a2 b2);
    split; intro HH; try discriminate; try reflexivity; try lia.
Qed.
Lemma scmp_eq a b : scmp a b = Eq <-> a = b.
Proof.
  unfold scmp, st, en. destruct a as [a1 a2], b as [b1 b2]; simpl.
  destruct (Z.compare_spec a1 b1); destruct (Z.compare_spec a2 b2);
    split; intro HH; try discriminate; try reflexivity; try (inversion HH; lia);
    f_equal; lia.
Qed.
