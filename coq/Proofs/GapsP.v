(* C06: gaps, extrude, covers -- exact cell-level statements at eps = 0. *)
From PV Require Import Model.Timeline Proofs.SegmentP Proofs.SortedP Proofs.TimelineInvP
  Proofs.OverlappingP Proofs.SupportP Proofs.CropP.

Lemma Z0le : 0 <= 0. Proof. lia. Qed.
Lemma st_pair a b : st (a, b) = a. Proof. reflexivity. Qed.
Lemma en_pair a b : en (a, b) = b. Proof. reflexivity. Qed.
Ltac pairs := rewrite ?st_pair, ?en_pair in *.

(* Timeline(segments=l) covers the same cells as l (eps = 0) *)
Lemma tl_of_cells l k : covers_cell (tl_of 0 l) k <-> covers_cell l k.
Proof.
  split; intros [s [Is Hk]]; exists s; (split; [|assumption]).
  - now apply tl_of_In in Is.
  - apply tl_of_In. split; [assumption | unfold nonempty; lia].
Qed.

Lemma support_cells l k : wf 0 l -> (covers_cell (support 0 0 l) k <-> covers_cell l k).
Proof. intro H. now apply support_canonical_cells. Qed.

Definition sup_list (s : sup) : list seg := match s with SupSeg x => [x] | SupTl l => l end.
Definition sup_wf (s : sup) : Prop := match s with SupSeg _ => True | SupTl l => wf 0 l end.

Lemma norm_support_cells s k : sup_wf s ->
  (covers_cell (norm_support 0 s) k <-> covers_cell (sup_list s) k).
Proof.
  destruct s as [x|l]; simpl; intro H.
  - rewrite support_cells by apply wf_tl_of. rewrite tl_of_cells.
    destruct (nonempty 0 x) eqn:E; [reflexivity|].
    split; [intros [s [[] _]] | intros [s [[<-|[]] Hk]]; unfold nonempty in E; lia].
  - now apply support_cells.
Qed.
Lemma norm_support_canonical s : canonical (norm_support 0 s).
Proof. destruct s; simpl; apply support_canonical_cells, wf_tl_of || apply support_canonical_cells. Abort.

Lemma crop_inter_cells t s k : wf 0 t ->
  (covers_cell (crop 0 t s Inter) k <-> covers_cell t k /\ covers_cell (norm_support 0 s) k).
Proof.
  intro Ht. split.
  - intros [y [Iy Hk]]. apply (crop_inter_spec 0 Z0le t Ht) in Iy as [x [r [Hx [Hr [-> _]]]]].
    unfold sand, st, en in Hk; simpl in Hk. split; [exists x | exists r]; (split; [assumption | unfold st, en; lia]).
  - intros [[x [Hx Hkx]] [r [Hr Hkr]]]. exists (sand x r). split.
    + apply (crop_inter_spec 0 Z0le t Ht). exists x, r. repeat split; auto.
      unfold nonempty, sand, st, en in *; simpl. lia.
    + unfold sand, st, en in *; simpl. lia.
Qed.

(* the sweep that emits the holes *)
Lemma gaps_go_nil e stop :
  gaps_go 0 e stop [] = if stop - e >? 0 then [(e, stop)] else [].
Proof. reflexivity. Qed.
Lemma gaps_go_cons e stop s r :
  gaps_go 0 e stop (s :: r) =
    if st s - e >? 0 then (e, st s) :: gaps_go 0 (en s) stop r else gaps_go 0 (en s) stop r.
Proof. reflexivity. Qed.

Definition within (e stop : Z) (c : list seg) : Prop := forall s, In s c -> e <= st s /\ en s <= stop.

Lemma within_tail e stop s r : canonical (s :: r) -> within e stop (s :: r) -> within (en s) stop r.
Proof.
  intros Hc Hb x I. pose proof (canonical_lb _ _ Hc x I). destruct (Hb x (or_intror I)). lia.
Qed.

Lemma gaps_go_bounds c : forall e stop,
  canonical c -> within e stop c -> e <= stop ->
  forall g, In g (gaps_go 0 e stop c) -> e <= st g /\ st g < en g /\ en g <= stop.
Proof.
  induction c as [|s r IH]; intros e stop Hc Hb Hle g Hg.
  - rewrite gaps_go_nil in Hg. destruct (stop - e >? 0) eqn:E; [|contradiction].
    destruct Hg as [<-|[]]. pairs. lia.
  - rewrite gaps_go_cons in Hg. destruct (Hb s (or_introl eq_refl)) as [Hes Hss].
    pose proof (within_tail _ _ _ _ Hc Hb) as Hb'. destruct Hc as [Hs [_ Hr]].
    assert (Q : In g (gaps_go 0 (en s) stop r) -> e <= st g /\ st g < en g /\ en g <= stop).
    { intro I. destruct (IH (en s) stop Hr Hb' Hss g I). lia. }
    destruct (st s - e >? 0) eqn:E; [|now apply Q].
    destruct Hg as [<-|Hg]; [pairs; lia | now apply Q].
Qed.

Lemma gaps_go_canonical c : forall e stop,
  canonical c -> within e stop c -> e <= stop -> canonical (gaps_go 0 e stop c).
Proof.
  induction c as [|s r IH]; intros e stop Hc Hb Hle.
  - rewrite gaps_go_nil. destruct (stop - e >? 0) eqn:E; simpl; [|exact I].
    pairs. repeat split; lia.
  - rewrite gaps_go_cons. destruct (Hb s (or_introl eq_refl)) as [Hes Hss].
    pose proof (within_tail _ _ _ _ Hc Hb) as Hb'. pose proof Hc as [Hs [_ Hr]].
    specialize (IH (en s) stop Hr Hb' Hss).
    destruct (st s - e >? 0) eqn:E; [|exact IH].
    split; [pairs; lia|]. split; [|exact IH].
    destruct (gaps_go 0 (en s) stop r) as [|g rest] eqn:Eg; [exact I|].
    assert (Ig : In g (gaps_go 0 (en s) stop r)) by (rewrite Eg; now left).
    destruct (gaps_go_bounds r (en s) stop Hr Hb' Hss g Ig). pairs. lia.
Qed.

Lemma covers_cons s r k : covers_cell (s :: r) k <-> (st s <= k < en s \/ covers_cell r k).
Proof.
  split.
  - intros [x [[<-|I] Hk]]; [now left | right; exists x; tauto].
  - intros [Hk|[x [I Hk]]]; [exists s; split; [now left | assumption] | exists x; split; [now right | assumption]].
Qed.
Lemma covers_nil k : ~ covers_cell [] k.
Proof. intros [x [[] _]]. Qed.

Lemma gaps_go_cells c : forall e stop,
  canonical c -> within e stop c -> e <= stop ->
  forall k, covers_cell (gaps_go 0 e stop c) k <-> (e <= k < stop /\ ~ covers_cell c k).
Proof.
  induction c as [|s r IH]; intros e stop Hc Hb Hle k.
  - rewrite gaps_go_nil. destruct (stop - e >? 0) eqn:E.
    + rewrite covers_cons. pairs. split.
      * intros [H|H]; [split; [lia | apply covers_nil] | now apply covers_nil in H].
      * intros [H _]. now left.
    + split; [intro H; now apply covers_nil in H | intros [H _]; lia].
  - rewrite gaps_go_cons. destruct (Hb s (or_introl eq_refl)) as [Hes Hss].
    pose proof (within_tail _ _ _ _ Hc Hb) as Hb'. pose proof (canonical_lb _ _ Hc) as L.
    pose proof Hc as [Hs [_ Hr]]. specialize (IH (en s) stop Hr Hb' Hss k).
    assert (Hr_lb : covers_cell r k -> en s <= k).
    { intros [x [I Hk]]. specialize (L x I). lia. }
    rewrite (covers_cons s r k).
    destruct (st s - e >? 0) eqn:E.
    + rewrite covers_cons, IH. pairs. split.
      * intros [H|[H Hn]]; (split; [lia|]); intros [H'|H']; try lia; try contradiction;
          try (apply Hr_lb in H'; lia).
      * intros [H Hn]. destruct (Z_lt_ge_dec k (st s)) as [Lt|Ge]; [left; lia|].
        right. split; [|tauto]. destruct (Z_lt_ge_dec k (en s)); [exfalso; apply Hn; left; lia | lia].
    + rewrite IH. split.
      * intros [H Hn]. split; [lia|]. intros [H'|H']; [lia | contradiction].
      * intros [H Hn]. split; [|tauto].
        destruct (Z_lt_ge_dec k (en s)); [exfalso; apply Hn; left; lia | lia].
Qed.

(* ---------- canonical lists: structure ---------- *)
Lemma canonical_pos c s : canonical c -> In s c -> st s < en s.
Proof.
  induction c as [|a r IH]; intros H I; [contradiction|].
  destruct H as [Ha [_ Hr]]. destruct I as [<-|I]; [assumption | now apply IH].
Qed.
Lemma canonical_tail a r : canonical (a :: r) -> canonical r.
Proof. intros [_ [_ H]]. exact H. Qed.
Lemma canonical_apart c : canonical c -> forall r r', In r c -> In r' c ->
  r = r' \/ en r < st r' \/ en r' < st r.
Proof.
  induction c as [|a l IH]; intros H r r' I I'; [contradiction|].
  pose proof (canonical_lb _ _ H) as L. pose proof (canonical_tail _ _ H) as Hl.
  destruct I as [<-|I]; destruct I' as [<-|I'].
  - now left.
  - right. left. now apply L.
  - right. right. now apply L.
  - now apply IH.
Qed.
Lemma canonical_wf c : canonical c -> wf 0 c.
Proof.
  induction c as [|a r IH]; intro H; [split; constructor|].
  pose proof (canonical_lb _ _ H) as L. destruct H as [Ha [_ Hr]]. destruct (IH Hr) as [Hs Hn].
  split.
  - apply ssorted_cons; [assumption|]. rewrite Forall_forall. intros b Ib. specialize (L b Ib).
    unfold slt. apply sltb_lex. left. lia.
  - constructor; [unfold nonempty; lia | assumption].
Qed.
Lemma canonical_within lo hi c : canonical c ->
  (forall k, covers_cell c k -> lo <= k < hi) -> within lo hi c.
Proof.
  intros Hc H s I. pose proof (canonical_pos c s Hc I) as P.
  assert (A : lo <= st s < hi) by (apply H; exists s; split; [assumption | lia]).
  assert (B : lo <= en s - 1 < hi) by (apply H; exists s; split; [assumption | lia]). lia.
Qed.
Lemma canonical_app l1 : forall l2, canonical l1 -> canonical l2 ->
  (forall a b, In a l1 -> In b l2 -> en a < st b) -> canonical (l1 ++ l2).
Proof.
  induction l1 as [|a r IH]; intros l2 H1 H2 D; [exact H2|].
  destruct H1 as [Ha [Hn Hr]]. simpl. split; [assumption|]. split.
  - destruct r as [|b r']; simpl.
    + destruct l2 as [|b l2']; [exact I|]. apply D; now left.
    + exact Hn.
  - apply IH; auto. intros x y Ix Iy. apply D; [now right | assumption].
Qed.
(* a segment all of whose cells are covered by a canonical list lies inside one member *)
Lemma canonical_contains c x : canonical c -> st x < en x ->
  (forall k, st x <= k < en x -> covers_cell c k) -> exists r, In r c /\ sin r x = true.
Proof.
  intros Hc Hx Hcov. destruct (Hcov (st x) ltac:(lia)) as [r [Ir Hr]].
  exists r. split; [assumption|]. apply sin_iff. split; [lia|].
  destruct (Z_le_gt_dec (en x) (en r)) as [Le|Gt]; [assumption|]. exfalso.
  destruct (Hcov (en r) ltac:(lia)) as [r' [Ir' Hr']].
  destruct (canonical_apart c Hc r r' Ir Ir') as [->|[H|H]]; lia.
Qed.

(* ---------- gaps ---------- *)
Section Gaps.
Variable t : list seg.
Hypothesis Ht : wf 0 t.

Lemma gaps_seg_props x :
  (forall k, covers_cell (gaps_seg 0 t x) k <-> (st x <= k < en x /\ ~ covers_cell t k)) /\
  canonical (gaps_seg 0 t x) /\ within (st x) (en x) (gaps_seg 0 t x).
Proof.
  unfold gaps_seg. destruct (nonempty 0 x) eqn:Ex.
  - set (c := support 0 0 (crop 0 t (SupSeg x) Inter)).
    assert (Lx : st x < en x) by (unfold nonempty in Ex; lia).
    destruct (support_canonical_cells (crop 0 t (SupSeg x) Inter) (wf_tl_of _ _)) as [Hc Ec].
    fold c in Hc, Ec.
    assert (Ecell : forall k, covers_cell c k <-> covers_cell t k /\ st x <= k < en x).
    { intro k. rewrite Ec, (crop_inter_cells t (SupSeg x) k Ht), (norm_support_cells (SupSeg x) k I).
      simpl. rewrite covers_cons. split; [intros [H [H'|H']]; [tauto | now apply covers_nil in H'] | tauto]. }
    assert (Hw : within (st x) (en x) c).
    { apply canonical_within; [assumption|]. intros k Hk. now apply Ecell in Hk. }
    split; [|split].
    + intro k. rewrite (gaps_go_cells c (st x) (en x) Hc Hw ltac:(lia) k), Ecell. tauto.
    + apply gaps_go_canonical; auto; lia.
    + intros g Hg. destruct (gaps_go_bounds c (st x) (en x) Hc Hw ltac:(lia) g Hg). lia.
  - rewrite (crop_empty_segment_support 0 t x Inter Ex).
    change (support 0 0 []) with (@nil seg). rewrite gaps_go_nil.
    replace (en x - st x >? 0) with false by (unfold nonempty in Ex; lia).
    split; [|split; [exact I | intros g []]].
    intro k. split; [intro H; now apply covers_nil in H | unfold nonempty in Ex; lia].
Qed.

Lemma canonical_flat_gaps regions : canonical regions ->
  canonical (flat_map (gaps_seg 0 t) regions) /\
  (forall g, In g (flat_map (gaps_seg 0 t) regions) -> exists r, In r regions /\ st r <= st g /\ en g <= en r).
Proof.
  induction regions as [|r rs IH]; intro H; [split; [exact I | intros g []]|].
  pose proof (canonical_lb _ _ H) as L. destruct (IH (canonical_tail _ _ H)) as [IH1 IH2].
  destruct (gaps_seg_props r) as [_ [Hc Hw]]. simpl. split.
  - apply canonical_app; auto. intros a b Ia Ib. destruct (Hw a Ia).
    destruct (IH2 b Ib) as [r' [Ir' [Hs _]]]. specialize (L r' Ir'). lia.
  - intros g Ig. apply in_app_or in Ig as [Ig|Ig].
    + exists r. split; [now left | apply Hw, Ig].
    + destruct (IH2 g Ig) as [r' [Ir' Hr']]. exists r'. split; [now right | assumption].
Qed.

Variable S : sup.
Hypothesis HS : sup_wf S.

Lemma gaps_iter_canonical : canonical (gaps_iter 0 t (Some S)).
Proof.
  destruct S as [x|l]; simpl.
  - apply gaps_seg_props.
  - apply canonical_flat_gaps. now apply support_canonical_cells.
Qed.
Theorem gaps_is_gaps_iter : gaps 0 t (Some S) = gaps_iter 0 t (Some S).
Proof.
  unfold gaps. destruct (canonical_wf _ gaps_iter_canonical) as [A B]. now apply tl_of_id.
Qed.
Theorem gaps_canonical : canonical (gaps 0 t (Some S)).
Proof. rewrite gaps_is_gaps_iter. apply gaps_iter_canonical. Qed.

(* gaps(S) covers exactly the part of S the timeline does not cover *)
Theorem gaps_cells k :
  covers_cell (gaps 0 t (Some S)) k <-> (covers_cell (sup_list S) k /\ ~ covers_cell t k).
Proof.
  unfold gaps. rewrite tl_of_cells. destruct S as [x|l]; simpl.
  - destruct (gaps_seg_props x) as [H _]. rewrite H, covers_cons.
    split; [intros [A B]; split; [now left | assumption] | intros [[A|A] B]; [tauto | now apply covers_nil in A]].
  - rewrite <- (support_cells l k HS). split.
    + intros [g [Ig Hk]]. apply in_flat_map in Ig as [r [Ir Ig]].
      destruct (gaps_seg_props r) as [H _]. destruct (proj1 (H k) (ex_intro _ g (conj Ig Hk))) as [A B].
      split; [exists r; tauto | assumption].
    + intros [[r [Ir Hk]] Hn]. destruct (gaps_seg_props r) as [H _].
      destruct (proj2 (H k) (conj Hk Hn)) as [g [Ig Hg]]. exists g. split; [|assumption].
      apply in_flat_map. exists r. tauto.
Qed.

(* crop(S) and gaps(S) partition S *)
Theorem crop_gaps_partition k :
  (covers_cell (sup_list S) k <->
     covers_cell (crop 0 t S Inter) k \/ covers_cell (gaps 0 t (Some S)) k) /\
  ~ (covers_cell (crop 0 t S Inter) k /\ covers_cell (gaps 0 t (Some S)) k).
Proof.
  rewrite gaps_cells, (crop_inter_cells t S k Ht), (norm_support_cells S k HS).
  assert (D : covers_cell t k \/ ~ covers_cell t k).
  { destruct (existsb (fun s => (st s <=? k) && (k <? en s)) t) eqn:E.
    - left. apply existsb_exists in E as [s [Is H]]. exists s. split; [assumption | lia].
    - right. intros [s [Is H]]. assert (existsb (fun s => (st s <=? k) && (k <? en s)) t = true).
      { apply existsb_exists. exists s. split; [assumption | lia]. } congruence. }
  tauto.
Qed.
End Gaps.

Lemma covers_dec t k : covers_cell t k \/ ~ covers_cell t k.
Proof.
  destruct (existsb (fun s => (st s <=? k) && (k <? en s)) t) eqn:E.
  - left. apply existsb_exists in E as [s [Is H]]. exists s. split; [assumption | lia].
  - right. intros [s [Is H]]. assert (existsb (fun s => (st s <=? k) && (k <? en s)) t = true).
    { apply existsb_exists. exists s. split; [assumption | lia]. } congruence.
Qed.

(* taking gaps twice within S gives back the cropped support *)
Theorem gaps_gaps t S : wf 0 t -> sup_wf S ->
  gaps 0 (gaps 0 t (Some S)) (Some S) = support 0 0 (crop 0 t S Inter).
Proof.
  intros Ht HS. apply canonical_unique.
  - apply gaps_canonical; [apply wf_tl_of | assumption].
  - apply support_canonical_cells, wf_tl_of.
  - intro k.
    assert (Hg : wf 0 (gaps 0 t (Some S))) by apply wf_tl_of.
    assert (Hc : wf 0 (crop 0 t S Inter)) by apply wf_tl_of.
    rewrite (gaps_cells _ Hg S HS k), (gaps_cells t Ht S HS k).
    rewrite (support_cells _ k Hc), (crop_inter_cells t S k Ht), (norm_support_cells S k HS).
    destruct (covers_dec t k); tauto.
Qed.

(* ---------- extent ---------- *)
Lemma max_end_ge l : forall d, d <= max_end l d /\ (forall s, In s l -> en s <= max_end l d).
Proof.
  unfold max_end. induction l as [|a l IH]; intro d; simpl; [split; [lia | intros s []]|].
  destruct (IH (Z.max d (en a))) as [H1 H2]. split; [lia|].
  intros s [<-|I]; [lia | now apply H2].
Qed.
Lemma extent_l_covers t : wf 0 t -> forall s, In s t ->
  st (extent_l t) <= st s /\ en s <= en (extent_l t).
Proof.
  intros [Hs _] s I. destruct t as [|a r]; [contradiction|]. simpl. pairs.
  destruct (max_end_ge r (en a)) as [H1 H2].
  destruct I as [<-|I]; [lia|]. split; [|now apply H2].
  apply ssorted_inv in Hs as [_ F]. rewrite Forall_forall in F. now apply slt_st, F.
Qed.

(* intersecting = sharing a cell (eps = 0, non-empty segments) *)
Lemma intersects0_cells x r : st x < en x -> st r < en r ->
  (intersects 0 x r = true <-> exists k, st x <= k < en x /\ st r <= k < en r).
Proof.
  intros Hx Hr. unfold intersects. split.
  - intro H. exists (Z.max (st x) (st r)). lia.
  - intros [k Hk]. lia.
Qed.

Section Extrude.
Variable t : list seg.
Hypothesis Ht : wf 0 t.
Variable Rm : sup.
Hypothesis HR : sup_wf Rm.

Let removed_l := match Rm with SupSeg x => tl_of 0 [x] | SupTl l => l end.
Let extent_tl := tl_of 0 [extent_l t].
Let truncating := gaps 0 removed_l (Some (SupTl extent_tl)).

Lemma removed_wf : wf 0 removed_l.
Proof. unfold removed_l. destruct Rm; [apply wf_tl_of | exact HR]. Qed.
Lemma removed_cells k : covers_cell removed_l k <-> covers_cell (sup_list Rm) k.
Proof. unfold removed_l. destruct Rm; [apply tl_of_cells | reflexivity]. Qed.
Lemma truncating_cells k :
  covers_cell truncating k <->
  (st (extent_l t) <= k < en (extent_l t) /\ ~ covers_cell (sup_list Rm) k).
Proof.
  unfold truncating.
  rewrite (gaps_cells removed_l removed_wf (SupTl extent_tl) (wf_tl_of _ _) k).
  simpl. unfold extent_tl. rewrite tl_of_cells, covers_cons, removed_cells.
  split; [intros [[A|A] B]; [tauto | now apply covers_nil in A] | tauto].
Qed.
Lemma truncating_wf : wf 0 truncating.
Proof. apply wf_tl_of. Qed.
Lemma regions_cells k :
  covers_cell (norm_support 0 (SupTl truncating)) k <->
  (st (extent_l t) <= k < en (extent_l t) /\ ~ covers_cell (sup_list Rm) k).
Proof. rewrite (norm_support_cells (SupTl truncating) k truncating_wf). apply truncating_cells. Qed.
Lemma regions_canonical : canonical (norm_support 0 (SupTl truncating)).
Proof. simpl. apply support_canonical_cells, truncating_wf. Qed.

Lemma member_in_extent x k : In x t -> st x <= k < en x -> st (extent_l t) <= k < en (extent_l t).
Proof. intros I Hk. destruct (extent_l_covers t Ht x I). lia. Qed.
Lemma member_pos x : In x t -> st x < en x.
Proof. intro I. destruct Ht as [_ F]. rewrite Forall_forall in F. specialize (F x I). unfold nonempty in F. lia. Qed.

(* 'intersection': exactly the parts of each segment lying outside R *)
Theorem extrude_intersection_cells k :
  covers_cell (extrude 0 t Rm Inter) k <-> (covers_cell t k /\ ~ covers_cell (sup_list Rm) k).
Proof.
  unfold extrude. fold removed_l extent_tl truncating. simpl swap_mode.
  rewrite (crop_inter_cells t (SupTl truncating) k Ht), regions_cells.
  split; [tauto|]. intros [[x [I Hk]] Hn]. split; [exists x; tauto|]. split; [|assumption].
  now apply (member_in_extent x).
Qed.

(* 'loose': exactly the segments that do not intersect R *)
Theorem extrude_loose_spec x :
  In x (extrude 0 t Rm Loose) <->
  (In x t /\ forall k, st x <= k < en x -> ~ covers_cell (sup_list Rm) k).
Proof.
  unfold extrude. fold removed_l extent_tl truncating. simpl swap_mode.
  rewrite (crop_strict_spec 0 Z0le t Ht (SupTl truncating) x). split.
  - intros [I [r [Ir Hs]]]. split; [assumption|]. intros k Hk. apply sin_iff in Hs.
    assert (C : covers_cell (norm_support 0 (SupTl truncating)) k) by (exists r; split; [assumption | lia]).
    now apply regions_cells in C.
  - intros [I H]. split; [assumption|].
    apply (canonical_contains _ x regions_canonical (member_pos x I)).
    intros k Hk. apply regions_cells. split; [now apply (member_in_extent x) | now apply H].
Qed.

(* 'strict': exactly the segments not contained in R *)
Theorem extrude_strict_spec x :
  In x (extrude 0 t Rm Strict) <->
  (In x t /\ exists k, st x <= k < en x /\ ~ covers_cell (sup_list Rm) k).
Proof.
  unfold extrude. fold removed_l extent_tl truncating. simpl swap_mode.
  rewrite (crop_loose_spec 0 Z0le t Ht (SupTl truncating) x). split.
  - intros [I [r [Ir Hi]]]. split; [assumption|].
    apply intersects0_cells in Hi as [k [Hx Hr]];
      [| now apply member_pos | now apply (canonical_pos _ r regions_canonical)].
    exists k. split; [assumption|].
    assert (C : covers_cell (norm_support 0 (SupTl truncating)) k) by (exists r; tauto).
    now apply regions_cells in C.
  - intros [I [k [Hk Hn]]]. split; [assumption|].
    assert (C : covers_cell (norm_support 0 (SupTl truncating)) k).
    { apply regions_cells. split; [now apply (member_in_extent x) | assumption]. }
    destruct C as [r [Ir Hr]]. exists r. split; [assumption|].
    apply intersects0_cells; [now apply member_pos | now apply (canonical_pos _ r regions_canonical) |].
    exists k. tauto.
Qed.
End Extrude.

(* covers(other): no time point of other lies outside the timeline *)
Theorem covers_spec t o : wf 0 t -> wf 0 o ->
  (covers 0 t o = true <-> forall k, covers_cell o k -> covers_cell t k).
Proof.
  intros Ht Ho. unfold covers.
  set (g := gaps 0 t (Some (SupSeg (extent_l o)))).
  assert (Hg : wf 0 g) by apply wf_tl_of.
  assert (Gc : forall k, covers_cell g k <->
                 (st (extent_l o) <= k < en (extent_l o)) /\ ~ covers_cell t k).
  { intro k. unfold g. rewrite (gaps_cells t Ht (SupSeg (extent_l o)) I k). simpl. rewrite covers_cons.
    split; [intros [[A|A] B]; [tauto | now apply covers_nil in A] | tauto]. }
  assert (Pos : forall l x, wf 0 l -> In x l -> st x < en x).
  { intros l x [_ F] Ix. rewrite Forall_forall in F. specialize (F x Ix). unfold nonempty in F. lia. }
  destruct (co_iter 0 g o) as [|[a b] rest] eqn:E.
  - split; [|reflexivity]. intros _ k Hk. destruct (covers_dec t k) as [|Hn]; [assumption|]. exfalso.
    destruct Hk as [s [Is Hk]].
    assert (C : covers_cell g k).
    { apply Gc. split; [|assumption]. destruct (extent_l_covers o Ho s Is). lia. }
    destruct C as [gg [Ig Hgk]].
    assert (In (gg, s) (co_iter 0 g o)).
    { apply (co_iter_In 0 Z0le g o gg s Hg Ho). repeat split; auto.
      apply intersects0_cells; [now apply (Pos g) | now apply (Pos o) | exists k; tauto]. }
    rewrite E in H. contradiction.
  - split; [discriminate|]. intro H. exfalso.
    assert (Iab : In (a, b) (co_iter 0 g o)) by (rewrite E; now left).
    apply (co_iter_In 0 Z0le g o a b Hg Ho) in Iab as [Ia [Ib Hi]].
    apply intersects0_cells in Hi as [k [Hka Hkb]]; [| now apply (Pos g) | now apply (Pos o)].
    assert (C : covers_cell g k) by (exists a; tauto). apply Gc in C as [_ Hn].
    apply Hn, H. exists b. tauto.
Qed.
