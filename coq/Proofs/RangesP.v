(* C15 / C17: the merged ranges returned for a Timeline focus (return_ranges=True) describe
   exactly the index set of the per-segment ranges; they are separated half-open runs. *)
From PV Require Import Model.Window Proofs.SegmentP Proofs.SortedP Proofs.SupportP Proofs.WindowP.

Definition rng := (Z * Z)%type.
Definition in_r (r : rng) (k : Z) : Prop := fst r <= k < snd r.
Definition cov (rs : list rng) (k : Z) : Prop := exists r, In r rs /\ in_r r k.

Lemma cov_app a b k : cov (a ++ b) k <-> cov a k \/ cov b k.
Proof.
  unfold cov. split.
  - intros [r [H Hk]]. apply in_app_or in H as [H|H]; [left | right]; exists r; tauto.
  - intros [[r [H Hk]]|[r [H Hk]]]; exists r; (split; [apply in_or_app; tauto | exact Hk]).
Qed.
Lemma cov_single r k : cov [r] k <-> in_r r k.
Proof. unfold cov. split; [intros [x [[<-|[]] H]]; exact H | intro H; exists r; split; [now left | exact H]]. Qed.
Lemma cov_nil k : ~ cov [] k.
Proof. intros [r [[] _]]. Qed.
Lemma cov_cons r rs k : cov (r :: rs) k <-> in_r r k \/ cov rs k.
Proof. change (r :: rs) with ([r] ++ rs). now rewrite cov_app, cov_single. Qed.

(* both bounds non-decreasing along the list *)
Fixpoint mono (rs : list rng) : Prop :=
  match rs with
  | a :: ((b :: _) as r) => fst a <= fst b /\ snd a <= snd b /\ mono r
  | _ => True
  end.
(* consecutive runs are separated: the next starts after the previous ends *)
Fixpoint sep (rs : list rng) : Prop :=
  match rs with
  | a :: ((b :: _) as r) => snd a < fst b /\ sep r
  | _ => True
  end.

Lemma merge_step pre l r rest :
  merge_ranges (pre ++ [l]) (r :: rest) =
  if fst r >? snd l then merge_ranges ((pre ++ [l]) ++ [r]) rest
  else merge_ranges (pre ++ [(fst l, snd r)]) rest.
Proof. cbn [merge_ranges]. rewrite rev_app_distr. cbn [rev app]. now rewrite rev_involutive. Qed.

Lemma merge_cov rest : forall pre l, mono (l :: rest) -> forall k,
  cov (merge_ranges (pre ++ [l]) rest) k <-> cov pre k \/ in_r l k \/ cov rest k.
Proof.
  induction rest as [|r rest IH]; intros pre l M k.
  - cbn [merge_ranges]. rewrite cov_app, cov_single. pose proof (cov_nil k). tauto.
  - rewrite merge_step. destruct M as [M1 [M2 M3]]. rewrite (cov_cons r rest k).
    destruct (fst r >? snd l) eqn:E.
    + rewrite (IH (pre ++ [l]) r M3 k), cov_app, cov_single. tauto.
    + assert (M' : mono ((fst l, snd r) :: rest)).
      { destruct rest as [|r2 rest']; [exact I|]. destruct M3 as [A [B C]]. cbn [mono fst snd]. repeat split; try lia. exact C. }
      rewrite (IH pre (fst l, snd r) M' k). unfold in_r. cbn [fst snd].
      assert (A : fst l <= k < snd r <-> (fst l <= k < snd l) \/ (fst r <= k < snd r)) by lia. tauto.
Qed.
Theorem merge_ranges_same_set rs : mono rs -> forall k, cov (merge_ranges [] rs) k <-> cov rs k.
Proof.
  destruct rs as [|r rest]; intros M k; [reflexivity|].
  change (merge_ranges [] (r :: rest)) with (merge_ranges ([] ++ [r]) rest).
  rewrite (merge_cov rest [] r M k), (cov_cons r rest k). pose proof (cov_nil k). tauto.
Qed.

Lemma sep_snoc pre l : sep (pre ++ [l]) -> forall r, snd l < fst r -> sep ((pre ++ [l]) ++ [r]).
Proof.
  induction pre as [|a pre IH]; intros S r H; cbn [app] in *.
  - cbn [sep]. tauto.
  - destruct (pre ++ [l]) as [|b q] eqn:E; [destruct pre; discriminate|].
    cbn [app]. cbn [sep] in S |- *. destruct S as [S1 S2]. split; [exact S1|]. apply IH; assumption.
Qed.
Lemma sep_replace_last pre l l' : sep (pre ++ [l]) -> fst l' = fst l -> sep (pre ++ [l']).
Proof.
  induction pre as [|a pre IH]; intros S E; cbn [app] in *; [exact I|].
  destruct pre as [|b pre']; cbn [app] in *.
  - cbn [sep] in *. split; [lia | exact I].
  - cbn [sep] in S |- *. destruct S as [S1 S2]. split; [exact S1|]. apply IH; assumption.
Qed.
Lemma merge_sep rest : forall pre l, sep (pre ++ [l]) -> sep (merge_ranges (pre ++ [l]) rest).
Proof.
  induction rest as [|r rest IH]; intros pre l S; [exact S|].
  rewrite merge_step. destruct (fst r >? snd l) eqn:E.
  - apply IH. apply sep_snoc; [exact S | lia].
  - apply IH. apply (sep_replace_last pre l); [exact S | reflexivity].
Qed.
Theorem merge_ranges_separated rs : sep (merge_ranges [] rs).
Proof.
  destruct rs as [|r rest]; [exact I|].
  change (merge_ranges [] (r :: rest)) with (merge_ranges ([] ++ [r]) rest). apply merge_sep. exact I.
Qed.

(* ---- monotonicity of the per-segment range in the segment bounds ---- *)
Lemma rhe_mono n m d : 0 < d -> n <= m -> rhe n d <= rhe m d.
Proof.
  intros Hd H. destruct (Z_le_gt_dec (rhe n d) (rhe m d)) as [L|G]; [exact L|]. exfalso.
  pose proof (rhe_nearest n d (rhe m d) Hd) as A. pose proof (rhe_nearest m d (rhe n d) Hd) as B.
  pose proof (rhe_spec n d Hd) as C. pose proof (rhe_spec m d Hd) as D.
  (* rhe n >= rhe m + 1 while n <= m: both within d/2 => n = m - ... forces ties resolved differently *)
  assert (E : rhe n d = rhe m d + 1 /\ 2 * n = 2 * m /\ 2 * (rhe n d * d - n) = d) by nia.
  destruct E as [E1 [E2 E3]]. assert (n = m) by lia. subst m. lia.
Qed.
Lemma fdiv_mono n m d : 0 < d -> n <= m -> fdiv n d <= fdiv m d.
Proof. intros Hd H. apply (fdiv_iff m d (fdiv n d) Hd). pose proof (fdiv_spec n d Hd). lia. Qed.
Lemma cdiv_mono n m d : 0 < d -> n <= m -> cdiv n d <= cdiv m d.
Proof. intros Hd H. apply (cdiv_iff n d (cdiv m d) Hd). pose proof (cdiv_spec m d Hd). lia. Qed.
Lemma crop_range_mono w m a b : 0 < w_step w -> st a <= st b -> en a <= en b ->
  fst (crop_range w a m None) <= fst (crop_range w b m None) /\
  snd (crop_range w a m None) <= snd (crop_range w b m None).
Proof.
  intros Hs H1 H2. destruct m; cbn [crop_range fst snd]; unfold closest_frame; split;
    try (apply Z.add_le_mono_r); first [apply cdiv_mono | apply fdiv_mono | apply rhe_mono]; lia.
Qed.

(* segments of a support are increasing in both bounds *)
Definition both_incr (l : list seg) : Prop := StronglySorted (fun a b => st a <= st b /\ en a <= en b) l.
Lemma mono_map_crop w m l : 0 < w_step w -> both_incr l -> mono (map (fun s => crop_range w s m None) l).
Proof.
  intros Hs H. induction H as [|a l S IH F]; [exact I|]. destruct l as [|b l']; [exact I|].
  cbn [map mono]. inversion F as [|? ? [F1 F2] _]; subst.
  destruct (crop_range_mono w m a b Hs F1 F2) as [A B]. split; [exact A|]. split; [exact B | exact IH].
Qed.
Lemma support_both_incr eps l : 0 <= eps -> wf eps l -> both_incr (support eps 0 l).
Proof.
  intros Heps H. rewrite (support_is_support_iter eps 0 Heps l H).
  destruct (support_iter_separated eps 0 Heps l H) as [Hs Hn].
  revert Hs Hn. generalize (support_iter eps 0 l). clear l H. intros l Hs Hn.
  apply Sorted_StronglySorted; [intros a b c [A1 A2] [B1 B2]; split; lia|].
  induction l as [|a l IH]; [constructor|].
  inversion Hn as [|? ? Ha Hn']; subst. constructor.
  - apply IH; [now apply (separated_tail eps 0 a l) | exact Hn'].
  - destruct l as [|b l']; constructor. destruct Hs as [H1 _]. inversion Hn' as [|? ? Hb _]; subst.
    apply ne_gt in Ha. apply ne_gt in Hb. unfold th in H1. lia.
Qed.

(* return_ranges=True for a Timeline focus: separated half-open runs covering exactly the union
   of the per-segment ranges over the focus's support -- the same index set as the index array *)
Theorem crop_ranges_tl_spec eps w focus m : 0 <= eps -> 0 < w_step w -> wf eps focus ->
  (forall k, cov (crop_ranges_tl eps w focus m) k <->
             exists s, In s (support eps 0 focus) /\ in_r (crop_range w s m None) k) /\
  sep (crop_ranges_tl eps w focus m).
Proof.
  intros Heps Hs Hw. unfold crop_ranges_tl. split; [|apply merge_ranges_separated].
  intro k. rewrite merge_ranges_same_set by (apply mono_map_crop; [exact Hs | now apply support_both_incr]).
  unfold cov. split.
  - intros [r [Hr Hk]]. apply in_map_iff in Hr as [s [<- Hin]]. exists s. tauto.
  - intros [s [Hin Hk]]. exists (crop_range w s m None). split; [apply in_map_iff; exists s; tauto | exact Hk].
Qed.
Corollary ranges_same_set eps w focus m : 0 <= eps -> 0 < w_step w -> wf eps focus ->
  forall k, cov (crop_ranges_tl eps w focus m) k <-> In k (crop_indices_tl eps w focus m).
Proof.
  intros Heps Hs Hw k. destruct (crop_ranges_tl_spec eps w focus m Heps Hs Hw) as [A _].
  destruct (crop_indices_tl_spec eps w focus m) as [_ B]. rewrite A, B. reflexivity.
Qed.

(* the frame count samples(d, mode) is never negative (finding F12: the strict count was, for a
   duration shorter than the window) *)
Theorem samples_nonneg w d m : 0 < w_step w -> 0 < w_dur w -> 0 <= d -> 0 <= samples w d m.
Proof.
  intros Hs Hd H. destruct m; cbn [samples].
  - apply (fdiv_iff (d + w_dur w) (w_step w) 0 Hs). lia.
  - lia.
  - replace 0 with (rhe (0 * w_step w) (w_step w)) at 1 by (apply rhe_exact; exact Hs). apply rhe_mono; lia.
Qed.
Theorem samples_strict_zero_when_too_short w d : 0 < w_step w -> d < w_dur w -> samples w d AStrict = 0.
Proof.
  intros Hs H. cbn [samples]. pose proof (fdiv_spec (d - w_dur w) (w_step w) Hs). 
  assert (fdiv (d - w_dur w) (w_step w) <= -1) by nia. lia.
Qed.
Theorem old_strict_count_refuted :
  exists w d, 0 < w_step w /\ 0 < w_dur w /\ 0 <= d /\ fdiv (d - w_dur w) (w_step w) + 1 < 0.
Proof. exists (mkWin 2 1 0 None), 0. vm_compute. repeat split; reflexivity || discriminate. Qed.
