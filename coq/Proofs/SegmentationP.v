(* C10: get_overlap and segmentation, exact cell-level statements at eps = 0. *)
From PV Require Import Model.Timeline Proofs.SegmentP Proofs.SortedP Proofs.TimelineInvP
  Proofs.OverlappingP Proofs.SupportP Proofs.CropP Proofs.GapsP.

(* ---------- get_overlap ---------- *)
Definition covered_twice (l : list seg) (k : Z) : Prop :=
  exists s s', In s l /\ In s' l /\ s <> s' /\ st s <= k < en s /\ st s' <= k < en s'.

Lemma wf_pos l x : wf 0 l -> In x l -> st x < en x.
Proof. intros [_ F] I. rewrite Forall_forall in F. specialize (F x I). unfold nonempty in F. lia. Qed.

Theorem get_overlap_spec l : wf 0 l ->
  canonical (get_overlap 0 l) /\ (forall k, covers_cell (get_overlap 0 l) k <-> covered_twice l k).
Proof.
  intro H. unfold get_overlap.
  set (m := map (fun p => sand (fst p) (snd p))
                (filter (fun p => negb (seqb (fst p) (snd p))) (co_iter 0 l l))).
  destruct (support_canonical_cells (tl_of 0 m) (wf_tl_of _ _)) as [Hc Ec].
  split; [exact Hc|]. intro k. rewrite Ec, tl_of_cells. unfold m. split.
  - intros [y [Iy Hk]]. apply in_map_iff in Iy as [[s s'] [<- Ip]]. simpl in *.
    apply filter_In in Ip as [Ip Hne]. simpl in Hne. apply negb_true_iff, seqb_false_neq in Hne.
    apply (co_iter_In 0 Z0le l l s s' H H) in Ip as [Is [Is' _]].
    exists s, s'. unfold sand in Hk. pairs. repeat split; auto; lia.
  - intros [s [s' [Is [Is' [Hne [Hk Hk']]]]]]. exists (sand s s'). split.
    + apply in_map_iff. exists (s, s'). split; [reflexivity|]. apply filter_In. split.
      * apply (co_iter_In 0 Z0le l l s s' H H). repeat split; auto.
        apply intersects0_cells; [now apply (wf_pos l) | now apply (wf_pos l) | exists k; tauto].
      * simpl. now apply negb_true_iff, seqb_false_neq.
    + unfold sand. pairs. lia.
Qed.

(* ---------- sorted distinct boundaries ---------- *)
Fixpoint zstrict (l : list Z) : Prop :=
  match l with
  | a :: ((b :: _) as r) => a < b /\ zstrict r
  | _ => True
  end.
Lemma zsorted_tail a l : zsorted (a :: l) -> zsorted l.
Proof. intro H. now inversion H. Qed.
Lemma zdedup_In l z : In z (zdedup l) <-> In z l.
Proof.
  induction l as [|a l IH]; [reflexivity|]. destruct l as [|b r]; [reflexivity|].
  change (zdedup (a :: b :: r)) with (if a =? b then zdedup (b :: r) else a :: zdedup (b :: r)).
  destruct (a =? b) eqn:E.
  - rewrite IH. assert (a = b) by lia. subst. simpl. tauto.
  - simpl In at 1. rewrite IH. simpl. tauto.
Qed.
Lemma zdedup_unfold a b r :
  zdedup (a :: b :: r) = if a =? b then zdedup (b :: r) else a :: zdedup (b :: r).
Proof. reflexivity. Qed.
Lemma zdedup_cons l : forall a, zsorted (a :: l) ->
  exists r, zdedup (a :: l) = a :: r /\ zstrict (a :: r) /\ (forall z, In z r -> a < z).
Proof.
  induction l as [|b l IH]; intros a Hs.
  - exists []. repeat split. intros z [].
  - pose proof (zsorted_tail _ _ Hs) as Hs'. destruct (IH b Hs') as [r [E [Hst Hlt]]].
    inversion Hs as [|? ? _ F]; subst. inversion F as [|? ? Hab _]; subst.
    rewrite zdedup_unfold. destruct (a =? b) eqn:Eab.
    + assert (a = b) by lia. subst. exists r. tauto.
    + exists (b :: r). rewrite E. split; [reflexivity|]. split.
      * split; [lia | exact Hst].
      * intros z [<-|Iz]; [lia | specialize (Hlt z Iz); lia].
Qed.
Lemma zdedup_strict l : zsorted l -> zstrict (zdedup l).
Proof.
  destruct l as [|a l]; intro Hs; [exact I|].
  destruct (zdedup_cons l a Hs) as [r [E [H _]]]. now rewrite E.
Qed.

Definition bounds_of (l : list seg) : list Z := zdedup (zl_of (boundaries l)).
Lemma bounds_of_In l z : In z (bounds_of l) <-> exists s, In s l /\ (z = st s \/ z = en s).
Proof.
  unfold bounds_of. rewrite zdedup_In. rewrite <- boundaries_In.
  split; apply Permutation_in; [apply zl_of_perm | symmetry; apply zl_of_perm].
Qed.
Lemma bounds_of_strict l : zstrict (bounds_of l).
Proof. apply zdedup_strict, zl_of_sorted. Qed.

(* ---------- the doubled-midpoint query ---------- *)
Lemma overlapping2_spec t2 l : ssorted l ->
  overlapping2 t2 l = filter (fun s => (2 * st s <=? t2) && (2 * en s >=? t2)) l.
Proof.
  induction l as [|s l IH]; cbn [overlapping2 filter]; intro H; [reflexivity|].
  apply ssorted_inv in H as [Hs F]. rewrite Forall_forall in F.
  destruct (2 * st s >? t2) eqn:E.
  - replace ((2 * st s <=? t2) && (2 * en s >=? t2)) with false by lia.
    symmetry. apply filter_none. intros y Hy. apply F, slt_st in Hy. lia.
  - rewrite (IH Hs). reflexivity.
Qed.

(* ---------- segmentation ---------- *)
Section Segmentation.
Variable l : list seg.
Hypothesis Hl : wf 0 l.
Let sup_l := support 0 0 l.

Definition is_bound (z : Z) : Prop := exists s, In s l /\ (z = st s \/ z = en s).
(* no original boundary lies strictly inside (a, b) *)
Definition clean (a b : Z) : Prop := forall z, is_bound z -> z <= a \/ b <= z.

Lemma sup_bounds r : In r sup_l -> is_bound (st r) /\ is_bound (en r).
Proof.
  unfold sup_l. rewrite (support_is_support_iter 0 0 Z0le l Hl). intro Ir.
  destruct (support_iter_bounds 0 0 Z0le l r Hl Ir) as [[a [Ia Ea]] [b [Ib Eb]]].
  split; [exists a | exists b]; tauto.
Qed.

(* a clean piece is kept iff it lies inside a support region iff its cells are covered *)
Lemma kept_iff a b : a < b -> clean a b ->
  (overlapping2 (middle2 (a, b)) sup_l <> [] <-> exists r, In r sup_l /\ st r <= a /\ b <= en r).
Proof.
  intros Hab Hc. unfold middle2. pairs.
  assert (Hss : ssorted sup_l) by apply tl_of_sorted.
  rewrite (overlapping2_spec _ sup_l Hss). split.
  - intro H. destruct (filter _ sup_l) as [|r rest] eqn:E; [contradiction|].
    assert (Ir : In r (filter (fun s => (2 * st s <=? a + b) && (2 * en s >=? a + b)) sup_l)) by (rewrite E; now left).
    apply filter_In in Ir as [Ir Hr]. exists r. split; [assumption|].
    destruct (sup_bounds r Ir) as [B1 B2]. destruct (Hc _ B1), (Hc _ B2); lia.
  - intros [r [Ir Hr]] E.
    assert (In r (filter (fun s => (2 * st s <=? a + b) && (2 * en s >=? a + b)) sup_l))
      by (apply filter_In; split; [assumption | lia]).
    rewrite E in H. contradiction.
Qed.

(* consecutive elements of a list *)
Fixpoint consec (ts : list Z) (a b : Z) : Prop :=
  match ts with
  | x :: ((y :: _) as r) => (a = x /\ b = y) \/ consec r a b
  | _ => False
  end.
Lemma zstrict_lt ts : forall x, zstrict (x :: ts) -> forall z, In z ts -> x < z.
Proof.
  induction ts as [|y r IH]; intros x H z Hz; [contradiction|].
  destruct H as [Hxy Hr]. destruct Hz as [<-|Hz]; [assumption|]. specialize (IH y Hr z Hz). lia.
Qed.
Lemma consec_props ts : forall a b, zstrict ts -> consec ts a b ->
  a < b /\ In a ts /\ In b ts /\ (forall z, In z ts -> z <= a \/ b <= z).
Proof.
  induction ts as [|x r IH]; intros a b Hs Hc; [contradiction|]. destruct r as [|y r']; [contradiction|].
  pose proof (zstrict_lt _ _ Hs) as Lx. destruct Hs as [Hxy Hr]. destruct Hc as [[-> ->]|Hc].
  - repeat split; try lia; [now left | right; now left|].
    intros z [<-|[<-|Iz]]; [lia | lia|]. right. pose proof (zstrict_lt _ _ Hr z Iz). lia.
  - destruct (IH a b Hr Hc) as [H1 [H2 [H3 H4]]]. repeat split; auto; [now right | now right|].
    intros z [<-|Iz]; [|now apply H4]. left. specialize (Lx a H2). lia.
Qed.
Lemma consec_locate ts : forall lo hi k, zstrict ts -> In lo ts -> In hi ts -> lo <= k < hi ->
  exists a b, consec ts a b /\ a <= k < b.
Proof.
  induction ts as [|x r IH]; intros lo hi k Hs Ilo Ihi Hk; [contradiction|].
  destruct r as [|y r'].
  - destruct Ilo as [<-|[]], Ihi as [<-|[]]. lia.
  - pose proof (zstrict_lt _ _ Hs) as Lx. destruct Hs as [Hxy Hr].
    destruct (Z_lt_ge_dec k y) as [Lt|Ge].
    + exists x, y. split; [now left|]. split; [|assumption].
      destruct Ilo as [<-|Ilo]; [lia|]. specialize (Lx lo Ilo). 
      destruct Ilo as [<-|Ilo]; [lia|]. pose proof (zstrict_lt _ _ Hr lo Ilo). lia.
    + assert (Ihi' : In hi (y :: r')).
      { destruct Ihi as [<-|Ihi]; [lia | assumption]. }
      assert (exists lo', In lo' (y :: r') /\ lo' <= k) as [lo' [Ilo' Hlo']] by (exists y; split; [now left | lia]).
      destruct (IH lo' hi k Hr Ilo' Ihi' ltac:(lia)) as [a [b [Hc Hab]]].
      exists a, b. split; [now right | assumption].
Qed.

Definition keepb (p : seg) : bool :=
  nonempty 0 p && negb (match overlapping2 (middle2 p) sup_l with [] => true | _ => false end).
Lemma seg_pieces_In ts : forall start p,
  In p (seg_pieces 0 sup_l start ts) <-> (consec (start :: ts) (st p) (en p) /\ keepb p = true).
Proof.
  induction ts as [|e r IH]; intros start p; [simpl; tauto|].
  change (seg_pieces 0 sup_l start (e :: r)) with
    (if keepb (start, e) then (start, e) :: seg_pieces 0 sup_l e r else seg_pieces 0 sup_l e r).
  assert (Hc : consec (start :: e :: r) (st p) (en p) <-> ((st p = start /\ en p = e) \/ consec (e :: r) (st p) (en p)))
    by reflexivity.
  rewrite Hc. destruct (keepb (start, e)) eqn:E.
  - simpl In. rewrite IH. split.
    + intros [<-|[H1 H2]]; [split; [left; now pairs | exact E] | tauto].
    + intros [[[H1 H2]|H] Hk]; [left; destruct p; unfold st, en in *; simpl in *; now subst | tauto].
  - rewrite IH. split; [tauto|]. intros [[[H1 H2]|H] Hk]; [|tauto].
    destruct p; unfold st, en in *; simpl in *; subst. congruence.
Qed.

Lemma bounds_clean a b : consec (bounds_of l) a b ->
  a < b /\ is_bound a /\ is_bound b /\ clean a b.
Proof.
  intro Hc. destruct (consec_props _ a b (bounds_of_strict l) Hc) as [H1 [H2 [H3 H4]]].
  repeat split; auto; try (now apply bounds_of_In).
  intros z Hz. apply H4. now apply bounds_of_In.
Qed.

Lemma keepb_iff a b : a < b -> clean a b ->
  (keepb (a, b) = true <-> exists r, In r sup_l /\ st r <= a /\ b <= en r).
Proof.
  intros Hab Hc. rewrite <- (kept_iff a b Hab Hc). unfold keepb, nonempty. pairs.
  destruct (overlapping2 (middle2 (a, b)) sup_l); split; intro H; try lia; try congruence;
    try contradiction.
Qed.

Lemma segmentation_In p :
  In p (segmentation 0 l) <-> (consec (bounds_of l) (st p) (en p) /\ keepb p = true).
Proof.
  unfold segmentation. fold (bounds_of l). fold sup_l.
  destruct (bounds_of l) as [|t0 ts] eqn:E.
  - simpl. tauto.
  - rewrite tl_of_In, seg_pieces_In. split; [tauto|]. intros [H1 H2]. split; [tauto|].
    unfold keepb in H2. apply andb_true_iff in H2 as [H2 _]. exact H2.
Qed.

(* every piece: bounds are original bounds, positive length, no original bound strictly inside,
   and it lies inside the support *)
Theorem segmentation_pieces p : In p (segmentation 0 l) ->
  st p < en p /\ is_bound (st p) /\ is_bound (en p) /\ clean (st p) (en p) /\
  (forall k, st p <= k < en p -> covers_cell l k).
Proof.
  intro Ip. apply segmentation_In in Ip as [Hc Hk].
  destruct (bounds_clean _ _ Hc) as [H1 [H2 [H3 H4]]]. repeat split; auto.
  intros k Hkk. replace p with (st p, en p) in Hk by (destruct p; reflexivity).
  apply (keepb_iff _ _ H1 H4) in Hk as [r [Ir Hr]].
  apply (support_cells l k Hl). exists r. split; [exact Ir | lia].
Qed.

(* every covered cell lies in a piece that is inside the original segment covering it *)
Theorem segmentation_refines s k : In s l -> st s <= k < en s ->
  exists p, In p (segmentation 0 l) /\ st p <= k < en p /\ st s <= st p /\ en p <= en s.
Proof.
  intros Is Hk.
  assert (Bs : In (st s) (bounds_of l)) by (apply bounds_of_In; exists s; tauto).
  assert (Be : In (en s) (bounds_of l)) by (apply bounds_of_In; exists s; tauto).
  destruct (consec_locate _ (st s) (en s) k (bounds_of_strict l) Bs Be Hk) as [a [b [Hc Hab]]].
  destruct (bounds_clean _ _ Hc) as [H1 [H2 [H3 H4]]].
  assert (Hin : st s <= a /\ b <= en s).
  { destruct (H4 (st s)) as [A|A]; [exists s; tauto | | lia].
    destruct (H4 (en s)) as [B|B]; [exists s; tauto | lia | lia]. }
  exists (a, b). pairs. split; [|lia]. apply segmentation_In. pairs. split; [assumption|].
  apply (keepb_iff _ _ H1 H4).
  unfold sup_l. rewrite (support_is_support_iter 0 0 Z0le l Hl).
  destruct (support_iter_includes 0 0 Z0le l s Hl Is) as [r [Ir Hr]]. apply sin_iff in Hr.
  exists r. split; [assumption | lia].
Qed.

(* covers exactly the cells the timeline covers *)
Theorem segmentation_cells k : covers_cell (segmentation 0 l) k <-> covers_cell l k.
Proof.
  split.
  - intros [p [Ip Hk]]. now apply (segmentation_pieces p Ip).
  - intros [s [Is Hk]]. destruct (segmentation_refines s k Is Hk) as [p [Ip [Hp _]]]. exists p. tauto.
Qed.

(* pieces do not overlap *)
Theorem segmentation_disjoint p q : In p (segmentation 0 l) -> In q (segmentation 0 l) ->
  p = q \/ en p <= st q \/ en q <= st p.
Proof.
  intros Ip Iq. apply segmentation_In in Ip as [Hp _]. apply segmentation_In in Iq as [Hq _].
  destruct (consec_props _ _ _ (bounds_of_strict l) Hp) as [P1 [P2 [P3 P4]]].
  destruct (consec_props _ _ _ (bounds_of_strict l) Hq) as [Q1 [Q2 [Q3 Q4]]].
  destruct (P4 _ Q2) as [A|A]; [|right; left; lia].
  destruct (Q4 _ P2) as [B|B]; [|right; right; lia].
  destruct (P4 _ Q3) as [C|C]; [lia|]. destruct (Q4 _ P3) as [D|D]; [lia|].
  left. destruct p, q; unfold st, en in *; simpl in *. f_equal; lia.
Qed.
End Segmentation.
