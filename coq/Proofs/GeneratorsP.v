(* C19: generators, new_track, samplers. *)
From PV Require Import Model.AnnotationOps.
From Coq Require Import DecimalZ DecimalPos.

(* ---- int_generator, pairwise ---- *)
Lemma intgen_from_nth n : forall i k, (k < n)%nat -> nth k (intgen_from n i) (-1) = i + Z.of_nat k.
Proof.
  induction n as [|n IH]; intros i k H; [lia|]. destruct k as [|k]; cbn [intgen_from nth]; [lia|].
  rewrite IH by lia. lia.
Qed.
Theorem intgen_spec n : List.length (intgen_take n) = n /\
  forall k, (k < n)%nat -> nth k (intgen_take n) (-1) = Z.of_nat k.
Proof.
  split.
  - unfold intgen_take. generalize 0. induction n; intro i; simpl; [reflexivity | now rewrite IHn].
  - intros k H. unfold intgen_take. now rewrite intgen_from_nth.
Qed.
Theorem pairwise_spec {A} (l : list A) : pairwise l = combine l (tl l).
Proof.
  induction l as [|a l IH]; [reflexivity|]. destruct l as [|b r]; [reflexivity|].
  cbn [pairwise combine tl]. f_equal. exact IH.
Qed.

(* ---- string_generator: the skip collection is honoured, order is that of the unfiltered stream ---- *)
Lemma strgen_scan_skip fuel : forall n i skip w,
  In w (strgen_scan fuel n i skip) -> str_in w skip = false.
Proof.
  induction fuel as [|f IH]; intros n i skip w H; [destruct n; contradiction|].
  destruct n as [|n]; [contradiction|]. cbn [strgen_scan] in H.
  destruct (str_in (word i) skip) eqn:E.
  - eapply IH; exact H.
  - destruct H as [<-|H]; [exact E | eapply IH; exact H].
Qed.
Theorem strgen_never_yields_skipped n skip w : In w (strgen_take n skip) -> str_in w skip = false.
Proof. apply strgen_scan_skip. Qed.
(* the yielded values are word(i_0), word(i_1), ... for strictly increasing indices i_k *)
Fixpoint increasing_from (lo : Z) (l : list Z) : Prop :=
  match l with [] => True | x :: r => lo <= x /\ increasing_from (x + 1) r end.
Lemma strgen_scan_indices fuel : forall n i skip,
  exists idx, strgen_scan fuel n i skip = map word idx /\ increasing_from i idx /\
              forall j, In j idx -> str_in (word j) skip = false.
Proof.
  induction fuel as [|f IH]; intros n i skip.
  - exists []. destruct n; repeat split; intros j [].
  - destruct n as [|n]; [exists []; repeat split; intros j []|]. cbn [strgen_scan].
    destruct (str_in (word i) skip) eqn:E.
    + destruct (IH (S n) (i + 1) skip) as [idx [E1 [E2 E3]]]. exists idx. repeat split; try assumption.
      destruct idx as [|x r]; [exact I|]. destruct E2. split; [lia | assumption].
    + destruct (IH n (i + 1) skip) as [idx [E1 [E2 E3]]]. exists (i :: idx). rewrite E1.
      repeat split; [lia | assumption|]. intros j [<-|Hj]; [exact E | now apply E3].
Qed.
Theorem strgen_is_filtered_stream n skip :
  exists idx, strgen_take n skip = map word idx /\ increasing_from 0 idx /\
              forall j, In j idx -> str_in (word j) skip = false.
Proof. apply strgen_scan_indices. Qed.
(* without skip: exactly word 0 .. word (n-1) *)
Lemma strgen_scan_noskip fuel : forall n i, (n <= fuel)%nat ->
  strgen_scan fuel n i [] = map word (map (fun k => i + Z.of_nat k) (seq 0 n)).
Proof.
  induction fuel as [|f IH]; intros n i H; [destruct n; [reflexivity | lia]|].
  destruct n as [|n]; [reflexivity|]. cbn [strgen_scan str_in seq map]. rewrite IH by lia.
  f_equal; [f_equal; lia|]. rewrite <- seq_shift, !map_map. apply map_ext. intro k. f_equal. lia.
Qed.
Theorem strgen_noskip n : strgen_take n [] = map (fun k => word (Z.of_nat k)) (seq 0 n).
Proof.
  unfold strgen_take. rewrite strgen_scan_noskip by (simpl; lia). rewrite map_map. apply map_ext. intro k. f_equal.
Qed.

(* ---- new_track ---- *)
Lemma name_eqb_eq a b : name_eqb a b = true <-> a = b.
Proof.
  destruct a, b; simpl; split; intro H; try discriminate; try (inversion H; subst).
  - f_equal. lia.
  - lia.
  - f_equal. now apply String.eqb_eq.
  - apply String.eqb_refl.
Qed.
Lemma name_in_In n l : name_in n l = true <-> In n l.
Proof.
  unfold name_in. rewrite existsb_exists. split.
  - intros [x [I E]]. apply name_eqb_eq in E. now subst.
  - intro I. exists n. split; [assumption | now apply name_eqb_eq].
Qed.
Lemma to_int_ok z : Z.to_int z <> Decimal.Pos Decimal.Nil /\ Z.to_int z <> Decimal.Neg Decimal.Nil.
Proof.
  destruct z; simpl; split; intro H; try discriminate; inversion H;
    try (now apply (Unsigned.to_uint_nonnil p)).
Qed.
Lemma dec_inj a b : dec a = dec b -> a = b.
Proof.
  unfold dec. intro H. apply DecimalZ.to_int_inj.
  destruct (to_int_ok a) as [A1 A2]. destruct (to_int_ok b) as [B1 B2].
  pose proof (NilZero.isi (Z.to_int a) A1 A2) as Ia. pose proof (NilZero.isi (Z.to_int b) B1 B2) as Ib.
  rewrite H in Ia. rewrite Ia in Ib. now inversion Ib.
Qed.
Lemma append_inj p a b : String.append p a = String.append p b -> a = b.
Proof. induction p as [|c p IH]; simpl; intro H; [exact H | inversion H; now apply IH]. Qed.

Section NewTrack.
Variable prefix : string.
Definition cand (c : Z) : name := NStr (String.append prefix (dec c)).
Lemma cand_inj a b : cand a = cand b -> a = b.
Proof. unfold cand. intro H. inversion H. now apply dec_inj, (append_inj prefix). Qed.

(* first_free returns the least unused candidate at or after c, provided one exists within fuel *)
Lemma first_free_spec fuel : forall c existing,
  let r := first_free fuel prefix c existing in
  exists k, 0 <= k <= Z.of_nat fuel /\ r = cand (c + k) /\
            (forall j, 0 <= j < k -> In (cand (c + j)) existing) /\
            (k < Z.of_nat fuel -> ~ In r existing).
Proof.
  induction fuel as [|f IH]; intros c existing; cbn [first_free]; fold (cand c).
  - exists 0. repeat split; try lia. now rewrite Z.add_0_r.
  - destruct (name_in (cand c) existing) eqn:E.
    + destruct (IH (c + 1) existing) as [k [Hk [Er [Hall Hfree]]]]. exists (k + 1).
      repeat split; try lia.
      * rewrite Er. f_equal. lia.
      * intros j Hj. destruct (Z.eq_dec j 0) as [->|Hn]; [rewrite Z.add_0_r; now apply name_in_In|].
        replace (c + j) with (c + 1 + (j - 1)) by lia. apply Hall. lia.
      * intro H. apply Hfree. lia.
    + exists 0. repeat split; try lia; [now rewrite Z.add_0_r|]. intros _ I. apply name_in_In in I. congruence.
Qed.

(* pigeonhole: |existing| + 1 distinct candidates cannot all be in use *)
Theorem first_free_fresh existing :
  ~ In (first_free (List.length existing) prefix 0 existing) existing.
Proof.
  destruct (first_free_spec (List.length existing) 0 existing) as [k [Hk [Er [Hall Hfree]]]]. cbv zeta in *.
  destruct (Z_lt_ge_dec k (Z.of_nat (List.length existing))) as [L|G]; [now apply Hfree|].
  intro Hin. assert (k = Z.of_nat (List.length existing)) by lia. subst k.
  (* candidates 0 .. |existing| are all in use: |existing|+1 distinct names inside a list of that length *)
  set (cs := map (fun j => cand (Z.of_nat j)) (seq 0 (S (List.length existing)))).
  assert (Nd : NoDup cs).
  { unfold cs. apply FinFun.Injective_map_NoDup; [|apply seq_NoDup].
    intros a b E. apply cand_inj in E. lia. }
  assert (Inc : incl cs existing).
  { intros x Hx. unfold cs in Hx. apply in_map_iff in Hx as [j [<- Hj]]. apply in_seq in Hj.
    destruct (Nat.eq_dec j (List.length existing)) as [->|Hn].
    - rewrite Er in Hin. simpl in Hin. exact Hin.
    - replace (Z.of_nat j) with (0 + Z.of_nat j) by lia. apply Hall. lia. }
  pose proof (NoDup_incl_length Nd Inc) as Len. unfold cs in Len. rewrite map_length, seq_length in Len. lia.
Qed.
Theorem first_free_least existing :
  exists k, 0 <= k /\ first_free (List.length existing) prefix 0 existing = cand k /\
            forall j, 0 <= j < k -> In (cand j) existing.
Proof.
  destruct (first_free_spec (List.length existing) 0 existing) as [k [Hk [Er [Hall _]]]]. cbv zeta in *.
  exists k. repeat split; [lia | now rewrite Er|]. intros j Hj. now apply (Hall j).
Qed.
End NewTrack.

(* Annotation.new_track: the candidate when it is free on that segment, otherwise a name not yet
   used there: prefix + the least free integer *)
Theorem new_track_spec a s candidate prefix :
  let existing := get_tracks a s in
  let r := new_track a s candidate prefix in
  (forall c, candidate = Some c -> ~ In c existing -> r = c) /\
  ((candidate = None \/ exists c, candidate = Some c /\ In c existing) -> ~ In r existing).
Proof.
  cbv zeta. unfold new_track. split.
  - intros c -> Hc. apply name_in_In in Hc || idtac.
    destruct (name_in c (get_tracks a s)) eqn:E; [apply name_in_In in E; contradiction | reflexivity].
  - intros [->|[c [-> Hc]]].
    + apply first_free_fresh.
    + apply name_in_In in Hc. rewrite Hc. simpl. apply first_free_fresh.
Qed.

(* ---- random_subsegment (random numbers u = k/1024 as explicit arguments, "microticks") ---- *)
From PV Require Import Check.C19.
Theorem subseg_fixed_inside eps s dur k1 k2 r : 0 <= eps -> nonempty eps s = true ->
  0 <= k1 < 1024 -> 0 <= dur ->
  subseg s dur None k1 k2 eps = Some r ->
  st s * 1048576 <= st r /\ en r <= en s * 1048576 /\ en r - st r = dur * 1048576.
Proof.
  intros He Hs Hk Hd. unfold subseg, duration. rewrite Hs. unfold nonempty in Hs.
  destruct (dur >? en s - st s) eqn:E; [discriminate|]. intro H. inversion H; subst. unfold st, en; cbn [fst snd].
  unfold st, en in *. nia.
Qed.
Theorem subseg_rejects_long eps s dur k1 k2 : nonempty eps s = true ->
  (subseg s dur None k1 k2 eps = None <-> dur > en s - st s).
Proof.
  intro Hs. unfold subseg, duration. rewrite Hs. destruct (dur >? en s - st s) eqn:E; split; intro H; try discriminate; try reflexivity; lia.
Qed.
Theorem subseg_min_inside eps s dur md k1 k2 r : 0 <= eps -> nonempty eps s = true ->
  0 <= k1 < 1024 -> 0 <= k2 < 1024 -> 0 <= md <= dur ->
  subseg s dur (Some md) k1 k2 eps = Some r ->
  st s * 1048576 <= st r /\ en r <= en s * 1048576 /\
  md * 1048576 <= en r - st r <= dur * 1048576.
Proof.
  intros He Hs Hk1 Hk2 Hm. unfold subseg, duration. rewrite Hs. unfold nonempty in Hs.
  destruct (md >? en s - st s) eqn:E; [discriminate|]. intro H. inversion H; subst. unfold st, en in *; cbn [fst snd].
  set (sd := snd s - fst s) in *. set (mx := Z.min sd dur).
  set (rnd := md * 1048576 + k1 * (mx - md) * 1024).
  assert (md <= mx <= sd) by (unfold mx; lia).
  assert (Hr : md * 1048576 <= rnd <= mx * 1048576) by (unfold rnd; nia).
  pose proof (Z.div_mod (sd * 1048576 - rnd) 1024 ltac:(lia)) as Hdm.
  pose proof (Z.mod_pos_bound (sd * 1048576 - rnd) 1024 ltac:(lia)) as Hmb.
  assert (0 <= (sd * 1048576 - rnd) / 1024) by (apply Z.div_pos; lia).
  assert (k2 * ((sd * 1048576 - rnd) / 1024) <= sd * 1048576 - rnd) by nia.
  assert (0 <= k2 * ((sd * 1048576 - rnd) / 1024)) by nia.
  unfold mx in *. lia.
Qed.
