(* C02: labels() is the list of labels in use sorted by str() (ints before strings when two
   labels print alike, the model's tie-break): strictly increasing, hence the unique such list. *)
From PV Require Import Model.AnnotationOps Proofs.SortedP Proofs.DictP Proofs.AnnotationInvP Proofs.GeneratorsP
  Proofs.StringOrderP.

Lemma str_of_int_inj x y : str_of (NInt x) = str_of (NInt y) -> x = y.
Proof. apply dec_inj. Qed.

Lemma name_cmp_refl a : name_cmp a a = Eq.
Proof. unfold name_cmp. rewrite str_cmp_refl. destruct a; reflexivity. Qed.
Lemma name_ltb_irrefl a : name_ltb a a = false.
Proof. unfold name_ltb. now rewrite name_cmp_refl. Qed.

Lemma str_cmp_eq a b : String.compare a b = Eq -> a = b.
Proof. apply String.compare_eq_iff. Qed.
Lemma str_cmp_lt_eq_l a b c : a = b -> String.compare b c = Lt -> String.compare a c = Lt.
Proof. now intros ->. Qed.

Lemma name_ltb_trans a b c : name_ltb a b = true -> name_ltb b c = true -> name_ltb a c = true.
Proof.
  unfold name_ltb, name_cmp.
  destruct (String.compare (str_of a) (str_of b)) eqn:E1; try discriminate;
  destruct (String.compare (str_of b) (str_of c)) eqn:E2; try discriminate.
  - apply str_cmp_eq in E1. apply str_cmp_eq in E2. rewrite E1, E2, str_cmp_refl.
    destruct a, b, c; try discriminate; reflexivity.
  - apply str_cmp_eq in E1. rewrite E1, E2. reflexivity.
  - apply str_cmp_eq in E2. rewrite <- E2, E1. reflexivity.
  - rewrite (str_cmp_lt_trans _ _ _ E1 E2). reflexivity.
Qed.
Lemma name_ltb_total a b : a <> b -> name_ltb a b = true \/ name_ltb b a = true.
Proof.
  intro H. unfold name_ltb, name_cmp. pose proof (String.compare_antisym (str_of b) (str_of a)) as An.
  destruct (String.compare (str_of a) (str_of b)) eqn:E; rewrite An; cbn [CompOpp].
  - apply str_cmp_eq in E. destruct a as [x|s], b as [y|t]; cbn [str_of] in E.
    + exfalso. apply H. f_equal. now apply str_of_int_inj.
    + now left.
    + now right.
    + exfalso. apply H. now f_equal.
  - now left.
  - now right.
Qed.

Lemma name_leb_lt x y : x <> y -> name_leb y x = name_ltb y x /\ (name_ltb y x = false -> name_ltb x y = true).
Proof.
  intro H. unfold name_leb. destruct (name_ltb_total y x (not_eq_sym H)) as [L|L].
  - rewrite L. split; [|discriminate]. destruct (name_ltb x y) eqn:E; [|reflexivity].
    pose proof (name_ltb_trans _ _ _ L E) as C. rewrite name_ltb_irrefl in C. discriminate.
  - rewrite L. split; [|reflexivity]. cbn. destruct (name_ltb y x) eqn:E; [|reflexivity].
    pose proof (name_ltb_trans _ _ _ L E) as C. rewrite name_ltb_irrefl in C. discriminate.
Qed.

Lemma sort_names_sorted (l : list name) : forall acc,
  sorted_lt name_ltb acc -> NoDup (l ++ acc) ->
  sorted_lt name_ltb (fold_left (fun acc x => ins_stable name_leb x acc) l acc).
Proof.
  induction l as [|x l IH]; intros acc Hs Nd; cbn [fold_left]; [exact Hs|].
  cbn [app] in Nd. inversion Nd as [|? ? Hn Nd']; subst. apply IH.
  - apply (ins_sorted name_ltb name_ltb_trans name_leb); [|exact Hs].
    intros y Hy. apply name_leb_lt. intros ->. apply Hn. apply in_or_app. now right.
  - eapply Permutation_NoDup; [|exact Nd]. rewrite (ins_stable_perm name_leb x acc). apply Permutation_middle.
Qed.

Section Labels.
Variable eps : Z.
(* labels(): strictly increasing in (str, int-before-str) order *)
Theorem labels_sorted a : AInv eps a -> sorted_lt name_ltb (snd (labels eps a)).
Proof.
  intro I. pose proof (labels_spec eps a I) as HL. unfold labels in *.
  set (a' := if existsb (fun kv => snd kv) (a_dirty a) then update_labels eps a else a) in *.
  cbn [snd] in *. destruct HL as [I' _]. unfold sort_stable.
  apply sort_names_sorted; [constructor | rewrite app_nil_r; apply I'].
Qed.
(* hence labels() is a function of the set of labels in use: two annotations using the same labels
   give the same list, whatever their histories and cache states *)
Theorem labels_canonical a b : AInv eps a -> AInv eps b ->
  (forall l, occurs (a_tracks a) l <-> occurs (a_tracks b) l) -> snd (labels eps a) = snd (labels eps b).
Proof.
  intros Ia Ib E. apply (sorted_lt_ext name_ltb name_ltb_trans name_ltb_irrefl); [now apply labels_sorted | now apply labels_sorted|].
  pose proof (labels_spec eps a Ia) as Ha. pose proof (labels_spec eps b Ib) as Hb.
  destruct (labels eps a) as [a1 La]. destruct (labels eps b) as [b1 Lb]. cbn [snd].
  destruct Ha as [_ [_ [_ [Ha _]]]]. destruct Hb as [_ [_ [_ [Hb _]]]]. intro l. rewrite Ha, Hb. apply E.
Qed.
End Labels.
