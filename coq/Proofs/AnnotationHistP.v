(* C02: the invariant holds in every state reachable by any interleaving of writes and reads. *)
From PV Require Import Model.Annotation Proofs.SortedP Proofs.SupportP Proofs.DictP Proofs.AnnotationInvP Check.C02.

Section Hist.
Variable eps : Z.
Hypothesis Heps : 0 <= eps.
Notation Inv := (AInv eps).

Lemma Inv_empty_ann : Inv empty_ann.
Proof. apply AInv_empty. Qed.
Lemma getr_Inv regs r : Forall Inv regs -> Inv (getr regs r).
Proof.
  intro H. unfold getr. revert r. induction H; intro r; destruct r; simpl; try apply Inv_empty_ann; auto.
Qed.
Lemma setr_Inv regs r a : Forall Inv regs -> Inv a -> Forall Inv (setr regs r a).
Proof.
  intros H Ha. revert regs H. induction r as [|r IH]; intros regs H.
  - destruct H; simpl; constructor; auto.
  - destruct H; simpl; constructor; auto using Inv_empty_ann.
Qed.

(* every read leaves a state that satisfies the invariant *)
Lemma read_Inv a x : Inv a -> Inv (fst (do_read eps a x)).
Proof.
  intro I. destruct x; cbn [do_read]; try exact I.
  - pose proof (labels_spec eps a I) as H. destruct (labels eps a) as [a1 L]. apply H.
  - pose proof (label_timeline_spec eps a lab I) as H. destruct (label_timeline eps a lab) as [a1 c]. apply H.
  - unfold label_support. pose proof (label_timeline_spec eps a lab I) as H. destruct (label_timeline eps a lab) as [a1 c]. apply H.
  - unfold label_duration. pose proof (label_timeline_spec eps a lab I) as H. destruct (label_timeline eps a lab) as [a1 c]. apply H.
  - pose proof (get_timeline_spec eps a I) as H. destruct (get_timeline eps a) as [a1 c]. apply H.
  - unfold chart. pose proof (labels_spec eps a I) as H. destruct (labels eps a) as [a1 L]. apply H.
  - unfold contains_seg. pose proof (get_timeline_spec eps a I) as H. destruct (get_timeline eps a) as [a1 c]. apply H.
  - unfold contains_tl. pose proof (get_timeline_spec eps a I) as H. destruct (get_timeline eps a) as [a1 c]. apply H.
Qed.

Lemma step_Inv regs o : Forall Inv regs -> Forall Inv (fst (step eps regs o)).
Proof.
  intro H. pose proof (fun r => getr_Inv regs r H) as G. destruct o; cbn [step fst].
  - apply setr_Inv; [assumption | apply AInv_empty].
  - apply setr_Inv; [assumption | apply AInv_from_records; assumption].
  - apply setr_Inv; [assumption | apply AInv_setitem; auto].
  - destruct (delitem_seg (getr regs r) s) as [a'|] eqn:E; cbn [fst]; [|assumption].
    apply setr_Inv; [assumption|]. eapply AInv_delitem_seg; eauto.
  - destruct (delitem_track (getr regs r) s t) as [a'|] eqn:E; cbn [fst]; [|assumption].
    apply setr_Inv; [assumption|]. eapply AInv_delitem_track; eauto.
  - apply setr_Inv; [assumption | apply AInv_update_with; auto].
  - apply setr_Inv; [assumption | apply AInv_rename; auto].
  - apply setr_Inv; [assumption|]. apply AInv_set_uri; auto.
  - pose proof (read_Inv (getr regs r) x (G r)) as HI.
    destruct (do_read eps (getr regs r) x) as [a' ok]. cbn [fst] in *. now apply setr_Inv.
Qed.

Fixpoint regs_after (regs : list ann) (ops : list aop) : list ann :=
  match ops with [] => regs | o :: rest => regs_after (fst (step eps regs o)) rest end.

Theorem history_inv ops : forall regs, Forall Inv regs -> Forall Inv (regs_after regs ops).
Proof. induction ops as [|o ops IH]; intros regs H; simpl; [exact H | apply IH, step_Inv, H]. Qed.
Corollary reachable_inv ops r : Inv (getr (regs_after [] ops) r).
Proof. apply getr_Inv, history_inv. constructor. Qed.
End Hist.
