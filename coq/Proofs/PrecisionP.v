(* C13: rounding to the nearest multiple of 10^-n, exact level. *)
From PV Require Import Model.Precision.

Section Round.
Variable n : Z.
Let T := 10 ^ n.

(* x = num/den with den > 0; u = round_units n num den is the number of 10^-n units *)
Lemma round_units_char num den : 0 < den ->
  let u := round_units n num den in
  2 * den * u <= 2 * num * T + den < 2 * den * u + 2 * den.
Proof.
  intros Hd. unfold round_units. fold T. cbv zeta.
  pose proof (Z.div_mod (2 * num * T + den) (2 * den) ltac:(lia)).
  pose proof (Z.mod_pos_bound (2 * num * T + den) (2 * den) ltac:(lia)). lia.
Qed.

(* within half a unit: |u * 10^-n - x| <= 10^-n / 2, i.e. 2 |u*den - num*T| <= den *)
Theorem round_nearest num den : 0 < den ->
  2 * Z.abs (round_units n num den * den - num * T) <= den.
Proof. intro Hd. pose proof (round_units_char num den Hd). cbv zeta in H. lia. Qed.

(* a value already on the grid (k units = k / 10^n) is returned unchanged, however often *)
Theorem round_idempotent k : 0 < T -> round_units n k T = k.
Proof.
  intro HT. unfold round_units. fold T.
  replace (2 * k * T + T) with (T + k * (2 * T)) by ring.
  rewrite Z.div_add by lia. rewrite Z.div_small by lia. lia.
Qed.
Corollary round_stable num den : 0 < den -> 0 < T ->
  round_units n (round_units n num den) T = round_units n num den.
Proof. intros. now apply round_idempotent. Qed.
Fixpoint rewrap (k : nat) (u : Z) : Z := match k with O => u | S k' => rewrap k' (round_units n u T) end.
Corollary no_drift k u : 0 < T -> rewrap k u = u.
Proof. intro HT. induction k as [|k IH]; simpl; [reflexivity|]. now rewrite round_idempotent. Qed.

(* monotone: x <= y implies round x <= round y *)
Theorem round_monotone n1 d1 n2 d2 : 0 < d1 -> 0 < d2 -> 0 <= T ->
  n1 * d2 <= n2 * d1 -> round_units n n1 d1 <= round_units n n2 d2.
Proof.
  intros H1 H2 HT Hle.
  pose proof (round_units_char n1 d1 H1) as A. pose proof (round_units_char n2 d2 H2) as B. cbv zeta in A, B.
  set (u1 := round_units n n1 d1) in *. set (u2 := round_units n n2 d2) in *.
  destruct (Z_le_gt_dec u1 u2) as [|G]; [assumption|]. exfalso.
  assert (u2 + 1 <= u1) by lia.
  (* 2 d1 d2 (u2+1) <= 2 d1 d2 u1 <= (2 n1 T + d1) d2 <= (2 n2 T + d2) d1 < 2 d1 d2 (u2 + 1) *)
  assert (S1 : 2 * d1 * d2 * (u2 + 1) <= 2 * d1 * d2 * u1) by nia.
  assert (S2 : 2 * d1 * d2 * u1 <= (2 * n1 * T + d1) * d2) by nia.
  assert (S3 : (2 * n1 * T + d1) * d2 <= (2 * n2 * T + d2) * d1) by nia.
  assert (S4 : (2 * n2 * T + d2) * d1 < 2 * d1 * d2 * (u2 + 1)) by nia.
  lia.
Qed.
(* inputs that round to the same grid point give the same (hash-equal) bound: congruence *)
Theorem round_congruent {H} (h : Z -> H) a b c d :
  round_units n a b = round_units n c d -> h (round_units n a b) = h (round_units n c d).
Proof. intro E. now rewrite E. Qed.
End Round.

(* the pre-repair formula (int() truncates toward zero) is neither nearest nor idempotent:
   finding F1 as a theorem about the old formula *)
Theorem truncation_refuted :
  (exists num den, 0 < den /\ ~ (2 * Z.abs (round_units_old 0 num den * den - num * 1) <= den)) /\
  (exists k, round_units_old 0 k 1 <> k).
Proof.
  split.
  - exists (-3), 1. split; [lia|]. vm_compute. intro H. apply H. reflexivity.
  - exists (-3). vm_compute. discriminate.
Qed.
