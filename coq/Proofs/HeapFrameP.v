(* C08: independence of a derived object and its source, for every later history of mutations,
   from (i) separation of their mutable containers at derivation time and (ii) a footprint
   discipline of every mutator (it writes only cells its receiver owns, or fresh ones).
   Cells stand for the mutable containers of the implementation (dict, list, set, SortedDict,
   SortedList, Timeline and Annotation objects); immutable values (segments, names, numbers) live
   inside cell contents. Premises (i) and (ii) are what the C08 correspondence observes on every
   case (identities of reachable containers; snapshots before / after every mutator). *)
From PV Require Import Base.Prelude.

Section Frame.
Variables V A : Type.
Definition heap := nat -> option V.                 (* None = not allocated *)

Record obj := mkObj { fp : heap -> list nat;        (* cells the object owns (reaches) *)
                      absf : heap -> A }.           (* its observable content *)

(* the object reads nothing outside its footprint *)
Definition local (o : obj) : Prop :=
  forall h h', (forall l, In l (fp o h) -> h' l = h l) -> fp o h' = fp o h /\ absf o h' = absf o h.
Definition owned (o : obj) (h : heap) : Prop := forall l, In l (fp o h) -> h l <> None.
Definition disjoint (a b : list nat) : Prop := forall l, In l a -> In l b -> False.

(* one mutator call on object o taking heap h to h' *)
Record mut_ok (o : obj) (h h' : heap) : Prop := {
  m_frame : forall l, ~ In l (fp o h) -> h l <> None -> h' l = h l;       (* writes stay inside o or go to fresh cells *)
  m_grow : forall l, In l (fp o h') -> In l (fp o h) \/ h l = None;      (* o only acquires fresh cells *)
  m_alloc : forall l, h l <> None -> h' l <> None }.                     (* nothing is deallocated *)

Theorem frame_step o1 o2 h h' : local o2 -> owned o2 h -> disjoint (fp o1 h) (fp o2 h) -> mut_ok o1 h h' ->
  fp o2 h' = fp o2 h /\ absf o2 h' = absf o2 h /\ owned o2 h' /\ disjoint (fp o1 h') (fp o2 h').
Proof.
  intros L Ow D M.
  assert (Same : forall l, In l (fp o2 h) -> h' l = h l).
  { intros l Hl. apply (m_frame _ _ _ M); [intro H1; exact (D l H1 Hl) | now apply Ow]. }
  destruct (L h h' Same) as [Ef Ea]. split; [exact Ef|]. split; [exact Ea|]. split.
  - intros l Hl. rewrite Ef in Hl. rewrite (Same l Hl). now apply Ow.
  - intros l H1 H2. rewrite Ef in H2. destruct (m_grow _ _ _ M l H1) as [H|H]; [exact (D l H H2) | exact (Ow l H2 H)].
Qed.

(* any history of mutator calls on o1 *)
Inductive run (o : obj) : heap -> heap -> Prop :=
| run_nil h : run o h h
| run_cons h h1 h2 : mut_ok o h h1 -> run o h1 h2 -> run o h h2.

Theorem frame_run o1 o2 h h' : local o2 -> owned o2 h -> disjoint (fp o1 h) (fp o2 h) -> run o1 h h' ->
  absf o2 h' = absf o2 h /\ fp o2 h' = fp o2 h /\ owned o2 h' /\ disjoint (fp o1 h') (fp o2 h').
Proof.
  intros L Ow D R. induction R as [h|h h1 h2 M R IH]; [tauto|].
  destruct (frame_step o1 o2 h h1 L Ow D M) as [Ef [Ea [Ow1 D1]]].
  destruct (IH Ow1 D1) as [Ea2 [Ef2 [Ow2 D2]]]. split; [congruence|]. split; [congruence | tauto].
Qed.

(* both directions at once: whichever side is mutated, by whatever history, the other side's
   content is what it was at derivation time *)
Corollary independence src der h : local src -> local der -> owned src h -> owned der h ->
  disjoint (fp src h) (fp der h) ->
  (forall h', run der h h' -> absf src h' = absf src h) /\
  (forall h', run src h h' -> absf der h' = absf der h).
Proof.
  intros Ls Ld Os Od D. split; intros h' R.
  - apply (frame_run der src h h' Ls Os); [intros l X Y; exact (D l Y X) | exact R].
  - apply (frame_run src der h h' Ld Od D R).
Qed.
End Frame.

(* non-vacuity: two one-cell objects (a cell holds a list of integers), a mutator that appends *)
Definition cell_obj (c : nat) : obj (list Z) (list Z) :=
  mkObj _ _ (fun _ => [c]) (fun h => match h c with Some v => v | None => [] end).
Definition h0 : heap (list Z) := fun l => match l with O => Some [1] | S O => Some [2] | _ => None end.
Definition append_to (c : nat) (x : Z) (h : heap (list Z)) : heap (list Z) :=
  fun l => if Nat.eqb l c then match h c with Some v => Some (v ++ [x]) | None => None end else h l.
Example frame_example :
  local _ _ (cell_obj 1) /\ owned _ _ (cell_obj 1) h0 /\ disjoint (fp _ _ (cell_obj 0) h0) (fp _ _ (cell_obj 1) h0) /\
  mut_ok _ _ (cell_obj 0) h0 (append_to 0 7 h0) /\
  absf _ _ (cell_obj 0) (append_to 0 7 h0) = [1; 7] /\ absf _ _ (cell_obj 1) (append_to 0 7 h0) = [2].
Proof.
  split; [|split; [|split; [|split; [|split]]]].
  - intros h h' H. split; [reflexivity|]. cbn. now rewrite (H 1%nat (or_introl eq_refl)).
  - intros l [<-|[]]. cbn. discriminate.
  - intros l [<-|[]] [E|[]]. discriminate.
  - constructor.
    + intros l Hn _. unfold append_to. destruct (Nat.eqb l 0) eqn:E; [|reflexivity]. apply Nat.eqb_eq in E. subst. exfalso. apply Hn. now left.
    + intros l [<-|[]]. left. now left.
    + intros l Hl. unfold append_to. destruct (Nat.eqb l 0) eqn:E; [|exact Hl]. apply Nat.eqb_eq in E. subst. cbn. discriminate.
  - reflexivity.
  - reflexivity.
Qed.
(* and separation is needed: two objects on the SAME cell are not independent *)
Example sharing_breaks_independence :
  mut_ok _ _ (cell_obj 0) h0 (append_to 0 7 h0) /\
  absf _ _ (cell_obj 0) (append_to 0 7 h0) <> absf _ _ (cell_obj 0) h0.
Proof.
  split; [apply frame_example|]. cbn. discriminate.
Qed.
